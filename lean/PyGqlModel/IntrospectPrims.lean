/-
  C15 — primitives used by the TRANSLATED `_format_default_value`
  (`Generated/Introspection.lean`) and by the statement of `default_parses`:

  * Python value tests on canonical JSON values (`isinstance`, `is None`),
  * `json.dumps` (default separators, `ensure_ascii=True`), `str(int)`, `str(bool).lower()`,
  * GraphQL value literals `Lit`, `printLit` (= `print_ast` on value nodes),
    `litOf` (= `utilities.ast_node_from_value`), `readLit` (a literal reader).

  Text is `List Char` here (kernel-friendly; Python strings with lone surrogates do not reach the
  model because default values travel as JSON strings).  Import-free apart from the shared files.
-/
import PyGqlModel.Json
import PyGqlModel.Ty
import PyGqlModel.SchemaDesc

namespace PyGql.Introspect

abbrev Chars := List Char

/-- GraphQL value literals (no variables: defaults are constants). -/
inductive Lit where
  | null
  | bool (b : Bool)
  | int (n : Int)
  | float (text : Chars)
  | str (s : Chars)
  | enum (name : Chars)
  | list (xs : List Lit)
  | obj (fs : List (Chars × Lit))
  deriving Repr, Inhabited

/-! ### numbers -/

def digitChar (d : Nat) : Char := Char.ofNat (48 + d)

def showNatAux : Nat → Nat → Chars → Chars
  | 0, _, acc => acc
  | f+1, n, acc => if n < 10 then digitChar n :: acc else showNatAux f (n / 10) (digitChar (n % 10) :: acc)

/-- `str(n)` for a natural number -/
def showNat (n : Nat) : Chars := showNatAux (n + 1) n []

/-- `str(i)` -/
def showInt : Int → Chars
  | .ofNat n => showNat n
  | .negSucc n => '-' :: showNat (n + 1)

/-! ### `json.dumps` -/

def hexDigit (n : Nat) : Char := if n < 10 then Char.ofNat (48 + n) else Char.ofNat (87 + n)

def hex4 (n : Nat) : Chars :=
  ['\\', 'u', hexDigit (n / 4096 % 16), hexDigit (n / 256 % 16), hexDigit (n / 16 % 16), hexDigit (n % 16)]

/-- `json.encoder.ESCAPE_ASCII`: everything outside `' '..'~'` plus `"` and `\` is escaped. -/
def jsonEscChar (c : Char) : Chars :=
  if c = '"' then ['\\', '"']
  else if c = '\\' then ['\\', '\\']
  else if c = '\n' then ['\\', 'n']
  else if c = '\r' then ['\\', 'r']
  else if c = '\t' then ['\\', 't']
  else if c.toNat = 8 then ['\\', 'b']
  else if c.toNat = 12 then ['\\', 'f']
  else if c.toNat < 32 || c.toNat > 126 then
    (if c.toNat > 0xFFFF then
      let v := c.toNat - 0x10000
      hex4 (0xD800 + v / 0x400) ++ hex4 (0xDC00 + v % 0x400)
     else hex4 c.toNat)
  else [c]

def jsonString (s : Chars) : Chars := '"' :: (s.flatMap jsonEscChar ++ ['"'])

/-- `json.encoder.ESCAPE` (`ensure_ascii=False`, what `print_ast` uses since the R2 fix): only `"`, `\` and
    the control characters below U+0020 are escaped; everything else stands for itself. -/
def jsonEscCharRaw (c : Char) : Chars :=
  if c = '"' then ['\\', '"']
  else if c = '\\' then ['\\', '\\']
  else if c = '\n' then ['\\', 'n']
  else if c = '\r' then ['\\', 'r']
  else if c = '\t' then ['\\', 't']
  else if c.toNat = 8 then ['\\', 'b']
  else if c.toNat = 12 then ['\\', 'f']
  else if c.toNat < 32 then hex4 c.toNat
  else [c]

/-- `json.dumps(s, ensure_ascii=False)` -/
def jsonStringRaw (s : Chars) : Chars := '"' :: (s.flatMap jsonEscCharRaw ++ ['"'])

mutual
/-- `json.dumps(v)` on a canonical value (`{"$float": repr}` stands for a Python float) -/
def jsonDumps : J → Chars
  | .null => ['n', 'u', 'l', 'l']
  | .bool true => ['t', 'r', 'u', 'e']
  | .bool false => ['f', 'a', 'l', 's', 'e']
  | .num n => showInt n
  | .str s => jsonString s.toList
  | .arr xs => '[' :: (jsonDumpsList xs ++ [']'])
  | .obj [("$float", .str r)] => r.toList
  | .obj kvs => '{' :: (jsonDumpsFields kvs ++ ['}'])
def jsonDumpsList : List J → Chars
  | [] => []
  | [x] => jsonDumps x
  | x :: y :: xs => jsonDumps x ++ [',', ' '] ++ jsonDumpsList (y :: xs)
def jsonDumpsFields : List (String × J) → Chars
  | [] => []
  | [(k, v)] => jsonString k.toList ++ [':', ' '] ++ jsonDumps v
  | (k, v) :: kv :: kvs => jsonString k.toList ++ [':', ' '] ++ jsonDumps v ++ [',', ' '] ++ jsonDumpsFields (kv :: kvs)
end

/-! ### literals: printing (`print_ast`) -/

mutual
def printLit : Lit → Chars
  | .null => ['n', 'u', 'l', 'l']
  | .bool true => ['t', 'r', 'u', 'e']
  | .bool false => ['f', 'a', 'l', 's', 'e']
  | .int n => showInt n
  | .float t => t
  | .str s => jsonStringRaw s
  | .enum n => n
  | .list xs => '[' :: (printLits xs ++ [']'])
  | .obj fs => '{' :: (printLitFields fs ++ ['}'])
def printLits : List Lit → Chars
  | [] => []
  | [x] => printLit x
  | x :: y :: xs => printLit x ++ [',', ' '] ++ printLits (y :: xs)
def printLitFields : List (Chars × Lit) → Chars
  | [] => []
  | [(k, v)] => k ++ [':', ' '] ++ printLit v
  | (k, v) :: kv :: kvs => k ++ [':', ' '] ++ printLit v ++ [',', ' '] ++ printLitFields (kv :: kvs)
end

/-! ### literals: the literal form of a declared default (`ast_node_from_value`) -/

def maxInt : Int := 2147483647
def minInt : Int := -2147483648

/-- `_INT_RE = ^-?(0|[1-9][0-9]*)$` -/
def isIntText (cs : Chars) : Bool :=
  let body := match cs with | '-' :: r => r | r => r
  match body with
  | [] => false
  | ['0'] => true
  | c :: r => c != '0' && c.isDigit && r.all Char.isDigit

/-- float repr that denotes an integer (`"3.0"`): its integer text -/
def floatIntText (r : Chars) : Option Chars :=
  match r.reverse with
  | '0' :: '.' :: ds => let t := ds.reverse; if isIntText t then some t else none
  | _ => none

def parseIntText (cs : Chars) : Int :=
  let nat (ds : Chars) : Nat := ds.foldl (fun a c => a * 10 + (c.toNat - 48)) 0
  match cs with
  | '-' :: r => - (nat r : Int)
  | r => (nat r : Int)

/-- `_scalar_node_from_value` for the serialized value of a leaf of type `tname` (`isEnum`: an enum name). -/
def scalarNode (tname : String) (isEnum isSpecified : Bool) (v : J) (numStr : Bool := true) : Option Lit :=
  match v with
  | .bool b => some (.bool b)
  | .num n => if tname == "Int" then some (.int n) else if tname == "Float" then
                (if minInt < n && n < maxInt then some (.int n) else some (.float (showInt n)))
              else some (.float (showInt n))
  | .obj [("$float", .str r)] =>
      -- nan / inf / -inf have no literal spelling (fix I16: ValueError)
      if r == "inf" || r == "-inf" || r == "nan" then none else
      if tname == "Float" then
        match floatIntText r.toList with
        | some t => if minInt < parseIntText t && parseIntText t < maxInt then some (.int (parseIntText t)) else some (.float r.toList)
        | none => some (.float r.toList)
      else some (.float r.toList)
  | .str s =>
      if isEnum then some (.enum s.toList)
      else if tname == "ID" && isIntText s.toList then some (.int (parseIntText s.toList))
      else if numStr && !isSpecified && isIntText s.toList then
        (if minInt < parseIntText s.toList && parseIntText s.toList < maxInt then some (.int (parseIntText s.toList))
         else some (.float s.toList))
      else some (.str s.toList)      -- (custom scalars: the `float(s)` attempt is not modelled)
  | _ => none

def specifiedScalars : List String := ["Int", "Float", "Boolean", "String", "ID"]

/-- `_NAME_RE = [_a-zA-Z][_a-zA-Z0-9]*` (keys of a structured custom-scalar value that can be object-literal keys) -/
def isAsciiName (cs : Chars) : Bool :=
  match cs with
  | [] => false
  | c :: r => (c.isAlpha || c = '_') && r.all fun d => d.isAlpha || d = '_' || d.isDigit

mutual
/-- serialized value of a CUSTOM scalar → literal: the leaf rule of `_scalar_node_from_value`, and (fix I7) dicts /
    lists of a JSON-like scalar as object / list literals, entries by the same rule, `None` entries as `null`;
    a key that is not a Name has no literal form (`ValueError`). -/
def customNode (tname : String) (numStr : Bool) : J → Option Lit
  | .obj [("$float", .str r)] => scalarNode tname false false (.obj [("$float", .str r)]) numStr
  | .obj kvs => (customFields tname numStr kvs).map .obj
  | .arr xs => (customItems tname numStr xs).map .list
  | v => scalarNode tname false false v numStr
def customItems (tname : String) (numStr : Bool) : List J → Option (List Lit)
  | [] => some []
  | .null :: xs => (customItems tname numStr xs).map (Lit.null :: ·)
  | x :: xs =>
      match customNode tname numStr x, customItems tname numStr xs with
      | some l, some ls => some (l :: ls)
      | _, _ => none
def customFields (tname : String) (numStr : Bool) : List (String × J) → Option (List (Chars × Lit))
  | [] => some []
  | (k, .null) :: kvs => if isAsciiName k.toList then (customFields tname numStr kvs).map ((k.toList, Lit.null) :: ·) else none
  | (k, v) :: kvs =>
      if isAsciiName k.toList then
        match customNode tname numStr v, customFields tname numStr kvs with
        | some l, some ls => some ((k.toList, l) :: ls)
        | _, _ => none
      else none
end

mutual
/-- structural equality of canonical values (kernel-reducible, unlike the derived `BEq J`) -/
def jEq : J → J → Bool
  | .null, .null => true
  | .bool a, .bool b => a == b
  | .num a, .num b => a == b
  | .str a, .str b => a == b
  | .arr a, .arr b => jEqList a b
  | .obj a, .obj b => jEqFields a b
  | _, _ => false
def jEqList : List J → List J → Bool
  | [], [] => true
  | x :: xs, y :: ys => jEq x y && jEqList xs ys
  | _, _ => false
def jEqFields : List (String × J) → List (String × J) → Bool
  | [], [] => true
  | (k, x) :: xs, (l, y) :: ys => k == l && jEq x y && jEqFields xs ys
  | _, _ => false
end

/-- `EnumType.get_name`: the name of the (last) value whose internal value equals `v` -/
def enumNameOf (vals : List EnumValD) (v : J) : Option String :=
  ((vals.reverse.find? (fun ev => jEq ev.value v)).map (·.name))

mutual
/-- no Python float inside (floats are outside the literal-level statement: `Float = 3` is declared `3.0`) -/
def noFloat : J → Bool
  | .obj [("$float", _)] => false
  | .arr xs => noFloatList xs
  | .obj kvs => noFloatFields kvs
  | _ => true
def noFloatList : List J → Bool
  | [] => true
  | x :: xs => noFloat x && noFloatList xs
def noFloatFields : List (String × J) → Bool
  | [] => true
  | (_, x) :: xs => noFloat x && noFloatFields xs
end

mutual
/-- `ast_node_from_value(value, type)`; `none` = the function raises. Fuel bounds the walk through named
    input-object types (each step consumes the value or the type). -/
def litOfG (s : SchemaD) (ns : Bool) : Nat → Ty → J → Option Lit
  | 0, _, _ => none
  | fuel+1, .nonNull t, v =>
      match litOfG s ns fuel t v with
      | some .null => none
      | r => r
  | _+1, _, .null => some .null
  | fuel+1, .list t, .arr xs => (litOfList s ns fuel t xs).map .list
  | fuel+1, .list t, v => litOfG s ns fuel t v
  | fuel+1, .named n, v =>
      match s.findType n with
      | none => none
      | some td =>
        match td.kind with
        | .input =>
            match v with
            | .obj kvs => (litOfFields s ns fuel (td.inputFields.map (·.pythonName)) td.inputFields kvs).map .obj
            | _ => none
        | .enum =>
            match enumNameOf td.values v with
            | some nm => scalarNode n true false (.str nm)
            | none => none
        | .scalar => if specifiedScalars.contains n then scalarNode n false true v else customNode n ns v
        | _ => none
def litOfList (s : SchemaD) (ns : Bool) : Nat → Ty → List J → Option (List Lit)
  | 0, _, _ => none
  | _+1, _, [] => some []
  | fuel+1, t, x :: xs =>
      match litOfG s ns fuel t x, litOfList s ns fuel t xs with
      | some l, some ls => some (l :: ls)
      | _, _ => none
/-- `_object_value_node_from_value`: fields in the order of the TYPE's fields, those present in the value -/
def litOfFields (s : SchemaD) (ns : Bool) : Nat → List String → List ArgD → List (String × J) → Option (List (Chars × Lit))
  | 0, _, _, _ => none
  | _+1, _, [], _ => some []
  | fuel+1, pyNames, f :: fs, kvs =>
      -- coerced input objects are keyed by the configured Python names (d67cad3); the GraphQL name is used only when
      -- the value has no entry under the Python name and no other field owns that key (fix I9). `pyNames`: the
      -- Python names of ALL fields of the type.
      match kvs.find? (·.1 == (if !(kvs.find? (·.1 == f.pythonName)).isSome && !pyNames.contains f.name then f.name else f.pythonName)) with
      | some (_, v) =>
          match litOfG s ns fuel f.type v, litOfFields s ns fuel pyNames fs kvs with
          | some l, some ls => some ((f.name.toList, l) :: ls)
          | _, _ => none
      | none =>
          if f.type.isNonNull && !f.hasDefault then none else litOfFields s ns fuel pyNames fs kvs
end

/-- the literal form the SDL printer prints (`numeric_strings=True`: strings a custom scalar serializes to are
    printed as numbers when they spell one) -/
abbrev litOf (s : SchemaD) := litOfG s true
/-- the literal form introspection reports (fix I11, `numeric_strings=False`: strings stay strings at every depth) -/
abbrev litOfStrict (s : SchemaD) := litOfG s false

/-! ### literals: reading -/

def isNameStart (c : Char) : Bool := c.isAlpha || c = '_'
def isNameCont (c : Char) : Bool := c.isAlpha || c = '_' || c.isDigit

/-- ignored between tokens of a value: blanks, line ends, commas, BOM -/
def isIgnored (c : Char) : Bool := c = ' ' || c = ',' || c = '\n' || c = '\t' || c = '\r' || c.toNat = 0xFEFF

def skipIgnored : Chars → Chars
  | [] => []
  | c :: cs => if isIgnored c then skipIgnored cs else c :: cs

def spanWhile (p : Char → Bool) : Chars → Chars × Chars
  | [] => ([], [])
  | c :: cs => if p c then let (a, b) := spanWhile p cs; (c :: a, b) else ([], c :: cs)

def readDigits : Chars → Nat → Nat × Chars
  | [], acc => (acc, [])
  | c :: cs, acc => if c.isDigit then readDigits cs (acc * 10 + (c.toNat - 48)) else (acc, c :: cs)

def hexVal (c : Char) : Option Nat :=
  let n := c.toNat
  if 48 ≤ n && n ≤ 57 then some (n - 48)
  else if 97 ≤ n && n ≤ 102 then some (n - 87)
  else if 65 ≤ n && n ≤ 70 then some (n - 55)
  else none

/-- body of a quoted string after the opening quote; `acc` is reversed -/
def readString : Chars → Chars → Option (Chars × Chars)
  | [], _ => none
  | '"' :: cs, acc => some (acc.reverse, cs)
  | '\\' :: 'u' :: a :: b :: c :: d :: cs, acc =>
      match hexVal a, hexVal b, hexVal c, hexVal d with
      | some a, some b, some c, some d => readString cs (Char.ofNat (((a * 16 + b) * 16 + c) * 16 + d) :: acc)
      | _, _, _, _ => none
  | '\\' :: e :: cs, acc =>
      if e = '"' then readString cs ('"' :: acc)
      else if e = '\\' then readString cs ('\\' :: acc)
      else if e = '/' then readString cs ('/' :: acc)
      else if e = 'b' then readString cs (Char.ofNat 8 :: acc)
      else if e = 'f' then readString cs (Char.ofNat 12 :: acc)
      else if e = 'n' then readString cs ('\n' :: acc)
      else if e = 'r' then readString cs ('\r' :: acc)
      else if e = 't' then readString cs ('\t' :: acc)
      else none
  | c :: cs, acc =>
      if c = '\\' then none
      else if c.toNat < 32 && c.toNat != 9 then none      -- line ends and control characters end / break a string
      else readString cs (c :: acc)

def isFloatCont (c : Char) : Bool := c.isDigit || c = '.' || c = 'e' || c = 'E' || c = '+' || c = '-'

/-- number starting at `cs` (sign already removed, `neg` tells); int unless a fraction / exponent follows -/
def readNumber (neg : Bool) (cs : Chars) : Option (Lit × Chars) :=
  match cs with
  | c :: _ =>
    if c.isDigit then
      let (n, rest) := readDigits cs 0
      if c = '0' && (match cs with | _ :: d :: _ => d.isDigit | _ => false) then none else
      match rest with
      | d :: _ =>
        if d = '.' || d = 'e' || d = 'E' then
          let (t, rest') := spanWhile isFloatCont cs
          some (.float (if neg then '-' :: t else t), rest')
        else if isNameStart d then none
        else some (.int (if neg then - (n : Int) else (n : Int)), rest)
      | [] => some (.int (if neg then - (n : Int) else (n : Int)), rest)
    else none
  | [] => none

mutual
def readVal : Nat → Chars → Option (Lit × Chars)
  | 0, _ => none
  | fuel+1, cs =>
    match skipIgnored cs with
    | [] => none
    | '"' :: r => (readString r []).map fun (s, rest) => (.str s, rest)
    | '[' :: r => (readItems fuel r).map fun (xs, rest) => (.list xs, rest)
    | '{' :: r => (readFields fuel r).map fun (fs, rest) => (.obj fs, rest)
    | '-' :: r => readNumber true r
    | c :: r =>
      if c.isDigit then readNumber false (c :: r)
      else if isNameStart c then
        let (nm, rest) := spanWhile isNameCont (c :: r)
        if nm = ['t', 'r', 'u', 'e'] then some (.bool true, rest)
        else if nm = ['f', 'a', 'l', 's', 'e'] then some (.bool false, rest)
        else if nm = ['n', 'u', 'l', 'l'] then some (.null, rest)
        else some (.enum nm, rest)
      else none
def readItems : Nat → Chars → Option (List Lit × Chars)
  | 0, _ => none
  | fuel+1, cs =>
    match skipIgnored cs with
    | ']' :: r => some ([], r)
    | cs' =>
      match readVal fuel cs' with
      | none => none
      | some (v, rest) => (readItems fuel rest).map fun (vs, rest') => (v :: vs, rest')
def readFields : Nat → Chars → Option (List (Chars × Lit) × Chars)
  | 0, _ => none
  | fuel+1, cs =>
    match skipIgnored cs with
    | '}' :: r => some ([], r)
    | c :: r =>
      if isNameStart c then
        let (nm, rest) := spanWhile isNameCont (c :: r)
        match skipIgnored rest with
        | ':' :: rest' =>
          match readVal fuel rest' with
          | none => none
          | some (v, rest'') => (readFields fuel rest'').map fun (fs, rest3) => ((nm, v) :: fs, rest3)
        | _ => none
      else none
    | [] => none
end

/-- read one complete value literal -/
def readLit (cs : Chars) : Option Lit :=
  match readVal (cs.length + 1) cs with
  | some (v, rest) => if skipIgnored rest = [] then some v else none
  | none => none

/-! ### the primitives referred to by the translated `_format_default_value` -/
namespace Prims

def isNone : J → Bool | .null => true | _ => false
def isBool : J → Bool | .bool _ => true | _ => false
def isStr : J → Bool | .str _ => true | _ => false
def isFloat : J → Bool | .obj [("$float", .str _)] => true | _ => false
/-- Python: `bool` is a subclass of `int` -/
def isInt : J → Bool | .num _ => true | .bool _ => true | _ => false
def isList : J → Bool | .arr _ => true | _ => false
def isDict (j : J) : Bool := match j with | .obj _ => !isFloat j | _ => false

/-- `str(v)` (used on strings; other values: their JSON text, which coincides for ints) -/
def pyStr : J → Chars
  | .str s => s.toList
  | .bool true => ['T', 'r', 'u', 'e']
  | .bool false => ['F', 'a', 'l', 's', 'e']
  | .null => ['N', 'o', 'n', 'e']
  | v => jsonDumps v

/-- `str(v).lower()` (ASCII letters only: reached for booleans) -/
def pyStrLower (v : J) : Chars := (pyStr v).map Char.toLower

def jsonDumps := Introspect.jsonDumps

/-- `isinstance(unwrap_type(t), <class of kind k>)` -/
def baseIsKind (s : SchemaD) (t : Ty) (k : Kind) : Bool :=
  match s.findType t.base with
  | some td => td.kind == k
  | none => false

/-- `unwrap_type(t) in (<library scalars>)` -/
def baseIsOneOf (t : Ty) (names : List String) : Bool := names.contains t.base

/-- `"".join(TABLE.get(c, c) for c in cs)` -/
def escapeWith (tbl : List (Char × Chars)) (cs : Chars) : Chars :=
  cs.flatMap fun c => (tbl.lookup c).getD [c]

/-- `print_ast(ast_node_from_value(v, t))`; `none` stands for the ValueError (the model has no exceptions
    here: the correspondence compares the outcome) -/
def printAstOfValue (s : SchemaD) (v : J) (t : Ty) : Option Chars :=
  (litOf s 64 t v).map printLit

/-- `print_ast(ast_node_from_value(v, t, numeric_strings=False))` -/
def printAstOfValueStrict (s : SchemaD) (v : J) (t : Ty) : Option Chars :=
  (litOfStrict s 64 t v).map printLit

end Prims

end PyGql.Introspect

/- GENERATED on every run by harness (py2lean.py) from src/py_gql/schema/differ/__init__.py and changes.py.
   Do not edit: the check rewrites this file from /repo's working tree. -/

import PyGqlModel.Ty
set_option linter.unusedVariables false
namespace PyGql.Generated.Differ
open PyGql

def safeInStep (recIn : Ty → Ty → Bool) (recOut : Ty → Ty → Bool) (old_type new_type : Ty) : Bool :=
  (if old_type.isNamed then (new_type.isNamed && (old_type.name == new_type.name)) else (if old_type.isList then (new_type.isList && (recIn old_type.inner new_type.inner)) else (if old_type.isNonNull then ((new_type.isNonNull && (recIn old_type.inner new_type.inner)) || ((!new_type.isNonNull) && (recIn old_type.inner new_type))) else false)))

def safeOutStep (recIn : Ty → Ty → Bool) (recOut : Ty → Ty → Bool) (old_type new_type : Ty) : Bool :=
  (if old_type.isNamed then ((new_type.isNamed && (old_type.name == new_type.name)) || (new_type.isNonNull && (recOut old_type new_type.inner))) else (if old_type.isList then ((new_type.isList && (recIn old_type.inner new_type.inner)) || (new_type.isNonNull && (recOut old_type new_type.inner))) else (if old_type.isNonNull then (new_type.isNonNull && (recOut old_type.inner new_type.inner)) else false)))

/-- severity levels as in `SchemaChangeSeverity` -/
def sevCompatible : Nat := 0
def sevDangerous : Nat := 1
def sevBreaking : Nat := 2

/-- (change class, severity when the added element is optional / static, severity when it is required) -/
def severityTable : List (String × Nat × Nat) := [
  ("TypeChangedKind", 2, 2),
  ("TypeRemoved", 2, 2),
  ("TypeAdded", 0, 0),
  ("RootTypeChanged", 2, 2),
  ("RootTypeRemoved", 2, 2),
  ("RootTypeAdded", 0, 0),
  ("TypeRemovedFromUnion", 2, 2),
  ("TypeAddedToUnion", 1, 1),
  ("TypeRemovedFromInterface", 2, 2),
  ("TypeAddedToInterface", 1, 1),
  ("EnumValueRemoved", 2, 2),
  ("EnumValueAdded", 1, 1),
  ("EnumValueDeprecated", 0, 0),
  ("EnumValueDeprecationRemoved", 0, 0),
  ("EnumValueDeprecationReasonChanged", 0, 0),
  ("DirectiveRemoved", 2, 2),
  ("DirectiveAdded", 0, 0),
  ("DirectiveLocationRemoved", 2, 2),
  ("DirectiveLocationAdded", 0, 0),
  ("DirectiveArgumentRemoved", 2, 2),
  ("DirectiveArgumentAdded", 0, 2),
  ("DirectiveArgumentDefaultValueChange", 1, 2),
  ("DirectiveArgumentChangedType", 2, 2),
  ("FieldArgumentRemoved", 2, 2),
  ("FieldArgumentAdded", 0, 2),
  ("FieldArgumentDefaultValueChange", 1, 2),
  ("FieldArgumentChangedType", 2, 2),
  ("FieldChangedType", 2, 2),
  ("FieldRemoved", 2, 2),
  ("FieldAdded", 0, 0),
  ("FieldDeprecated", 0, 0),
  ("FieldDeprecationRemoved", 0, 0),
  ("FieldDeprecationReasonChanged", 0, 0),
  ("InputFieldRemoved", 2, 2),
  ("InputFieldAdded", 0, 2),
  ("InputFieldDefaultValueChange", 1, 2),
  ("InputFieldChangedType", 2, 2)
]

/-- `_compatible(change)`: the severity given to the type changes the differ considers safe for clients
    (`none`: the source has no such helper: those retypings are not reported at all) -/
def compatibleRetypeSeverity : Option Nat := some 0
end PyGql.Generated.Differ

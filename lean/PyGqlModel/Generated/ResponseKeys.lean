/- GENERATED on every run by harness/corr/C10.py from src/py_gql/exc.py, execution/wrappers.py, _graphql.py. DO NOT EDIT. -/
namespace PyGql.Generated.ResponseKeys

/-- `GraphQLSyntaxError.to_dict`: `{"message": …, "locations": [{<line key>: line, <column key>: col}]}` -/
def syntaxLineKey : String := "line"
def syntaxColKey : String := "columne"
/-- `GraphQLLocatedError.to_dict` -/
def locatedLineKey : String := "line"
def locatedColKey : String := "column"
/-- the filter of `GraphQLLocatedError.to_dict` keeps `message` even when it is the empty string -/
def locatedKeepsEmptyMessage : Bool := true
def resolverExtKey : String := "extensions"
/-- `process_graphql_query`: does the `_abort(...)` call of the stage pass `data=None`? -/
def abortSyntaxPassesData : Bool := false
def abortValidationPassesData : Bool := false
def abortCoercionPassesData : Bool := true
def abortExecutionPassesData : Bool := true

end PyGql.Generated.ResponseKeys

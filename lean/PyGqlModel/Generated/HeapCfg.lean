/- GENERATED on every run from src/py_gql/schema/schema.py, sdl/ast_type_builder.py, sdl/schema_from_ast.py -/
import PyGqlModel.HeapCfg
namespace PyGql.Generated.HeapCfg
open PyGql.Heap

/-- the variant of clone / _replace_types_and_directives / _extend_* present in the working tree -/
def currentCfg : Cfg := {
  keepAllTypes := true,
  deepClone := true,
  accumulateBusted := true,
  cloneSchemaDres := true,
  extObjDres := true,
  extFieldSub := true,
  extFieldPy := true,
  extIfaceRtype := true,
  extUnionDesc := true,
  extUnionRtype := true,
  extArgPy := true,
  extInputPy := true,
  extKeepAll := true,
  extSchemaDres := true,
  extInputFieldExtended := true,
  cloneRegsDeep := true,
  cloneRegsFiltered := true,
  cloneRegsByValue := true,
  extKeepRegs := true,
  extLeafCopied := true
}
end PyGql.Generated.HeapCfg

/- GENERATED on every run from src/py_gql/schema/schema.py, sdl/ast_type_builder.py, sdl/schema_from_ast.py -/
import PyGqlModel.HeapCfg
namespace PyGql.Generated.HeapCfg
open PyGql.Heap

/-- the variant of clone / _replace_types_and_directives / _extend_* present in the working tree -/
def currentCfg : Cfg := {
  keepAllTypes := false,
  deepClone := false,
  accumulateBusted := false,
  cloneSchemaDres := false,
  extObjDres := false,
  extFieldSub := false,
  extFieldPy := false,
  extIfaceRtype := false,
  extUnionDesc := false,
  extUnionRtype := false,
  extArgPy := false,
  extInputPy := false,
  extKeepAll := false,
  extSchemaDres := false,
  extInputFieldExtended := false
}
end PyGql.Generated.HeapCfg

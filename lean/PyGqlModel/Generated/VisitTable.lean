/- GENERATED on every run by harness/corr/C18_table.py from src/py_gql/lang/visitor.py and src/py_gql/lang/ast.py
   (+ witness documents parsed by src/py_gql/lang/parser.py).
   Do not edit: the check rewrites this file from /repo's working tree.
-/

import PyGqlModel.Visit
namespace PyGql.Generated.VisitTable
open PyGql.Visit

/-- `__slots__` (field order, `source` dropped) of every concrete node class of `lang/ast.py` -/
def slots : List (String × List String) := [
  ("Argument", ["loc", "name", "value"]),
  ("BooleanValue", ["loc", "value"]),
  ("Directive", ["loc", "name", "arguments"]),
  ("DirectiveDefinition", ["loc", "description", "name", "arguments", "locations"]),
  ("Document", ["loc", "definitions"]),
  ("EnumTypeDefinition", ["loc", "description", "name", "directives", "values"]),
  ("EnumTypeExtension", ["loc", "name", "directives", "values"]),
  ("EnumValue", ["loc", "value"]),
  ("EnumValueDefinition", ["loc", "description", "name", "directives"]),
  ("Field", ["loc", "name", "alias", "arguments", "directives", "selection_set"]),
  ("FieldDefinition", ["loc", "description", "name", "arguments", "type", "directives"]),
  ("FloatValue", ["loc", "value"]),
  ("FragmentDefinition", ["loc", "name", "variable_definitions", "type_condition", "directives", "selection_set"]),
  ("FragmentSpread", ["loc", "name", "directives"]),
  ("InlineFragment", ["loc", "type_condition", "directives", "selection_set"]),
  ("InputObjectTypeDefinition", ["loc", "description", "name", "directives", "fields"]),
  ("InputObjectTypeExtension", ["loc", "name", "directives", "fields"]),
  ("InputValueDefinition", ["loc", "description", "name", "type", "default_value", "directives"]),
  ("IntValue", ["loc", "value"]),
  ("InterfaceTypeDefinition", ["loc", "description", "name", "directives", "fields"]),
  ("InterfaceTypeExtension", ["loc", "name", "directives", "fields"]),
  ("ListType", ["loc", "type"]),
  ("ListValue", ["loc", "values"]),
  ("Name", ["loc", "value"]),
  ("NamedType", ["loc", "name"]),
  ("NonNullType", ["loc", "type"]),
  ("NullValue", ["loc"]),
  ("ObjectField", ["loc", "name", "value"]),
  ("ObjectTypeDefinition", ["loc", "description", "name", "interfaces", "directives", "fields"]),
  ("ObjectTypeExtension", ["loc", "name", "interfaces", "directives", "fields"]),
  ("ObjectValue", ["loc", "fields"]),
  ("OperationDefinition", ["loc", "operation", "name", "variable_definitions", "directives", "selection_set"]),
  ("OperationTypeDefinition", ["loc", "operation", "type"]),
  ("ScalarTypeDefinition", ["loc", "description", "name", "directives"]),
  ("ScalarTypeExtension", ["loc", "name", "directives"]),
  ("SchemaDefinition", ["loc", "directives", "operation_types"]),
  ("SchemaExtension", ["loc", "directives", "operation_types"]),
  ("SelectionSet", ["loc", "selections"]),
  ("StringValue", ["loc", "value", "block"]),
  ("UnionTypeDefinition", ["loc", "description", "name", "directives", "types"]),
  ("UnionTypeExtension", ["loc", "name", "directives", "types"]),
  ("Variable", ["loc", "name"]),
  ("VariableDefinition", ["loc", "variable", "type", "default_value", "directives"])
]

/-- registry of `ASTVisitor.visit`: node kind ↦ `_visit_*` method -/
def visitDispatch : List (String × String) := [
  ("Document", "_visit_document"),
  ("OperationDefinition", "_visit_operation_definition"),
  ("VariableDefinition", "_visit_variable_definition"),
  ("Variable", "_visit_variable"),
  ("SelectionSet", "_visit_selection_set"),
  ("Field", "_visit_field"),
  ("Argument", "_visit_argument"),
  ("FragmentSpread", "_visit_fragment_spread"),
  ("InlineFragment", "_visit_inline_fragment"),
  ("FragmentDefinition", "_visit_fragment_definition"),
  ("IntValue", "_visit_value"),
  ("FloatValue", "_visit_value"),
  ("BooleanValue", "_visit_value"),
  ("NullValue", "_visit_value"),
  ("EnumValue", "_visit_value"),
  ("StringValue", "_visit_value"),
  ("ListValue", "_visit_value"),
  ("ObjectValue", "_visit_value"),
  ("ObjectField", "_visit_object_field"),
  ("Directive", "_visit_directive"),
  ("NonNullType", "_visit_type"),
  ("ListType", "_visit_type"),
  ("NamedType", "_visit_type"),
  ("SchemaDefinition", "_visit_schema_definition"),
  ("OperationTypeDefinition", "_visit_operation_type_definition"),
  ("ScalarTypeDefinition", "_visit_scalar_type_definition"),
  ("ObjectTypeDefinition", "_visit_object_type_definition"),
  ("FieldDefinition", "_visit_field_definition"),
  ("InputValueDefinition", "_visit_input_value_definition"),
  ("InterfaceTypeDefinition", "_visit_interface_type_definition"),
  ("UnionTypeDefinition", "_visit_union_type_definition"),
  ("EnumTypeDefinition", "_visit_enum_type_definition"),
  ("EnumValueDefinition", "_visit_enum_value_definition"),
  ("InputObjectTypeDefinition", "_visit_input_object_type_definition"),
  ("SchemaExtension", "_visit_schema_definition"),
  ("ScalarTypeExtension", "_visit_scalar_type_definition"),
  ("ObjectTypeExtension", "_visit_object_type_definition"),
  ("InterfaceTypeExtension", "_visit_interface_type_definition"),
  ("UnionTypeExtension", "_visit_union_type_definition"),
  ("EnumTypeExtension", "_visit_enum_type_definition"),
  ("InputObjectTypeExtension", "_visit_input_object_type_definition"),
  ("DirectiveDefinition", "_visit_directive_definition")
]

/-- undecorated `_visit_*` dispatchers: (name, registry kind ↦ method, default method) -/
def dispatchers : List (String × Dispatcher) := [
  ("_visit_definition", { registry := [("OperationDefinition", "_visit_operation_definition"), ("FragmentDefinition", "_visit_fragment_definition"), ("SchemaDefinition", "_visit_schema_definition"), ("ScalarTypeDefinition", "_visit_scalar_type_definition"), ("ObjectTypeDefinition", "_visit_object_type_definition"), ("InterfaceTypeDefinition", "_visit_interface_type_definition"), ("UnionTypeDefinition", "_visit_union_type_definition"), ("EnumTypeDefinition", "_visit_enum_type_definition"), ("InputObjectTypeDefinition", "_visit_input_object_type_definition"), ("SchemaExtension", "_visit_schema_definition"), ("ScalarTypeExtension", "_visit_scalar_type_definition"), ("ObjectTypeExtension", "_visit_object_type_definition"), ("InterfaceTypeExtension", "_visit_interface_type_definition"), ("UnionTypeExtension", "_visit_union_type_definition"), ("EnumTypeExtension", "_visit_enum_type_definition"), ("InputObjectTypeExtension", "_visit_input_object_type_definition"), ("DirectiveDefinition", "_visit_directive_definition")], dflt := none }),
  ("_visit_selection", { registry := [("Field", "_visit_field"), ("FragmentSpread", "_visit_fragment_spread"), ("InlineFragment", "_visit_inline_fragment")], dflt := none }),
  ("_visit_input_value", { registry := [("Variable", "_visit_variable")], dflt := some "_visit_value" })
]

/-- body of every `@_visit_method`: the ORDERED child traversal steps -/
def methods : List (String × List Step) := [
  ("_visit_document", [
    { kinds := none, attr := "definitions", shape := .many, guard := .always, assign := true, target := (.disp "_visit_definition") }]),
  ("_visit_operation_definition", [
    { kinds := none, attr := "variable_definitions", shape := .many, guard := .always, assign := true, target := (.method "_visit_variable_definition") },
    { kinds := none, attr := "directives", shape := .many, guard := .always, assign := true, target := (.method "_visit_directive") },
    { kinds := none, attr := "selection_set", shape := .one, guard := .always, assign := true, target := (.method "_visit_selection_set") }]),
  ("_visit_fragment_definition", [
    { kinds := none, attr := "variable_definitions", shape := .many, guard := .always, assign := true, target := (.method "_visit_variable_definition") },
    { kinds := none, attr := "directives", shape := .many, guard := .always, assign := true, target := (.method "_visit_directive") },
    { kinds := none, attr := "selection_set", shape := .one, guard := .always, assign := true, target := (.method "_visit_selection_set") }]),
  ("_visit_variable_definition", [
    { kinds := none, attr := "default_value", shape := .one, guard := .truthy, assign := true, target := (.method "_visit_value") },
    { kinds := none, attr := "type", shape := .one, guard := .always, assign := true, target := (.method "_visit_type") },
    { kinds := none, attr := "directives", shape := .many, guard := .always, assign := true, target := (.method "_visit_directive") }]),
  ("_visit_type", []),
  ("_visit_directive", [
    { kinds := none, attr := "arguments", shape := .many, guard := .always, assign := true, target := (.method "_visit_argument") }]),
  ("_visit_argument", [
    { kinds := none, attr := "value", shape := .one, guard := .always, assign := true, target := (.disp "_visit_input_value") }]),
  ("_visit_selection_set", [
    { kinds := none, attr := "selections", shape := .many, guard := .always, assign := true, target := (.disp "_visit_selection") }]),
  ("_visit_field", [
    { kinds := none, attr := "arguments", shape := .many, guard := .always, assign := true, target := (.method "_visit_argument") },
    { kinds := none, attr := "directives", shape := .many, guard := .always, assign := true, target := (.method "_visit_directive") },
    { kinds := none, attr := "selection_set", shape := .one, guard := .notNone, assign := true, target := (.method "_visit_selection_set") }]),
  ("_visit_fragment_spread", [
    { kinds := none, attr := "directives", shape := .many, guard := .always, assign := true, target := (.method "_visit_directive") }]),
  ("_visit_inline_fragment", [
    { kinds := none, attr := "directives", shape := .many, guard := .always, assign := true, target := (.method "_visit_directive") },
    { kinds := none, attr := "selection_set", shape := .one, guard := .always, assign := true, target := (.method "_visit_selection_set") }]),
  ("_visit_variable", []),
  ("_visit_value", [
    { kinds := some ["ObjectValue"], attr := "fields", shape := .many, guard := .always, assign := true, target := (.method "_visit_object_field") },
    { kinds := some ["ListValue"], attr := "values", shape := .many, guard := .always, assign := true, target := (.disp "_visit_input_value") }]),
  ("_visit_object_field", [
    { kinds := none, attr := "value", shape := .one, guard := .always, assign := true, target := (.method "_visit_value") }]),
  ("_visit_schema_definition", [
    { kinds := none, attr := "operation_types", shape := .many, guard := .always, assign := true, target := (.method "_visit_operation_type_definition") },
    { kinds := none, attr := "directives", shape := .many, guard := .always, assign := true, target := (.method "_visit_directive") }]),
  ("_visit_operation_type_definition", [
    { kinds := none, attr := "type", shape := .one, guard := .always, assign := true, target := (.method "_visit_type") }]),
  ("_visit_scalar_type_definition", [
    { kinds := none, attr := "directives", shape := .many, guard := .always, assign := true, target := (.method "_visit_directive") }]),
  ("_visit_object_type_definition", [
    { kinds := none, attr := "interfaces", shape := .many, guard := .always, assign := true, target := (.method "_visit_type") },
    { kinds := none, attr := "directives", shape := .many, guard := .always, assign := true, target := (.method "_visit_directive") },
    { kinds := none, attr := "fields", shape := .many, guard := .always, assign := true, target := (.method "_visit_field_definition") }]),
  ("_visit_interface_type_definition", [
    { kinds := none, attr := "directives", shape := .many, guard := .always, assign := true, target := (.method "_visit_directive") },
    { kinds := none, attr := "fields", shape := .many, guard := .always, assign := true, target := (.method "_visit_field_definition") }]),
  ("_visit_union_type_definition", [
    { kinds := none, attr := "directives", shape := .many, guard := .always, assign := true, target := (.method "_visit_directive") },
    { kinds := none, attr := "types", shape := .many, guard := .always, assign := true, target := (.method "_visit_type") }]),
  ("_visit_enum_type_definition", [
    { kinds := none, attr := "directives", shape := .many, guard := .always, assign := true, target := (.method "_visit_directive") },
    { kinds := none, attr := "values", shape := .many, guard := .always, assign := true, target := (.method "_visit_enum_value_definition") }]),
  ("_visit_input_object_type_definition", [
    { kinds := none, attr := "directives", shape := .many, guard := .always, assign := true, target := (.method "_visit_directive") },
    { kinds := none, attr := "fields", shape := .many, guard := .always, assign := true, target := (.method "_visit_input_value_definition") }]),
  ("_visit_field_definition", [
    { kinds := none, attr := "type", shape := .one, guard := .always, assign := true, target := (.method "_visit_type") },
    { kinds := none, attr := "arguments", shape := .many, guard := .always, assign := true, target := (.method "_visit_input_value_definition") },
    { kinds := none, attr := "directives", shape := .many, guard := .always, assign := true, target := (.method "_visit_directive") }]),
  ("_visit_input_value_definition", [
    { kinds := none, attr := "type", shape := .one, guard := .always, assign := true, target := (.method "_visit_type") },
    { kinds := none, attr := "default_value", shape := .one, guard := .notNone, assign := true, target := (.disp "_visit_input_value") },
    { kinds := none, attr := "directives", shape := .many, guard := .always, assign := true, target := (.method "_visit_directive") }]),
  ("_visit_enum_value_definition", [
    { kinds := none, attr := "directives", shape := .many, guard := .always, assign := true, target := (.method "_visit_directive") }]),
  ("_visit_directive_definition", [
    { kinds := none, attr := "arguments", shape := .many, guard := .always, assign := true, target := (.method "_visit_input_value_definition") }])
]

/-- registry of `DispatchingVisitor.enter` (every default handler is a no-op: checked by the extractor) -/
def enterRegistry : List (String × String) := [
  ("Document", "enter_document"),
  ("OperationDefinition", "enter_operation_definition"),
  ("FragmentDefinition", "enter_fragment_definition"),
  ("VariableDefinition", "enter_variable_definition"),
  ("Directive", "enter_directive"),
  ("Argument", "enter_argument"),
  ("SelectionSet", "enter_selection_set"),
  ("Field", "enter_field"),
  ("FragmentSpread", "enter_fragment_spread"),
  ("InlineFragment", "enter_inline_fragment"),
  ("NullValue", "enter_null_value"),
  ("IntValue", "enter_int_value"),
  ("FloatValue", "enter_float_value"),
  ("StringValue", "enter_string_value"),
  ("BooleanValue", "enter_boolean_value"),
  ("EnumValue", "enter_enum_value"),
  ("Variable", "enter_variable"),
  ("ListValue", "enter_list_value"),
  ("ObjectValue", "enter_object_value"),
  ("ObjectField", "enter_object_field"),
  ("NamedType", "enter_named_type"),
  ("ListType", "enter_list_type"),
  ("NonNullType", "enter_non_null_type"),
  ("SchemaDefinition", "enter_schema_definition"),
  ("OperationTypeDefinition", "enter_operation_type_definition"),
  ("ScalarTypeDefinition", "enter_scalar_type_definition"),
  ("ObjectTypeDefinition", "enter_object_type_definition"),
  ("FieldDefinition", "enter_field_definition"),
  ("InputValueDefinition", "enter_input_value_definition"),
  ("InterfaceTypeDefinition", "enter_interface_type_definition"),
  ("UnionTypeDefinition", "enter_union_type_definition"),
  ("EnumTypeDefinition", "enter_enum_type_definition"),
  ("EnumValueDefinition", "enter_enum_value_definition"),
  ("InputObjectTypeDefinition", "enter_input_object_type_definition"),
  ("SchemaExtension", "enter_schema_extension"),
  ("ScalarTypeExtension", "enter_scalar_type_extension"),
  ("ObjectTypeExtension", "enter_object_type_extension"),
  ("InterfaceTypeExtension", "enter_interface_type_extension"),
  ("UnionTypeExtension", "enter_union_type_extension"),
  ("EnumTypeExtension", "enter_enum_type_extension"),
  ("InputObjectTypeExtension", "enter_input_object_type_extension"),
  ("DirectiveDefinition", "enter_directive_definition")
]

/-- registry of `DispatchingVisitor.leave` (every default handler is a no-op: checked by the extractor) -/
def leaveRegistry : List (String × String) := [
  ("Document", "leave_document"),
  ("OperationDefinition", "leave_operation_definition"),
  ("FragmentDefinition", "leave_fragment_definition"),
  ("VariableDefinition", "leave_variable_definition"),
  ("Directive", "leave_directive"),
  ("Argument", "leave_argument"),
  ("SelectionSet", "leave_selection_set"),
  ("Field", "leave_field"),
  ("FragmentSpread", "leave_fragment_spread"),
  ("InlineFragment", "leave_inline_fragment"),
  ("NullValue", "leave_null_value"),
  ("IntValue", "leave_int_value"),
  ("FloatValue", "leave_float_value"),
  ("StringValue", "leave_string_value"),
  ("BooleanValue", "leave_boolean_value"),
  ("EnumValue", "leave_enum_value"),
  ("Variable", "leave_variable"),
  ("ListValue", "leave_list_value"),
  ("ObjectValue", "leave_object_value"),
  ("ObjectField", "leave_object_field"),
  ("NamedType", "leave_named_type"),
  ("ListType", "leave_list_type"),
  ("NonNullType", "leave_non_null_type"),
  ("SchemaDefinition", "leave_schema_definition"),
  ("OperationTypeDefinition", "leave_operation_type_definition"),
  ("ScalarTypeDefinition", "leave_scalar_type_definition"),
  ("ObjectTypeDefinition", "leave_object_type_definition"),
  ("FieldDefinition", "leave_field_definition"),
  ("InputValueDefinition", "leave_input_value_definition"),
  ("InterfaceTypeDefinition", "leave_interface_type_definition"),
  ("UnionTypeDefinition", "leave_union_type_definition"),
  ("EnumTypeDefinition", "leave_enum_type_definition"),
  ("EnumValueDefinition", "leave_enum_value_definition"),
  ("InputObjectTypeDefinition", "leave_input_object_type_definition"),
  ("SchemaExtension", "leave_schema_extension"),
  ("ScalarTypeExtension", "leave_scalar_type_extension"),
  ("ObjectTypeExtension", "leave_object_type_extension"),
  ("InterfaceTypeExtension", "leave_interface_type_extension"),
  ("UnionTypeExtension", "leave_union_type_extension"),
  ("EnumTypeExtension", "leave_enum_type_extension"),
  ("InputObjectTypeExtension", "leave_input_object_type_extension"),
  ("DirectiveDefinition", "leave_directive_definition")
]

/-- the wrapper runs the method of the class of the node RETURNED by `enter` when that class differs from the
    argument's (observed on the real code by `probe_cross_kind`; true with proposed fix C18-W7) -/
def crossKind : Bool := true

/-- `ChainedVisitor`: a member's SkipNode is the raiser's own (observed by `probe_chain_skip`; true with proposed fix C18-W8) -/
def chainPersonalSkip : Bool := true

def table : Table := { methods := methods, visit := visitDispatch, dispatchers := dispatchers, slots := slots, crossKind := crossKind }

/-- (kind, attribute) ↦ the concrete node classes that occur there: annotations of `lang/ast.py` (abstract bases expanded)
    ∪ what the real parser produces on the probe documents of C18_table.py (hypothesis `WellKinded` of Props/C18_reach.lean) -/
def childKinds : List ((String × String) × List String) := [
  (("Argument", "name"), ["Name"]),
  (("Argument", "value"), ["BooleanValue", "EnumValue", "FloatValue", "IntValue", "ListValue", "NullValue", "ObjectValue", "StringValue", "Variable"]),
  (("Directive", "arguments"), ["Argument"]),
  (("Directive", "name"), ["Name"]),
  (("DirectiveDefinition", "arguments"), ["InputValueDefinition"]),
  (("DirectiveDefinition", "description"), ["StringValue"]),
  (("DirectiveDefinition", "locations"), ["Name"]),
  (("DirectiveDefinition", "name"), ["Name"]),
  (("Document", "definitions"), ["DirectiveDefinition", "EnumTypeDefinition", "EnumTypeExtension", "FragmentDefinition", "InputObjectTypeDefinition", "InputObjectTypeExtension", "InterfaceTypeDefinition", "InterfaceTypeExtension", "ObjectTypeDefinition", "ObjectTypeExtension", "OperationDefinition", "ScalarTypeDefinition", "ScalarTypeExtension", "SchemaDefinition", "SchemaExtension", "UnionTypeDefinition", "UnionTypeExtension"]),
  (("EnumTypeDefinition", "description"), ["StringValue"]),
  (("EnumTypeDefinition", "directives"), ["Directive"]),
  (("EnumTypeDefinition", "name"), ["Name"]),
  (("EnumTypeDefinition", "values"), ["EnumValueDefinition"]),
  (("EnumTypeExtension", "directives"), ["Directive"]),
  (("EnumTypeExtension", "name"), ["Name"]),
  (("EnumTypeExtension", "values"), ["EnumValueDefinition"]),
  (("EnumValueDefinition", "description"), ["StringValue"]),
  (("EnumValueDefinition", "directives"), ["Directive"]),
  (("EnumValueDefinition", "name"), ["Name"]),
  (("Field", "alias"), ["Name"]),
  (("Field", "arguments"), ["Argument"]),
  (("Field", "directives"), ["Directive"]),
  (("Field", "name"), ["Name"]),
  (("Field", "selection_set"), ["SelectionSet"]),
  (("FieldDefinition", "arguments"), ["InputValueDefinition"]),
  (("FieldDefinition", "description"), ["StringValue"]),
  (("FieldDefinition", "directives"), ["Directive"]),
  (("FieldDefinition", "name"), ["Name"]),
  (("FieldDefinition", "type"), ["ListType", "NamedType", "NonNullType"]),
  (("FragmentDefinition", "directives"), ["Directive"]),
  (("FragmentDefinition", "name"), ["Name"]),
  (("FragmentDefinition", "selection_set"), ["SelectionSet"]),
  (("FragmentDefinition", "type_condition"), ["NamedType"]),
  (("FragmentDefinition", "variable_definitions"), ["VariableDefinition"]),
  (("FragmentSpread", "directives"), ["Directive"]),
  (("FragmentSpread", "name"), ["Name"]),
  (("InlineFragment", "directives"), ["Directive"]),
  (("InlineFragment", "selection_set"), ["SelectionSet"]),
  (("InlineFragment", "type_condition"), ["ListType", "NamedType", "NonNullType"]),
  (("InputObjectTypeDefinition", "description"), ["StringValue"]),
  (("InputObjectTypeDefinition", "directives"), ["Directive"]),
  (("InputObjectTypeDefinition", "fields"), ["InputValueDefinition"]),
  (("InputObjectTypeDefinition", "name"), ["Name"]),
  (("InputObjectTypeExtension", "directives"), ["Directive"]),
  (("InputObjectTypeExtension", "fields"), ["InputValueDefinition"]),
  (("InputObjectTypeExtension", "name"), ["Name"]),
  (("InputValueDefinition", "default_value"), ["BooleanValue", "EnumValue", "FloatValue", "IntValue", "ListValue", "NullValue", "ObjectValue", "StringValue"]),
  (("InputValueDefinition", "description"), ["StringValue"]),
  (("InputValueDefinition", "directives"), ["Directive"]),
  (("InputValueDefinition", "name"), ["Name"]),
  (("InputValueDefinition", "type"), ["ListType", "NamedType", "NonNullType"]),
  (("InterfaceTypeDefinition", "description"), ["StringValue"]),
  (("InterfaceTypeDefinition", "directives"), ["Directive"]),
  (("InterfaceTypeDefinition", "fields"), ["FieldDefinition"]),
  (("InterfaceTypeDefinition", "name"), ["Name"]),
  (("InterfaceTypeExtension", "directives"), ["Directive"]),
  (("InterfaceTypeExtension", "fields"), ["FieldDefinition"]),
  (("InterfaceTypeExtension", "name"), ["Name"]),
  (("ListType", "type"), ["ListType", "NamedType", "NonNullType"]),
  (("ListValue", "values"), ["BooleanValue", "EnumValue", "FloatValue", "IntValue", "ListValue", "NullValue", "ObjectValue", "StringValue", "Variable"]),
  (("NamedType", "name"), ["Name"]),
  (("NonNullType", "type"), ["ListType", "NamedType", "NonNullType"]),
  (("ObjectField", "name"), ["Name"]),
  (("ObjectField", "value"), ["BooleanValue", "EnumValue", "FloatValue", "IntValue", "ListValue", "NullValue", "ObjectValue", "StringValue", "Variable"]),
  (("ObjectTypeDefinition", "description"), ["StringValue"]),
  (("ObjectTypeDefinition", "directives"), ["Directive"]),
  (("ObjectTypeDefinition", "fields"), ["FieldDefinition"]),
  (("ObjectTypeDefinition", "interfaces"), ["NamedType"]),
  (("ObjectTypeDefinition", "name"), ["Name"]),
  (("ObjectTypeExtension", "directives"), ["Directive"]),
  (("ObjectTypeExtension", "fields"), ["FieldDefinition"]),
  (("ObjectTypeExtension", "interfaces"), ["NamedType"]),
  (("ObjectTypeExtension", "name"), ["Name"]),
  (("ObjectValue", "fields"), ["ObjectField"]),
  (("OperationDefinition", "directives"), ["Directive"]),
  (("OperationDefinition", "name"), ["Name"]),
  (("OperationDefinition", "selection_set"), ["SelectionSet"]),
  (("OperationDefinition", "variable_definitions"), ["VariableDefinition"]),
  (("OperationTypeDefinition", "type"), ["NamedType"]),
  (("ScalarTypeDefinition", "description"), ["StringValue"]),
  (("ScalarTypeDefinition", "directives"), ["Directive"]),
  (("ScalarTypeDefinition", "name"), ["Name"]),
  (("ScalarTypeExtension", "directives"), ["Directive"]),
  (("ScalarTypeExtension", "name"), ["Name"]),
  (("SchemaDefinition", "directives"), ["Directive"]),
  (("SchemaDefinition", "operation_types"), ["OperationTypeDefinition"]),
  (("SchemaExtension", "directives"), ["Directive"]),
  (("SchemaExtension", "operation_types"), ["OperationTypeDefinition"]),
  (("SelectionSet", "selections"), ["Field", "FragmentSpread", "InlineFragment"]),
  (("UnionTypeDefinition", "description"), ["StringValue"]),
  (("UnionTypeDefinition", "directives"), ["Directive"]),
  (("UnionTypeDefinition", "name"), ["Name"]),
  (("UnionTypeDefinition", "types"), ["NamedType"]),
  (("UnionTypeExtension", "directives"), ["Directive"]),
  (("UnionTypeExtension", "name"), ["Name"]),
  (("UnionTypeExtension", "types"), ["NamedType"]),
  (("Variable", "name"), ["Name"]),
  (("VariableDefinition", "default_value"), ["BooleanValue", "EnumValue", "FloatValue", "IntValue", "ListValue", "NullValue", "ObjectValue", "StringValue"]),
  (("VariableDefinition", "directives"), ["Directive"]),
  (("VariableDefinition", "type"), ["ListType", "NamedType", "NonNullType"]),
  (("VariableDefinition", "variable"), ["Variable"])
]

/-! witness documents, parsed by the real parser on this run (attribute `loc` dropped, ids = pre-order numbers) -/
/-- `query Q($v: [Int!] = 1 @d, $u: Int!) { ... on T { a } } fragment F($w: Int) on T { a }` -/
def witnessExec : Node :=
  .mk "Document" 0 [("definitions", .many [.mk "OperationDefinition" 1 [("operation", .scalar "\"query\""), ("name", .one (some (.mk "Name" 2 [("value", .scalar "\"Q\"")]))), ("variable_definitions", .many [.mk "VariableDefinition" 3 [("variable", .one (some (.mk "Variable" 4 [("name", .one (some (.mk "Name" 5 [("value", .scalar "\"v\"")])))]))), ("type", .one (some (.mk "ListType" 6 [("type", .one (some (.mk "NonNullType" 7 [("type", .one (some (.mk "NamedType" 8 [("name", .one (some (.mk "Name" 9 [("value", .scalar "\"Int\"")])))])))])))]))), ("default_value", .one (some (.mk "IntValue" 10 [("value", .scalar "\"1\"")]))), ("directives", .many [.mk "Directive" 11 [("name", .one (some (.mk "Name" 12 [("value", .scalar "\"d\"")]))), ("arguments", .many [])]])], .mk "VariableDefinition" 13 [("variable", .one (some (.mk "Variable" 14 [("name", .one (some (.mk "Name" 15 [("value", .scalar "\"u\"")])))]))), ("type", .one (some (.mk "NonNullType" 16 [("type", .one (some (.mk "NamedType" 17 [("name", .one (some (.mk "Name" 18 [("value", .scalar "\"Int\"")])))])))]))), ("default_value", .one none), ("directives", .many [])]]), ("directives", .many []), ("selection_set", .one (some (.mk "SelectionSet" 19 [("selections", .many [.mk "InlineFragment" 20 [("type_condition", .one (some (.mk "NamedType" 21 [("name", .one (some (.mk "Name" 22 [("value", .scalar "\"T\"")])))]))), ("directives", .many []), ("selection_set", .one (some (.mk "SelectionSet" 23 [("selections", .many [.mk "Field" 24 [("name", .one (some (.mk "Name" 25 [("value", .scalar "\"a\"")]))), ("alias", .one none), ("arguments", .many []), ("directives", .many []), ("selection_set", .one none)]])])))]])])))], .mk "FragmentDefinition" 26 [("name", .one (some (.mk "Name" 27 [("value", .scalar "\"F\"")]))), ("variable_definitions", .many [.mk "VariableDefinition" 28 [("variable", .one (some (.mk "Variable" 29 [("name", .one (some (.mk "Name" 30 [("value", .scalar "\"w\"")])))]))), ("type", .one (some (.mk "NamedType" 31 [("name", .one (some (.mk "Name" 32 [("value", .scalar "\"Int\"")])))]))), ("default_value", .one none), ("directives", .many [])]]), ("type_condition", .one (some (.mk "NamedType" 33 [("name", .one (some (.mk "Name" 34 [("value", .scalar "\"T\"")])))]))), ("directives", .many []), ("selection_set", .one (some (.mk "SelectionSet" 35 [("selections", .many [.mk "Field" 36 [("name", .one (some (.mk "Name" 37 [("value", .scalar "\"a\"")]))), ("alias", .one none), ("arguments", .many []), ("directives", .many []), ("selection_set", .one none)]])])))]])]

/-- `schema @d { query: Q } "sd" scalar S "td" type T { "fd" f("ad" x: Int = 1): Int } "id" interface I { f: Int } "ud" union U = T "ed" enum E { "vd" A } "nd" input N { "xd" x: Int } "dd" directive @d on FIELD` -/
def witnessSdl : Node :=
  .mk "Document" 0 [("definitions", .many [.mk "SchemaDefinition" 1 [("directives", .many [.mk "Directive" 2 [("name", .one (some (.mk "Name" 3 [("value", .scalar "\"d\"")]))), ("arguments", .many [])]]), ("operation_types", .many [.mk "OperationTypeDefinition" 4 [("operation", .scalar "\"query\""), ("type", .one (some (.mk "NamedType" 5 [("name", .one (some (.mk "Name" 6 [("value", .scalar "\"Q\"")])))])))]])], .mk "ScalarTypeDefinition" 7 [("description", .one (some (.mk "StringValue" 8 [("value", .scalar "\"sd\""), ("block", .scalar "false")]))), ("name", .one (some (.mk "Name" 9 [("value", .scalar "\"S\"")]))), ("directives", .many [])], .mk "ObjectTypeDefinition" 10 [("description", .one (some (.mk "StringValue" 11 [("value", .scalar "\"td\""), ("block", .scalar "false")]))), ("name", .one (some (.mk "Name" 12 [("value", .scalar "\"T\"")]))), ("interfaces", .many []), ("directives", .many []), ("fields", .many [.mk "FieldDefinition" 13 [("description", .one (some (.mk "StringValue" 14 [("value", .scalar "\"fd\""), ("block", .scalar "false")]))), ("name", .one (some (.mk "Name" 15 [("value", .scalar "\"f\"")]))), ("arguments", .many [.mk "InputValueDefinition" 16 [("description", .one (some (.mk "StringValue" 17 [("value", .scalar "\"ad\""), ("block", .scalar "false")]))), ("name", .one (some (.mk "Name" 18 [("value", .scalar "\"x\"")]))), ("type", .one (some (.mk "NamedType" 19 [("name", .one (some (.mk "Name" 20 [("value", .scalar "\"Int\"")])))]))), ("default_value", .one (some (.mk "IntValue" 21 [("value", .scalar "\"1\"")]))), ("directives", .many [])]]), ("type", .one (some (.mk "NamedType" 22 [("name", .one (some (.mk "Name" 23 [("value", .scalar "\"Int\"")])))]))), ("directives", .many [])]])], .mk "InterfaceTypeDefinition" 24 [("description", .one (some (.mk "StringValue" 25 [("value", .scalar "\"id\""), ("block", .scalar "false")]))), ("name", .one (some (.mk "Name" 26 [("value", .scalar "\"I\"")]))), ("directives", .many []), ("fields", .many [.mk "FieldDefinition" 27 [("description", .one none), ("name", .one (some (.mk "Name" 28 [("value", .scalar "\"f\"")]))), ("arguments", .many []), ("type", .one (some (.mk "NamedType" 29 [("name", .one (some (.mk "Name" 30 [("value", .scalar "\"Int\"")])))]))), ("directives", .many [])]])], .mk "UnionTypeDefinition" 31 [("description", .one (some (.mk "StringValue" 32 [("value", .scalar "\"ud\""), ("block", .scalar "false")]))), ("name", .one (some (.mk "Name" 33 [("value", .scalar "\"U\"")]))), ("directives", .many []), ("types", .many [.mk "NamedType" 34 [("name", .one (some (.mk "Name" 35 [("value", .scalar "\"T\"")])))]])], .mk "EnumTypeDefinition" 36 [("description", .one (some (.mk "StringValue" 37 [("value", .scalar "\"ed\""), ("block", .scalar "false")]))), ("name", .one (some (.mk "Name" 38 [("value", .scalar "\"E\"")]))), ("directives", .many []), ("values", .many [.mk "EnumValueDefinition" 39 [("description", .one (some (.mk "StringValue" 40 [("value", .scalar "\"vd\""), ("block", .scalar "false")]))), ("name", .one (some (.mk "Name" 41 [("value", .scalar "\"A\"")]))), ("directives", .many [])]])], .mk "InputObjectTypeDefinition" 42 [("description", .one (some (.mk "StringValue" 43 [("value", .scalar "\"nd\""), ("block", .scalar "false")]))), ("name", .one (some (.mk "Name" 44 [("value", .scalar "\"N\"")]))), ("directives", .many []), ("fields", .many [.mk "InputValueDefinition" 45 [("description", .one (some (.mk "StringValue" 46 [("value", .scalar "\"xd\""), ("block", .scalar "false")]))), ("name", .one (some (.mk "Name" 47 [("value", .scalar "\"x\"")]))), ("type", .one (some (.mk "NamedType" 48 [("name", .one (some (.mk "Name" 49 [("value", .scalar "\"Int\"")])))]))), ("default_value", .one none), ("directives", .many [])]])], .mk "DirectiveDefinition" 50 [("description", .one (some (.mk "StringValue" 51 [("value", .scalar "\"dd\""), ("block", .scalar "false")]))), ("name", .one (some (.mk "Name" 52 [("value", .scalar "\"d\"")]))), ("arguments", .many []), ("locations", .many [.mk "Name" 53 [("value", .scalar "\"FIELD\"")]])]])]

/-- `{ a(x: 1) @d b { c } }` -/
def witnessSmall : Node :=
  .mk "Document" 0 [("definitions", .many [.mk "OperationDefinition" 1 [("operation", .scalar "\"query\""), ("name", .one none), ("variable_definitions", .many []), ("directives", .many []), ("selection_set", .one (some (.mk "SelectionSet" 2 [("selections", .many [.mk "Field" 3 [("name", .one (some (.mk "Name" 4 [("value", .scalar "\"a\"")]))), ("alias", .one none), ("arguments", .many [.mk "Argument" 5 [("name", .one (some (.mk "Name" 6 [("value", .scalar "\"x\"")]))), ("value", .one (some (.mk "IntValue" 7 [("value", .scalar "\"1\"")])))]]), ("directives", .many [.mk "Directive" 8 [("name", .one (some (.mk "Name" 9 [("value", .scalar "\"d\"")]))), ("arguments", .many [])]]), ("selection_set", .one none)], .mk "Field" 10 [("name", .one (some (.mk "Name" 11 [("value", .scalar "\"b\"")]))), ("alias", .one none), ("arguments", .many []), ("directives", .many []), ("selection_set", .one (some (.mk "SelectionSet" 12 [("selections", .many [.mk "Field" 13 [("name", .one (some (.mk "Name" 14 [("value", .scalar "\"c\"")]))), ("alias", .one none), ("arguments", .many []), ("directives", .many []), ("selection_set", .one none)]])])))]])])))]])]

/-- `{ id name id friends { id } id }` -/
def witnessDup : Node :=
  .mk "Document" 0 [("definitions", .many [.mk "OperationDefinition" 1 [("operation", .scalar "\"query\""), ("name", .one none), ("variable_definitions", .many []), ("directives", .many []), ("selection_set", .one (some (.mk "SelectionSet" 2 [("selections", .many [.mk "Field" 3 [("name", .one (some (.mk "Name" 4 [("value", .scalar "\"id\"")]))), ("alias", .one none), ("arguments", .many []), ("directives", .many []), ("selection_set", .one none)], .mk "Field" 5 [("name", .one (some (.mk "Name" 6 [("value", .scalar "\"name\"")]))), ("alias", .one none), ("arguments", .many []), ("directives", .many []), ("selection_set", .one none)], .mk "Field" 7 [("name", .one (some (.mk "Name" 8 [("value", .scalar "\"id\"")]))), ("alias", .one none), ("arguments", .many []), ("directives", .many []), ("selection_set", .one none)], .mk "Field" 9 [("name", .one (some (.mk "Name" 10 [("value", .scalar "\"friends\"")]))), ("alias", .one none), ("arguments", .many []), ("directives", .many []), ("selection_set", .one (some (.mk "SelectionSet" 11 [("selections", .many [.mk "Field" 12 [("name", .one (some (.mk "Name" 13 [("value", .scalar "\"id\"")]))), ("alias", .one none), ("arguments", .many []), ("directives", .many []), ("selection_set", .one none)]])])))], .mk "Field" 14 [("name", .one (some (.mk "Name" 15 [("value", .scalar "\"id\"")]))), ("alias", .one none), ("arguments", .many []), ("directives", .many []), ("selection_set", .one none)]])])))]])]


end PyGql.Generated.VisitTable

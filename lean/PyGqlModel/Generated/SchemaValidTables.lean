/- GENERATED on every run by harness (py2lean.py) from src/py_gql/schema/validation.py (VALID_NAME_RE, add_error call sites).
   Do not edit: the check rewrites this file from /repo's working tree. -/

namespace PyGql.Generated.SchemaValidTables

def validNamePattern : String := "^(?!__)[_a-zA-Z][_a-zA-Z0-9]*\\Z"
/-- the negative look-ahead `(?!..)` -/
def nameForbiddenPrefix : List Nat := [95, 95]
def nameStart (c : Nat) : Bool := c == 95 || (97 ≤ c && c ≤ 122) || (65 ≤ c && c ≤ 90)
def nameCont (c : Nat) : Bool := c == 95 || (97 ≤ c && c ≤ 122) || (65 ≤ c && c ≤ 90) || (48 ≤ c && c ≤ 57)
/-- the pattern ends with `$` (which also matches before one trailing newline) instead of `\Z` -/
def nameDollarQuirk : Bool := false

/-- (rule id, format strings of its `add_error` call sites) -/
def ruleFormats : List (String × List String) := [
  ("argNotInput", ["Expected input type for argument \"%s\" on \"%s\" but got \"%s\""]),
  ("dirArgNotInput", ["Expected input type for argument \"%s\" on directive \"%s\" but got \"%s\""]),
  ("dirDupArg", ["Duplicate argument \"%s\" on directive \"%s\""]),
  ("dupArg", ["Duplicate argument \"%s\" on \"%s\""]),
  ("dupField", ["Duplicate field \"%s\" on \"%s\""]),
  ("dupInterface", ["Type \"%s\" mut only implement interface \"%s\" once"]),
  ("enumEmpty", ["EnumType \"%s\" must at least define one value"]),
  ("extraRequiredArg", ["Object field argument \"%s\" is of required type \"%s\" but is not provided by interface field \"%s\""]),
  ("fieldNotOutput", ["Expected output type for field \"%s\" on \"%s\" but got \"%s\""]),
  ("ifaceArgMissing", ["Interface field argument \"%s\" is not provided by \"%s\""]),
  ("ifaceArgType", ["Interface field argument \"%s\" expects type \"%s\" but \"%s\" is type \"%s\""]),
  ("ifaceFieldMissing", ["Interface field \"%s\" is not implemented by type \"%s\""]),
  ("ifaceFieldType", ["Interface field \"%s\" expects type \"%s\" but \"%s\" is type \"%s\""]),
  ("inputFieldNotInput", ["Expected input type for field \"%s\" on \"%s\" but got \"%s\""]),
  ("invalidName", ["Invalid name \"%s\"."]),
  ("invalidTypeName", ["Invalid type name \"%s\""]),
  ("mutationNotObject", ["Mutation must be ObjectType but got \"%s\""]),
  ("noFields", ["Type \"%s\" must define at least one field"]),
  ("noQuery", ["Must provide Query type"]),
  ("notInterface", ["Type \"%s\" can only implement interface types but got \"%s\""]),
  ("queryNotObject", ["Query must be ObjectType but got \"%s\""]),
  ("resExtraRequired", ["Required resolver parameter \"%s\" on \"%s\" does not match any known argument or expected positional parameter"]),
  ("resMissingParam", ["Missing resolver parameter for argument \"%s\" on \"%s\""]),
  ("resNeedsDefault", ["Resolver parameter for optional argument \"%s\" on \"%s\" must have a default"]),
  ("resPosOnly", ["Resolver parameter for argument \"%s\" on \"%s\" must not be positional only"]),
  ("resPositional", ["Resolver for \"%s\" must accept 3 positional parameters, found (%s"]),
  ("subscriptionNotObject", ["Subscription must be ObjectType but got \"%s\""]),
  ("unionDup", ["UnionType \"%s\" can only include type \"%s\" once"]),
  ("unionEmpty", ["UnionType \"%s\" must at least define one member"]),
  ("unionMemberNotObject", ["UnionType \"%s\" expects object types but got \"%s\""])
]

/-- `_replace_types_and_directives`: `busted_cache = busted_cache or ...` in the type loop (T3 fix) -/
def replaceAccumulates : Bool := true
/-- `_replace_types_and_directives` performs every refusal before the first mutation (fix C13-T3b) -/
def replaceAtomic : Bool := true
/-- a replaced / added / removed directive busts the caches (fix C13-T3b) -/
def replaceDirectivesBust : Bool := true
def specifiedDirectives : List String := ["include", "skip", "deprecated"]

/-- the proposed fix C13-S4-S6 is present in the working tree -/
def fixS4S6 : Bool := true
end PyGql.Generated.SchemaValidTables

/- GENERATED on every run by harness (py2lean.py) from src/py_gql/schema/validation.py (VALID_NAME_RE, add_error call sites).
   Do not edit: the check rewrites this file from /repo's working tree. -/

namespace PyGql.Generated.SchemaValidTables

def validNamePattern : String := "^(?!__)[_a-zA-Z][_a-zA-Z0-9]*\\Z"
/-- the negative look-ahead `(?!..)` -/
def nameForbiddenPrefix : List Nat := [95, 95]
def nameStart (c : Nat) : Bool := c == 95 || (97 ≤ c && c ≤ 122) || (65 ≤ c && c ≤ 90)
def nameCont (c : Nat) : Bool := c == 95 || (97 ≤ c && c ≤ 122) || (65 ≤ c && c ≤ 90) || (48 ≤ c && c ≤ 57)
/-- the pattern ends with `$` (which also matches before one trailing newline) instead of `\Z` -/
def nameDollarQuirk : Bool := false

/-- (rule id, format strings of its `add_error` call sites) -/
def ruleFormats : List (String × List String) := [
  ("invalidName", ["Invalid name \"%s\"."]),
  ("invalidTypeName", ["Invalid type name \"%s\""]),
  ("noQuery", ["Must provide Query type"]),
  ("queryNotObject", ["Query must be ObjectType but got \"%s\""]),
  ("mutationNotObject", ["Mutation must be ObjectType but got \"%s\""]),
  ("subscriptionNotObject", ["Subscription must be ObjectType but got \"%s\""]),
  ("notDirective", ["Expected Directive but got %r"]),
  ("dirDupArg", ["Duplicate argument \"%s\" on directive \"@%s\""]),
  ("dirArgNotInput", ["Expected input type for argument \"%s\" on directive \"@%s\" but got \"%s\""]),
  ("dirArgDefault", ["Invalid default value for argument \"%s\" on directive \"@%s\": %s"]),
  ("noFields", ["Type \"%s\" must define at least one field"]),
  ("dupField", ["Duplicate field \"%s\" on \"%s\""]),
  ("fieldNotOutput", ["Expected output type for field \"%s\" on \"%s\" but got \"%s\""]),
  ("dupArg", ["Duplicate argument \"%s\" on \"%s\""]),
  ("argNotInput", ["Expected input type for argument \"%s\" on \"%s\" but got \"%s\""]),
  ("argDefault", ["Invalid default value for argument \"%s\" on \"%s\": %s"]),
  ("resNotCallable", ["Resolver for \"%s\" is not callable"]),
  ("resPositional", ["Resolver for \"%s\" must accept 3 positional parameters, found (%s)"]),
  ("resCollides", ["Argument \"%s\" on \"%s\" collides with a positional resolver parameter"]),
  ("resPosOnly", ["Resolver parameter for argument \"%s\" on \"%s\" must not be positional only"]),
  ("resMissingParam", ["Missing resolver parameter for argument \"%s\" on \"%s\""]),
  ("resNeedsDefault", ["Resolver parameter for optional argument \"%s\" on \"%s\" must have a default"]),
  ("resExtraRequired", ["Required resolver parameter \"%s\" on \"%s\" does not match any known argument or expected positional parameter"]),
  ("notInterface", ["Type \"%s\" can only implement interface types but got \"%s\""]),
  ("dupInterface", ["Type \"%s\" mut only implement interface \"%s\" once"]),
  ("ifaceFieldMissing", ["Interface field \"%s\" is not implemented by type \"%s\""]),
  ("ifaceFieldType", ["Interface field \"%s\" expects type \"%s\" but \"%s\" is type \"%s\""]),
  ("ifaceArgMissing", ["Interface field argument \"%s.%s\" is not provided by \"%s\""]),
  ("ifaceArgType", ["Interface field argument \"%s.%s\" expects type \"%s\" but \"%s.%s\" is type \"%s\""]),
  ("extraRequiredArg", ["Object field argument \"%s.%s\" is of required type \"%s\" but is not provided by interface field \"%s\""]),
  ("unionEmpty", ["UnionType \"%s\" must at least define one member"]),
  ("unionMemberNotObject", ["UnionType \"%s\" expects object types but got \"%s\""]),
  ("unionDup", ["UnionType \"%s\" can only include type \"%s\" once"]),
  ("enumEmpty", ["EnumType \"%s\" must at least define one value"]),
  ("enumNotValue", ["Enum \"%s\" expects value to be EnumValue but got \"%s\""]),
  ("enumValueNone", ["Enum value \"%s.%s\" cannot have None as its internal value"]),
  ("inputFieldNotInput", ["Expected input type for field \"%s\" on \"%s\" but got \"%s\""]),
  ("inputFieldDefault", ["Invalid default value for field \"%s\" on \"%s\": %s"])
]

/-- `_replace_types_and_directives`: `busted_cache = busted_cache or ...` in the type loop (T3 fix) -/
def replaceAccumulates : Bool := true
/-- `_replace_types_and_directives` performs every refusal before the first mutation (fix C13-T3b) -/
def replaceAtomic : Bool := true
/-- a replaced / added / removed directive busts the caches (fix C13-T3b) -/
def replaceDirectivesBust : Bool := true
def specifiedDirectives : List String := ["include", "skip", "deprecated"]

/-- shape of `SchemaValidator` (see `validator_config` in harness/corr/C13_extract.py) -/
def cfgMaskTypeName : Bool := false
def cfgMaskDuplicate : Bool := false
def cfgMaskImplType : Bool := false
def cfgPreciseResolver : Bool := true
def cfgExtraArgRequired : Bool := true
def cfgSubscriptionChecked : Bool := true
def cfgCatchesTypeError : Bool := true
def cfgIfaceResolverChecked : Bool := false
def cfgNotCallableReported : Bool := true
def cfgDefaultsChecked : Bool := true
def cfgEnumNoneReported : Bool := true
/-- `Schema.validate()` only trusts the cached verdict for the resolver callables it was computed with (fix C13-HH1) -/
def cfgCacheTracksAssignments : Bool := true
/-- the cached verdict also stands for the ARGUMENTS of every field it was computed with (fix C13-HHH3) -/
def cfgCacheTracksArguments : Bool := true
/-- the cached verdict stands for everything the validator reads: root types, names, members, directives (fix C13-S12) -/
def cfgCacheTracksStructure : Bool := true
/-- the resolver-signature rule inspects the callable itself, not what it `functools.wraps` (fix C13-HH2) -/
def cfgOuterSignature : Bool := true

/-- the proposed fix C13-S4-S6 is present in the working tree -/
def fixS4S6 : Bool := true
end PyGql.Generated.SchemaValidTables

/- GENERATED on every run by harness (py2lean.py) from src/py_gql/_string_utils.py (parse_block_string).
   Do not edit: the check rewrites this file from /repo's working tree. -/
/- Translated by py2lean.Tr. Constructs used and how they were read:
     * enumerate
     * for -> structural recursion on the sequence
     * index (IndexError explicit)
     * item assignment (IndexError explicit)
     * list.pop (IndexError explicit)
     * slice
     * str.join
     * str.lstrip(literal set)
     * while -> recursion on explicit fuel (OutOfFuel is an exception)
   Types: str -> List Nat (code points), int -> Int, one character -> Nat; result `Except String _`,
   the string being the class of the exception raised. See lean/PyGqlModel/PyPrelude.lean. -/
import PyGqlModel.PyPrelude
set_option linter.unusedVariables false
namespace PyGql.Generated.Tr
open PyGql

/-
def parse_block_string(raw_string: str) -> str:
    """
    Parse a block string.

    Parsing is done according to the GraphQL spec's BlockStringValue()
    http://facebook.github.io/graphql/draft/#BlockStringValue() static algorithm.
    This is similar to Coffeescript's block string, Python's inspect.cleandoc or
    Ruby's strip_heredoc.

    Compared to Python's default behavior, this does not remove leading
    whitespace from the first line.

    Args:
        raw_string (str): Input string.

    Returns:
        str: Parsed block string.

    """
    lines = LINE_SEPARATOR.split(raw_string)

    common_indent = sys.maxsize

    for line in lines[1:]:
        inner_len = len(line.lstrip(" \t"))
        if inner_len:
            common_indent = min(common_indent, len(line) - inner_len)

    if common_indent < sys.maxsize:
        for i, line in enumerate(lines[1:]):
            lines[i + 1] = line[common_indent:]

    while lines and (not lines[0].lstrip(" \t")):
        lines.pop(0)

    while lines and (not lines[-1].lstrip(" \t")):
        lines.pop()

    return "\n".join(lines)
-/
def parse_block_string.loop1 (lines : List (List Nat)) : (List (List Nat)) → Int → Py.Flow String Int (List Nat)
  | [], common_indent => .fall common_indent
  | line :: rest__, common_indent =>
    (let inner_len := (Py.len (Py.lstrip line [32, 9]))
     (if (inner_len != 0) then
       (let common_indent := (Py.imin common_indent ((Py.len line) - inner_len))
        (parse_block_string.loop1 lines rest__ common_indent))
     else
       (parse_block_string.loop1 lines rest__ common_indent)))

def parse_block_string.loop2 (common_indent : Int) : (List (Int × (List Nat))) → (List (List Nat)) → Py.Flow String ((List (List Nat))) (List Nat)
  | [], lines => .fall lines
  | (i, line) :: rest__, lines =>
    (match (Py.setItem lines (i + (1 : Int)) (Py.sliceFrom line common_indent)) with
      | .error e__ => (.raise e__)
      | .ok lines =>
        (parse_block_string.loop2 common_indent rest__ lines))

def parse_block_string.while3 : Nat → (List (List Nat)) → Py.Flow String ((List (List Nat))) (List Nat)
  | 0, lines => .raise "OutOfFuel"
  | fuel__ + 1, lines =>
    (match (let t4__ := (!(lines).isEmpty); (if t4__ then (match (match (match (Py.getItem lines (0 : Int)) with | .error e__ => Except.error e__ | .ok t1__ => (Except.ok (Py.lstrip t1__ [32, 9]) : Except String _)) with | .error e__ => Except.error e__ | .ok t2__ => (Except.ok (!(t2__).isEmpty) : Except String _)) with | .error e__ => Except.error e__ | .ok t3__ => (Except.ok (!t3__) : Except String _)) else (Except.ok false : Except String _))) with
      | .error e__ => (.raise e__)
      | .ok t5__ =>
        (if t5__ then
          (match (Py.pop0 lines) with
            | .error e__ => (.raise e__)
            | .ok (_, lines) =>
              (parse_block_string.while3 fuel__ lines))
        else
          (.fall lines)))

def parse_block_string.while4 : Nat → (List (List Nat)) → Py.Flow String ((List (List Nat))) (List Nat)
  | 0, lines => .raise "OutOfFuel"
  | fuel__ + 1, lines =>
    (match (let t9__ := (!(lines).isEmpty); (if t9__ then (match (match (match (Py.getItem lines (-(1 : Int))) with | .error e__ => Except.error e__ | .ok t6__ => (Except.ok (Py.lstrip t6__ [32, 9]) : Except String _)) with | .error e__ => Except.error e__ | .ok t7__ => (Except.ok (!(t7__).isEmpty) : Except String _)) with | .error e__ => Except.error e__ | .ok t8__ => (Except.ok (!t8__) : Except String _)) else (Except.ok false : Except String _))) with
      | .error e__ => (.raise e__)
      | .ok t10__ =>
        (if t10__ then
          (match (Py.popLast lines) with
            | .error e__ => (.raise e__)
            | .ok (_, lines) =>
              (parse_block_string.while4 fuel__ lines))
        else
          (.fall lines)))

def parse_block_string (raw_string : List Nat) : Except String (List Nat) :=
  (let lines := (Py.lineSepSplit raw_string)
   (let common_indent := (9223372036854775807 : Int)
    (match (parse_block_string.loop1 lines (Py.sliceFrom lines (1 : Int)) common_indent) with
      | .ret r__ => (.ok r__)
      | .raise e__ => (.error e__)
      | .fall common_indent =>
        (if (decide (common_indent < (9223372036854775807 : Int))) then
          (match (parse_block_string.loop2 common_indent (Py.enumerate (Py.sliceFrom lines (1 : Int))) lines) with
            | .ret r__ => (.ok r__)
            | .raise e__ => (.error e__)
            | .fall lines =>
              (match (parse_block_string.while3 (((Py.len lines) + (1 : Int))).toNat lines) with
                | .ret r__ => (.ok r__)
                | .raise e__ => (.error e__)
                | .fall lines =>
                  (match (parse_block_string.while4 (((Py.len lines) + (1 : Int))).toNat lines) with
                    | .ret r__ => (.ok r__)
                    | .raise e__ => (.error e__)
                    | .fall lines =>
                      (.ok (Py.join [10] lines)))))
        else
          (match (parse_block_string.while3 (((Py.len lines) + (1 : Int))).toNat lines) with
            | .ret r__ => (.ok r__)
            | .raise e__ => (.error e__)
            | .fall lines =>
              (match (parse_block_string.while4 (((Py.len lines) + (1 : Int))).toNat lines) with
                | .ret r__ => (.ok r__)
                | .raise e__ => (.error e__)
                | .fall lines =>
                  (.ok (Py.join [10] lines))))))))

end PyGql.Generated.Tr

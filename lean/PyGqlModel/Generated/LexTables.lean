/- GENERATED on every run by harness/corr/C01_lex.py from src/py_gql/lang/lexer.py — do not edit. -/
namespace PyGql.Generated.LexTables

/-- `IGNORED_CHARS` (code points, source order) -/
def ignoredChars : List Nat := [10, 13, 65279, 9, 32, 44]

/-- `SYMBOLS`: character → token class name -/
def symbols : List (Nat × String) := [
  (33, "ExclamationMark"),
  (36, "Dollar"),
  (40, "ParenOpen"),
  (41, "ParenClose"),
  (91, "BracketOpen"),
  (93, "BracketClose"),
  (123, "CurlyOpen"),
  (125, "CurlyClose"),
  (58, "Colon"),
  (61, "Equals"),
  (64, "At"),
  (124, "Pipe"),
  (38, "Ampersand")
]

/-- `QUOTED_CHARS`: escape character → decoded character -/
def quotedChars : List (Nat × Nat) := [(34, 34), (92, 92), (47, 47), (98, 8), (102, 12), (110, 10), (114, 13), (116, 9)]

/-- the character sets the lexer tests membership in (`string.digits`, `string.hexdigits`, `string.ascii_letters`) -/
def digits : List Nat := [48, 49, 50, 51, 52, 53, 54, 55, 56, 57]
def hexdigits : List Nat := [48, 49, 50, 51, 52, 53, 54, 55, 56, 57, 97, 98, 99, 100, 101, 102, 65, 66, 67, 68, 69, 70]
def asciiLetters : List Nat := [97, 98, 99, 100, 101, 102, 103, 104, 105, 106, 107, 108, 109, 110, 111, 112, 113, 114, 115, 116, 117, 118, 119, 120, 121, 122, 65, 66, 67, 68, 69, 70, 71, 72, 73, 74, 75, 76, 77, 78, 79, 80, 81, 82, 83, 84, 85, 86, 87, 88, 89, 90]

end PyGql.Generated.LexTables

/- GENERATED on every run by harness (py2lean.py) from src/py_gql/utilities/collect_fields.py (_skip_selection, _fragment_type_applies).
   Do not edit: the check rewrites this file from /repo's working tree. -/
/- Translated by py2lean.Tr. Constructs used and how they were read:
     * d[key] on an optional record (TypeError on None explicit)
   Types: str -> List Nat (code points), int -> Int, one character -> Nat; result `Except String _`,
   the string being the class of the exception raised. See lean/PyGqlModel/PyPrelude.lean. -/
/- Abstracted over their environment: `directive_arguments(D, node, variables=...)` (D = SkipDirective / IncludeDirective,
   passed as the directive NAME) returns the coerced `if` argument or None; `schema.get_type_from_literal`,
   `isinstance(_, GraphQLAbstractType)`, `schema.is_possible_type` are parameters; `fragment.type_condition` is the
   parameter `type_condition`; exceptions of the callees have the abstract type ε. -/
import PyGqlModel.PyPrelude
set_option linter.unusedVariables false
namespace PyGql.Generated.Tr
open PyGql

/-
def _skip_selection(
    node: Union[ast.Field, ast.InlineFragment, ast.FragmentSpread],
    variables: Mapping[str, Any],
) -> bool:
    skip = directive_arguments(SkipDirective, node, variables=variables)
    include = directive_arguments(IncludeDirective, node, variables=variables)
    skipped = skip is not None and skip["if"]
    included = include is None or include["if"]
    return skipped or (not included)
-/
def _skip_selection {ε N V : Type} (exc : String → ε) (directive_arguments : String → N → V → Except ε (Option Bool)) (node : N) (variables : V) : Except ε Bool :=
  (match (directive_arguments "skip" node variables) with
    | .error e__ => (.error e__)
    | .ok skip =>
      (match (directive_arguments "include" node variables) with
        | .error e__ => (.error e__)
        | .ok include_ =>
          (match (let t2__ := (skip).isSome; (if t2__ then (match (Py.mapErr exc (Py.optGet skip)) with | .error e__ => Except.error e__ | .ok t1__ => (Except.ok t1__ : Except ε _)) else (Except.ok false : Except ε _))) with
            | .error e__ => (.error e__)
            | .ok skipped =>
              (match (let t4__ := (include_).isNone; (if t4__ then (Except.ok true : Except ε _) else (match (Py.mapErr exc (Py.optGet include_)) with | .error e__ => Except.error e__ | .ok t3__ => (Except.ok t3__ : Except ε _)))) with
                | .error e__ => (.error e__)
                | .ok included =>
                  (.ok (skipped || (!included)))))))

/-
def _fragment_type_applies(
    schema: Schema,
    object_type: ObjectType,
    fragment: Union[ast.InlineFragment, ast.FragmentDefinition],
) -> bool:
    type_condition = fragment.type_condition
    if not type_condition:
        return True

    fragment_type = schema.get_type_from_literal(type_condition)
    return (fragment_type == object_type) or (
        isinstance(fragment_type, GraphQLAbstractType)
        and schema.is_possible_type(fragment_type, object_type)
    )
-/
def _fragment_type_applies {ε T C : Type} [BEq T] (exc : String → ε) (get_type_from_literal : Option C → Except ε T) (isAbstract : T → Bool) (is_possible_type : T → T → Bool) (object_type : T) (type_condition : Option C) : Except ε Bool :=
  (let type_condition := type_condition
   (if (!(type_condition).isSome) then
     (.ok true)
   else
     (match (get_type_from_literal type_condition) with
       | .error e__ => (.error e__)
       | .ok fragment_type =>
         (.ok ((fragment_type == object_type) || (((isAbstract fragment_type)) && (is_possible_type fragment_type object_type)))))))

end PyGql.Generated.Tr

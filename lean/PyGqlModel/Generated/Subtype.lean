/- GENERATED on every run by harness (py2lean.py) from src/py_gql/schema/schema.py (Schema.is_subtype).
   Do not edit: the check rewrites this file from /repo's working tree. -/

import PyGqlModel.Ty
set_option linter.unusedVariables false
namespace PyGql.Generated.Subtype
open PyGql

/-- one unfolding of `Schema.is_subtype(type_, super_type)`; `isinstance(·, GraphQLAbstractType)`,
    `isinstance(·, ObjectType)` and `self.is_possible_type` are parameters -/
def isSubtypeStep (isAbstract isObject : Ty → Bool) (isPossible : Ty → Ty → Bool) (recSub : Ty → Ty → Bool) (type_ super_type : Ty) : Bool :=
  (if (type_ == super_type) then true else (if ((type_.isList || type_.isNonNull) && (super_type.isList || super_type.isNonNull) && (Ty.sameCtor type_ super_type)) then (recSub type_.inner super_type.inner) else (if type_.isNonNull then (recSub type_.inner super_type) else (if type_.isList then false else ((isAbstract super_type) && (isObject type_) && (isPossible super_type type_))))))

end PyGql.Generated.Subtype

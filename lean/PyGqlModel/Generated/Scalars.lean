/- GENERATED on every run by harness/corr/C07.py from src/py_gql/schema/scalars.py.
   Do not edit: the check rewrites this file from /repo's working tree. -/

namespace PyGql.Generated.Scalars

def MAX_INT : Int := 2147483647
def MIN_INT : Int := -2147483648

/-- `coerce_int` raises when `not (MIN_INT <= numeric <= MAX_INT)` holds; this is its negation: `numeric` is accepted. -/
def intInRange (numeric : Int) : Bool := (!(!(decide (MIN_INT ≤ numeric) && decide (numeric ≤ MAX_INT))))

/-- `coerce_float` raises on `numeric = float(x)` when `numeric != numeric or numeric in (float("inf"), float("-inf"))` (evaluated on representatives
    of each class): finite values / the infinities / NaN. -/
def floatRejectsFinite : Bool := false
def floatRejectsInf : Bool := true
def floatRejectsNaN : Bool := true

/-- the `if / elif` chain of `coerce_int`, in source order: (what is tested, what the branch does). `bool` is a subclass of
    `int`, so a JSON boolean takes the first branch. -/
def coerceIntBranches : List (String × String) := [("int", "int()"), ("float", "int-if-equal-guarded"), ("None", "raise"), ("str", "int10-else-integral-float"), ("else", "raise")]

/-- `coerce_float`: the `try` around `float(x)` turns OverflowError (an int too large for a double) into ValueError -/
def floatCatchesOverflow : Bool := true

/-- value_from_ast raises InvalidValue before `parse_literal` when `not isinstance( node, ( _ast.IntValue, _ast.FloatValue, _ast.StringValue, _ast.BooleanValue, ), ) and ( type_ in SPECIFIED_SCALAR_TYPES or type_._parse_literal is None )`:
    a custom scalar that brought its OWN parse_literal is handed every kind of literal (list / object / enum / null inside). -/
def customOwnParseLiteralTakesAnyLiteral : Bool := true

/-- `default_scalar(...)`: `parse=_transparent`; observed on the live function: NaN / +-Infinity, at the top level and nested in lists / dicts,
    are refused (ValueError), finite values pass. -/
def defaultScalarParseRejectsNonFinite : Bool := true

/-- `default_scalar`'s `parse_literal` hands the variables on to `_untyped_literal`, which has a `Variable` branch (fix C06-H7) -/
def standInLiteralSeesVariables : Bool := true

/-- literal kinds admitted by each specified scalar's `parse_literal` (`_typed_coerce(f, *node classes)`) -/
def literalKinds : List (String × List String) := [
  ("Int", ["int"]),
  ("Float", ["float", "int"]),
  ("String", ["str"]),
  ("Boolean", ["bool"]),
  ("ID", ["str", "int"])
]

end PyGql.Generated.Scalars

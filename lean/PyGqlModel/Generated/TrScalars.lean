/- GENERATED on every run by harness (py2lean.py) from src/py_gql/schema/scalars.py (coerce_int, coerce_float).
   Do not edit: the check rewrites this file from /repo's working tree. -/
/- Translated by py2lean.Tr. Constructs used and how they were read:
     * expression read through the spec's table: maybe_float == ''
     * expression read through the spec's table: maybe_float is None
     * expression read through the spec's table: maybe_int is None
     * expression read through the spec's table: not maybe_int
     * expression read through the spec's table: numeric != maybe_int
     * expression read through the spec's table: numeric != numeric
     * expression read through the spec's table: numeric in (float('inf'), float('-inf'))
     * raise
     * try/except <classes> (one-statement body) -> match on the raised class name
   Types: str -> List Nat (code points), int -> Int, one character -> Nat; result `Except String _`,
   the string being the class of the exception raised. See lean/PyGqlModel/PyPrelude.lean. -/
/- `coerce_int` over a dynamically typed argument: `isinstance(x, int / float / str)`, `x is None`, `not x` (on a str),
   `int(x)`, `int(x, 10)` (the base is passed and ignored by the reading `py_int10`), `float(x)`, `f.is_integer()`, `int(f)`
   and `n != x` are parameters (the partial ones raise by class NAME); MIN_INT / MAX_INT are the module's literals. -/
/- `coerce_float`: `x == ""`, `x is None`, `float(x)` (partial), `f != f` (NaN) and `f in (inf, -inf)` are parameters. -/
import PyGqlModel.PyPrelude
set_option linter.unusedVariables false
namespace PyGql.Generated.Tr
open PyGql

/-
def coerce_int(maybe_int: _ScalarValue) -> int:
    """
    Spec compliant int conversion.
    """
    if isinstance(maybe_int, int):
        # bool is a subclass of int: True / False are the integers 1 / 0.
        numeric = int(maybe_int)
    elif isinstance(maybe_int, float):
        try:
            numeric = int(maybe_int)
        except (OverflowError, ValueError):
            # +/ -Infinity (e.g. JSON 1e999) and NaN.
            raise ValueError(INVALID_INT % maybe_int)
        if numeric != maybe_int:
            raise ValueError(INVALID_INT % maybe_int)
    elif maybe_int is None:
        raise ValueError(INVALID_INT % "None")
    elif isinstance(maybe_int, str):
        if not maybe_int:
            raise ValueError(INVALID_INT % "(empty string)")
        try:
            numeric = int(maybe_int, 10)
        except ValueError:
            try:
                float_value = float(maybe_int)
                if float_value.is_integer():
                    numeric = int(float_value)
                else:
                    raise ValueError(INVALID_NUMERIC % maybe_int)
            except (OverflowError, ValueError):
                raise ValueError(INVALID_INT % maybe_int)
    else:
        raise ValueError(INVALID_INT, repr(maybe_int))

    if not (MIN_INT <= numeric <= MAX_INT):
        raise ValueError(INVALID_NUMERIC % maybe_int)

    return numeric
-/
def coerce_int {JV F : Type} (isInt isFloat isStr isNone strIsEmpty : JV → Bool) (py_int : JV → Except String Int) (int_ne : Int → JV → Bool) (py_int10 : JV → Except String Int) (py_float : JV → Except String F) (is_integer : F → Bool) (int_of_float : F → Except String Int) (maybe_int : JV) : Except String Int :=
  (if ((isInt maybe_int)) then
    (match (py_int maybe_int) with
      | .error e__ => (.error e__)
      | .ok numeric =>
        (if (!((decide ((-2147483648 : Int) ≤ numeric)) && (decide (numeric ≤ (2147483647 : Int))))) then
          (.error "ValueError")
        else
          (.ok numeric)))
  else
    (if ((isFloat maybe_int)) then
      (match ((match (py_int maybe_int) with
        | .error e__ => (.raise e__)
        | .ok numeric =>
          (.fall numeric)) : Py.Flow String Int Int) with
        | .ret r__ => (.ok r__)
        | .raise e__ =>
          (if e__ == "OverflowError" || e__ == "ValueError" then
            (.error "ValueError")
          else
            (.error e__))
        | .fall numeric =>
          (if (int_ne numeric maybe_int) then
            (.error "ValueError")
          else
            (if (!((decide ((-2147483648 : Int) ≤ numeric)) && (decide (numeric ≤ (2147483647 : Int))))) then
              (.error "ValueError")
            else
              (.ok numeric))))
    else
      (if (isNone maybe_int) then
        (.error "ValueError")
      else
        (if ((isStr maybe_int)) then
          (if (strIsEmpty maybe_int) then
            (.error "ValueError")
          else
            (match ((match (py_int10 maybe_int) with
              | .error e__ => (.raise e__)
              | .ok numeric =>
                (.fall numeric)) : Py.Flow String Int Int) with
              | .ret r__ => (.ok r__)
              | .raise e__ =>
                (if e__ == "ValueError" then
                  (match ((match (py_float maybe_int) with
                    | .error e__ => (.raise e__)
                    | .ok float_value =>
                      (if (is_integer float_value) then
                        (match (int_of_float float_value) with
                          | .error e__ => (.raise e__)
                          | .ok numeric =>
                            (.fall (float_value, numeric)))
                      else
                        (.raise "ValueError"))) : Py.Flow String (F × Int) Int) with
                    | .ret r__ => (.ok r__)
                    | .raise e__ =>
                      (if e__ == "OverflowError" || e__ == "ValueError" then
                        (.error "ValueError")
                      else
                        (.error e__))
                    | .fall (float_value, numeric) =>
                      (if (!((decide ((-2147483648 : Int) ≤ numeric)) && (decide (numeric ≤ (2147483647 : Int))))) then
                        (.error "ValueError")
                      else
                        (.ok numeric)))
                else
                  (.error e__))
              | .fall numeric =>
                (if (!((decide ((-2147483648 : Int) ≤ numeric)) && (decide (numeric ≤ (2147483647 : Int))))) then
                  (.error "ValueError")
                else
                  (.ok numeric))))
        else
          (.error "ValueError")))))

/-
def coerce_float(maybe_float: _ScalarValue) -> float:
    """
    Spec compliant float conversion.
    """
    if maybe_float == "":
        raise ValueError(
            "Float cannot represent non numeric value: (empty string)"
        )
    if maybe_float is None:
        raise ValueError("Float cannot represent non numeric value: None")

    try:
        numeric = float(maybe_float)
    except OverflowError:
        # Integers too large for a double (e.g. a 400 digits JSON number).
        raise ValueError(
            "Float cannot represent non finite value: %s" % maybe_float
        )
    except ValueError:
        raise ValueError(
            "Float cannot represent non numeric value: %s" % maybe_float
        )

    # NaN and +/ -Infinity have no JSON representation.
    if numeric != numeric or numeric in (float("inf"), float("-inf")):
        raise ValueError(
            "Float cannot represent non finite value: %s" % maybe_float
        )

    return numeric
-/
def coerce_float {JV F : Type} (isEmptyStr isNone : JV → Bool) (py_float : JV → Except String F) (isNaN isInf : F → Bool) (maybe_float : JV) : Except String F :=
  (if (isEmptyStr maybe_float) then
    (.error "ValueError")
  else
    (if (isNone maybe_float) then
      (.error "ValueError")
    else
      (match ((match (py_float maybe_float) with
        | .error e__ => (.raise e__)
        | .ok numeric =>
          (.fall numeric)) : Py.Flow String F F) with
        | .ret r__ => (.ok r__)
        | .raise e__ =>
          (if e__ == "OverflowError" then
            (.error "ValueError")
          else
            (if e__ == "ValueError" then
              (.error "ValueError")
            else
              (.error e__)))
        | .fall numeric =>
          (if ((isNaN numeric) || (isInf numeric)) then
            (.error "ValueError")
          else
            (.ok numeric)))))

end PyGql.Generated.Tr

/- GENERATED on every run by harness (py2lean.py) from src/py_gql/schema/introspection.py and execution/wrappers.py.
   Do not edit: the check rewrites this file from /repo's working tree. -/

import PyGqlModel.IntrospectPrims
set_option linter.unusedVariables false
namespace PyGql.Generated.Introspection
open PyGql PyGql.Introspect

/-- module-level table `_STRING_ESCAPES` (code points) -/
def table__STRING_ESCAPES : List (Char × Chars) := [(Char.ofNat 34, [Char.ofNat 92, Char.ofNat 34]), (Char.ofNat 92, [Char.ofNat 92, Char.ofNat 92]), (Char.ofNat 10, [Char.ofNat 92, Char.ofNat 110]), (Char.ofNat 13, [Char.ofNat 92, Char.ofNat 114])]

/-- `_format_default_value`, translated statement by statement. `s` is the schema (only the
    `print_ast(ast_node_from_value(..))` form looks at it), `hasDefault`/`dv`/`ty` are the attributes of the input value. -/
def formatDefaultValue (s : SchemaD) (hasDefault : Bool) (dv : J) (ty : Ty) : Option Chars :=
  (if (!hasDefault) then none else (if Prims.isNone dv then some "null".toList else (if ((Prims.isStr dv) && (Prims.baseIsOneOf ty ["String", "ID"])) then some ("\"".toList ++ Prims.escapeWith table__STRING_ESCAPES (Prims.pyStr dv) ++ "\"".toList) else (Prims.printAstOfValueStrict s dv ty))))

/-- branch tags of `_format_default_value` in source order -/
def formatBranches : List String := ["try-raise", "printAstStrict", "const:null", "percent-escaped:\"%s\"", "none"]

/-- `_resolve_type_kind`: (model class tag, reported kind) in the order of the isinstance chain -/
def typeKindTable : List (String × String) := [("scalar", "SCALAR"), ("object", "OBJECT"), ("interface", "INTERFACE"), ("union", "UNION"), ("enum", "ENUM"), ("input", "INPUT_OBJECT"), ("list", "LIST"), ("nonNull", "NON_NULL")]

/-- `field_definition`: names treated as meta fields -/
def metaFieldNames : List String := ["__schema", "__type", "__typename"]

/-- `field_definition`: the if/elif chain inside the meta branch: (target, tested name, requires query type) -/
def metaChain : List (String × String × Bool) := [("disabled", "", false), ("SCHEMA_INTROSPECTION_FIELD", "__schema", true), ("TYPE_INTROSPECTION_FIELD", "__type", true), ("TYPE_NAME_INTROSPECTION_FIELD", "__typename", false), ("NONE", "__schema", false), ("NONE", "__type", false), ("NONE", "__typename", false)]

end PyGql.Generated.Introspection

/- GENERATED on every run by harness (py2lean.py) from src/py_gql/validation/rules/overlapping_fields_can_be_merged.py (_types_conflict).
   Do not edit: the check rewrites this file from /repo's working tree. -/
/- Translated by py2lean.Tr. Constructs used and how they were read:
     * isinstance(t, WrappingType) -> t.isWrapping; isinstance(t, GraphQLLeafType) -> the parameter isLeafType
     * self-recursion -> the parameter rec_types_conflict (step functional; the equation below closes the knot)
     * type(a) != type(b) -> !Ty.sameCtor a b; t.type -> t.inner; a != b on types -> by-name inequality of type expressions
   Types: str -> List Nat (code points), int -> Int, one character -> Nat; result `Except String _`,
   the string being the class of the exception raised. See lean/PyGqlModel/PyPrelude.lean. -/
import PyGqlModel.Ty
set_option linter.unusedVariables false
namespace PyGql.Generated.Tr
open PyGql

/-
def _types_conflict(type_1: GraphQLType, type_2: GraphQLType) -> bool:
    """
    Two types conflict if both types could not apply to a value
    simultaneously. Composite types are ignored as their individual field
    types will be compared later recursively. However List and Non-Null types
    must match.
    """
    if isinstance(type_1, WrappingType) or isinstance(type_2, WrappingType):
        return type(type_1) != type(type_2) or _types_conflict(
            type_1.type, type_2.type  # type: ignore
        )

    if isinstance(type_1, GraphQLLeafType) or isinstance(
        type_2, GraphQLLeafType
    ):
        return type_1 != type_2

    return False
-/
def _types_conflict_step (isLeafType : Ty → Bool) (rec_types_conflict : Ty → Ty → Bool) (type_1 type_2 : Ty) : Bool :=
  (if (type_1.isWrapping || type_2.isWrapping) then ((!Ty.sameCtor type_1 type_2) || (rec_types_conflict type_1.inner type_2.inner)) else (if ((isLeafType type_1) || (isLeafType type_2)) then (type_1 != type_2) else false))

end PyGql.Generated.Tr

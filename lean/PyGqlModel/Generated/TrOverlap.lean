/- GENERATED on every run by harness (py2lean.py) from src/py_gql/validation/rules/overlapping_fields_can_be_merged.py (_types_conflict, _same_arguments, _same_value, _permutations).
   Do not edit: the check rewrites this file from /repo's working tree. -/
/- Translated by py2lean.Tr. Constructs used and how they were read:
     * all/any(generator) -> List.all / List.any
     * enumerate
     * for -> structural recursion on the sequence
     * generator: yield e -> append to the accumulator that is returned (the generator run to its end)
     * isinstance(t, WrappingType) -> t.isWrapping; isinstance(t, GraphQLLeafType) -> the parameter isLeafType
     * self-recursion -> the parameter rec_types_conflict (step functional; the equation below closes the knot)
     * slice
     * sorted(key=lambda) -> Py.sortedBy (stable insertion sort)
     * type(a) != type(b) -> !Ty.sameCtor a b; t.type -> t.inner; a != b on types -> by-name inequality of type expressions
     * zip
   Types: str -> List Nat (code points), int -> Int, one character -> Nat; result `Except String _`,
   the string being the class of the exception raised. See lean/PyGqlModel/PyPrelude.lean. -/
/- `_same_arguments` / `_same_value` are abstracted over the AST: `a.name.value` = arg_name a, `a.value` = arg_value a,
   `type(v)` = class_of v, `isinstance(v, _ast.X)` = isX v, `print_ast`, `v.value` = value_of v are parameters;
   `sorted(key=...)` is the stable insertion sort `Py.sortedBy` with `<` on names as a parameter. -/
import PyGqlModel.Ty
import PyGqlModel.PyPrelude
set_option linter.unusedVariables false
namespace PyGql.Generated.Tr
open PyGql

/-
def _types_conflict(type_1: GraphQLType, type_2: GraphQLType) -> bool:
    """
    Two types conflict if both types could not apply to a value
    simultaneously. Composite types are ignored as their individual field
    types will be compared later recursively. However List and Non-Null types
    must match.
    """
    if isinstance(type_1, WrappingType) or isinstance(type_2, WrappingType):
        return type(type_1) != type(type_2) or _types_conflict(
            type_1.type, type_2.type  # type: ignore
        )

    if isinstance(type_1, GraphQLLeafType) or isinstance(
        type_2, GraphQLLeafType
    ):
        return type_1 != type_2

    return False
-/
def _types_conflict_step (isLeafType : Ty → Bool) (rec_types_conflict : Ty → Ty → Bool) (type_1 type_2 : Ty) : Bool :=
  (if (type_1.isWrapping || type_2.isWrapping) then ((!Ty.sameCtor type_1 type_2) || (rec_types_conflict type_1.inner type_2.inner)) else (if ((isLeafType type_1) || (isLeafType type_2)) then (type_1 != type_2) else false))

/-
def _same_arguments(
    args_1: List[_ast.Argument], args_2: List[_ast.Argument]
) -> bool:
    """
    Given two lists of arguments, check all arguments have the same name
    and values with no extra / missing argument.
    """
    if len(args_1) != len(args_2):
        return False

    s1 = sorted(args_1, key=lambda a: a.name.value)
    s2 = sorted(args_2, key=lambda a: a.name.value)

    return all(
        (
            (
                a1.name.value == a2.name.value
                and _same_value(a1.value, a2.value)
            )
            for a1, a2 in zip(s1, s2)
        )
    )
-/
def _same_arguments {A V : Type} (name_lt : String → String → Bool) (arg_name : A → String) (arg_value : A → V) (same_value : V → V → Bool) (args_1 args_2 : List A) : Except String Bool :=
  (if ((Py.len args_1) != (Py.len args_2)) then
    (.ok false)
  else
    (let s1 := (Py.sortedBy name_lt (fun a => (arg_name a)) args_1)
     (let s2 := (Py.sortedBy name_lt (fun a => (arg_name a)) args_2)
      (.ok (List.all (List.zip s1 s2) (fun (a1, a2) => (((arg_name a1) == (arg_name a2)) && (same_value (arg_value a1) (arg_value a2)))))))))

/-
def _same_value(value_1: _ast.Value, value_2: _ast.Value) -> bool:
    if type(value_1) != type(value_2):  # noqa: E721
        return False

    # Lists, objects, null and variables do not expose a `value` attribute.
    if isinstance(
        value_1,
        (_ast.ListValue, _ast.ObjectValue, _ast.NullValue, _ast.Variable),
    ):
        return print_ast(value_1) == print_ast(value_2)

    return bool(value_1.value == value_2.value)
-/
def _same_value {V K P W : Type} [BEq K] [BEq P] [BEq W] (class_of : V → K) (isListValue isObjectValue isNullValue isVariable : V → Bool) (print_ast : V → P) (value_of : V → W) (value_1 value_2 : V) : Except String Bool :=
  (if ((class_of value_1) != (class_of value_2)) then
    (.ok false)
  else
    (if ((isListValue value_1) || (isObjectValue value_1) || (isNullValue value_1) || (isVariable value_1)) then
      (.ok ((print_ast value_1) == (print_ast value_2)))
    else
      (.ok ((value_of value_1) == (value_of value_2)))))

/-
def _permutations(lst: Sequence[T]) -> Iterator[Tuple[T, T]]:
    """
    Symmetric permutations of a list

    >>> list(_permutations([1, 2, 3]))
    [(1, 2), (1, 3), (2, 3)]
    """
    for i, item_1 in enumerate(lst):
        for item_2 in lst[i + 1 :]:
            yield item_1, item_2
-/
def _permutations.loop2 {T : Type} (lst : List T) (i : Int) (item_1 : T) : (List T) → (List (T × T)) → Py.Flow String ((List (T × T))) (List (T × T))
  | [], yield__ => .fall yield__
  | item_2 :: rest__, yield__ =>
    (let yield__ := (yield__ ++ [(item_1, item_2)])
     (_permutations.loop2 lst i item_1 rest__ yield__))

def _permutations.loop1 {T : Type} (lst : List T) : (List (Int × T)) → (List (T × T)) → Py.Flow String ((List (T × T))) (List (T × T))
  | [], yield__ => .fall yield__
  | (i, item_1) :: rest__, yield__ =>
    (match (_permutations.loop2 lst i item_1 (Py.sliceFrom lst (i + (1 : Int))) yield__) with
      | .ret r__ => (.ret r__)
      | .raise e__ => (.raise e__)
      | .fall yield__ =>
        (_permutations.loop1 lst rest__ yield__))

def _permutations {T : Type} (lst : List T) : Except String (List (T × T)) :=
  (let yield__ : List (T × T) := []
   (match (_permutations.loop1 lst (Py.enumerate lst) yield__) with
     | .ret r__ => (.ok r__)
     | .raise e__ => (.error e__)
     | .fall yield__ =>
       (.ok yield__)))

end PyGql.Generated.Tr

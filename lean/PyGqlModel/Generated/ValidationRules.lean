/- GENERATED on every run by harness/corr/C06.py from src/py_gql/validation/validate.py. Do not edit. -/
namespace PyGql.Generated.ValidationRules

/-- `SPECIFIED_RULES` of validate.py: class names in chain order -/
def specifiedRules : List String := [
  "ExecutableDefinitionsChecker",
  "UniqueOperationNameChecker",
  "LoneAnonymousOperationChecker",
  "SingleFieldSubscriptionsChecker",
  "KnownTypeNamesChecker",
  "FragmentsOnCompositeTypesChecker",
  "VariablesAreInputTypesChecker",
  "ScalarLeafsChecker",
  "FieldsOnCorrectTypeChecker",
  "UniqueFragmentNamesChecker",
  "KnownFragmentNamesChecker",
  "NoUnusedFragmentsChecker",
  "PossibleFragmentSpreadsChecker",
  "NoFragmentCyclesChecker",
  "UniqueVariableNamesChecker",
  "NoUndefinedVariablesChecker",
  "NoUnusedVariablesChecker",
  "KnownDirectivesChecker",
  "UniqueDirectivesPerLocationChecker",
  "KnownArgumentNamesChecker",
  "UniqueArgumentNamesChecker",
  "ValuesOfCorrectTypeChecker",
  "ProvidedRequiredArgumentsChecker",
  "VariablesInAllowedPositionChecker",
  "OverlappingFieldsCanBeMergedChecker",
  "UniqueInputFieldNamesChecker"
]

end PyGql.Generated.ValidationRules

/- GENERATED on every run by harness (py2lean.py) from src/py_gql/lang/lexer.py (Lexer._read_name, _read_over_digits, _read_over_integer, _read_over_whitespace, _read_ellipsis, _read_number).
   Do not edit: the check rewrites this file from /repo's working tree. -/
/- Translated by py2lean.Tr. Constructs used and how they were read:
     * `is None` on a str/int-typed variable -> constant
     * for -> structural recursion on the sequence
     * index (IndexError explicit)
     * join point: the statements after an if / try are ONE auxiliary definition of the variables they read
     * method: self.X -> variable self_X; mutated attributes returned next to the result
     * raise
     * range(a, b) -> Py.range (the list of the integers a .. b-1)
     * self.m() -> call of the translated method on the current attribute values
     * slice
     * try/except <classes> (one-statement body) -> match on the raised class name
     * while -> recursion on explicit fuel (OutOfFuel is an exception)
   Types: str -> List Nat (code points), int -> Int, one character -> Nat; result `Except String _`,
   the string being the class of the exception raised. See lean/PyGqlModel/PyPrelude.lean. -/
/- Methods of `Lexer`: `self._source` is the parameter `self__source`, `self._position` the parameter `self__position`
   whose final value is returned next to the result; `Name(start, end, value)` is the triple of its arguments;
   `digits` / `ascii_letters` are the constants of the standard `string` module (checked: imported from there);
   the exception arguments (position, source) are dropped; `self._read_over_digits()` is the translated method above run on
   the current attribute values; the default parameter `__ignored` is the module literal IGNORED_CHARS;
   in `_read_number` the local `char` is Optional[str] (`None` after the end of the source), `Float(..)` / `Integer(..)` are
   (is_float, start, end, value), and the statements after each if / try are one auxiliary definition `.kN`. -/
import PyGqlModel.PyPrelude
set_option linter.unusedVariables false
namespace PyGql.Generated.Tr
open PyGql

/-
def _read_name(
        self
    ) -> Name:
        start = self._position
        while True:
            try:
                char = self._source[self._position]
            except IndexError:
                break

            if char == "_" or char in __ascii_letters or char in digits:
                self._position += 1
            else:
                break

        return Name(start, self._position, self._source[start : self._position])
-/
def Lexer._read_name.while1 (self__source : List Nat) : Nat → Int → Py.Flow String Int ((Int × Int × (List Nat)) × Int)
  | 0, self__position => .raise "OutOfFuel"
  | fuel__ + 1, self__position =>
    (if true then
      (match ((match (Py.getItem self__source self__position) with
        | .error e__ => (.raise e__)
        | .ok char =>
          (.fall char)) : Py.Flow String Nat ((Int × Int × (List Nat)) × Int)) with
        | .ret r__ => (.ret r__)
        | .raise e__ =>
          (if e__ == "IndexError" then
            (.fall self__position)
          else
            (.raise e__))
        | .fall char =>
          (if ((char == 95) || ((([97, 98, 99, 100, 101, 102, 103, 104, 105, 106, 107, 108, 109, 110, 111, 112, 113, 114, 115, 116, 117, 118, 119, 120, 121, 122, 65, 66, 67, 68, 69, 70, 71, 72, 73, 74, 75, 76, 77, 78, 79, 80, 81, 82, 83, 84, 85, 86, 87, 88, 89, 90] : List Nat).contains char) || (([48, 49, 50, 51, 52, 53, 54, 55, 56, 57] : List Nat).contains char))) then
            (let self__position := (self__position + (1 : Int))
             (Lexer._read_name.while1 self__source fuel__ self__position))
          else
            (.fall self__position)))
    else
      (.fall self__position))

def Lexer._read_name (self__source : List Nat) (self__position : Int) : Except String ((Int × Int × (List Nat)) × Int) :=
  (let start := self__position
   (match (Lexer._read_name.while1 self__source ((((Py.len self__source) - self__position) + (1 : Int))).toNat self__position) with
     | .ret r__ => (.ok r__)
     | .raise e__ => (.error e__)
     | .fall self__position =>
       (.ok ((Py.tok3 start self__position (Py.slice self__source start self__position)), self__position))))

/-
def _read_over_digits(self):
        try:
            char = self._source[self._position]
        except IndexError:
            raise UnexpectedEOF(self._position, self._source)

        if char not in digits:
            raise UnexpectedCharacter(
                'Unexpected character "%s"' % char, self._position, self._source
            )

        while True:
            if char is not None and char in digits:
                self._position += 1
                try:
                    char = self._source[self._position]
                except IndexError:
                    break
            else:
                break
-/
def Lexer._read_over_digits.while1 (self__source : List Nat) : Nat → Int → Nat → Py.Flow String (Int × Nat) (Unit × Int)
  | 0, self__position, char => .raise "OutOfFuel"
  | fuel__ + 1, self__position, char =>
    (if true then
      (if (true && (([48, 49, 50, 51, 52, 53, 54, 55, 56, 57] : List Nat).contains char)) then
        (let self__position := (self__position + (1 : Int))
         (match ((match (Py.getItem self__source self__position) with
           | .error e__ => (.raise e__)
           | .ok char =>
             (.fall char)) : Py.Flow String Nat (Unit × Int)) with
           | .ret r__ => (.ret r__)
           | .raise e__ =>
             (if e__ == "IndexError" then
               (.fall (self__position, char))
             else
               (.raise e__))
           | .fall char =>
             (Lexer._read_over_digits.while1 self__source fuel__ self__position char)))
      else
        (.fall (self__position, char)))
    else
      (.fall (self__position, char)))

def Lexer._read_over_digits (self__source : List Nat) (self__position : Int) : Except String (Unit × Int) :=
  (match ((match (Py.getItem self__source self__position) with
    | .error e__ => (.raise e__)
    | .ok char =>
      (.fall char)) : Py.Flow String Nat (Unit × Int)) with
    | .ret r__ => (.ok r__)
    | .raise e__ =>
      (if e__ == "IndexError" then
        (.error "UnexpectedEOF")
      else
        (.error e__))
    | .fall char =>
      (if (!([48, 49, 50, 51, 52, 53, 54, 55, 56, 57] : List Nat).contains char) then
        (.error "UnexpectedCharacter")
      else
        (match (Lexer._read_over_digits.while1 self__source ((((Py.len self__source) - self__position) + (1 : Int))).toNat self__position char) with
          | .ret r__ => (.ok r__)
          | .raise e__ => (.error e__)
          | .fall (self__position, char) =>
            (.ok ((), self__position)))))

/-
def _read_over_integer(self):
        try:
            char = self._source[self._position]
        except IndexError:
            raise UnexpectedEOF(self._position, self._source)

        if char == "0":
            self._position += 1
            try:
                char = self._source[self._position]
            except IndexError:
                pass
            else:
                if char in digits:
                    raise UnexpectedCharacter(
                        'Unexpected character "%s"' % char,
                        self._position,
                        self._source,
                    )
        else:
            self._read_over_digits()
-/
def Lexer._read_over_integer (self__source : List Nat) (self__position : Int) : Except String (Unit × Int) :=
  (match ((match (Py.getItem self__source self__position) with
    | .error e__ => (.raise e__)
    | .ok char =>
      (.fall char)) : Py.Flow String Nat (Unit × Int)) with
    | .ret r__ => (.ok r__)
    | .raise e__ =>
      (if e__ == "IndexError" then
        (.error "UnexpectedEOF")
      else
        (.error e__))
    | .fall char =>
      (if (char == 48) then
        (let self__position := (self__position + (1 : Int))
         (match ((match (Py.getItem self__source self__position) with
           | .error e__ => (.raise e__)
           | .ok char =>
             (.fall char)) : Py.Flow String Nat (Unit × Int)) with
           | .ret r__ => (.ok r__)
           | .raise e__ =>
             (if e__ == "IndexError" then
               (.ok ((), self__position))
             else
               (.error e__))
           | .fall char =>
             (if (([48, 49, 50, 51, 52, 53, 54, 55, 56, 57] : List Nat).contains char) then
               (.error "UnexpectedCharacter")
             else
               (.ok ((), self__position)))))
      else
        (match (Lexer._read_over_digits self__source self__position) with
          | .error e__ => (.error e__)
          | .ok (_, self__position) =>
            (.ok ((), self__position)))))

/-
def _read_over_whitespace(
        self
    ) -> None:
        pos = self._position
        while True:
            try:
                char = self._source[pos]
            except IndexError:
                break

            if char in __ignored:
                pos += 1
            elif char == "#":
                pos += 1
                while True:
                    try:
                        char = self._source[pos]
                    except IndexError:
                        break

                    if (char >= " " or char == "\t") and char not in "\n\r":
                        pos += 1
                    else:
                        break
            else:
                break

        self._position = pos
-/
def Lexer._read_over_whitespace.while2 (self__source : List Nat) : Nat → Nat → Int → Py.Flow String (Nat × Int) (Unit × Int)
  | 0, char, pos => .raise "OutOfFuel"
  | fuel__ + 1, char, pos =>
    (if true then
      (match ((match (Py.getItem self__source pos) with
        | .error e__ => (.raise e__)
        | .ok char =>
          (.fall char)) : Py.Flow String Nat (Unit × Int)) with
        | .ret r__ => (.ret r__)
        | .raise e__ =>
          (if e__ == "IndexError" then
            (.fall (char, pos))
          else
            (.raise e__))
        | .fall char =>
          (if (((decide (char ≥ 32)) || (char == 9)) && (!([10, 13] : List Nat).contains char)) then
            (let pos := (pos + (1 : Int))
             (Lexer._read_over_whitespace.while2 self__source fuel__ char pos))
          else
            (.fall (char, pos))))
    else
      (.fall (char, pos)))

def Lexer._read_over_whitespace.while1 (self__source : List Nat) : Nat → Int → Py.Flow String Int (Unit × Int)
  | 0, pos => .raise "OutOfFuel"
  | fuel__ + 1, pos =>
    (if true then
      (match ((match (Py.getItem self__source pos) with
        | .error e__ => (.raise e__)
        | .ok char =>
          (.fall char)) : Py.Flow String Nat (Unit × Int)) with
        | .ret r__ => (.ret r__)
        | .raise e__ =>
          (if e__ == "IndexError" then
            (.fall pos)
          else
            (.raise e__))
        | .fall char =>
          (if (([10, 13, 65279, 9, 32, 44] : List Nat).contains char) then
            (let pos := (pos + (1 : Int))
             (Lexer._read_over_whitespace.while1 self__source fuel__ pos))
          else
            (if (char == 35) then
              (let pos := (pos + (1 : Int))
               (match (Lexer._read_over_whitespace.while2 self__source ((((Py.len self__source) - pos) + (1 : Int))).toNat char pos) with
                 | .ret r__ => (.ret r__)
                 | .raise e__ => (.raise e__)
                 | .fall (char, pos) =>
                   (Lexer._read_over_whitespace.while1 self__source fuel__ pos)))
            else
              (.fall pos))))
    else
      (.fall pos))

def Lexer._read_over_whitespace (self__source : List Nat) (self__position : Int) : Except String (Unit × Int) :=
  (let pos := self__position
   (match (Lexer._read_over_whitespace.while1 self__source ((((Py.len self__source) - pos) + (1 : Int))).toNat pos) with
     | .ret r__ => (.ok r__)
     | .raise e__ => (.error e__)
     | .fall pos =>
       (let self__position := pos
        (.ok ((), self__position)))))

/-
def _read_ellipsis(self) -> Ellip:
        start = self._position
        for _ in range(3):
            try:
                char = self._source[self._position]
            except IndexError:
                raise UnexpectedEOF(self._position, self._source)

            self._position += 1

            if char != ".":
                raise UnexpectedCharacter(
                    'Expected "." but found "%s"' % char,
                    self._position,
                    self._source,
                )
        return Ellip(start, self._position)
-/
def Lexer._read_ellipsis.loop1 (self__source : List Nat) : (List Int) → Int → Py.Flow String Int ((Int × Int) × Int)
  | [], self__position => .fall self__position
  | _ :: rest__, self__position =>
    (match ((match (Py.getItem self__source self__position) with
      | .error e__ => (.raise e__)
      | .ok char =>
        (.fall char)) : Py.Flow String Nat ((Int × Int) × Int)) with
      | .ret r__ => (.ret r__)
      | .raise e__ =>
        (if e__ == "IndexError" then
          (.raise "UnexpectedEOF")
        else
          (.raise e__))
      | .fall char =>
        (let self__position := (self__position + (1 : Int))
         (if (char != 46) then
           (.raise "UnexpectedCharacter")
         else
           (Lexer._read_ellipsis.loop1 self__source rest__ self__position))))

def Lexer._read_ellipsis (self__source : List Nat) (self__position : Int) : Except String ((Int × Int) × Int) :=
  (let start := self__position
   (match (Lexer._read_ellipsis.loop1 self__source (Py.range (0 : Int) (3 : Int)) self__position) with
     | .ret r__ => (.ok r__)
     | .raise e__ => (.error e__)
     | .fall self__position =>
       (.ok ((Py.tok2 start self__position), self__position))))

/-
def _read_number(self) -> Union[Integer, Float]:  # noqa: C901
        start = self._position
        is_float = False

        try:
            char = self._source[self._position]  # type: Optional[str]
        except IndexError:
            char = None

        if char == "-":
            self._position += 1

        self._read_over_integer()

        try:
            char = self._source[self._position]
        except IndexError:
            char = None

        if char == ".":
            self._position += 1
            is_float = True
            self._read_over_digits()

        try:
            char = self._source[self._position]
        except IndexError:
            char = None

        if char is not None and char in "eE":
            self._position += 1
            is_float = True

            try:
                char = self._source[self._position]
            except IndexError:
                char = None

            if char is not None and char in "+-":
                self._position += 1

            self._read_over_digits()

        # Explicit lookahead restrictions.
        try:
            next_char = self._source[self._position]
        except IndexError:
            pass
        else:
            if next_char == "_" or next_char in ascii_letters:
                raise UnexpectedCharacter(
                    'Unexpected character "%s"' % char,
                    self._position,
                    self._source,
                )

        end = self._position
        value = self._source[start:end]
        return (
            Float(start, end, value) if is_float else Integer(start, end, value)
        )
-/
def Lexer._read_number.k7 (self__source : List Nat) (self__position : Int) (start : Int) (is_float : Bool) : Except String ((Bool × Int × Int × (List Nat)) × Int) :=
  (let end_ := self__position
   (let value := (Py.slice self__source start end_)
    (.ok ((if is_float then (Py.tokNum true start end_ value) else (Py.tokNum false start end_ value)), self__position))))

def Lexer._read_number.k6 (self__source : List Nat) (start : Int) (self__position : Int) (is_float : Bool) : Except String ((Bool × Int × Int × (List Nat)) × Int) :=
  (match ((match (Py.getItem self__source self__position) with
    | .error e__ => (.raise e__)
    | .ok next_char =>
      (.fall next_char)) : Py.Flow String Nat ((Bool × Int × Int × (List Nat)) × Int)) with
    | .ret r__ => (.ok r__)
    | .raise e__ =>
      (if e__ == "IndexError" then
        (Lexer._read_number.k7 self__source self__position start is_float)
      else
        (.error e__))
    | .fall next_char =>
      (if ((next_char == 95) || (([97, 98, 99, 100, 101, 102, 103, 104, 105, 106, 107, 108, 109, 110, 111, 112, 113, 114, 115, 116, 117, 118, 119, 120, 121, 122, 65, 66, 67, 68, 69, 70, 71, 72, 73, 74, 75, 76, 77, 78, 79, 80, 81, 82, 83, 84, 85, 86, 87, 88, 89, 90] : List Nat).contains next_char)) then
        (.error "UnexpectedCharacter")
      else
        (Lexer._read_number.k7 self__source self__position start is_float)))

def Lexer._read_number.k9 (self__source : List Nat) (start : Int) (is_float : Bool) (self__position : Int) : Except String ((Bool × Int × Int × (List Nat)) × Int) :=
  (match (Lexer._read_over_digits self__source self__position) with
    | .error e__ => (.error e__)
    | .ok (_, self__position) =>
      (Lexer._read_number.k6 self__source start self__position is_float))

def Lexer._read_number.k8 (self__source : List Nat) (self__position : Int) (start : Int) (is_float : Bool) (char : Option Nat) : Except String ((Bool × Int × Int × (List Nat)) × Int) :=
  (if ((char).isSome && (match char with | some c__ => ([43, 45] : List Nat).contains c__ | none => false)) then
    (let self__position := (self__position + (1 : Int))
     (Lexer._read_number.k9 self__source start is_float self__position))
  else
    (Lexer._read_number.k9 self__source start is_float self__position))

def Lexer._read_number.k5 (self__source : List Nat) (self__position : Int) (start : Int) (is_float : Bool) (char : Option Nat) : Except String ((Bool × Int × Int × (List Nat)) × Int) :=
  (if ((char).isSome && (match char with | some c__ => ([101, 69] : List Nat).contains c__ | none => false)) then
    (let self__position := (self__position + (1 : Int))
     (let is_float := true
      (match ((match (match (Py.getItem self__source self__position) with | .error e__ => Except.error e__ | .ok t1__ => (Except.ok (some t1__) : Except String _)) with
        | .error e__ => (.raise e__)
        | .ok char =>
          (.fall char)) : Py.Flow String ((Option Nat)) ((Bool × Int × Int × (List Nat)) × Int)) with
        | .ret r__ => (.ok r__)
        | .raise e__ =>
          (if e__ == "IndexError" then
            (let char := none
             (Lexer._read_number.k8 self__source self__position start is_float char))
          else
            (.error e__))
        | .fall char =>
          (Lexer._read_number.k8 self__source self__position start is_float char))))
  else
    (Lexer._read_number.k6 self__source start self__position is_float))

def Lexer._read_number.k4 (self__source : List Nat) (start : Int) (char : Option Nat) (self__position : Int) (is_float : Bool) : Except String ((Bool × Int × Int × (List Nat)) × Int) :=
  (match ((match (match (Py.getItem self__source self__position) with | .error e__ => Except.error e__ | .ok t2__ => (Except.ok (some t2__) : Except String _)) with
    | .error e__ => (.raise e__)
    | .ok char =>
      (.fall char)) : Py.Flow String ((Option Nat)) ((Bool × Int × Int × (List Nat)) × Int)) with
    | .ret r__ => (.ok r__)
    | .raise e__ =>
      (if e__ == "IndexError" then
        (let char := none
         (Lexer._read_number.k5 self__source self__position start is_float char))
      else
        (.error e__))
    | .fall char =>
      (Lexer._read_number.k5 self__source self__position start is_float char))

def Lexer._read_number.k3 (self__source : List Nat) (self__position : Int) (start : Int) (is_float : Bool) (char : Option Nat) : Except String ((Bool × Int × Int × (List Nat)) × Int) :=
  (if (char == (some 46)) then
    (let self__position := (self__position + (1 : Int))
     (let is_float := true
      (match (Lexer._read_over_digits self__source self__position) with
        | .error e__ => (.error e__)
        | .ok (_, self__position) =>
          (Lexer._read_number.k4 self__source start char self__position is_float))))
  else
    (Lexer._read_number.k4 self__source start char self__position is_float))

def Lexer._read_number.k2 (self__source : List Nat) (start : Int) (is_float : Bool) (char : Option Nat) (self__position : Int) : Except String ((Bool × Int × Int × (List Nat)) × Int) :=
  (match (Lexer._read_over_integer self__source self__position) with
    | .error e__ => (.error e__)
    | .ok (_, self__position) =>
      (match ((match (match (Py.getItem self__source self__position) with | .error e__ => Except.error e__ | .ok t3__ => (Except.ok (some t3__) : Except String _)) with
        | .error e__ => (.raise e__)
        | .ok char =>
          (.fall char)) : Py.Flow String ((Option Nat)) ((Bool × Int × Int × (List Nat)) × Int)) with
        | .ret r__ => (.ok r__)
        | .raise e__ =>
          (if e__ == "IndexError" then
            (let char := none
             (Lexer._read_number.k3 self__source self__position start is_float char))
          else
            (.error e__))
        | .fall char =>
          (Lexer._read_number.k3 self__source self__position start is_float char)))

def Lexer._read_number.k1 (self__source : List Nat) (self__position : Int) (start : Int) (is_float : Bool) (char : Option Nat) : Except String ((Bool × Int × Int × (List Nat)) × Int) :=
  (if (char == (some 45)) then
    (let self__position := (self__position + (1 : Int))
     (Lexer._read_number.k2 self__source start is_float char self__position))
  else
    (Lexer._read_number.k2 self__source start is_float char self__position))

def Lexer._read_number (self__source : List Nat) (self__position : Int) : Except String ((Bool × Int × Int × (List Nat)) × Int) :=
  (let start := self__position
   (let is_float := false
    (match ((match (match (Py.getItem self__source self__position) with | .error e__ => Except.error e__ | .ok t4__ => (Except.ok (some t4__) : Except String _)) with
      | .error e__ => (.raise e__)
      | .ok char =>
        (.fall char)) : Py.Flow String ((Option Nat)) ((Bool × Int × Int × (List Nat)) × Int)) with
      | .ret r__ => (.ok r__)
      | .raise e__ =>
        (if e__ == "IndexError" then
          (let char := none
           (Lexer._read_number.k1 self__source self__position start is_float char))
        else
          (.error e__))
      | .fall char =>
        (Lexer._read_number.k1 self__source self__position start is_float char))))

end PyGql.Generated.Tr

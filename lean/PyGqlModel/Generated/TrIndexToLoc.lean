/- GENERATED on every run by harness (py2lean.py) from src/py_gql/_string_utils.py (index_to_loc, loc_to_index).
   Do not edit: the check rewrites this file from /repo's working tree. -/
/- Translated by py2lean.Tr. Constructs used and how they were read:
     * enumerate
     * for -> structural recursion on the sequence
     * raise
     * slice
     * tuple unpacking
   Types: str -> List Nat (code points), int -> Int, one character -> Nat; result `Except String _`,
   the string being the class of the exception raised. See lean/PyGqlModel/PyPrelude.lean. -/
import PyGqlModel.PyPrelude
set_option linter.unusedVariables false
namespace PyGql.Generated.Tr
open PyGql

/-
def index_to_loc(body: str, position: int) -> Tuple[int, int]:
    r"""
    Get the (line number, column number) tuple from a zero-indexed offset.

    Args:
        body (str): Source string
        position (int): 0-indexed position of the character

    Returns:
        Tuple[int, int]: (line number, column number)

    Raises:
        IndexError: if ``position`` is out of bounds

    >>> index_to_loc("ab\ncd\ne", 0)
    (1, 1)

    >>> index_to_loc("ab\ncd\ne", 3)
    (2, 1)

    >>> index_to_loc("", 0)
    (1, 1)

    >>> index_to_loc("{", 1)
    (1, 2)

    >>> index_to_loc("", 42)
    Traceback (most recent call last):
        ...
    IndexError: 42

    """
    if not body and not position:
        return (1, 1)

    if position > len(body) or position < 0:
        raise IndexError(position)

    lines, cols = 0, 0
    for offset, char in enumerate(body):
        if offset == position:
            return (lines + 1, cols + 1)
        elif char == "\n":
            lines += 1
            cols = 0
        elif char == "\r":
            # Line terminators are LF, CR and CRLF (see LINE_SEPARATOR): a lone
            # CR ends the line, the CR of a CRLF pair has no width.
            if body[offset + 1 : offset + 2] != "\n":
                lines += 1
                cols = 0
        else:
            cols += 1
    return (lines + 1, cols + 1)
-/
def index_to_loc.loop1 (body : List Nat) (position : Int) : (List (Int × Nat)) → Int → Int → Py.Flow String (Int × Int) (Int × Int)
  | [], lines, cols => .fall (lines, cols)
  | (offset, char) :: rest__, lines, cols =>
    (if (offset == position) then
      (.ret ((lines + (1 : Int)), (cols + (1 : Int))))
    else
      (if (char == 10) then
        (let lines := (lines + (1 : Int))
         (let cols := (0 : Int)
          (index_to_loc.loop1 body position rest__ lines cols)))
      else
        (if (char == 13) then
          (if ((Py.slice body (offset + (1 : Int)) (offset + (2 : Int))) != ([10] : List Nat)) then
            (let lines := (lines + (1 : Int))
             (let cols := (0 : Int)
              (index_to_loc.loop1 body position rest__ lines cols)))
          else
            (index_to_loc.loop1 body position rest__ lines cols))
        else
          (let cols := (cols + (1 : Int))
           (index_to_loc.loop1 body position rest__ lines cols)))))

def index_to_loc (body : List Nat) (position : Int) : Except String (Int × Int) :=
  (if ((!(!(body).isEmpty)) && (!(position != 0))) then
    (.ok ((1 : Int), (1 : Int)))
  else
    (if ((decide (position > (Py.len body))) || (decide (position < (0 : Int)))) then
      (.error "IndexError")
    else
      (let (lines, cols) := ((0 : Int), (0 : Int))
       (match (index_to_loc.loop1 body position (Py.enumerate body) lines cols) with
         | .ret r__ => (.ok r__)
         | .raise e__ => (.error e__)
         | .fall (lines, cols) =>
           (.ok ((lines + (1 : Int)), (cols + (1 : Int))))))))

/-
def loc_to_index(body: str, loc: Tuple[int, int]) -> int:
    r"""
    Get the zero-indexed offset from a (lineno, col) tuple.

    Args:
        body: Source string
        loc: (line number, column number)

    Returns:
        int: 0-indexed position of the character

    Raises:
        IndexError: if ``loc`` is out of bounds

    >>> loc_to_index("ab\ncd\ne", (1, 1))
    0

    >>> loc_to_index("", (1, 1))
    0

    >>> loc_to_index("ab\ncd\ne", (2, 1))
    3

    >>> loc_to_index("{", (1, 2))
    1

    >>> loc_to_index("{       ", (1, 3))
    2

    >>> loc_to_index("ab\ncd\ne", (6, 7))
    Traceback (most recent call last):
        ...
    IndexError: 6:7

    """
    if not body and loc == (1, 1):
        return 0

    lineo, col = loc
    lines = 0
    for index, char in enumerate(body):
        if lines == lineo - 1:
            if len(body) >= index + col - 1:
                return index + col - 1
            break
        if char == "\n":
            lines += 1
    raise IndexError("%s:%s" % (lineo, col))
-/
def loc_to_index.loop1 (body : List Nat) (lineo : Int) (col : Int) : (List (Int × Nat)) → Int → Py.Flow String Int Int
  | [], lines => .fall lines
  | (index, char) :: rest__, lines =>
    (if (lines == (lineo - (1 : Int))) then
      (if (decide ((Py.len body) ≥ ((index + col) - (1 : Int)))) then
        (.ret ((index + col) - (1 : Int)))
      else
        (.fall lines))
    else
      (if (char == 10) then
        (let lines := (lines + (1 : Int))
         (loc_to_index.loop1 body lineo col rest__ lines))
      else
        (loc_to_index.loop1 body lineo col rest__ lines)))

def loc_to_index (body : List Nat) (loc : Int × Int) : Except String Int :=
  (if ((!(!(body).isEmpty)) && (loc == ((1 : Int), (1 : Int)))) then
    (.ok (0 : Int))
  else
    (let (lineo, col) := loc
     (let lines := (0 : Int)
      (match (loc_to_index.loop1 body lineo col (Py.enumerate body) lines) with
        | .ret r__ => (.ok r__)
        | .raise e__ => (.error e__)
        | .fall lines =>
          (.error "IndexError")))))

end PyGql.Generated.Tr

/-
  C07 — MODEL of input coercion in py-gql, function by function:

    src/py_gql/utilities/coerce_value.py   coerce_value, _coerce_list_value, _coerce_input_object,
                                           coerce_variable_values, coerce_argument_values
    src/py_gql/utilities/value_from_ast.py value_from_ast, _extract_input_object, _extract_variable
    src/py_gql/schema/scalars.py           coerce_int, coerce_float, _parse_string, _parse_bool, _parse_id,
                                           _typed_coerce, default_scalar
    src/py_gql/schema/types.py             EnumType.get_value, InputValue (default / python_name)

  The model follows the code WITH the proposed fixes C07-A1..A5 applied (see proposed_fixes/).
  The Int range test and the literal kinds admitted by each `parse_literal` come from
  `Generated/Scalars.lean`, rewritten from the source on every run.

  Recursion (lists, recursive input objects resolved by name) takes fuel: one unit per call of
  `coerce_value` / `value_from_ast`, exactly as Python spends one stack frame.
  Import-free apart from other model files (the driver links this).
-/
import PyGqlModel.Ty
import PyGqlModel.Generated.Scalars
import PyGqlModel.PyNum

namespace PyGql.Coerce
open PyGql PyGql.Generated.Scalars PyGql.PyNum

/-! ### values -/

/-- A Python `float`, abstractly: where it came from. Floats never travel as numbers; the Python side
    compares canonical `repr`s (`float(text)`, `float(int)`, `float(bool)` are Python builtins: modelled,
    not verified). -/
inductive Flt where
  | text (s : String)
  | ofInt (n : Int)
  | ofBool (b : Bool)
  deriving DecidableEq, Repr, Inhabited

/-- what kind of IEEE value a Python float is (`f != f`, `f in (inf, -inf)`) -/
inductive FCls where
  | finite | inf | nan
  deriving DecidableEq, Repr, Inhabited

/-- Python values handed to resolvers (coerced values, declared defaults, enum internal values). -/
inductive PV where
  | none
  | bool (b : Bool)
  | int (n : Int)
  | float (f : Flt)
  | str (s : String)
  | list (l : List PV)
  | dict (kvs : List (String × PV))
  deriving Repr, Inhabited

def PV.isNone : PV → Bool | .none => true | _ => false

/-- JSON values of a request's `variables`. A float is its number lexeme (Python's `repr` of the double: `1.5`, `1e+16`,
    `-0.0`, `inf`, `nan`); what `int()` / `float()` / `is_integer()` make of strings and floats is computed by the lexeme
    model `PyNum`, not supplied from outside. -/
inductive JV where
  | null
  | bool (b : Bool)
  | int (n : Int)
  | float (text : String)
  | str (s : String)
  | list (l : List JV)
  | obj (kvs : List (String × JV))
  deriving Repr, Inhabited

def JV.isNull : JV → Bool | .null => true | _ => false

/-- GraphQL value literals (`IntValue` carries the integer its canonical text denotes, `FloatValue` its text:
    `float("1e999")` is +inf, as `PyNum.pyFloat` computes). -/
inductive Lit where
  | null
  | int (n : Int)
  | float (text : String)
  | str (s : String)
  | bool (b : Bool)
  | enum (name : String)
  | list (l : List Lit)
  | obj (fields : List (String × Lit))
  | var (name : String)
  deriving Repr, Inhabited

def Lit.isNull : Lit → Bool | .null => true | _ => false

inductive Err where
  | coercion   -- CoercionError / InvalidValue / VariablesCoercionError: the input is rejected
  | fuel       -- recursion budget exhausted (Python: RecursionError)
  | internal   -- TypeError / implicit fall-through: not an input type the code handles
  deriving DecidableEq, Repr, Inhabited

abbrev R := Except Err PV

/-! ### registry of named input types -/

/-- `InputField` / `Argument`: name, resolver-side key (`python_name`), type, declared default
    (`has_default_value` / `default_value`; `some .none` is the default `None`). -/
structure InField where
  name : String
  pyName : String
  type : Ty
  default : Option PV
  deriving Repr, Inhabited

inductive NamedT where
  | int | float | string | boolean | id        -- the five specified scalars
  | custom                                     -- `default_scalar`: parse = identity, parse_literal = node.value
  | enum (values : List (String × PV))         -- name ↦ internal value
  | input (fields : List InField)
  deriving Repr, Inhabited

/-- what a custom scalar's own `parse` / `parse_literal` does with an input (user code: an arbitrary partial function).
    `refused`: it raised `ValueError` / `TypeError` (→ `ScalarParsingError`, the input is rejected);
    `raised`: any other exception, which `ScalarType.parse` lets through. -/
inductive ParseOut where
  | value (pv : PV)
  | refused
  | raised
  deriving Repr, Inhabited

def ParseOut.toR : ParseOut → R
  | .value pv => .ok pv
  | .refused => .error .coercion
  | .raised => .error .internal

/-- A registry: the named input types, and — as PARAMETERS — the behaviour of the custom scalars' own parsers
    (`ScalarType(name, parse=…, parse_literal=…)`), by scalar name. Nothing is assumed about them in the model. -/
structure Reg where
  types : List (String × NamedT)
  customParse : String → JV → ParseOut
  /-- `parse_literal(node, variables)`: the scalar's own function is handed the literal AND the coerced variables (`variables or {}`) -/
  customParseLiteral : String → List (String × PV) → Lit → ParseOut
  /-- the scalar was given its OWN `parse_literal` (`ScalarType._parse_literal is not None`): then `value_from_ast` hands it
      every kind of literal, not only scalar ones -/
  customHasParseLiteral : String → Bool

def Reg.get? (r : Reg) (n : String) : Option NamedT :=
  match r.types.find? (fun p => p.1 == n) with
  | some p => some p.2
  | none => none

/-- one layer of `NonNullType` removed (`type_ = type_.type`) -/
def stripNN : Ty → Ty
  | .nonNull t => t
  | t => t

/-- Python dict built from a sequence of pairs: the LAST binding of a key wins
    (`{f.name.value: f for f in node.fields}`, `json.loads` of duplicate keys). -/
def lookupLast {α : Type} (k : String) : List (String × α) → Option α
  | [] => none
  | (k', v) :: rest =>
    match lookupLast k rest with
    | some r => some r
    | none => if k' == k then some v else none

/-- Python `d[k] = v`: an existing key keeps its position and gets the new value, a new key is appended -/
def dictSet (d : List (String × PV)) (k : String) (v : PV) : List (String × PV) :=
  if d.any (fun p => p.1 == k) then d.map (fun p => if p.1 == k then (k, v) else p) else d ++ [(k, v)]

/-- the dict that results from a sequence of assignments `coerced[python_name] = value` (two fields / arguments that
    share a python name collide: the later value wins, at the earlier position) -/
def dictOfAssignments (kvs : List (String × PV)) : List (String × PV) :=
  kvs.foldl (fun d p => dictSet d p.1 p.2) []

def mapE {α β : Type} (f : α → Except Err β) : List α → Except Err (List β)
  | [] => .ok []
  | x :: xs =>
    match f x with
    | .error e => .error e
    | .ok y =>
      match mapE f xs with
      | .error e => .error e
      | .ok ys => .ok (y :: ys)

/-- a loop that COLLECTS `CoercionError`s and goes on (`_coerce_list_value`, `_coerce_input_object`,
    `coerce_variable_values`): it fails at the end if anything was collected, but any OTHER exception raised by a later
    iteration (RecursionError, OverflowError) escapes at once. `mapE` is the loop that stops at the first error
    (the list comprehension of `value_from_ast`). -/
def mapEC {α β : Type} (f : α → Except Err β) : List α → Except Err (List β)
  | [] => .ok []
  | x :: xs =>
    match f x with
    | .error .coercion =>
      match mapEC f xs with
      | .error e => .error e
      | .ok _ => .error .coercion
    | .error e => .error e
    | .ok y =>
      match mapEC f xs with
      | .error e => .error e
      | .ok ys => .ok (y :: ys)

/-! ### scalars.py -/

/-- the final range test of `coerce_int` (translated from the source) -/
def rangeChecked (n : Int) (result : PV) : R :=
  if intInRange n then .ok result else .error .coercion

def clsOf : Dbl → FCls
  | .finite _ _ _ => .finite
  | .inf _ => .inf
  | .nan => .nan

/-- `coerce_int` on a JSON value; the branches in the order of the source (`Generated.Scalars.coerceIntBranches`) -/
def coerceInt : JV → R
  | .bool b => rangeChecked (if b then 1 else 0) (.int (if b then 1 else 0))   -- isinstance(True, int): numeric = int(maybe_int)
  | .int n => rangeChecked n (.int n)
  | .float t =>
    match pyFloat t with
    | none => .error .coercion                                   -- not a float lexeme (cannot come from a JSON float)
    | some d =>
      match d.integral with
      | some k => rangeChecked k (.int k)                        -- numeric = int(f); numeric == f
      | none => .error .coercion                                 -- numeric != f; int(inf) / int(nan): OverflowError /
                                                                 -- ValueError caught (fix A6) → ValueError(INVALID_INT)
  | .null => .error .coercion
  | .str s =>
    if s == "" then .error .coercion
    else match pyInt10 s with
      | some n => rangeChecked n (.int n)                        -- int(maybe_int, 10)
      | none =>
        match pyFloat s with
        | some d =>
          match d.integral with
          | some k => rangeChecked k (.int k)                    -- float(s).is_integer(): int(float_value)
          | none => .error .coercion
        | none => .error .coercion
  | .list _ => .error .coercion
  | .obj _ => .error .coercion

/-- the finiteness guard of `coerce_float` (fix X2), as re-extracted from the source: which classes of
    `numeric = float(maybe_float)` make it raise -/
def floatGuardRejects : FCls → Bool
  | .finite => floatRejectsFinite
  | .inf => floatRejectsInf
  | .nan => floatRejectsNaN

def floatChecked (c : FCls) (result : PV) : R :=
  if floatGuardRejects c then .error .coercion else .ok result

/-- `float(n)` of a Python int succeeds iff the correctly rounded double is finite: |n| < 2^1024 − 2^970
    (otherwise `OverflowError: int too large to convert to float`) -/
def intFitsDouble (n : Int) : Bool := decide (n.natAbs < 2 ^ 1024 - 2 ^ 970)

/-- `coerce_float` on a JSON value -/
def coerceFloat : JV → R
  | .null => .error .coercion
  | .bool b => floatChecked .finite (.float (.ofBool b))
  | .int n =>
    if intFitsDouble n then floatChecked .finite (.float (.ofInt n))
    else if floatCatchesOverflow then .error .coercion           -- `except OverflowError:` (fix A6)
    else .error .internal
  | .float t =>
    match pyFloat t with
    | some d => floatChecked (clsOf d) (.float (.text t))
    | none => .error .coercion                                   -- not a float lexeme (cannot come from a JSON float)
  | .str s =>
    if s == "" then .error .coercion
    else match pyFloat s with
      | some d => floatChecked (clsOf d) (.float (.text s))     -- float(maybe_float)
      | none => .error .coercion
  | .list _ => .error .coercion                                  -- float([..]) : TypeError
  | .obj _ => .error .coercion

/-- Python `str(x)` of a JSON scalar -/
def pyStr : JV → String
  | .null => "None"
  | .bool true => "True"
  | .bool false => "False"
  | .int n => toString n
  | .float t => t
  | .str s => s
  | .list _ => ""
  | .obj _ => ""

/-- Python `bool(x)` of a JSON value -/
def pyTruthy : JV → Bool
  | .null => false
  | .bool b => b
  | .int n => n != 0
  | .float t => (match pyFloat t with | some d => d.truthy | none => true)
  | .str s => s != ""
  | .list l => !l.isEmpty
  | .obj k => !k.isEmpty

/-- `_parse_string` (fix A4: objects are refused like lists) -/
def parseString : JV → R
  | .list _ => .error .coercion
  | .obj _ => .error .coercion
  | v => .ok (.str (pyStr v))

/-- `_parse_bool` (fix A4) -/
def parseBool : JV → R
  | .list _ => .error .coercion
  | .obj _ => .error .coercion
  | v => .ok (.bool (pyTruthy v))

/-- `_parse_id` (fix A4) -/
def parseId : JV → R
  | .list _ => .error .coercion
  | .obj _ => .error .coercion
  | v => .ok (.str (pyStr v))

mutual
/-- `default_scalar(...).parse` = identity: the JSON value as a Python value -/
def pvOfJson : JV → PV
  | .null => .none
  | .bool b => .bool b
  | .int n => .int n
  | .float t => .float (.text t)
  | .str s => .str s
  | .list l => .list (pvOfJsonL l)
  | .obj kvs => .dict (pvOfJsonF kvs)
def pvOfJsonL : List JV → List PV
  | [] => []
  | x :: xs => pvOfJson x :: pvOfJsonL xs
def pvOfJsonF : List (String × JV) → List (String × PV)
  | [] => []
  | (k, v) :: xs => (k, pvOfJson v) :: pvOfJsonF xs
end

mutual
/-- no NaN / ±Infinity anywhere inside the value (what `_transparent` walks through: lists and dict values, any depth) -/
def jvAllFinite : JV → Bool
  | .float t => (match pyFloat t with | some d => d.isFinite | none => true)
  | .list l => jvAllFiniteL l
  | .obj kvs => jvAllFiniteF kvs
  | _ => true
def jvAllFiniteL : List JV → Bool
  | [] => true
  | x :: xs => jvAllFinite x && jvAllFiniteL xs
def jvAllFiniteF : List (String × JV) → Bool
  | [] => true
  | (_, v) :: xs => jvAllFinite v && jvAllFiniteF xs
end

/-- `default_scalar(...)`: `parse = _transparent` — the value as is, but NaN / ±Infinity at any depth is refused with the
    ValueError `Float` uses (fix C10-H2; `defaultScalarParseRejectsNonFinite` is observed on the live `default_scalar`) -/
def defaultScalarParse (_ : String) (v : JV) : ParseOut :=
  if defaultScalarParseRejectsNonFinite && !jvAllFinite v then .refused else .value (pvOfJson v)

mutual
/-- `_untyped_literal` (scalars.py): the transparent conversion of a literal that `default_scalar` uses as its `parse_literal`:
    numbers keep their SOURCE TEXT, an enum value its name, lists and objects become lists and dicts (a dict comprehension:
    a repeated key keeps its first position and its last value), `null` is None. `none` = a `Variable` node inside, which has no
    `.value` (AttributeError). -/
def untypedLiteral (vars : Option (List (String × PV))) : Lit → Option PV
  | .null => some .none
  | .int n => some (.str (toString n))
  | .float t => some (.str t)
  | .str s => some (.str s)
  | .bool b => some (.bool b)
  | .enum name => some (.str name)
  | .var x =>
    match vars with
    | some vs => some ((lookupLast x vs).getD .none)        -- `(variables or {}).get(name)`: None when no value was provided (fix C06-H7)
    | none => none                                           -- before that fix: no Variable branch, `node.value` raises AttributeError
  | .list items => (untypedLiteralL vars items).map .list
  | .obj fields => (untypedLiteralF vars fields).map fun kvs => .dict (dictOfAssignments kvs)
def untypedLiteralL (vars : Option (List (String × PV))) : List Lit → Option (List PV)
  | [] => some []
  | x :: xs =>
    match untypedLiteral vars x, untypedLiteralL vars xs with
    | some v, some vs => some (v :: vs)
    | _, _ => none
def untypedLiteralF (vars : Option (List (String × PV))) : List (String × Lit) → Option (List (String × PV))
  | [] => some []
  | (k, x) :: xs =>
    match untypedLiteral vars x, untypedLiteralF vars xs with
    | some v, some vs => some ((k, v) :: vs)
    | _, _ => none
end

/-- `default_scalar(...)`: `parse_literal = lambda node, _: _untyped_literal(node)` -/
def defaultScalarParseLiteral (_ : String) (vars : List (String × PV)) (l : Lit) : ParseOut :=
  match untypedLiteral (if standInLiteralSeesVariables then some vars else none) l with
  | some pv => .value pv
  | none => .refused      -- a Variable inside: AttributeError, which `ScalarType.parse_literal` turns into TypeError for a structured node

/-- a registry whose custom scalars are all `default_scalar`s (what `build_schema` makes of an SDL `scalar X`) -/
def Reg.ofTypes (types : List (String × NamedT)) : Reg :=
  { types := types, customParse := defaultScalarParse, customParseLiteral := defaultScalarParseLiteral,
    customHasParseLiteral := fun _ => true }

/-- `EnumType.get_value` -/
def getValue (values : List (String × PV)) (name : String) : R :=
  match values.find? (fun p => p.1 == name) with
  | some p => .ok p.2
  | none => .error .coercion

def kindName : NamedT → String
  | .int => "Int" | .float => "Float" | .string => "String" | .boolean => "Boolean" | .id => "ID"
  | .custom => "<custom>" | .enum _ => "<enum>" | .input _ => "<input>"

def litKind : Lit → String
  | .int _ => "int" | .float _ => "float" | .str _ => "str" | .bool _ => "bool"
  | .null => "null" | .enum _ => "enum" | .list _ => "list" | .obj _ => "obj" | .var _ => "var"

def isScalarLit : Lit → Bool
  | .int _ => true | .float _ => true | .str _ => true | .bool _ => true
  | _ => false

/-- which literals `value_from_ast` hands to a custom scalar's `parse_literal`: scalar literals always; every other kind only
    if the scalar brought its own `parse_literal` (the guard re-extracted from value_from_ast.py) -/
def litAdmitted (reg : Reg) (n : String) (l : Lit) : Bool :=
  isScalarLit l || (customOwnParseLiteralTakesAnyLiteral && reg.customHasParseLiteral n)

/-- `_typed_coerce(coerce_, *types)`: node classes outside the table raise `TypeError` (→ ScalarParsingError) -/
def admits (k : NamedT) (l : Lit) : Bool :=
  match literalKinds.find? (fun p => p.1 == kindName k) with
  | some p => p.2.contains (litKind l)
  | none => false

/-- `ScalarType.parse_literal` of the specified scalars (`coerce_(node.value)`) and of `default_scalar` -/
def parseLiteral (k : NamedT) (l : Lit) : R :=
  match k with
  | .custom => .error .internal              -- custom scalars go through `Reg.customParseLiteral` (see `vfaCore`)
  | _ =>
    if admits k l then
      match k, l with
      | .int, .int n => rangeChecked n (.int n)            -- coerce_int("<digits>")
      | .float, .float t =>                                          -- coerce_float("<text>")
        match pyFloat t with
        | some d => floatChecked (clsOf d) (.float (.text t))
        | none => .error .coercion
      | .float, .int n =>                                           -- coerce_float("<digits>"): float(str) overflows to inf
        floatChecked (if intFitsDouble n then .finite else .inf) (.float (.ofInt n))
      | .string, .str s => .ok (.str s)
      | .boolean, .bool b => .ok (.bool b)
      | .id, .str s => .ok (.str s)
      | .id, .int n => .ok (.str (toString n))
      | _, _ => .error .internal                           -- a combination today's table does not admit
    else .error .coercion

/-! ### input objects: the field loop shared by `_coerce_input_object` and `_extract_input_object` -/

/-- `for field in type_.fields:` — `get name` is `value[name]` / `node_fields[name]` (none = absent).
    Absent: declared default, else error if non-null, else the key stays absent.
    Present: coerced recursively, stored under `python_name`. -/
def fieldLoop {α : Type} (get : String → Option α) (rec : Ty → α → R) : List InField → Except Err (List (String × PV))
  | [] => .ok []
  | f :: fs =>
    match get f.name with
    | none =>
      match f.default with
      | some d =>
        match fieldLoop get rec fs with
        | .error e => .error e
        | .ok r => .ok ((f.pyName, d) :: r)
      | none => if f.type.isNonNull then .error .coercion else fieldLoop get rec fs
    | some v =>
      match rec f.type v with
      | .error e => .error e
      | .ok pv =>
        match fieldLoop get rec fs with
        | .error e => .error e
        | .ok r => .ok ((f.pyName, pv) :: r)

/-- the field loop of `_coerce_input_object`: same as `fieldLoop`, but errors are collected (see `mapEC`) -/
def fieldLoopC {α : Type} (get : String → Option α) (rec : Ty → α → R) : List InField → Except Err (List (String × PV))
  | [] => .ok []
  | f :: fs =>
    match get f.name with
    | none =>
      match f.default with
      | some d =>
        match fieldLoopC get rec fs with
        | .error e => .error e
        | .ok r => .ok ((f.pyName, d) :: r)
      | none =>
        if f.type.isNonNull then
          match fieldLoopC get rec fs with
          | .error e => .error e
          | .ok _ => .error .coercion
        else fieldLoopC get rec fs
    | some v =>
      match rec f.type v with
      | .error .coercion =>
        match fieldLoopC get rec fs with
        | .error e => .error e
        | .ok _ => .error .coercion
      | .error e => .error e
      | .ok pv =>
        match fieldLoopC get rec fs with
        | .error e => .error e
        | .ok r => .ok ((f.pyName, pv) :: r)

/-- every supplied key is a declared field (`fieldname not in type_.field_map` ⇒ error) -/
def allKnown {α : Type} (fields : List InField) (kvs : List (String × α)) : Bool :=
  kvs.all fun p => fields.any fun f => f.name == p.1

/-! ### coerce_value.py -/

/-- `_coerce_list_value` -/
def coerceListValue (rec : Ty → JV → R) (t : Ty) (v : JV) : R :=
  match v with
  | .list l =>
    match mapEC (rec t) l with
    | .error e => .error e
    | .ok r => .ok (.list r)
  | _ =>
    match rec t v with
    | .error e => .error e
    | .ok x => .ok (.list [x])

/-- `_coerce_input_object` (fix A2: defaults are filled in) -/
def coerceInputObject (rec : Ty → JV → R) (fields : List InField) (v : JV) : R :=
  match v with
  | .obj kvs =>
    match fieldLoopC (fun k => lookupLast k kvs) rec fields with
    | .error e => .error e
    | .ok r => if allKnown fields kvs then .ok (.dict (dictOfAssignments r)) else .error .coercion
  | _ => .error .coercion

/-- body of `coerce_value` after the non-null test, on the stripped type -/
def coerceCore (reg : Reg) (rec : Ty → JV → R) (t : Ty) (v : JV) : R :=
  if v.isNull then .ok .none
  else match t with
    | .named n =>
      match reg.get? n with
      | some .int => coerceInt v
      | some .float => coerceFloat v
      | some .string => parseString v
      | some .boolean => parseBool v
      | some .id => parseId v
      | some .custom => (reg.customParse n v).toR
      | some (.enum vs) =>
        match v with
        | .str s => getValue vs s
        | _ => .error .coercion
      | some (.input fs) => coerceInputObject rec fs v
      | none => .error .internal
    | .list t' => coerceListValue rec t' v
    | .nonNull _ => .ok .none          -- `NonNull(NonNull(T))`: no isinstance test matches, implicit `return None`

/-- `coerce_value` -/
def coerceValue (reg : Reg) : Nat → Ty → JV → R
  | 0, _, _ => .error .fuel
  | fuel + 1, ty, v =>
    if ty.isNonNull && v.isNull then .error .coercion
    else coerceCore reg (coerceValue reg fuel) (stripNN ty) v

/-! ### value_from_ast.py -/

/-- `_extract_variable` -/
def extractVariable (vars : Option (List (String × PV))) (ty : Ty) (x : String) : R :=
  match vars with
  | none => .error .coercion
  | some vs =>
    match lookupLast x vs with
    | none => .error .coercion
    | some v => if ty.isNonNull && v.isNone then .error .coercion else .ok v

/-- `_extract_input_object` (fix A5: a field the type does not define is refused) -/
def extractInputObject (rec : Ty → Lit → R) (fields : List InField) (lkvs : List (String × Lit)) : R :=
  match fieldLoop (fun k => lookupLast k lkvs) rec fields with
  | .error e => .error e
  | .ok r => if allKnown fields lkvs then .ok (.dict (dictOfAssignments r)) else .error .coercion

/-- body of `value_from_ast` after the variable and non-null tests, on the stripped type -/
def vfaCore (vars : Option (List (String × PV))) (reg : Reg) (rec : Ty → Lit → R) (t : Ty) (l : Lit) : R :=
  if l.isNull then .ok .none
  else match t with
    | .list t' =>
      match l with
      | .list items =>
        match mapE (rec t') items with
        | .error e => .error e
        | .ok r => .ok (.list r)
      | _ =>
        match rec t' l with
        | .error e => .error e
        | .ok x => .ok (.list [x])
    | .named n =>
      match reg.get? n with
      | some (.input fs) =>
        match l with
        | .obj lkvs => extractInputObject rec fs lkvs
        | _ => .error .coercion
      | some (.enum vs) =>
        match l with
        | .enum name => getValue vs name
        | _ => .error .coercion
      | some .custom => if litAdmitted reg n l then (reg.customParseLiteral n (vars.getD []) l).toR else .error .coercion
      | some k => if isScalarLit l then parseLiteral k l else .error .coercion
      | none => .error .internal
    | .nonNull _ => .error .internal     -- raise TypeError("Invalid type for input coercion")

/-- `value_from_ast` -/
def valueFromAst (reg : Reg) (vars : Option (List (String × PV))) : Nat → Ty → Lit → R
  | 0, _, _ => .error .fuel
  | fuel + 1, ty, l =>
    match l with
    | .var x => extractVariable vars ty x
    | _ =>
      if ty.isNonNull && l.isNull then .error .coercion
      else vfaCore vars reg (valueFromAst reg vars fuel) (stripNN ty) l

/-! ### coerce_variable_values -/

structure VarDef where
  name : String
  type : Ty
  default : Option Lit
  deriving Repr, Inhabited

/-- one iteration of the loop of `coerce_variable_values`: `none` = the variable stays unbound -/
def coerceVariable (reg : Reg) (fuel : Nat) (variables : List (String × JV)) (d : VarDef) : Except Err (Option PV) :=
  if (reg.get? d.type.base).isNone then .error .coercion          -- UnknownType
  else match lookupLast d.name variables with
    | none =>
      match d.default with
      | some l =>
        match valueFromAst reg none fuel d.type l with
        | .error e => .error e
        | .ok pv => .ok (some pv)
      | none => if d.type.isNonNull then .error .coercion else .ok none
    | some v =>
      if v.isNull && d.type.isNonNull then .error .coercion
      else match coerceValue reg fuel d.type v with
        | .error .fuel => .error .coercion        -- `except RecursionError:` (fix A7): nested too deeply = an invalid value
        | .error e => .error e
        | .ok pv => .ok (some pv)

def coerceVariableValues (reg : Reg) (fuel : Nat) (variables : List (String × JV)) : List VarDef → Except Err (List (String × PV))
  | [] => .ok []
  | d :: ds =>
    match coerceVariable reg fuel variables d with
    | .error .coercion =>                      -- errors.append(...): the loop goes on, `raise VariablesCoercionError` at the end
      match coerceVariableValues reg fuel variables ds with
      | .error e => .error e
      | .ok _ => .error .coercion
    | .error e => .error e
    | .ok o =>
      match coerceVariableValues reg fuel variables ds with
      | .error e => .error e
      | .ok r =>
        match o with
        | some pv => .ok ((d.name, pv) :: r)
        | none => .ok r

/-! ### coerce_argument_values -/

/-- one iteration of the loop of `coerce_argument_values`: `none` = the keyword argument is omitted
    (fix A3: a variable bound to None at a non-null argument is an error) -/
def coerceArg (reg : Reg) (fuel : Nat) (vars : List (String × PV)) (args : List (String × Lit)) (d : InField) : Except Err (Option PV) :=
  match lookupLast d.name args with
  | none =>
    match d.default with
    | some v => .ok (some v)
    | none => if d.type.isNonNull then .error .coercion else .ok none
  | some (.var x) =>
    match lookupLast x vars with
    | some v => if v.isNone && d.type.isNonNull then .error .coercion else .ok (some v)
    | none =>
      match d.default with
      | some v => .ok (some v)
      | none => if d.type.isNonNull then .error .coercion else .ok none
  | some l =>
    match valueFromAst reg (some vars) fuel d.type l with
    | .error e => .error e
    | .ok pv => .ok (some pv)

def coerceArgumentValues (reg : Reg) (fuel : Nat) (vars : List (String × PV)) (args : List (String × Lit)) : List InField → Except Err (List (String × PV))
  | [] => .ok []
  | d :: ds =>
    match coerceArg reg fuel vars args d with
    | .error e => .error e
    | .ok o =>
      match coerceArgumentValues reg fuel vars args ds with
      | .error e => .error e
      | .ok r =>
        match o with
        | some pv => .ok ((d.pyName, pv) :: r)
        | none => .ok r

/-! ### enough fuel: the fuel-free functions -/

def fieldsWidth : List InField → Nat
  | [] => 0
  | f :: fs => max f.type.size (fieldsWidth fs)

def typesWidth : List (String × NamedT) → Nat
  | [] => 0
  | p :: r =>
    match p.2 with
    | .input fs => max (fieldsWidth fs) (typesWidth r)
    | _ => typesWidth r

/-- "depth" of the registry: the largest number of wrappers + 1 of any input field's type -/
def Reg.width (r : Reg) : Nat := typesWidth r.types

/-- a recursion budget that always suffices: size of the position's type + (registry width + 1) × size of the value.
    (Every recursive call either descends into the value — and then restarts at a field type, at most `width` large —
    or keeps the value and peels one list wrapper off the type.) -/
def fuelFor (reg : Reg) (ty : Ty) (valueSize : Nat) : Nat := ty.size + (reg.width + 1) * valueSize

/-- `coerce_value`, fuel-free -/
noncomputable def coerceValueT (reg : Reg) (ty : Ty) (v : JV) : R := coerceValue reg (fuelFor reg ty (sizeOf v)) ty v

/-- `value_from_ast`, fuel-free -/
noncomputable def valueFromAstT (reg : Reg) (vars : Option (List (String × PV))) (ty : Ty) (l : Lit) : R :=
  valueFromAst reg vars (fuelFor reg ty (sizeOf l)) ty l

/-! ### the validator's condition on variable usages (validation/rules: VariablesInAllowedPosition, Schema.is_subtype) -/

/-- `Schema.is_subtype(type_, super_type)` on input types (no abstract types among them) -/
def isSubtype : Ty → Ty → Bool
  | .named a, b => b == .named a                                            -- `type_ == super_type`, else nothing applies
  | .list a, b =>
    b == .list a ||
      match b with
      | .list b' => isSubtype a b'                                          -- both ListType: compare the item types
      | _ => false                                                          -- `isinstance(type_, ListType): return False`
  | .nonNull a, b =>
    b == .nonNull a ||
      match b with
      | .nonNull b' => isSubtype a b'                                       -- both NonNullType
      | _ => isSubtype a b                                                  -- `isinstance(type_, NonNullType)`: strip it

/-- `var_default is not None and type(var_default) != NullValue` -/
def VarDef.hasNonNullDefault (d : VarDef) : Bool :=
  match d.default with
  | some .null => false
  | some _ => true
  | none => false

/-- the test of `VariablesInAllowedPositionChecker.leave_document` for one usage (`true` = no error is reported) -/
def allowedUsage (varTy : Ty) (varDefaultNonNull : Bool) (locTy : Ty) (locHasDefault : Bool) : Bool :=
  if locTy.isNonNull && !varTy.isNonNull then
    (varDefaultNonNull || locHasDefault) && isSubtype varTy (stripNN locTy)
  else isSubtype varTy locTy

end PyGql.Coerce

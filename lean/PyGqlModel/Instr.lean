/-
  C16 — model of the hook/middleware trace of one request.

  Mirrors (function by function):
    src/py_gql/_graphql.py                      process_graphql_query  (`pipeline`)
    src/py_gql/execution/execute.py             execute                (`execute`)
    src/py_gql/execution/blocking_executor.py   BlockingExecutor       (`blocking*`)
    src/py_gql/execution/executor.py            Executor.resolve_field / execute_fields /
                                                execute_fields_serially / field_resolver
                                                (`start*`, `runTask`, `drain`, `execSerial`)
    src/py_gql/_utils.py                        apply_middlewares      (`applyMiddlewares`)
    src/py_gql/execution/instrumentation.py     MultiInstrumentation   (`Instr.emit`, `expand`)

  A request is abstract: the outcome of every stage is a flag, the selection is a field tree
  whose every node says what its resolver does (argument coercion error | raises ResolverError |
  returns a value completed as leaf / null / object / list) and whether the runtime defers it
  (thread-pool `submit`, `async def` coroutine).  The model emits the TRACE of hook, middleware
  and resolver events in the order the code produces them.  Deferred resolvers complete in the
  order given by a schedule (indices into the queue of outstanding tasks, submission order).

  Meta fields (`__typename`, `__schema`, `__type`) and the fields of the introspection types are
  ordinary nodes of the tree: `ResolutionContext.field_definition` returns the introspection
  `Field`, `Executor.field_resolver` wraps its resolver with the runtime and the middlewares like
  any other (`fieldResolver` below makes no distinction), so every theorem about fields covers them.

  Core Lean only (this file is linked into the driver).
-/
namespace PyGql.Instr

inductive Seg where
  | key (s : String)
  | idx (n : Nat)
  deriving DecidableEq, Repr

abbrev Path := List Seg

inductive Stage where
  | query | parsing | validation | execution
  deriving DecidableEq, Repr

/-- one callback of the `Instrumentation` interface; `start = true` for `on_*_start` -/
inductive Hook where
  | stage (s : Stage) (start : Bool)
  | field (p : Path) (start : Bool)
  deriving DecidableEq, Repr

def Hook.isStart : Hook → Bool
  | .stage _ b => b
  | .field _ b => b

/-- events as seen with ONE instrumentation object (`self.instrumentation.on_…()` call sites) -/
inductive Ev where
  | hook (h : Hook)
  | mwEnter (i : Nat) (p : Path)
  | mwExit (i : Nat) (p : Path)
  | call (p : Path)
  | ret (p : Path)
  | raise (p : Path)
  deriving DecidableEq, Repr

/-! ### MultiInstrumentation -/

def Stage.idx : Stage → Nat
  | .query => 0 | .parsing => 1 | .validation => 2 | .execution => 3

/-- which of the 10 methods of the `Instrumentation` interface a hook call goes to
    (`on_query_start` = 0, `on_query_end` = 1, …, `on_field_start` = 8, `on_field_end` = 9) -/
def Hook.kind : Hook → Nat
  | .stage s b => 2 * s.idx + (if b then 0 else 1)
  | .field _ b => 8 + (if b then 0 else 1)

/-- every method overridden -/
def allKinds : List Nat := [0, 1, 2, 3, 4, 5, 6, 7, 8, 9]

/-- an instrumentation object: a recording `Instrumentation` subclass instance that overrides
    the methods `overrides` (the others are the no-ops of the base class), or a
    `MultiInstrumentation(*children)` -/
inductive Instr where
  | leaf (i : Nat) (overrides : List Nat)
  | multi (cs : List Instr)

instance : Inhabited Instr := ⟨.leaf 0 allKinds⟩

/-- does an instance overriding `m` record hook `h` -/
def sees (m : List Nat) (h : Hook) : Bool := m.contains h.kind

/-- recorded events: hooks carry the identity of the leaf instrumentation that saw them -/
inductive REv where
  | hook (i : Nat) (h : Hook)
  | other (e : Ev)
  deriving DecidableEq, Repr

mutual
/-- calling hook `h` on an instrumentation object -/
def Instr.emit : Instr → Hook → List REv
  | .leaf i m, h => if sees m h then [.hook i h] else []      -- base-class no-op when not overridden
  | .multi cs, h => if h.isStart then emitAll cs h else emitAllRev cs h
/-- `for i in self.instrumentations: i.on_x_start()` -/
def emitAll : List Instr → Hook → List REv
  | [], _ => []
  | c :: cs, h => c.emit h ++ emitAll cs h
/-- `for i in self.instrumentations[::-1]: i.on_x_end()` -/
def emitAllRev : List Instr → Hook → List REv
  | [], _ => []
  | c :: cs, h => emitAllRev cs h ++ c.emit h
end

mutual
/-- the recording leaves (identity, overridden methods), in order -/
def Instr.leaves : Instr → List (Nat × List Nat)
  | .leaf i m => [(i, m)]
  | .multi cs => leavesAll cs
def leavesAll : List Instr → List (Nat × List Nat)
  | [] => []
  | c :: cs => c.leaves ++ leavesAll cs
end

/-- substitute the instrumentation object at every hook call site -/
def expand (t : Instr) : List Ev → List REv
  | [] => []
  | .hook h :: es => t.emit h ++ expand t es
  | e :: es => .other e :: expand t es

/-! ### apply_middlewares -/

/-- a resolver-like callable, abstracted to the events one call at path `p` produces -/
abbrev Callable := Path → List Ev

/-- the recording middleware `mw(next, root, ctx, info, **args)`: enter, call next, exit -/
def middleware (i : Nat) (next : Callable) : Callable :=
  fun p => [.mwEnter i p] ++ next p ++ [.mwExit i p]

/-- `tail = func; for mw in middlewares: tail = functools.partial(mw, tail); return tail` -/
def applyMiddlewares (func : Callable) (mws : List Nat) : Callable :=
  mws.foldl (fun tail i => middleware i tail) func

/-! ### field trees -/

inductive OutKind where
  | argError   -- `argument_values` raises CoercionError: the resolver is not invoked
  | raises     -- the resolver raises ResolverError
  | returns    -- the resolver returns a value
  deriving DecidableEq, Repr

mutual
/-- how a returned value is completed -/
inductive Comp where
  | leaf
  | null
  | obj (fs : List Node)
  | list (items : List Comp)
/-- one selected field: response key, deferred by the runtime?, resolver outcome, completion -/
inductive Node where
  | mk (key : String) (deferred : Bool) (o : OutKind) (c : Comp)
end

instance : Inhabited Comp := ⟨.leaf⟩
instance : Inhabited Node := ⟨.mk "" false .returns .leaf⟩

structure Cfg where
  /-- the configured middlewares, identified by their index in the `middlewares=[…]` list -/
  mws : List Nat

def fieldStart (p : Path) : List Ev := [.hook (.field p true)]
def fieldEnd (p : Path) : List Ev := [.hook (.field p false)]

/-- body of a resolver: invoked, then returns or raises -/
def resolverBody (o : OutKind) : Callable :=
  fun p => [.call p, if o = .raises then .raise p else .ret p]

/-- `runtime.wrap_callable(base)` of a deferring runtime: calling it only submits -/
def submitOnly : Callable := fun _ => []

/-- `Executor.field_resolver`: runtime wrapper, then the middlewares -/
def fieldResolver (cfg : Cfg) (deferred : Bool) (o : OutKind) : Callable :=
  applyMiddlewares (if deferred then submitOnly else resolverBody o) cfg.mws

/-! ### BlockingExecutor -/

mutual
/-- `BlockingExecutor.resolve_field` (try / except (CoercionError, ResolverError) / finally) -/
def blockingResolveField (cfg : Cfg) (path : Path) : Node → List Ev
  | .mk key _ o c =>
    let p := path ++ [.key key]
    fieldStart p ++
    (match o with
     | .argError => fieldEnd p                                        -- except …: add_error; finally: on_field_end
     | .raises => fieldResolver cfg false o p ++ fieldEnd p           -- except …: add_error; finally: on_field_end
     | .returns => fieldResolver cfg false o p ++ fieldEnd p ++ blockingComplete cfg p c)
/-- `complete_value` -/
def blockingComplete (cfg : Cfg) (p : Path) : Comp → List Ev
  | .leaf => []
  | .null => []
  | .obj fs => blockingFields cfg p fs
  | .list items => blockingItems cfg p 0 items
/-- `BlockingExecutor.execute_fields` (= `execute_fields_serially`) -/
def blockingFields (cfg : Cfg) (p : Path) : List Node → List Ev
  | [] => []
  | n :: ns => blockingResolveField cfg p n ++ blockingFields cfg p ns
/-- `BlockingExecutor.complete_list_value` -/
def blockingItems (cfg : Cfg) (p : Path) (i : Nat) : List Comp → List Ev
  | [] => []
  | c :: cs => blockingComplete cfg (p ++ [.idx i]) c ++ blockingItems cfg p (i + 1) cs
end

/-! ### Executor (any runtime) -/

/-- an outstanding deferred resolver call -/
structure Task where
  path : Path
  o : OutKind
  c : Comp

mutual
/-- `Executor.resolve_field` up to the point where the runtime takes over -/
def startField (cfg : Cfg) (path : Path) : Node → List Ev × List Task
  | .mk key d o c =>
    let p := path ++ [.key key]
    match o with
    | .argError => (fieldStart p ++ fieldEnd p, [])                   -- `return fail(err)`
    | .raises =>
      if d then (fieldStart p ++ fieldResolver cfg true o p, [⟨p, o, c⟩])
      else (fieldStart p ++ fieldResolver cfg false o p ++ fieldEnd p, [])   -- except ResolverError: fail(err)
    | .returns =>
      if d then (fieldStart p ++ fieldResolver cfg true o p, [⟨p, o, c⟩])
      else
        let r := startComplete cfg p c                                 -- complete(res): on_field_end, complete_value
        (fieldStart p ++ fieldResolver cfg false o p ++ fieldEnd p ++ r.1, r.2)
/-- `complete_value` -/
def startComplete (cfg : Cfg) (p : Path) : Comp → List Ev × List Task
  | .leaf => ([], [])
  | .null => ([], [])
  | .obj fs => startFields cfg p fs
  | .list items => startItems cfg p 0 items
/-- `Executor.execute_fields`: every field is started, in order; `gather_values` waits -/
def startFields (cfg : Cfg) (p : Path) : List Node → List Ev × List Task
  | [] => ([], [])
  | n :: ns =>
    let a := startField cfg p n
    let b := startFields cfg p ns
    (a.1 ++ b.1, a.2 ++ b.2)
/-- `Executor.complete_list_value` -/
def startItems (cfg : Cfg) (p : Path) (i : Nat) : List Comp → List Ev × List Task
  | [] => ([], [])
  | c :: cs =>
    let a := startComplete cfg (p ++ [.idx i]) c
    let b := startItems cfg p (i + 1) cs
    (a.1 ++ b.1, a.2 ++ b.2)
end

/-- a deferred resolver runs and completes: its body, then the `complete` / `fail` callback -/
def runTask (cfg : Cfg) (t : Task) : List Ev × List Task :=
  match t.o with
  | .returns =>
    let r := startComplete cfg t.path t.c
    (resolverBody t.o t.path ++ fieldEnd t.path ++ r.1, r.2)
  | _ => (resolverBody t.o t.path ++ fieldEnd t.path, [])

/-- complete outstanding tasks in schedule order until none is left.
    `sched` holds indices into the queue (taken modulo its length; 0 when exhausted). -/
def drain (cfg : Cfg) : Nat → List Task → List Nat → List Ev × List Nat
  | 0, _, sched => ([], sched)
  | _ + 1, [], sched => ([], sched)
  | fuel + 1, t0 :: rest, sched =>
    let pool := t0 :: rest
    let i := sched.headD 0 % pool.length
    let t := pool.getD i t0
    let r := runTask cfg t
    let d := drain cfg fuel (pool.eraseIdx i ++ r.2) sched.tail
    (r.1 ++ d.1, d.2)

mutual
def sizeNode : Node → Nat
  | .mk _ _ _ c => 1 + sizeComp c
def sizeComp : Comp → Nat
  | .leaf => 0
  | .null => 0
  | .obj fs => sizeNodes fs
  | .list items => sizeItems items
def sizeNodes : List Node → Nat
  | [] => 0
  | n :: ns => sizeNode n + sizeNodes ns
def sizeItems : List Comp → Nat
  | [] => 0
  | c :: cs => sizeComp c + sizeItems cs
end

def Task.size (t : Task) : Nat := 1 + sizeComp t.c
def poolSize (pool : List Task) : Nat := (pool.map Task.size).sum

/-- `Executor.execute_fields` at the root + everything the runtime completes afterwards -/
def execParallel (cfg : Cfg) (fields : List Node) (sched : List Nat) : List Ev :=
  let s := startFields cfg [] fields
  s.1 ++ (drain cfg (sizeNodes fields) s.2 sched).1

/-- `Executor.execute_fields_serially`: the next root field starts when the previous one
    (its whole subtree) is complete -/
def execSerial (cfg : Cfg) : List Node → List Nat → List Ev
  | [], _ => []
  | n :: ns, sched =>
    let s := startField cfg [] n
    let d := drain cfg (sizeNode n) s.2 sched
    s.1 ++ d.1 ++ execSerial cfg ns d.2

/-! ### the request pipeline -/

structure Request where
  /-- the document is given as text (parsing hooks fire) -/
  docIsText : Bool
  syntaxError : Bool
  /-- validation reports no error -/
  valid : Bool
  /-- `get_operation_with_type` succeeds -/
  opselOk : Bool
  /-- `coerce_variable_values` succeeds -/
  varsOk : Bool
  /-- the selected operation is a subscription: `execute` raises InvalidOperationError -/
  subscriptionOp : Bool
  /-- collecting the ROOT selection set fails (a `@skip` / `@include` condition that cannot be
      evaluated): `execute` ends the execution stage and answers data null + one error -/
  rootCollectFails : Bool
  /-- mutation: root fields run serially -/
  serial : Bool
  /-- `executor_cls=BlockingExecutor` -/
  blockingExecutor : Bool
  fields : List Node
  sched : List Nat

def stageStart (s : Stage) : List Ev := [.hook (.stage s true)]
def stageEnd (s : Stage) : List Ev := [.hook (.stage s false)]

/-- the executor run: `exe_fn(root_type, initial_value, [], collect_fields(...))` and everything
    the runtime completes afterwards -/
def execBody (cfg : Cfg) (r : Request) : List Ev :=
  if r.blockingExecutor then blockingFields cfg [] r.fields          -- execute_fields_serially = execute_fields
  else if r.serial then execSerial cfg r.fields r.sched
  else execParallel cfg r.fields r.sched

/-- `execute(...)`; `none` = it raised before `on_execution_start` (operation / variables) -/
def execute (cfg : Cfg) (r : Request) : Option (List Ev) :=
  if !r.opselOk then none            -- get_operation_with_type raises InvalidOperationError
  else if !r.varsOk then none        -- coerce_variable_values raises VariablesCoercionError
  else if r.subscriptionOp then none -- "`execute` does not support subscriptions": InvalidOperationError (an ExecutionError)
  else if r.rootCollectFails then
    some (stageStart .execution ++ stageEnd .execution)                -- except ResolverError: on_execution_end(); data=None
  else some (stageStart .execution ++ execBody cfg r ++ stageEnd .execution)     -- _on_finish: on_execution_end
  -- (a root selection set that collects to NOTHING — every field skipped — is `execBody` of an empty field list)

/-- `process_graphql_query`. `abortInsideExcept = true` is the tree before the proposed fix of
    defect N1 (`return _abort(...)` inside `except`, i.e. before the `finally`). -/
def pipeline (abortInsideExcept : Bool) (cfg : Cfg) (r : Request) : List Ev :=
  let abort := stageEnd .query                                        -- _abort → _on_end → on_query_end
  stageStart .query ++
  (if r.docIsText && r.syntaxError then
     stageStart .parsing ++
     (if abortInsideExcept then abort ++ stageEnd .parsing            -- except: return _abort(); finally: on_parsing_end
      else stageEnd .parsing ++ abort)                                -- finally: on_parsing_end; then _abort()
   else
     (if r.docIsText then stageStart .parsing ++ stageEnd .parsing else []) ++
     stageStart .validation ++ stageEnd .validation ++
     (if !r.valid then abort
      else match execute cfg r with
        | none => abort                                               -- except VariablesCoercionError / ExecutionError
        | some evs => evs ++ stageEnd .query))                        -- runtime.map_value(execute(...), _on_end)

/-- the recorded trace of a request with instrumentation object `t` -/
def recorded (abortInsideExcept : Bool) (t : Instr) (cfg : Cfg) (r : Request) : List REv :=
  expand t (pipeline abortInsideExcept cfg r)

/-! ### rendering (wire format of the correspondence) -/

def Seg.render : Seg → String
  | .key s => s
  | .idx n => toString n

def renderPath (p : Path) : String := "/".intercalate (p.map Seg.render)

def Stage.render : Stage → String
  | .query => "query" | .parsing => "parsing" | .validation => "validation" | .execution => "execution"

def Hook.render : Hook → String
  | .stage s b => s.render ++ (if b then "+" else "-")
  | .field p b => "field" ++ (if b then "+" else "-") ++ ":" ++ renderPath p

def Ev.render : Ev → String
  | .hook h => "hook:" ++ h.render
  | .mwEnter i p => "mw>" ++ toString i ++ ":" ++ renderPath p
  | .mwExit i p => "mw<" ++ toString i ++ ":" ++ renderPath p
  | .call p => "call:" ++ renderPath p
  | .ret p => "ret:" ++ renderPath p
  | .raise p => "raise:" ++ renderPath p

def REv.render : REv → String
  | .hook i h => "i" ++ toString i ++ ":" ++ h.render
  | .other e => e.render

end PyGql.Instr

/-
  C11 — the `hide` approximation ("the input type whose fields are being extended is in progress") is IRRELEVANT outside
  recursive input types: a syntactic sufficient condition for the residue premise `SelfDefaults` of `build_exact_spec`.

  `defaultValueX eB eX (some h) lit ty` keeps the value over the un-extended types when the evaluation of `lit` at `ty`
  over the extended types resolves the type `h` in progress (`needsHidden`: `ty.base = h`, or `touches`).  `touches` only
  follows the field types of INPUT OBJECT definitions: `touches_reach` — if it answers `true`, `h` is reachable from
  `ty.base` in the graph "input object ⟶ base type of one of its (merged) fields" (`InReach`).  Hence
  (`selfDefaults_of_noSelfReach`) in a document where no input object type reaches ITSELF in that graph the hidden type
  is never needed, `SelfDefaults` holds, and `build_exact_acyclic_inputs` states `build_exact_spec` with the residue
  reduced to `BaseDefaults` (finding S8) — `noThunkCycle` (finding S1b) also follows: a re-entrant field thunk is a cycle
  of that graph restricted to the definitions.

  The real builder keeps a SET of types in progress (every type on the stack of `extend_type` calls), not one: the by-name
  model under-approximates it (known finding C11/H4-1, probe `finding-H4-defaulted-backref`).  Every hit of that set —
  like every hit of `hide` — needs an input object type that reaches itself, so under the premise of this file model and
  code have nothing to differ on.
-/
import PyGqlModel.Props.C11_valid

set_option linter.unusedVariables false
set_option linter.unusedSimpArgs false

namespace PyGql.Props.C11
open PyGql PyGql.Sdl PyGql.SdlSpec

/-- reachability between type names through the fields of input object definitions (as `env` sees them) -/
inductive InReach (env : Env) : String → String → Prop
  | step {n : String} {d : TypeDef} {f : InputValDef} : env.findDef n = some d → d.kind = .input → f ∈ d.inputFields → InReach env n f.type.base
  | trans {a b c : String} : InReach env a b → InReach env b c → InReach env a c

private theorem base_nonNull (t : Ty) : (Ty.nonNull t).base = t.base := rfl
private theorem base_list (t : Ty) : (Ty.list t).base = t.base := rfl
private theorem base_named (n : String) : (Ty.named n).base = n := rfl

/-- `touches` follows edges of `InReach` only -/
theorem touches_reach (env : Env) (h : String) : ∀ (fuel : Nat),
    (∀ lit ty, touches env h fuel lit ty = true → InReach env ty.base h) ∧
    (∀ items ty, touchesItems env h fuel items ty = true → InReach env ty.base h) ∧
    (∀ given (fs : List InputValDef), touchesFields env h fuel given fs = true → ∃ f ∈ fs, f.type.base = h ∨ InReach env f.type.base h) := by
  intro fuel
  induction fuel with
  | zero =>
    refine ⟨?_, ?_, ?_⟩
    · intro lit ty ht; simp [touches] at ht
    · intro items ty ht; simp [touchesItems] at ht
    · intro given fs ht; simp [touchesFields] at ht
  | succ k ih =>
    obtain ⟨ih1, ih2, ih3⟩ := ih
    refine ⟨?_, ?_, ?_⟩
    · intro lit ty ht
      cases ty with
      | nonNull t =>
        rw [base_nonNull]
        cases lit <;> simp only [touches] at ht <;> first | exact ih1 _ _ ht | cases ht
      | list t =>
        rw [base_list]
        cases lit <;> simp only [touches] at ht <;> first | exact ih1 _ _ ht | exact ih2 _ _ ht | cases ht
      | named n =>
        rw [base_named]
        cases lit <;> simp only [touches] at ht <;> try (cases ht)
        rename_i fs
        split at ht
        · cases ht
        · split at ht
          · rename_i d hd
            split at ht
            · rename_i hk
              obtain ⟨f, hf, hor⟩ := ih3 _ _ ht
              have hk' : d.kind = .input := by simpa using hk
              have hs : InReach env n f.type.base := InReach.step hd hk' hf
              rcases hor with he | hr
              · rw [← he]; exact hs
              · exact InReach.trans hs hr
            · cases ht
          · cases ht
    · intro items ty ht
      cases items with
      | nil => simp [touchesItems] at ht
      | cons x xs =>
        simp only [touchesItems, Bool.or_eq_true] at ht
        rcases ht with h1 | h2
        · exact ih1 _ _ h1
        · exact ih2 _ _ h2
    · intro given fs ht
      cases fs with
      | nil => simp [touchesFields] at ht
      | cons f fs =>
        simp only [touchesFields, Bool.or_eq_true] at ht
        rcases ht with h1 | h2
        · refine ⟨f, by simp, ?_⟩
          split at h1
          · simp only [Bool.or_eq_true, beq_iff_eq] at h1
            rcases h1 with e | t
            · exact Or.inl e
            · exact Or.inr (ih1 _ _ t)
          · split at h1
            · cases h1
            · exact Or.inl (by simpa using h1)
        · obtain ⟨g, hg, hor⟩ := ih3 _ _ h2
          exact ⟨g, by simp [hg], hor⟩

/-- a default of a field of the input object `t` never needs `t` in progress when `t` does not reach itself -/
theorem needsHidden_false_of_noSelfReach (eX : Env) (d : TypeDef) (n : String) (hfd : eX.findDef n = some d) (hk : d.kind = .input)
    (hno : ¬ InReach eX n n) (a : InputValDef) (ha : a ∈ d.inputFields) (l : Lit) :
    needsHidden eX (some n) l a.type = false := by
  have hs : InReach eX n a.type.base := InReach.step hfd hk ha
  unfold needsHidden
  simp only [Bool.or_eq_false_iff, beq_eq_false_iff_ne, ne_eq]
  constructor
  · intro he
    rw [he] at hs
    exact hno hs
  · cases ht : touches eX n coerceFuel l a.type with
    | false => rfl
    | true => exact absurd (InReach.trans hs ((touches_reach eX n coerceFuel).1 l a.type ht)) hno

theorem findDef_extended_of_mem (defs X : List TypeDef) (hu : (defs.map (·.name)).Nodup) (t : TypeDef) (ht : t ∈ defs) :
    ((Env.of defs).extended X).findDef t.name = some (mergeDef X t) := by
  show (defs.find? (·.name == t.name)).map (mergeExt X) = some (mergeDef X t)
  rw [find_name_of_mem (·.name) defs hu t ht]
  rfl

/-- **`SelfDefaults` from a rule about the document**: if no input object type of the document reaches itself through
    the (merged) fields of input object types, the type in progress is never needed and `hide` changes nothing. -/
theorem selfDefaults_of_noSelfReach (doc : Doc) (hu : ((typeDefs doc).map (·.name)).Nodup)
    (hno : ∀ t ∈ typeDefs doc, t.kind = .input → ¬ InReach ((Env.of (typeDefs doc)).extended (typeExts doc)) t.name t.name) :
    SelfDefaults doc := by
  intro t ht
  by_cases hk : t.kind = .input
  · have hkm : (mergeDef (typeExts doc) t).kind = .input := by rw [(mergeDef_spec _ t).1]; exact hk
    have hfd := findDef_extended_of_mem (typeDefs doc) (typeExts doc) hu t ht
    unfold buildTypeDefX
    simp only [hkm]
    have : (mergeDef (typeExts doc) t).inputFields.mapM
          (buildArgumentX (Env.of (typeDefs doc)) ((Env.of (typeDefs doc)).extended (typeExts doc)) (hideFor t.kind t.name))
        = (mergeDef (typeExts doc) t).inputFields.mapM
          (buildArgumentX (Env.of (typeDefs doc)) ((Env.of (typeDefs doc)).extended (typeExts doc)) none) := by
      apply mapM_congr_mem
      intro a ha
      have hh : hideFor t.kind t.name = some t.name := by simp [hideFor, hk]
      unfold buildArgumentX
      cases hd : a.default with
      | none => rfl
      | some l =>
        simp only [defaultValueX, hh, needsHidden_false_of_noSelfReach _ _ _ hfd hkm (hno t ht hk) a ha l]
        rfl
    rw [this]
  · exact selfDefaults_of_kind _ _ t _ hk

/-! ### a checkable form: a rank that every edge decreases -/

theorem reach_rank_lt (env : Env) (rank : String → Nat)
    (hedge : ∀ n d, env.findDef n = some d → d.kind = .input → ∀ f ∈ d.inputFields, rank f.type.base < rank n) :
    ∀ a b, InReach env a b → rank b < rank a := by
  intro a b h
  induction h with
  | step hfd hk hf => exact hedge _ _ hfd hk _ hf
  | trans _ _ ih1 ih2 => omega

theorem noSelfReach_of_rank (env : Env) (rank : String → Nat)
    (hedge : ∀ n d, env.findDef n = some d → d.kind = .input → ∀ f ∈ d.inputFields, rank f.type.base < rank n) (n : String) :
    ¬ InReach env n n := fun h => Nat.lt_irrefl _ (reach_rank_lt env rank hedge n n h)

/-- edges of the extended view are the fields of the merged definitions -/
theorem edges_of_merged (doc : Doc) (rank : String → Nat)
    (h : ∀ t ∈ merged doc, t.kind = .input → ∀ f ∈ t.inputFields, rank f.type.base < rank t.name) :
    ∀ n d, ((Env.of (typeDefs doc)).extended (typeExts doc)).findDef n = some d → d.kind = .input →
      ∀ f ∈ d.inputFields, rank f.type.base < rank n := by
  intro n d hfd hk f hf
  have hfd' : ((typeDefs doc).find? (·.name == n)).map (mergeExt (typeExts doc)) = some d := hfd
  cases hq : (typeDefs doc).find? (·.name == n) with
  | none => rw [hq] at hfd'; cases hfd'
  | some t =>
    rw [hq] at hfd'
    simp only [Option.map_some, Option.some.injEq] at hfd'
    have htm : t ∈ typeDefs doc := List.mem_of_find?_eq_some hq
    have hn : t.name = n := by simpa using List.find?_some hq
    have hm : d ∈ merged doc := by rw [← hfd']; exact List.mem_map_of_mem htm
    have hdn : d.name = n := by rw [← hfd', mergeExt_eq, (mergeDef_spec _ t).2.1]; exact hn
    rw [← hdn]
    exact h d hm hk f hf

/-! ### re-entrant field thunks (finding S1b) are cycles of the same graph, over the definitions alone -/

/-- what `thunkNeeds` lists are input object types reachable from the type of the literal (or that type itself) -/
theorem thunkNeeds_reach (env : Env) : ∀ (fuel : Nat),
    (∀ lit ty m, m ∈ thunkNeeds env fuel lit ty →
      (m = ty.base ∨ InReach env ty.base m) ∧ ∃ d, env.findDef m = some d ∧ d.kind = .input) ∧
    (∀ items ty m, m ∈ thunkNeedsList env fuel items ty →
      (m = ty.base ∨ InReach env ty.base m) ∧ ∃ d, env.findDef m = some d ∧ d.kind = .input) ∧
    (∀ given (fs : List InputValDef) m, m ∈ thunkNeedsFields env fuel given fs →
      (∃ f ∈ fs, m = f.type.base ∨ InReach env f.type.base m) ∧ ∃ d, env.findDef m = some d ∧ d.kind = .input) := by
  intro fuel
  induction fuel with
  | zero =>
    refine ⟨?_, ?_, ?_⟩
    · intro lit ty m hm; simp [thunkNeeds] at hm
    · intro items ty m hm; simp [thunkNeedsList] at hm
    · intro given fs m hm; simp [thunkNeedsFields] at hm
  | succ k ih =>
    obtain ⟨ih1, ih2, ih3⟩ := ih
    refine ⟨?_, ?_, ?_⟩
    · intro lit ty m hm
      cases ty with
      | nonNull t => rw [base_nonNull]; simp only [thunkNeeds] at hm; exact ih1 _ _ m hm
      | list t =>
        rw [base_list]
        cases lit <;> simp only [thunkNeeds] at hm <;> first | exact ih1 _ _ m hm | exact ih2 _ _ m hm
      | named n =>
        rw [base_named]
        cases lit <;> simp only [thunkNeeds] at hm <;> try (simp at hm)
        rename_i fs
        cases ha : env.findAdditional n with
        | some _ => rw [ha] at hm; simp at hm
        | none =>
          cases hd : env.findDef n with
          | none => rw [ha, hd] at hm; simp at hm
          | some d =>
            rw [ha, hd] at hm
            simp only [] at hm
            split at hm
            · rename_i hc
              have hk : d.kind = .input := hc.1
              rcases List.mem_cons.mp hm with e | hmem
              · exact ⟨Or.inl e, d, by rw [e]; exact hd, hk⟩
              · obtain ⟨⟨f, hf, hor⟩, hex⟩ := ih3 _ _ m hmem
                have hs : InReach env n f.type.base := InReach.step hd hk hf
                refine ⟨Or.inr ?_, hex⟩
                rcases hor with e | r
                · rw [e]; exact hs
                · exact InReach.trans hs r
            · simp at hm
    · intro items ty m hm
      cases items with
      | nil => simp [thunkNeedsList] at hm
      | cons x xs =>
        simp only [thunkNeedsList, List.mem_append] at hm
        rcases hm with h1 | h2
        · exact ih1 _ _ m h1
        · exact ih2 _ _ m h2
    · intro given fs m hm
      cases fs with
      | nil => simp [thunkNeedsFields] at hm
      | cons f fs =>
        simp only [thunkNeedsFields, List.mem_append] at hm
        rcases hm with h1 | h2
        · split at h1
          · obtain ⟨hor, hex⟩ := ih1 _ _ m h1
            exact ⟨⟨f, by simp, hor⟩, hex⟩
          · simp at h1
        · obtain ⟨⟨g, hg, hor⟩, hex⟩ := ih3 _ _ m h2
          exact ⟨⟨g, by simp [hg], hor⟩, hex⟩

theorem thunkEdges_reach (env : Env) (n : String) (d : TypeDef) (hfd : env.findDef n = some d) (hk : d.kind = .input) (m : String)
    (hm : m ∈ thunkEdges env d) : InReach env n m ∧ ∃ d', env.findDef m = some d' ∧ d'.kind = .input := by
  unfold thunkEdges at hm
  obtain ⟨f, hf, hm⟩ := List.mem_flatMap.mp hm
  split at hm
  · obtain ⟨hor, hex⟩ := (thunkNeeds_reach env coerceFuel).1 _ _ m hm
    have hs : InReach env n f.type.base := InReach.step hfd hk hf
    refine ⟨?_, hex⟩
    rcases hor with e | r
    · rw [e]; exact hs
    · exact InReach.trans hs r
  · simp at hm

theorem thunkReach_reach (env : Env) (target : String) : ∀ (fuel : Nat) (n : String),
    (∃ d, env.findDef n = some d ∧ d.kind = .input) → thunkReach env target fuel n = true → InReach env n target := by
  intro fuel
  induction fuel with
  | zero => intro n _ h; simp [thunkReach] at h
  | succ k ih =>
    intro n ⟨d, hfd, hk⟩ h
    simp only [thunkReach, hfd, List.any_eq_true, Bool.or_eq_true, beq_iff_eq] at h
    obtain ⟨m, hm, hor⟩ := h
    obtain ⟨hr, hex⟩ := thunkEdges_reach env n d hfd hk m hm
    rcases hor with e | r
    · rw [← e]; exact hr
    · exact InReach.trans hr (ih m hex r)

/-- no input object definition reaches itself ⇒ no field thunk re-enters itself -/
theorem noThunkCycle_of_noSelfReach (defs : List TypeDef) (hu : (defs.map (·.name)).Nodup)
    (hno : ∀ t ∈ defs, t.kind = .input → ¬ InReach (Env.of defs) t.name t.name) : hasThunkCycle (Env.of defs) defs = false := by
  cases h : hasThunkCycle (Env.of defs) defs with
  | false => rfl
  | true =>
    unfold hasThunkCycle at h
    obtain ⟨d, hd, hc⟩ := List.any_eq_true.mp h
    simp only [Bool.and_eq_true, beq_iff_eq] at hc
    have hfd : (Env.of defs).findDef d.name = some d := by
      show defs.find? (fun x => x.name == d.name) = some d
      exact find_name_of_mem (fun (x : TypeDef) => x.name) defs hu d hd
    exact absurd (thunkReach_reach _ _ _ _ ⟨d, hfd, hc.1.1.1⟩ hc.2) (hno d hd hc.1.1.1)

/-- edges of the un-extended view are fields of the definitions, which the merged definitions keep -/
theorem edges_of_base (doc : Doc) (rank : String → Nat)
    (h : ∀ t ∈ merged doc, t.kind = .input → ∀ f ∈ t.inputFields, rank f.type.base < rank t.name) :
    ∀ n d, (Env.of (typeDefs doc)).findDef n = some d → d.kind = .input → ∀ f ∈ d.inputFields, rank f.type.base < rank n := by
  intro n d hfd hk f hf
  have hq : (typeDefs doc).find? (·.name == n) = some d := hfd
  have htm : d ∈ typeDefs doc := List.mem_of_find?_eq_some hq
  have hn : d.name = n := by simpa using List.find?_some hq
  obtain ⟨s1, s2, _, _, _, _, _, s8⟩ := mergeDef_spec (typeExts doc) d
  have hm : mergeDef (typeExts doc) d ∈ merged doc := List.mem_map_of_mem htm
  have := h _ hm (by rw [s1]; exact hk) f (by rw [s8]; exact List.mem_append_left _ hf)
  rw [s2, hn] at this
  exact this

/-- **build_exact for documents whose input object types are not recursive**: the rules of the specification,
    `BaseDefaults` (finding S8) and a RANK that every field of a (merged) input object definition strictly decreases —
    no `SelfDefaults`, no `noThunkCycle`: nothing about what the builder computes while types are in progress. -/
theorem build_exact_acyclic_inputs (doc : Doc) (d : SchemaD) (r : SdlRules doc d) (hb : BaseDefaults doc) (rank : String → Nat)
    (hrank : ∀ t ∈ merged doc, t.kind = .input → ∀ f ∈ t.inputFields, rank f.type.base < rank t.name) :
    ∃ s d', build doc = .ok s ∧ Declared doc = some d' ∧ SameContent s d' :=
  build_exact_spec doc d r
    { baseDefaults := hb,
      noThunkCycle := noThunkCycle_of_noSelfReach _ r.valid.uniqueTypes
        (fun t _ _ => noSelfReach_of_rank _ rank (edges_of_base doc rank hrank) t.name),
      selfDefaults := selfDefaults_of_noSelfReach doc r.valid.uniqueTypes
        (fun t _ _ => noSelfReach_of_rank _ rank (edges_of_merged doc rank hrank) t.name) }

/-! ### recursive input objects are fine as long as the types that carry DEFAULTS are off the cycles

An in-progress hit — of `hide` in the model, of the set `_in_progress` in the code — happens while the default of a field
of some input object `T` is completed and the completion comes back to a type on the stack, all of which lead to `T`: it
needs a cycle through `T`.  So only the input objects that HAVE a defaulted field matter. -/

def hasDefaulted (t : TypeDef) : Prop := ∃ f ∈ t.inputFields, f.default.isSome = true

theorem selfDefaults_of_defaultsOffCycles (doc : Doc) (hu : ((typeDefs doc).map (·.name)).Nodup)
    (hno : ∀ t ∈ typeDefs doc, t.kind = .input → hasDefaulted (mergeDef (typeExts doc) t) →
      ¬ InReach ((Env.of (typeDefs doc)).extended (typeExts doc)) t.name t.name) :
    SelfDefaults doc := by
  intro t ht
  by_cases hk : t.kind = .input
  · have hkm : (mergeDef (typeExts doc) t).kind = .input := by rw [(mergeDef_spec _ t).1]; exact hk
    by_cases hd : hasDefaulted (mergeDef (typeExts doc) t)
    · have hfd := findDef_extended_of_mem (typeDefs doc) (typeExts doc) hu t ht
      unfold buildTypeDefX
      simp only [hkm]
      have : (mergeDef (typeExts doc) t).inputFields.mapM
            (buildArgumentX (Env.of (typeDefs doc)) ((Env.of (typeDefs doc)).extended (typeExts doc)) (hideFor t.kind t.name))
          = (mergeDef (typeExts doc) t).inputFields.mapM
            (buildArgumentX (Env.of (typeDefs doc)) ((Env.of (typeDefs doc)).extended (typeExts doc)) none) := by
        apply mapM_congr_mem
        intro a ha
        have hh : hideFor t.kind t.name = some t.name := by simp [hideFor, hk]
        unfold buildArgumentX
        cases hdl : a.default with
        | none => rfl
        | some l =>
          simp only [defaultValueX, hh, needsHidden_false_of_noSelfReach _ _ _ hfd hkm (hno t ht hk hd) a ha l]
          rfl
      rw [this]
    · apply selfDefaults_of_noDefaults _ _ _ _ _ hkm
      intro a ha
      cases hdl : a.default with
      | none => rfl
      | some l => exact absurd ⟨a, ha, by simp [hdl]⟩ hd
  · exact selfDefaults_of_kind _ _ t _ hk

/-- the graph of the definitions alone is a subgraph of the graph of the merged definitions -/
theorem inReach_extended (defs X : List TypeDef) : ∀ a b, InReach (Env.of defs) a b → InReach ((Env.of defs).extended X) a b := by
  intro a b h
  induction h with
  | @step n d f hfd hk hf =>
    have hfd' : ((Env.of defs).extended X).findDef n = some (mergeDef X d) := by
      show (defs.find? (·.name == n)).map (mergeExt X) = some (mergeDef X d)
      have : defs.find? (·.name == n) = some d := hfd
      rw [this]; rfl
    obtain ⟨s1, _, _, _, _, _, _, s8⟩ := mergeDef_spec X d
    exact InReach.step hfd' (by rw [s1]; exact hk) (by rw [s8]; exact List.mem_append_left _ hf)
  | trans _ _ ih1 ih2 => exact InReach.trans ih1 ih2

theorem noThunkCycle_of_defaultsOffCycles (defs X : List TypeDef) (hu : (defs.map (·.name)).Nodup)
    (hno : ∀ t ∈ defs, t.kind = .input → hasDefaulted (mergeDef X t) → ¬ InReach ((Env.of defs).extended X) t.name t.name) :
    hasThunkCycle (Env.of defs) defs = false := by
  cases h : hasThunkCycle (Env.of defs) defs with
  | false => rfl
  | true =>
    unfold hasThunkCycle at h
    obtain ⟨d, hd, hc⟩ := List.any_eq_true.mp h
    simp only [Bool.and_eq_true, beq_iff_eq] at hc
    have hk : d.kind = .input := hc.1.1.1
    have hfd : (Env.of defs).findDef d.name = some d := by
      show defs.find? (fun x => x.name == d.name) = some d
      exact find_name_of_mem (fun (x : TypeDef) => x.name) defs hu d hd
    -- the first edge of the cycle comes from a default literal of `d`
    have hdef : hasDefaulted (mergeDef X d) := by
      have hr := hc.2
      cases hl : defs.length with
      | zero => rw [hl] at hr; simp [thunkReach] at hr
      | succ k =>
        rw [hl] at hr
        simp only [thunkReach, hfd, List.any_eq_true] at hr
        obtain ⟨m, hm, _⟩ := hr
        unfold thunkEdges at hm
        obtain ⟨f, hf, hm⟩ := List.mem_flatMap.mp hm
        obtain ⟨_, _, _, _, _, _, _, s8⟩ := mergeDef_spec X d
        refine ⟨f, by rw [s8]; exact List.mem_append_left _ hf, ?_⟩
        cases hdl : f.default with
        | none => rw [hdl] at hm; simp at hm
        | some l => rfl
    exact absurd (inReach_extended defs X _ _ (thunkReach_reach _ _ _ _ ⟨d, hfd, hk⟩ hc.2)) (hno d hd hk hdef)

/-- **build_exact when the input objects that carry defaults are off the cycles** (recursive input objects allowed):
    the rules of the specification and `BaseDefaults` (finding S8); the premise is about the document only. -/
theorem build_exact_defaults_off_cycles (doc : Doc) (d : SchemaD) (r : SdlRules doc d) (hb : BaseDefaults doc)
    (hno : ∀ t ∈ typeDefs doc, t.kind = .input → hasDefaulted (mergeDef (typeExts doc) t) →
      ¬ InReach ((Env.of (typeDefs doc)).extended (typeExts doc)) t.name t.name) :
    ∃ s d', build doc = .ok s ∧ Declared doc = some d' ∧ SameContent s d' :=
  build_exact_spec doc d r
    { baseDefaults := hb,
      noThunkCycle := noThunkCycle_of_defaultsOffCycles _ _ r.valid.uniqueTypes hno,
      selfDefaults := selfDefaults_of_defaultsOffCycles doc r.valid.uniqueTypes hno }

/-- nothing points to `p` ⇒ nothing reaches `p` -/
theorem noReach_of_noEdgeInto (env : Env) (p : String)
    (h : ∀ n d, env.findDef n = some d → d.kind = .input → ∀ f ∈ d.inputFields, f.type.base ≠ p) : ∀ a b, InReach env a b → b ≠ p := by
  intro a b hr
  induction hr with
  | step hfd hk hf => exact h _ _ hfd hk _ hf
  | trans _ _ _ ih2 => exact ih2

/-! ### non-vacuity, and the boundary -/

/-- `input Range { min: Int }  extend input Range { max: String = "m" }  input Filter { range: Range = {} }
    type Query { f(x: Filter = {range: {}}): Int }` (nested input objects with defaults, extended; not recursive) -/
def nestedDoc : Doc := [
  .type { kind := .input, name := "Range", inputFields := [{ name := "min", type := .named "String" }] },
  .ext { kind := .input, name := "Range", inputFields := [{ name := "max", type := .named "String", default := some (.str "m") }] },
  .type { kind := .input, name := "Filter", inputFields := [{ name := "range", type := .named "Range", default := some (.obj []) }] },
  .type { kind := .object, name := "Query", fields := [{ name := "f", type := .named "Int", args := [{ name := "x", type := .named "Filter", default := some (.obj [("range", .obj [])]) }] }] }]

def nestedRank : String → Nat
  | "Filter" => 2 | "Range" => 1 | _ => 0

theorem nestedDeclares : (Declared nestedDoc).isSome = true := by decide

set_option maxRecDepth 4000 in
theorem nested_rules : SdlRules nestedDoc ((Declared nestedDoc).get nestedDeclares) :=
  { valid := { uniqueTypes := by decide, uniqueDirectives := by decide, oneSchema := by decide, extTargets := by decide,
               noBuiltinNames := by decide, declares := by decide, mergedMembersUnique := by decide },
    declares := by simp, kinds := ⟨by decide, by decide, by decide⟩, noSpecified := by decide,
    schemaOps := by decide, extOps := by decide, extOpsNew := by decide }

example : ∃ s d', build nestedDoc = .ok s ∧ Declared nestedDoc = some d' ∧ SameContent s d' :=
  build_exact_acyclic_inputs _ _ nested_rules (baseDefaults_of_B _ (by decide)) nestedRank (by decide)

/-- `input Node { next: Node  v: String }  extend input Node { w: String }
    input Page { first: Node = {v: "a"}  size: String = "s" }  type Query { f(p: Page = {}): Int }`:
    `Node` is recursive and carries no default; the defaults sit on `Page`, which nothing points to.
    (With `extend input Node { w: String = "w" }` the premise fails for `Node`, as it should: its own fields are
    extended while it is in progress.) -/
def recDoc : Doc := [
  .type { kind := .input, name := "Node", inputFields := [{ name := "next", type := .named "Node" }, { name := "v", type := .named "String" }] },
  .ext { kind := .input, name := "Node", inputFields := [{ name := "w", type := .named "String" }] },
  .type { kind := .input, name := "Page", inputFields := [{ name := "first", type := .named "Node", default := some (.obj [("v", .str "a")]) },
                                                        { name := "size", type := .named "String", default := some (.str "s") }] },
  .type { kind := .object, name := "Query", fields := [{ name := "f", type := .named "Int", args := [{ name := "p", type := .named "Page", default := some (.obj []) }] }] }]

theorem recDeclares : (Declared recDoc).isSome = true := by decide

set_option maxRecDepth 4000 in
theorem rec_rules : SdlRules recDoc ((Declared recDoc).get recDeclares) :=
  { valid := { uniqueTypes := by decide, uniqueDirectives := by decide, oneSchema := by decide, extTargets := by decide,
               noBuiltinNames := by decide, declares := by decide, mergedMembersUnique := by decide },
    declares := by simp, kinds := ⟨by decide, by decide, by decide⟩, noSpecified := by decide,
    schemaOps := by decide, extOps := by decide, extOpsNew := by decide }

/-- a RECURSIVE input object (`Node`), defaults on a type nothing points to (`Page`): exact -/
example : ∃ s d', build recDoc = .ok s ∧ Declared recDoc = some d' ∧ SameContent s d' := by
  refine build_exact_defaults_off_cycles _ _ rec_rules (baseDefaults_of_B _ (by decide)) ?_
  intro t ht hk hd
  -- the only input object with a defaulted field is `Page`, and no field has type `Page`
  have hP : t.name = "Page" := by
    have : t = ⟨.input, "Node", none, [], [], [], [], [{ name := "next", type := .named "Node" }, { name := "v", type := .named "String" }], []⟩ ∨ t.name = "Page" ∨ t.kind = .object := by
      simp only [recDoc, typeDefs, List.filterMap_cons, List.filterMap_nil, List.mem_cons, List.mem_nil_iff, or_false] at ht
      rcases ht with h | h | h
      · left; rw [h]
      · right; left; rw [h]
      · right; right; rw [h]
    rcases this with h | h | h
    · exfalso
      subst h
      obtain ⟨f, hf, hfd⟩ := hd
      have : ∀ f ∈ (mergeDef (typeExts recDoc) ⟨.input, "Node", none, [], [], [], [], [{ name := "next", type := .named "Node" }, { name := "v", type := .named "String" }], []⟩).inputFields, f.default.isSome = false := by decide
      rw [this f hf] at hfd; cases hfd
    · exact h
    · rw [h] at hk; cases hk
  rw [hP]
  intro hr
  exact noReach_of_noEdgeInto _ "Page" (by
    intro n d hfd hk f hf
    have hfd' : ((typeDefs recDoc).find? (·.name == n)).map (mergeExt (typeExts recDoc)) = some d := hfd
    cases hq : (typeDefs recDoc).find? (·.name == n) with
    | none => rw [hq] at hfd'; cases hfd'
    | some t0 =>
      rw [hq] at hfd'
      simp only [Option.map_some, Option.some.injEq] at hfd'
      have hm : d ∈ merged recDoc := by rw [← hfd']; exact List.mem_map_of_mem (List.mem_of_find?_eq_some hq)
      have hall : ∀ d ∈ merged recDoc, ∀ f ∈ d.inputFields, f.type.base ≠ "Page" := by decide
      exact hall d hm f hf) _ _ hr rfl

end PyGql.Props.C11

/-
  C11 — the public `extend_schema` merges exactly what `build_schema` merges.

  `extend_eq_build`: let `base` be a document without extension blocks (it stands for the definitions the schema being
  extended was built from — the MERGED definitions, if that schema had extensions of its own), `live` the schema
  `build_schema` builds from it, and `B` a pure extension document (type extensions, `extend schema`, executable
  definitions).  Then `extend_schema(live, B, strict=False)` returns a schema iff `build_schema(base ++ B)` does, and it
  is the same schema.  With `build_exact_final` for `base ++ B` (`extend_exact`): it is exactly the content that `base`
  and `B` declare together — every extension block of `B` merged into its target in document order, every default
  evaluated in the extended types.  Strict mode: `extend_exact_strict_agrees`.
-/
import PyGqlModel.Props.C11_extend

set_option linter.unusedVariables false
set_option linter.unusedSimpArgs false

namespace PyGql.Props.C11
open PyGql PyGql.Sdl PyGql.SdlSpec

/-- only type extensions, schema extensions and executable definitions -/
def PureExt (B : Doc) : Prop := typeDefs B = [] ∧ dirDefs B = [] ∧ schemaDefs B = []
/-- no extension block -/
def NoExt (base : Doc) : Prop := typeExts base = [] ∧ schemaExtensions base = []

theorem collect_pureExt : ∀ (B : Doc), PureExt B → ∀ acc, B.foldlM collectStep acc = .ok acc := by
  intro B
  induction B with
  | nil => intro _ acc; rfl
  | cons d ds ih =>
    intro h acc
    obtain ⟨h1, h2, h3⟩ := h
    cases d with
    | type t => simp [typeDefs] at h1
    | directive t => simp [dirDefs] at h2
    | schema t => simp [schemaDefs] at h3
    | ext e =>
      rw [List.foldlM_cons]
      simp only [collectStep, pure, Except.pure, bind, Except.bind]
      exact ih ⟨by simpa [typeDefs] using h1, by simpa [dirDefs] using h2, by simpa [schemaDefs] using h3⟩ acc
    | schemaExt e =>
      rw [List.foldlM_cons]
      simp only [collectStep, pure, Except.pure, bind, Except.bind]
      exact ih ⟨by simpa [typeDefs] using h1, by simpa [dirDefs] using h2, by simpa [schemaDefs] using h3⟩ acc
    | other =>
      rw [List.foldlM_cons]
      simp only [collectStep, pure, Except.pure, bind, Except.bind]
      exact ih ⟨by simpa [typeDefs] using h1, by simpa [dirDefs] using h2, by simpa [schemaDefs] using h3⟩ acc

theorem collectDefinitions_append (base B : Doc) (h : PureExt B) : collectDefinitions (base ++ B) = collectDefinitions base := by
  unfold collectDefinitions
  rw [List.foldlM_append]
  cases base.foldlM collectStep {} with
  | error e => rfl
  | ok c => simp only [bind, Except.bind]; exact collect_pureExt B h c

theorem typeDefs_append (a b : Doc) : typeDefs (a ++ b) = typeDefs a ++ typeDefs b := by simp [typeDefs, List.filterMap_append]
theorem dirDefs_append (a b : Doc) : dirDefs (a ++ b) = dirDefs a ++ dirDefs b := by simp [dirDefs, List.filterMap_append]
theorem directiveDefs_append (a b : Doc) : directiveDefs (a ++ b) = directiveDefs a ++ directiveDefs b := by
  simp [directiveDefs, List.filterMap_append]
theorem typeExts_append (a b : Doc) : typeExts (a ++ b) = typeExts a ++ typeExts b := by simp [typeExts, List.filterMap_append]
theorem schemaExtensions_append (a b : Doc) : schemaExtensions (a ++ b) = schemaExtensions a ++ schemaExtensions b := by
  simp [schemaExtensions, List.filterMap_append]
theorem typeExtensions_append (live : Live) (a b : Doc) : typeExtensions live (a ++ b) = typeExtensions live a ++ typeExtensions live b := by
  simp [typeExtensions, List.filterMap_append]

theorem directiveDefs_eq (doc : Doc) : directiveDefs doc = dirDefs doc := rfl

/-- the schema `build_schema` builds from a document knows every type and directive the document defines -/
theorem buildCollected_knows (c : Collected) (env : Env) (live : Live) (h : buildCollected c [] = .ok (env, live)) :
    env = Env.of c.types [] ∧ (∀ t ∈ c.types, live.hasType t.name = true) ∧ (∀ d ∈ c.directives, live.hasDirective d.name = true) := by
  unfold buildCollected at h
  simp only [] at h
  obtain ⟨_, _, h⟩ := bind_ok _ _ _ h
  obtain ⟨dirs, hdirs, h⟩ := bind_ok _ _ _ h
  obtain ⟨built, hbuilt, h⟩ := bind_ok _ _ _ h
  obtain ⟨_, _, h⟩ := bind_ok _ _ _ h
  obtain ⟨roots, _, h⟩ := bind_ok _ _ _ h
  obtain ⟨_, _, h⟩ := bind_ok _ _ _ h
  have := ok_inj h
  simp only [Prod.mk.injEq] at this
  obtain ⟨he, hl⟩ := this
  subst hl
  refine ⟨he.symm, ?_, ?_⟩
  · intro t ht
    obtain ⟨r, hr, hb⟩ := all₂_mem_left _ _ _ (mapM_forall₂ _ _ _ hbuilt) t ht
    unfold buildType at hb
    simp only [Live.hasType]
    by_cases hdn : isDefaultName t.name = true
    · simp [hdn]
    · simp only [hdn, Bool.false_eq_true, if_false] at hb
      have hfa : (Env.of c.types []).findAdditional t.name = none := by simp [Env.of]
      rw [hfa] at hb
      simp only [] at hb
      obtain ⟨bt, hbt, h2⟩ := bind_ok _ _ _ hb
      have := ok_inj h2; subst this
      have hn := buildTypeDef_name _ _ _ hbt
      simp only [Bool.or_eq_true, List.any_eq_true, beq_iff_eq]
      refine Or.inr ⟨bt, ?_, hn⟩
      apply List.mem_append_left
      exact List.mem_filterMap.mpr ⟨some bt, hr, rfl⟩
  · intro d hd
    have hn := mapM_names _ (·.name) (·.name) (buildDirective_name _) _ _ hdirs
    simp only [Live.hasDirective, Bool.or_eq_true, List.any_eq_true, beq_iff_eq]
    have : d.name ∈ dirs.map (·.name) := by rw [hn]; exact List.mem_map_of_mem hd
    obtain ⟨x, hx, hxn⟩ := List.mem_map.mp this
    exact Or.inr ⟨x, hx, hxn⟩

private theorem typeExtensions_noext (live : Live) (doc : Doc) (h : typeExts doc = []) : typeExtensions live doc = [] := by
  rw [typeExtensions_eq_filter, h]; rfl

/-- **`extend_schema(build_schema(base), B, strict=False)` = `build_schema(base ++ B)`** for a pure extension document `B`:
    one returns a schema iff the other does, and it is the same schema. -/
theorem extend_eq_build (base B : Doc) (hb : NoExt base) (hB : PureExt B) (env : Env) (live : Live)
    (hbuild : buildIgnoringExtensions base [] = .ok (env, live)) (s : SchemaD) :
    build (base ++ B) = .ok s ↔
      ∃ r, extendSchemaPublic (typeDefs base) (directiveDefs base) live B false = .ok r ∧ toSchemaD r = s := by
  unfold buildIgnoringExtensions at hbuild
  obtain ⟨c, hc, hcol⟩ := bind_ok _ _ _ hbuild
  obtain ⟨hct, hcd⟩ := collect_exact base c hc
  obtain ⟨henv, hT, hD⟩ := buildCollected_knows c env live hcol
  have hT' : ∀ t ∈ typeDefs (base ++ B), live.hasType t.name = true := by
    intro t ht; rw [typeDefs_append, hB.1, List.append_nil] at ht; exact hT t (by rw [hct]; exact ht)
  have hD' : ∀ d ∈ dirDefs (base ++ B), live.hasDirective d.name = true := by
    intro d hd; rw [dirDefs_append, hB.2.1, List.append_nil] at hd; exact hD d (by rw [hcd]; exact hd)
  have hTB : ∀ t ∈ typeDefs B, live.hasType t.name = true := by intro t ht; rw [hB.1] at ht; cases ht
  have hDB : ∀ d ∈ dirDefs B, live.hasDirective d.name = true := by intro d hd; rw [hB.2.1] at hd; cases hd
  -- the public function reads the document through `_collect_extensions` only
  have hsame : extendSchemaPublic (typeDefs base) (directiveDefs base) live (base ++ B) false
      = extendSchemaPublic (typeDefs base) (directiveDefs base) live B false := by
    unfold extendSchemaPublic
    rw [collect_lax_self live (base ++ B) hT' hD', collect_lax_self live B hTB hDB,
      schemaExtensions_append, hb.2, List.nil_append, typeExtensions_append, typeExtensions_noext live base hb.1, List.nil_append]
  have hdefs : typeDefs (base ++ B) = typeDefs base := by rw [typeDefs_append, hB.1, List.append_nil]
  have hdirs : directiveDefs (base ++ B) = directiveDefs base := by rw [directiveDefs_append, directiveDefs_eq B, hB.2.1, List.append_nil]
  have hpub := fun r => extendSchema_is_public (base ++ B) live r hT' hD'
  rw [hdefs] at hpub
  rw [hdirs, hsame] at hpub
  have henv' : env = Env.of (typeDefs base) := by rw [henv, hct]
  -- `build (base ++ B)`: the same first pass, then the extension pass on the whole document
  have hfirst : buildIgnoringExtensions (base ++ B) [] = .ok (env, live) := by
    unfold buildIgnoringExtensions
    rw [collectDefinitions_append base B hB, hc]
    exact hcol
  unfold build
  rw [hfirst]
  simp only [bind, Except.bind, Bool.false_eq_true, if_false]
  rw [henv']
  constructor
  · intro h
    cases hx : extendSchema (Env.of (typeDefs base)) live (base ++ B) [] with
    | error e => rw [hx] at h; cases h
    | ok r =>
      rw [hx] at h
      exact ⟨r, (hpub r).1 hx, ok_inj h⟩
  · rintro ⟨r, hr, rfl⟩
    rw [(hpub r).2 hr]
    rfl

/-- **extend_exact**: if the concatenated document is valid (`SdlOK`), extending the schema built from `base` with `B`
    gives exactly the content `base` and `B` declare together -/
theorem extend_exact (base B : Doc) (hb : NoExt base) (hB : PureExt B) (env : Env) (live : Live)
    (hbuild : buildIgnoringExtensions base [] = .ok (env, live)) (d : SchemaD) (v : SdlOK (base ++ B) d) :
    ∃ r, extendSchemaPublic (typeDefs base) (directiveDefs base) live B false = .ok r ∧ toSchemaD r = d :=
  (extend_eq_build base B hb hB env live hbuild d).1 (build_exact_final _ _ v)

/-- … and when the strict call returns a schema at all, it is that one -/
theorem extend_exact_strict_agrees (base B : Doc) (hb : NoExt base) (hB : PureExt B) (env : Env) (live r : Live)
    (hbuild : buildIgnoringExtensions base [] = .ok (env, live)) (d : SchemaD) (v : SdlOK (base ++ B) d)
    (hs : extendSchemaPublic (typeDefs base) (directiveDefs base) live B true = .ok r) : toSchemaD r = d := by
  obtain ⟨r', hr', hd⟩ := extend_exact base B hb hB env live hbuild d v
  have := extend_strict_refines _ _ _ _ _ hs
  rw [this] at hr'
  cases hr'
  exact hd

/-! ### the function the correspondence runs (`buildThenExtend`, driver op `extend`) -/

private theorem map_mergeExt_nil (l : List TypeDef) : l.map (mergeExt []) = l := by
  induction l with
  | nil => rfl
  | cons t ts ih => simp only [List.map_cons, ih]; rfl

/-- for a base document without extension blocks, `buildThenExtend` is `extend_schema` applied to the schema of the
    first pass, with the definitions of the document as the by-name view of its types -/
theorem buildThenExtend_noext (A B : Doc) (strict : Bool) (hA : NoExt A) (env : Env) (live : Live)
    (h : buildIgnoringExtensions A [] = .ok (env, live)) :
    buildThenExtend A B strict = .ok ((extendSchemaPublic (typeDefs A) (directiveDefs A) live B strict).map toSchemaD) := by
  unfold buildIgnoringExtensions at h
  obtain ⟨c, hc, hcol⟩ := bind_ok _ _ _ h
  obtain ⟨hct, hcd⟩ := collect_exact A c hc
  have hx : extendSchema env live A [] = .ok live := by
    unfold extendSchema
    simp [typeExtensions_noext live A hA.1, hA.2, pure, Except.pure]
  unfold buildThenExtend
  simp only [hc, hcol, hx, bind, Except.bind, pure, Except.pure, typeExtensions_noext live A hA.1, map_mergeExt_nil, hct, hcd]
  rfl

/-- **what the driver computes for `extend_schema(build_schema(A), B, strict=False)` is what it computes for
    `build_schema(A ++ B)`** (A without extension blocks, B a pure extension document) -/
theorem buildThenExtend_eq_build (A B : Doc) (hA : NoExt A) (hB : PureExt B) (env : Env) (live : Live)
    (h : buildIgnoringExtensions A [] = .ok (env, live)) (s : SchemaD) :
    buildThenExtend A B false = .ok (.ok s) ↔ build (A ++ B) = .ok s := by
  rw [buildThenExtend_noext A B false hA env live h, extend_eq_build A B hA hB env live h s]
  constructor
  · intro hh
    have := ok_inj hh
    cases hr : extendSchemaPublic (typeDefs A) (directiveDefs A) live B false with
    | error e => rw [hr] at this; cases this
    | ok r => rw [hr] at this; exact ⟨r, rfl, ok_inj this⟩
  · rintro ⟨r, hr, rfl⟩
    rw [hr]; rfl

/-! ### non-vacuity: `extDoc` split into its definitions and its extension blocks -/

def extBase : Doc := [.type exQuery, .type { kind := .enum, name := "E", values := [{ name := "A" }] },
  .type { kind := .object, name := "M", fields := [{ name := "m", type := .named "E" }] }]
def extB : Doc := [.ext exExt, .ext { kind := .enum, name := "E", values := [{ name := "B" }] }, .schemaExt { ops := [("mutation", "M")] }, .other]

example : NoExt extBase ∧ PureExt extB := by
  refine ⟨⟨rfl, rfl⟩, rfl, rfl, rfl⟩
example : (buildIgnoringExtensions extBase []).toBool = true := by decide
theorem extBothDeclares : (Declared (extBase ++ extB)).isSome = true := by decide

theorem extBoth_ok : SdlOK (extBase ++ extB) ((Declared (extBase ++ extB)).get extBothDeclares) :=
  { uniqueTypes := by decide, uniqueDirectives := by decide, oneSchema := by decide, noBuiltinNames := by decide,
    extTargets := by decide, declares := by simp,
    baseDefaults := baseDefaults_of_noDefaults _ (by decide) (by decide),
    selfDefaults := by
      intro t ht
      have hk : t.kind ≠ .input := by revert t; decide
      exact selfDefaults_of_kind _ _ t _ hk,
    membersUnique := by decide, noThunkCycle := by decide, noEagerCycle := by decide, noSpecified := by decide,
    schemaOps := by decide, extOps := by decide, extOpsNew := by decide }

/-- the schema built from the three definitions, extended with the three extension blocks, is the declared content of
    the six together (`Query` has the fields a, b; `E` the values A, B; the mutation root is `M`) -/
example : ∃ env live r, buildIgnoringExtensions extBase [] = .ok (env, live) ∧
    extendSchemaPublic (typeDefs extBase) (directiveDefs extBase) live extB false = .ok r ∧
    toSchemaD r = (Declared (extBase ++ extB)).get extBothDeclares := by
  cases h : buildIgnoringExtensions extBase [] with
  | error e => have : (buildIgnoringExtensions extBase []).toBool = true := by decide
               rw [h] at this; cases this
  | ok p =>
    obtain ⟨env, live⟩ := p
    obtain ⟨r, hr, hd⟩ := extend_exact extBase extB ⟨rfl, rfl⟩ ⟨rfl, rfl, rfl⟩ env live h _ extBoth_ok
    exact ⟨env, live, r, rfl, hr, hd⟩

end PyGql.Props.C11

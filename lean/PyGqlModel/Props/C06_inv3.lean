/-
  C06 - property theorems, part 19: invariance under `Tr` (selection order, argument order, fragment renaming) for all
  rules for which it is proved: the 10 node-by-node / name rules (`Proved`), the 8 type-dependent and context rules
  (`ProvedTyped`) and `ValuesOfCorrectTypeChecker` (val2, `Props/C06_values_inv.lean`).
-/
import PyGqlModel.Props.C06_inv2
import PyGqlModel.Props.C06_values_inv
namespace PyGql.Props.C06
open PyGql PyGql.Validate PyGql.Validate.Spec

/-- rules whose verdict is proved invariant under `Tr` -/
def ProvedTr : List Rule := Proved ++ ProvedTyped ++ ProvedValues

example : ProvedTr.length = 19 := by decide

/-- **perm_selections / perm_arguments / alpha_fragments** for the rules of `ProvedTr` (general form; instances as in
    C06_inv.lean). The remaining rules: `PossibleFragmentSpreads`, `NoFragmentCycles` (Props/C06_inv4.lean), the four
    variable rules (C06_inv5.lean), `SingleFieldSubscriptions` (C06_inv10.lean); all 25 together:
    `tr_invariance_25_partial`. Not covered: `OverlappingFieldsCanBeMerged`. [ALONE-RUN statement, rule by rule: each rule visitor in a chain of its own; for the verdict of the chain `validate_ast` runs see `Props/C06_chain.lean: chainM_six_transformations`.] -/
theorem tr_invariance_all_partial (T : Tr) (hinj : ∀ a b, T.frag a = T.frag b → a = b) (s : SchemaD) (fx : Fixes) (d : Doc)
    (r : Rule) (hr : r ∈ ProvedTr) (hns : r ≠ .singleFieldSubscriptions) : Silent s fx r (T.doc d) ↔ Silent s fx r d := by
  simp only [ProvedTr, List.mem_append] at hr
  rcases hr with (hr | hr) | hr
  · exact tr_invariance_partial T hinj s fx d r hr hns
  · have hp : r ∈ ProvedPermDefs := by simp only [ProvedPermDefs, List.mem_append]; exact Or.inr hr
    rw [rule_iff_permdefs s fx _ r hp, rule_iff_permdefs s fx d r hp]
    exact spec_tr_more T hinj s fx d r hr
  · simp only [ProvedValues, List.mem_cons, List.not_mem_nil, or_false] at hr
    subst hr
    exact tr_invariance_values T s fx d

theorem perm_selections_all_partial (π : List Sel → List Sel) (hπ : ∀ l, (π l).Perm l) (s : SchemaD) (fx : Fixes) (d : Doc)
    (r : Rule) (hr : r ∈ ProvedTr) (hns : r ≠ .singleFieldSubscriptions) :
    Silent s fx r ((Tr.mk π id id hπ (fun _ => List.Perm.refl _)).doc d) ↔ Silent s fx r d :=
  tr_invariance_all_partial _ (fun _ _ e => e) s fx d r hr hns

theorem perm_arguments_all_partial (π : List Arg → List Arg) (hπ : ∀ l, (π l).Perm l) (s : SchemaD) (fx : Fixes) (d : Doc)
    (r : Rule) (hr : r ∈ ProvedTr) (hns : r ≠ .singleFieldSubscriptions) :
    Silent s fx r ((Tr.mk id π id (fun _ => List.Perm.refl _) hπ).doc d) ↔ Silent s fx r d :=
  tr_invariance_all_partial _ (fun _ _ e => e) s fx d r hr hns

theorem alpha_fragments_all_partial (ρ : String → String) (hρ : ∀ a b, ρ a = ρ b → a = b) (s : SchemaD) (fx : Fixes) (d : Doc)
    (r : Rule) (hr : r ∈ ProvedTr) (hns : r ≠ .singleFieldSubscriptions) :
    Silent s fx r ((Tr.mk id id ρ (fun _ => List.Perm.refl _) (fun _ => List.Perm.refl _)).doc d) ↔ Silent s fx r d :=
  tr_invariance_all_partial _ hρ s fx d r hr hns

end PyGql.Props.C06

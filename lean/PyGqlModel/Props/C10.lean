import PyGqlModel.Response
import PyGqlModel.Spec.ResponseSpec
import PyGqlModel.Spec.NullSites

namespace PyGql.Props.C10
open PyGql PyGql.Response PyGql.Spec.Response

theorem stub_loc_first : indexToLoc [] 0 = some (1, 1) := by decide

end PyGql.Props.C10

/-
  C10 — property theorems, part 1: locations (`index_to_loc`), presence of `data`,
  the staged `process_graphql_query`.

  Stated about `PyGqlModel/Response.lean` (hand model, tied by the correspondence) and
  `Generated/ResponseKeys.lean` (re-extracted from the source on every run).
-/
import PyGqlModel.Response
import PyGqlModel.Spec.ResponseSpec
import PyGqlModel.Lemmas.LocBounds

namespace PyGql.Props.C10
open PyGql PyGql.Response PyGql.Spec.Response PyGql.Generated.ResponseKeys

/-! ### `loc_bounds` -/

/-- `index_to_loc` raises (`IndexError`) exactly for positions beyond the end of the text:
    `to_dict()` of a located error is total for every position ≤ len. -/
theorem index_to_loc_total_iff (text : Text) (pos : Nat) :
    (indexToLoc text pos).isSome ↔ pos ≤ text.length := by
  unfold indexToLoc
  by_cases h : (text.isEmpty && pos == 0) = true
  · simp only [h, if_true, Option.isSome_some, true_iff]
    simp_all
  · by_cases h2 : pos > text.length
    · simp [h, h2]
    · simp [h, h2]; omega

/-- **loc_bounds.** For every text and every position `≤ len`, `index_to_loc` returns a 1-based
    `(line, column)` INSIDE the document: `1 ≤ line ≤ #lines` and `1 ≤ column ≤ length of that line + 1`,
    lines being delimited by LF, CR or CRLF (induction over the text). -/
theorem loc_bounds (text : Text) (pos : Nat) (h : pos ≤ text.length) :
    ∃ line col, indexToLoc text pos = some (line, col) ∧ InsideDocument text line col := by
  unfold indexToLoc
  by_cases h0 : (text.isEmpty && pos == 0) = true
  · refine ⟨1, 1, by simp [h0], ?_⟩
    have : text = [] := by simp at h0; exact h0.1
    subst this
    simp [InsideDocument, splitLines]
  · have hb := Lemmas.LocBounds.loop_bounds text pos 0 0 h
    refine ⟨(indexToLocLoop text pos 0 0).1, (indexToLocLoop text pos 0 0).2, ?_, ?_⟩
    · have : ¬ pos > text.length := by omega
      simp [h0, this]
    · generalize indexToLocLoop text pos 0 0 = r at hb
      obtain ⟨a1, a2, a3, a4, a5⟩ := hb
      refine ⟨by omega, by omega, a3, ?_⟩
      by_cases hr : r.1 = 0 + 1
      · have := a4 hr
        have e : r.1 - 1 = 0 := by omega
        rw [e]; omega
      · have := a5 hr
        have e : r.1 - 0 - 1 = r.1 - 1 := by omega
        rw [e] at this; exact this

/-- non-vacuity: a three-line text with CRLF, a lone CR and a non-ASCII character; the position of
    `x` (offset 7) is line 3, column 2 -/
example : indexToLoc [97, 13, 10, 233, 13, 98, 120] 6 = some (3, 2) ∧
    splitLines [97, 13, 10, 233, 13, 98, 120] = [[97], [233], [98, 120]] := by decide

/-! ### `data_omitted_iff` -/

/-- **data_omitted_iff.** The response of `process_graphql_query` has no `data` entry exactly when
    the document failed to parse or failed validation. (Operation-selection and variable-coercion
    failures answer `"data": null`: that is what the `_abort(data=None, …)` calls of the source do —
    re-extracted on every run.) -/
theorem data_omitted_iff (s : Stages) :
    (processQuery s).data = none ↔ s.documentRejected = true := by
  unfold processQuery Stages.documentRejected abort
  cases hp : s.parse with
  | some mp => simp [abortSyntaxPassesData]
  | none =>
    by_cases hv : s.validate.isEmpty = true
    · cases hg : s.getOp with
      | some m => simp [hv, abortExecutionPassesData]
      | none =>
        by_cases hc : s.coerce.isEmpty = true
        · simp [hv, hc]
        · simp [hv, hc, abortCoercionPassesData]
    · simp [hv, abortValidationPassesData]

/-- the same on the response dictionary: the key `data` is absent iff the document was rejected -/
theorem response_data_key_iff (text : Text) (s : Stages) (r : J)
    (h : (processQuery s).response text = some r) :
    r.get? "data" = none ↔ s.documentRejected = true := by
  rw [← data_omitted_iff]
  unfold Result.response at h
  cases he : List.mapM (Err.toDict text) (processQuery s).errors with
  | none => simp [he] at h
  | some errs =>
    simp only [he] at h
    have hext : (processQuery s).extensions = [] := by
      unfold processQuery abort
      repeat' split
      all_goals rfl
    cases hd : (processQuery s).data with
    | none =>
      simp only [hd, hext, Option.some.injEq] at h
      subst h
      by_cases hE : errs.isEmpty = true <;> simp [hE, J.get?]
    | some d =>
      simp only [hd, hext, Option.some.injEq] at h
      subst h
      by_cases hE : errs.isEmpty = true <;> simp [hE, J.get?]

/-- non-vacuity: each of the five stage outcomes is reachable and only the first two omit `data` -/
example :
    (processQuery { parse := some ("m", 0), validate := [], getOp := none, coerce := [], exec := (.null, []) }).data = none ∧
    (processQuery { parse := none, validate := [.located "v" [some 2] none], getOp := none, coerce := [], exec := (.null, []) }).data = none ∧
    (processQuery { parse := none, validate := [], getOp := some "no operation", coerce := [], exec := (.null, []) }).data = some .null ∧
    (processQuery { parse := none, validate := [], getOp := none, coerce := [.located "c" [some 7] none], exec := (.null, []) }).data = some .null ∧
    (processQuery { parse := none, validate := [], getOp := none, coerce := [], exec := (.obj [("a", .num 1)], []) }).data = some (.obj [("a", .num 1)]) := by
  refine ⟨rfl, rfl, rfl, rfl, rfl⟩

/-! ### finding X1: the misspelt column key -/

/-- machine-checked witness of finding X1: today's column key of syntax-error locations is not
    `"column"` (`Generated.ResponseKeys.syntaxColKey` is re-extracted from `exc.py` on every run) -/
theorem syntax_column_key_is_misspelt : syntaxColKey ≠ "column" := by decide

/-- … while every other location uses the spec's keys -/
theorem located_keys_are_spec : locatedLineKey = "line" ∧ locatedColKey = "column" ∧ syntaxLineKey = "line" := by decide

end PyGql.Props.C10

/-
  C15 — property theorems.  Stated about the model `PyGqlModel/Introspect.lean`, whose default-value
  formatter, type-kind table and meta-field chain are RE-EXTRACTED from
  `schema/introspection.py` / `execution/wrappers.py` on every run (`Generated/Introspection.lean`).
-/
import PyGqlModel.Spec.Introspect

set_option linter.unusedSimpArgs false
set_option linter.unusedVariables false

namespace PyGql.Props.C15
open PyGql PyGql.Introspect PyGql.Introspect.Spec PyGql.Generated.Introspection

/-! ## disabling introspection -/

/-- `disabled_hides_all`: with `disable_introspection` every meta field (`__schema`, `__type`, `__typename`)
    has NO definition, below every parent type — the executor skips the selection (no key, no error). -/
theorem disabled_hides_all (s : SchemaD) (p : TypeD) (n : String) (h : isMeta n = true) :
    fieldDefinition s true p n = .ok none := by
  simp [fieldDefinition, h, metaChain, walkChain]

/-- executor level: with the switch on, `_iterate_fields` never raises and yields ordinary fields only. -/
theorem disabled_hides_all_exec (s : SchemaD) (p : TypeD) (sel : List (String × String)) :
    ∃ l, iterateFields s true p sel = some l ∧ ∀ kd ∈ l, ∃ f, kd.2 = FieldDef.ordinary f ∧ isMeta f.name = false := by
  induction sel with
  | nil => exact ⟨[], rfl, by simp⟩
  | cons kn rest ih =>
    obtain ⟨l, hl, hall⟩ := ih
    obtain ⟨key, name⟩ := kn
    by_cases hm : isMeta name = true
    · refine ⟨l, ?_, hall⟩
      simp [iterateFields, disabled_hides_all s p name hm, hl]
    · have hm' : isMeta name = false := by simpa using hm
      cases hf : p.fields.find? (·.name == name) with
      | none =>
        refine ⟨l, ?_, hall⟩
        simp [iterateFields, fieldDefinition, hm', hf, hl]
      | some f =>
        refine ⟨(key, .ordinary f) :: l, ?_, ?_⟩
        · simp [iterateFields, fieldDefinition, hm', hf, hl]
        · intro kd hkd
          rcases List.mem_cons.mp hkd with h | h
          · subst h
            have hn : f.name = name := by
              have := List.find?_some hf
              simpa using this
            exact ⟨f, rfl, by rw [hn]; exact hm'⟩
          · exact hall kd h

/-- `disabled_keeps_ordinary` (lookup level): the switch does not touch the definition of any ordinary field. -/
theorem disabled_keeps_ordinary_lookup (s : SchemaD) (p : TypeD) (n : String) (h : isMeta n = false) (d : Bool) :
    fieldDefinition s d p n = .ok ((p.fields.find? (·.name == n)).map .ordinary) := by
  simp [fieldDefinition, h]

/-- `disabled_keeps_ordinary` (executor level): executing a selection with introspection disabled visits exactly
    the entries (same keys, same definitions, same order) that executing it WITHOUT its meta-field selections
    visits when introspection is enabled. -/
theorem disabled_keeps_ordinary (s : SchemaD) (p : TypeD) (sel : List (String × String)) :
    iterateFields s true p sel = iterateFields s false p (sel.filter fun kn => !isMeta kn.2) := by
  induction sel with
  | nil => rfl
  | cons kn rest ih =>
    obtain ⟨key, name⟩ := kn
    by_cases hm : isMeta name = true
    · simp [iterateFields, disabled_hides_all s p name hm, hm, ih]
    · have hm' : isMeta name = false := by simpa using hm
      simp [iterateFields, hm', disabled_keeps_ordinary_lookup s p name hm', ih]

/-- non-vacuity: a selection with all three meta fields and one ordinary field. -/
example : let q : TypeD := { kind := .object, name := "Query", fields := [{ name := "a", type := .named "Int" }] }
    let s : SchemaD := { types := [q] }
    (iterateFields s true q [("__typename", "__typename"), ("x", "a"), ("__schema", "__schema")]).map (·.map (·.1)) = some ["x"]
    ∧ (iterateFields s false q [("__typename", "__typename"), ("x", "a"), ("__schema", "__schema")]).map (·.map (·.1))
        = some ["__typename", "x", "__schema"] := by
  decide

/-- introspection ENABLED, `__schema` / `__type` selected below a type that is not the query type: no branch of the
    if/elif chain applies and the lookup answers `None` — "not a field of this type", the executor's ordinary
    unknown-field handling (`field_def = None` is set before the chain since c907521; before that nothing was
    assigned and Python raised `UnboundLocalError`, which this theorem then stated). Validation rejects such
    documents first; recorded because `execute` can be called on its own. -/
theorem meta_below_non_query_not_a_field (s : SchemaD) (p : TypeD) (h : (s.query == some p.name) = false) :
    fieldDefinition s false p "__schema" = .ok none ∧ fieldDefinition s false p "__type" = .ok none := by
  simp [fieldDefinition, isMeta, metaFieldNames, metaChain, walkChain, metaTarget, h]

/-- ... while `__typename` is a field of EVERY type, and the lookup never fails for any name -/
theorem typename_everywhere (s : SchemaD) (p : TypeD) :
    fieldDefinition s false p "__typename" = .ok (some .typenameField) := by
  simp [fieldDefinition, isMeta, metaFieldNames, metaChain, walkChain, metaTarget]

/-! ## deprecated members -/

/-- the type with its deprecated fields and enum values removed -/
def hideDep (t : TypeD) : TypeD :=
  { t with fields := t.fields.filter (fun f => f.deprecated.isNone), values := t.values.filter (fun v => v.deprecated.isNone) }

theorem hideDep_fields (t : TypeD) (f : FieldD) : f ∈ (hideDep t).fields ↔ f ∈ t.fields ∧ f.deprecated = none := by
  simp [hideDep, List.mem_filter]

theorem hideDep_values (t : TypeD) (v : EnumValD) : v ∈ (hideDep t).values ↔ v ∈ t.values ∧ v.deprecated = none := by
  simp [hideDep, List.mem_filter]

private theorem vis_false_fields (fs : List FieldD) : visibleFields false fs = fs.filter (fun f => f.deprecated.isNone) := by
  unfold visibleFields; congr 1; funext f; cases f.deprecated <;> simp
private theorem vis_false_values (vs : List EnumValD) : visibleValues false vs = vs.filter (fun v => v.deprecated.isNone) := by
  unfold visibleValues; congr 1; funext f; cases f.deprecated <;> simp
private theorem vis_true_filter_fields (fs : List FieldD) :
    visibleFields true (fs.filter (fun f => f.deprecated.isNone)) = fs.filter (fun f => f.deprecated.isNone) := by
  simp [visibleFields]
private theorem vis_true_filter_values (vs : List EnumValD) :
    visibleValues true (vs.filter (fun v => v.deprecated.isNone)) = vs.filter (fun v => v.deprecated.isNone) := by
  simp [visibleValues]

/-- with `includeDeprecated: true` nothing is filtered -/
theorem deprecated_shown (fs : List FieldD) (vs : List EnumValD) : visibleFields true fs = fs ∧ visibleValues true vs = vs := by
  simp [visibleFields, visibleValues]

/-- `deprecated_hidden` for one type: what is reported without deprecated members is exactly what is reported,
    deprecated members included, for the type with its deprecated fields / enum values removed — the same kind,
    name, description, interfaces, possible types, input fields, and every remaining member unchanged. -/
theorem deprecated_hidden_type (s : SchemaD) (t : TypeD) : fullType s false t = fullType s true (hideDep t) := by
  simp only [fullType, vis_false_fields, vis_false_values, hideDep, vis_true_filter_fields, vis_true_filter_values, possibleTypes]
  rfl

/-- `deprecated_hidden`: the whole result with `includeDeprecated: false` is the standard result of the same
    schema in which every type is replaced by `hideDep` of it; root types, directives, order are untouched. -/
theorem deprecated_hidden (s : SchemaD) :
    introspect s false = .obj [("__schema", .obj [
      ("queryType", rootRef s.query), ("mutationType", rootRef s.mutation), ("subscriptionType", rootRef s.subscription),
      ("types", .arr ((sortBy (·.name) s.types).map (fun t => fullType s true (hideDep t)))),
      ("directives", .arr ((sortBy (·.name) s.directives).map (directiveJ s)))])] := by
  have h : fullType s false = fun t => fullType s true (hideDep t) := funext (deprecated_hidden_type s)
  simp only [introspect, schemaJ, h]

/-- non-vacuity: one deprecated and one live enum value -/
example : (hideDep { kind := .enum, name := "E", values := [{ name := "A", deprecated := some "old" }, { name := "B" }] }).values.map (·.name)
    = ["B"] := by decide

end PyGql.Props.C15

/-
  C17 — subscriptions map each source event to one isolated result, in order.
  Theorems about the model `PyGqlModel/Subscribe.lean` (tied to /repo by harness/corr/C17.py).
-/
import PyGqlModel.Subscribe

set_option linter.unusedSimpArgs false
set_option linter.unusedVariables false

namespace PyGql.Props.C17
open PyGql.Subscribe PyGql.Instr

/-! ## the stream protocol -/

/-- draining the `AsyncMap` with enough calls is the plain map over the source; the source is
    pulled once per event plus the final pull that ends the stream -/
theorem collect_eq_responses (clear : Bool) : ∀ (fuel : Nat) (s : Stream), s.source.length < fuel →
    (Stream.collect clear fuel s).1 = responses clear s.st s.k s.source
    ∧ (Stream.collect clear fuel s).2.pulls = s.pulls + s.source.length + 1
    ∧ (Stream.collect clear fuel s).2.source = []
  | 0, s, h => by omega
  | fuel + 1, s, h => by
    obtain ⟨src, st, k, pulls⟩ := s
    cases src with
    | nil => simp [Stream.collect, Stream.next, responses]
    | cons e es =>
      have ih := collect_eq_responses clear fuel
        ⟨es, (executeSubscriptionEvent clear st k e).1, k + 1, pulls + 1⟩ (by simp at h ⊢; omega)
      simp only [Stream.collect, Stream.next, responses, ih, List.length_cons]
      simp; omega

/-- **one_result_per_event** — exactly one result per source event (same length; order is
    `kth_result_is_exec_of_kth_event`), and the response stream ends when the source ends: the
    call after the last result pulls the exhausted source once and stops. -/
theorem one_result_per_event (clear : Bool) (st : ExecState) (k : Nat) (evs : List Event) :
    (responses clear st k evs).length = evs.length := by
  induction evs generalizing st k with
  | nil => rfl
  | cons e es ih => simp [responses, ih]


/-- the result of executing the selection with `ev` as root value on a FRESH executor -/
def freshExec (k : Nat) (ev : Event) : Result := (executeSubscriptionEvent true ⟨[]⟩ k ev).2

private theorem clear_forgets (st : ExecState) (k : Nat) (ev : Event) :
    (executeSubscriptionEvent true st k ev).2 = freshExec k ev := rfl

/-- **kth_result_is_exec_of_kth_event** — whatever state the shared executor is in when the
    stream starts, the j-th result is exactly what a fresh execution of the selection with the
    j-th event as root value yields (results come in source order). -/
theorem kth_result_is_exec_of_kth_event (st : ExecState) (k : Nat) (evs : List Event) (j : Nat) :
    (responses true st k evs)[j]? = evs[j]?.map (freshExec (k + j)) := by
  induction evs generalizing st k j with
  | nil => simp [responses]
  | cons e es ih =>
    cases j with
    | zero => simp [responses, clear_forgets]
    | succ j =>
      simp only [responses, List.getElem?_cons_succ, ih]
      congr 2; omega

mutual
private theorem errsField (k : Nat) : ∀ (path : Path) (n : ENode) (errs : List Err),
    ∀ x ∈ (resolveField k path n errs).2, x ∈ errs ∨ x.event = k
  | path, .mk key raises c, errs => by
    intro x hx
    cases raises with
    | true => simp [resolveField] at hx; rcases hx with h | h; exact .inl h; exact .inr (by simp [h])
    | false => simp only [resolveField, Bool.false_eq_true, if_false] at hx; exact errsComp k _ c errs x hx
private theorem errsComp (k : Nat) : ∀ (p : Path) (c : EComp) (errs : List Err),
    ∀ x ∈ (completeValue k p c errs).2, x ∈ errs ∨ x.event = k
  | p, .leaf v, errs => by intro x hx; exact .inl (by simpa [completeValue] using hx)
  | p, .null, errs => by intro x hx; exact .inl (by simpa [completeValue] using hx)
  | p, .obj fs, errs => by intro x hx; exact errsFields k p fs errs x (by simpa [completeValue] using hx)
  | p, .list items, errs => by intro x hx; exact errsItems k p 0 items errs x (by simpa [completeValue] using hx)
private theorem errsFields (k : Nat) : ∀ (p : Path) (fs : List ENode) (errs : List Err),
    ∀ x ∈ (executeFields k p fs errs).2, x ∈ errs ∨ x.event = k
  | p, [], errs => by intro x hx; exact .inl (by simpa [executeFields] using hx)
  | p, n :: ns, errs => by
    intro x hx
    simp only [executeFields] at hx
    rcases errsFields k p ns _ x hx with h | h
    · exact errsField k p n errs x h
    · exact .inr h
private theorem errsItems (k : Nat) : ∀ (p : Path) (i : Nat) (cs : List EComp) (errs : List Err),
    ∀ x ∈ (completeItems k p i cs errs).2, x ∈ errs ∨ x.event = k
  | p, i, [], errs => by intro x hx; exact .inl (by simpa [completeItems] using hx)
  | p, i, c :: cs, errs => by
    intro x hx
    simp only [completeItems] at hx
    rcases errsItems k p (i + 1) cs _ x hx with h | h
    · exact errsComp k _ c errs x h
    · exact .inr h
end

/-- invariant over the event index: after processing event `k` (with `clear_errors` first) the
    shared error list only holds errors raised while processing event `k` -/
theorem executor_errors_after_event (st : ExecState) (k : Nat) (ev : Event) :
    ∀ x ∈ (executeSubscriptionEvent true st k ev).1.errors, x.event = k := by
  intro x hx
  rcases errsFields k [] ev [] x (by simpa [executeSubscriptionEvent] using hx) with h | h
  · simp at h
  · exact h

/-- **errors_isolated** — the error list of the j-th result contains only errors raised while
    processing the j-th event, for every stream, every failure pattern and whatever the shared
    executor held before. -/
theorem errors_isolated (st : ExecState) (k : Nat) (evs : List Event) (j : Nat) (r : Result)
    (h : (responses true st k evs)[j]? = some r) : ∀ x ∈ r.errors, x.event = k + j := by
  rw [kth_result_is_exec_of_kth_event] at h
  cases he : evs[j]? with
  | none => simp [he] at h
  | some e =>
    simp only [he, Option.map_some, Option.some.injEq] at h
    subst h
    intro x hx
    exact executor_errors_after_event ⟨[]⟩ (k + j) e x (by simpa [freshExec, executeSubscriptionEvent] using hx)

/-- non-vacuity: two events, the first one fails at `root.x`, the second one is clean -/
private def evFail : Event := [.mk "root" false (.obj [.mk "x" true .null, .mk "y" false (.leaf 1)])]
private def evOk : Event := [.mk "root" false (.obj [.mk "x" false (.leaf 2), .mk "y" false (.leaf 3)])]
example : ((responses true ⟨[]⟩ 0 [evFail, evOk]).map (·.errors)) = [[⟨0, [.key "root", .key "x"]⟩], []] := by decide

/-- What `clear_errors` is for, machine-checked: on the same executor WITHOUT the
    `executor.clear_errors()` step the second result still carries the first event's error —
    isolation fails. (This is the mutation the correspondence must catch.) -/
theorem errors_not_isolated_without_clear_errors :
    ∃ (evs : List Event) (j : Nat),
      ∃ x ∈ (((responses false ⟨[]⟩ 0 evs).map (·.errors))[j]?).getD [], x.event ≠ j :=
  ⟨[evFail, evOk], 1, ⟨0, [.key "root", .key "x"]⟩, by decide, by decide⟩

/-! ## subscribe: refusals and the accepted case -/

/-- **refusals** — a non-subscription operation, a runtime without stream support, a root
    selection with several (or no) fields, an undefined field, a field without subscription
    resolver are refused with the documented exception class, and in every refusal neither
    the subscription resolver was called nor a single event pulled from a source. Everything
    else is accepted. -/
theorem refusals (r : SubRequest) :
    (r.operation ≠ .subscription ∨ r.streamRuntime = false →
        subscribe r = .refused "RuntimeError" false 0)
    ∧ (r.operation = .subscription → r.streamRuntime = true → r.rootFields ≠ 1 →
        subscribe r = .refused "ExecutionError" false 0)
    ∧ (r.operation = .subscription → r.streamRuntime = true → r.rootFields = 1 →
        (r.fieldDefined = false ∨ r.hasSubResolver = false) → subscribe r = .refused "RuntimeError" false 0)
    ∧ (r.operation = .subscription → r.streamRuntime = true → r.rootFields = 1 → r.fieldDefined = true →
        r.hasSubResolver = true →
        subscribe r = .stream (responses true ⟨[]⟩ 0 r.events) (r.events.length + 1)) := by
  obtain ⟨op, n, fd, hs, rt, evs⟩ := r
  refine ⟨?_, ?_, ?_, ?_⟩
  · rintro (h | h) <;> simp_all [subscribe]
  · intro h1 h2 h3; simp_all [subscribe]
  · intro h1 h2 h3 h4
    rcases h4 with h | h <;> simp_all [subscribe]
  · intro h1 h2 h3 h4 h5
    have := collect_eq_responses true (evs.length + 1) ⟨evs, ⟨[]⟩, 0, 0⟩ (by simp)
    simp_all [subscribe]

/-- an accepted subscription: one result per event, in order, each the fresh execution of its
    event, errors isolated, source pulled `n + 1` times (the stream ends with the source) -/
theorem accepted_stream (r : SubRequest) (rs : List Result) (pulls : Nat) (h : subscribe r = .stream rs pulls) :
    rs.length = r.events.length ∧ pulls = r.events.length + 1
    ∧ (∀ j, rs[j]? = r.events[j]?.map (freshExec j))
    ∧ (∀ (j : Nat) (res : Result), rs[j]? = some res → ∀ x ∈ res.errors, x.event = j) := by
  have R := refusals r
  by_cases c1 : r.operation = .subscription
  case neg => rw [R.1 (.inl c1)] at h; cases h
  by_cases c2 : r.streamRuntime = true
  case neg => rw [R.1 (.inr (by simpa using c2))] at h; cases h
  by_cases c3 : r.rootFields = 1
  case neg => rw [R.2.1 c1 c2 c3] at h; cases h
  by_cases c4 : r.fieldDefined = true
  case neg => rw [R.2.2.1 c1 c2 c3 (.inl (by simpa using c4))] at h; cases h
  by_cases c5 : r.hasSubResolver = true
  case neg => rw [R.2.2.1 c1 c2 c3 (.inr (by simpa using c5))] at h; cases h
  rw [R.2.2.2 c1 c2 c3 c4 c5] at h
  injection h with h1 h2
  subst h1 h2
  refine ⟨one_result_per_event _ _ _ _, rfl, ?_, ?_⟩
  · intro j; simpa using kth_result_is_exec_of_kth_event ⟨[]⟩ 0 r.events j
  · intro j res hj; simpa using errors_isolated ⟨[]⟩ 0 r.events j res hj

example : ∃ rs pulls, subscribe ⟨.subscription, 1, true, true, true, [evFail, evOk, evFail]⟩ = .stream rs pulls ∧ rs.length = 3 :=
  ⟨_, _, rfl, by decide⟩

end PyGql.Props.C17

/-
  C17 — subscriptions map each source event to one isolated result, in order.
  Theorems about the model `PyGqlModel/Subscribe.lean` (tied to /repo by harness/corr/C17.py).
-/
import PyGqlModel.Subscribe

set_option linter.unusedSimpArgs false
set_option linter.unusedVariables false

namespace PyGql.Props.C17
open PyGql.Subscribe PyGql.Instr

/-! ## the stream protocol -/

/-- draining the `AsyncMap` with enough calls is the plain map over the source; the source is
    pulled once per event plus the final pull that ends the stream -/
theorem collect_eq_responses (clear : Bool) : ∀ (fuel : Nat) (s : Stream), s.source.length < fuel →
    (Stream.collect clear fuel s).1 = responses clear s.st s.k s.source
    ∧ (Stream.collect clear fuel s).2.pulls = s.pulls + s.source.length + 1
    ∧ (Stream.collect clear fuel s).2.source = []
  | 0, s, h => by omega
  | fuel + 1, s, h => by
    obtain ⟨src, st, k, pulls⟩ := s
    cases src with
    | nil => simp [Stream.collect, Stream.next, responses]
    | cons e es =>
      have ih := collect_eq_responses clear fuel
        ⟨es, (executeSubscriptionEvent clear st k e).1, k + 1, pulls + 1⟩ (by simp at h ⊢; omega)
      simp only [Stream.collect, Stream.next, responses, ih, List.length_cons]
      simp; omega

/-- **one_result_per_event** — exactly one result per source event (same length; order is
    `kth_result_is_exec_of_kth_event`), and the response stream ends when the source ends: the
    call after the last result pulls the exhausted source once and stops.
    (The statement is the length equation on the pure recursion; that the stream ends exactly when the source ends - `pulls`, `source = []` - is `collect_eq_responses`.) -/
theorem one_result_per_event (clear : Bool) (st : ExecState) (k : Nat) (evs : List Event) :
    (responses clear st k evs).length = evs.length := by
  induction evs generalizing st k with
  | nil => rfl
  | cons e es ih => simp [responses, ih]


/-- the result of executing the selection with `ev` as root value on a FRESH executor -/
def freshExec (k : Nat) (ev : Event) : Result := (executeSubscriptionEvent true ⟨[]⟩ k ev).2

private theorem clear_forgets (st : ExecState) (k : Nat) (ev : Event) :
    (executeSubscriptionEvent true st k ev).2 = freshExec k ev := rfl

/-- **kth_result_is_exec_of_kth_event** — whatever state the shared executor is in when the
    stream starts, the j-th result is exactly what a fresh execution of the selection with the
    j-th event as root value yields (results come in source order).
    WHAT THIS SAYS (audit round 2): `freshExec k e` IS `executeSubscriptionEvent true ⟨[]⟩ k e` - the same function of the model run on an empty executor (`clear_forgets` is `rfl`), and an `Event` is already the outcome tree of the selection (which fields raise, leaf values) over Subscribe.lean's own synchronous mini-executor. The content is therefore exactly: THE ERROR LIST IS RESET BEFORE EACH EVENT, so the k-th result does not depend on the history (necessary: `errors_not_isolated_without_clear_errors`). That the k-th result equals an execution of the selection on the C04/C08 executor models is NOT stated here; it is what the direct oracle checks on the real code (k-th response = graphql_blocking of the twin schema on event k). -/
theorem kth_result_is_exec_of_kth_event (st : ExecState) (k : Nat) (evs : List Event) (j : Nat) :
    (responses true st k evs)[j]? = evs[j]?.map (freshExec (k + j)) := by
  induction evs generalizing st k j with
  | nil => simp [responses]
  | cons e es ih =>
    cases j with
    | zero => simp [responses, clear_forgets]
    | succ j =>
      simp only [responses, List.getElem?_cons_succ, ih]
      congr 2; omega

mutual
private theorem errsField (k : Nat) : ∀ (path : Path) (n : ENode) (errs : List Err),
    ∀ x ∈ (resolveField k path n errs).2, x ∈ errs ∨ x.event = k
  | path, .mk key raises c, errs => by
    intro x hx
    cases raises with
    | true => simp [resolveField] at hx; rcases hx with h | h; exact .inl h; exact .inr (by simp [h])
    | false => simp only [resolveField, Bool.false_eq_true, if_false] at hx; exact errsComp k _ c errs x hx
private theorem errsComp (k : Nat) : ∀ (p : Path) (c : EComp) (errs : List Err),
    ∀ x ∈ (completeValue k p c errs).2, x ∈ errs ∨ x.event = k
  | p, .leaf v, errs => by intro x hx; exact .inl (by simpa [completeValue] using hx)
  | p, .null, errs => by intro x hx; exact .inl (by simpa [completeValue] using hx)
  | p, .obj fs, errs => by intro x hx; exact errsFields k p fs errs x (by simpa [completeValue] using hx)
  | p, .list items, errs => by intro x hx; exact errsItems k p 0 items errs x (by simpa [completeValue] using hx)
private theorem errsFields (k : Nat) : ∀ (p : Path) (fs : List ENode) (errs : List Err),
    ∀ x ∈ (executeFields k p fs errs).2, x ∈ errs ∨ x.event = k
  | p, [], errs => by intro x hx; exact .inl (by simpa [executeFields] using hx)
  | p, n :: ns, errs => by
    intro x hx
    simp only [executeFields] at hx
    rcases errsFields k p ns _ x hx with h | h
    · exact errsField k p n errs x h
    · exact .inr h
private theorem errsItems (k : Nat) : ∀ (p : Path) (i : Nat) (cs : List EComp) (errs : List Err),
    ∀ x ∈ (completeItems k p i cs errs).2, x ∈ errs ∨ x.event = k
  | p, i, [], errs => by intro x hx; exact .inl (by simpa [completeItems] using hx)
  | p, i, c :: cs, errs => by
    intro x hx
    simp only [completeItems] at hx
    rcases errsItems k p (i + 1) cs _ x hx with h | h
    · exact errsComp k _ c errs x h
    · exact .inr h
end

/-- invariant over the event index: after processing event `k` (with `clear_errors` first) the
    shared error list only holds errors raised while processing event `k` -/
theorem executor_errors_after_event (st : ExecState) (k : Nat) (ev : Event) :
    ∀ x ∈ (executeSubscriptionEvent true st k ev).1.errors, x.event = k := by
  intro x hx
  rcases errsFields k [] ev [] x (by simpa [executeSubscriptionEvent] using hx) with h | h
  · simp at h
  · exact h

/-- **errors_isolated** — the error list of the j-th result contains only errors raised while
    processing the j-th event, for every stream, every failure pattern and whatever the shared
    executor held before.
    (The tag `event := k` is stamped by the model's own mini-executor: together with `errors_not_isolated_without_clear_errors` the content is that `clear_errors` runs first.) -/
theorem errors_isolated (st : ExecState) (k : Nat) (evs : List Event) (j : Nat) (r : Result)
    (h : (responses true st k evs)[j]? = some r) : ∀ x ∈ r.errors, x.event = k + j := by
  rw [kth_result_is_exec_of_kth_event] at h
  cases he : evs[j]? with
  | none => simp [he] at h
  | some e =>
    simp only [he, Option.map_some, Option.some.injEq] at h
    subst h
    intro x hx
    exact executor_errors_after_event ⟨[]⟩ (k + j) e x (by simpa [freshExec, executeSubscriptionEvent] using hx)

/-- non-vacuity: two events, the first one fails at `root.x`, the second one is clean -/
private def evFail : Event := [.mk "root" false (.obj [.mk "x" true .null, .mk "y" false (.leaf 1)])]
private def evOk : Event := [.mk "root" false (.obj [.mk "x" false (.leaf 2), .mk "y" false (.leaf 3)])]
example : ((responses true ⟨[]⟩ 0 [evFail, evOk]).map (·.errors)) = [[⟨0, [.key "root", .key "x"]⟩], []] := by decide

/-- What `clear_errors` is for, machine-checked: on the same executor WITHOUT the
    `executor.clear_errors()` step the second result still carries the first event's error —
    isolation fails. (This is the mutation the correspondence must catch.) -/
theorem errors_not_isolated_without_clear_errors :
    ∃ (evs : List Event) (j : Nat),
      ∃ x ∈ (((responses false ⟨[]⟩ 0 evs).map (·.errors))[j]?).getD [], x.event ≠ j :=
  ⟨[evFail, evOk], 1, ⟨0, [.key "root", .key "x"]⟩, by decide, by decide⟩

/-! ## subscribe: refusals and the accepted case -/

mutual
/-- the response keys written anywhere in a root selection (through fragments), skipped ones dropped -/
def flatKeysSel : RSel → List String
  | .field none => []
  | .field (some k) => [k]
  | .spread ss => flatKeys ss
def flatKeys : List RSel → List String
  | [] => []
  | s :: ss => flatKeysSel s ++ flatKeys ss
end

mutual
private theorem collectSel_spec : ∀ (s : RSel) (acc : List String), acc.Nodup →
    (collectSel s acc).Nodup ∧ ∀ k, k ∈ collectSel s acc ↔ k ∈ acc ∨ k ∈ flatKeysSel s
  | .field none, acc, h => by simp [collectSel, flatKeysSel, h]
  | .field (some k), acc, h => by
    by_cases hk : k ∈ acc
    · simp only [collectSel, hk, if_true, flatKeysSel, List.mem_singleton]
      exact ⟨h, fun x => ⟨.inl, fun hx => hx.elim id (fun e => e ▸ hk)⟩⟩
    · simp only [collectSel, hk, if_false, flatKeysSel]
      refine ⟨?_, fun x => by simp [List.mem_append]⟩
      rw [List.nodup_append]
      refine ⟨h, by simp, ?_⟩
      intro a ha b hb
      simp at hb
      subst hb
      exact fun e => hk (e ▸ ha)
  | .spread ss, acc, h => by simpa [collectSel, flatKeysSel] using collectSels_spec ss acc h
private theorem collectSels_spec : ∀ (ss : List RSel) (acc : List String), acc.Nodup →
    (collectSels ss acc).Nodup ∧ ∀ k, k ∈ collectSels ss acc ↔ k ∈ acc ∨ k ∈ flatKeys ss
  | [], acc, h => by simp [collectSels, flatKeys, h]
  | s :: ss, acc, h => by
    have h1 := collectSel_spec s acc h
    have h2 := collectSels_spec ss (collectSel s acc) h1.1
    refine ⟨by simpa [collectSels] using h2.1, fun k => ?_⟩
    simp only [collectSels, h2.2 k, h1.2 k, flatKeys, List.mem_append]
    exact or_assoc
end

/-- **the single-root-field rule is about the COLLECTED fields, not about how they are written**:
    the collected root keys are exactly the distinct response keys reachable through fragment
    spreads and inline fragments (skipped fields dropped), each once. -/
theorem collected_root_fields (root : List RSel) :
    (collectSels root []).Nodup ∧ ∀ k, k ∈ collectSels root [] ↔ k ∈ flatKeys root := by
  have := collectSels_spec root [] List.nodup_nil
  exact ⟨this.1, fun k => by simpa using this.2 k⟩

/-- two spellings of the root selection that reach the same set of response keys are treated
    alike by the rule (same number of collected fields) -/
theorem root_rule_spelling_independent (r1 r2 : List RSel) (h : ∀ k, k ∈ flatKeys r1 ↔ k ∈ flatKeys r2) :
    (collectSels r1 []).length = (collectSels r2 []).length := by
  have a := collected_root_fields r1
  have b := collected_root_fields r2
  exact ((List.perm_ext_iff_of_nodup a.1 b.1).2 (fun k => by rw [a.2, b.2, h])).length_eq

/-- one top-level selection that EXPANDS to two root fields is two fields; one field written
    twice (or through a fragment, or next to a skipped field) is one field -/
example : (collectSels [.spread [.field (some "counter"), .field (some "doubled")]] []).length = 2 := by decide
example : (collectSels [.spread [.field (some "a"), .spread [.field (some "b")]]] []).length = 2 := by decide
example : (collectSels [.field (some "counter"), .field (some "counter")] []).length = 1 := by decide
example : (collectSels [.spread [.field (some "counter")], .field none, .field (some "counter")] []).length = 1 := by decide

/-- **refusals** — a failure of operation selection, a non-subscription operation (refused as such
    BEFORE its variables are looked at), a failure of variable coercion, a runtime without stream support, a root selection that does not COLLECT to
    exactly one field (however it is spelled), an undefined field, a field without subscription
    resolver are refused with the exception class the code documents, in that order of
    precedence, and in every refusal neither the subscription resolver was called nor a single
    event pulled from a source. Everything else is accepted.
    WHAT THIS SAYS (audit round 2): `subscribe` in the model is the if-chain of the code over the flags of `SubRequest`, and every refused branch is the literal `.refused exc false 0`; this theorem (and `refused_before_variables`, `refusals_uncomputable`) is a case split over that chain: it pins WHICH exception class each condition yields and the ORDER of the checks. `subResolverCalled = false` / `pulls = 0` are constants of the refused branches, not derived from a step relation: the model has no step at which the subscription resolver is called or the source iterator is pulled, so 'before any event is consumed' is checked on the REAL code only (instrumented source: no `__aiter__` / `__anext__` / resolver call on any refusal, every runtime class). The non-definitional part of the root rule is `collected_root_fields` / `root_rule_spelling_independent`. -/
theorem refusals (r : SubRequest) :
    (r.opselOk = false → subscribe r = .refused "InvalidOperationError" false 0)
    ∧ (r.opselOk = true → r.operation ≠ .subscription → subscribe r = .refused "RuntimeError" false 0)
    ∧ (r.opselOk = true → r.operation = .subscription → r.streamRuntime = true → r.varsOk = false →
        subscribe r = .refused "VariablesCoercionError" false 0)
    ∧ (r.opselOk = true → r.varsOk = true → (r.operation ≠ .subscription ∨ r.streamRuntime = false) →
        subscribe r = .refused "RuntimeError" false 0)
    ∧ (r.opselOk = true → r.varsOk = true → r.operation = .subscription → r.streamRuntime = true →
        r.rootCollectOk = true →
        (collectSels r.root []).length ≠ 1 → subscribe r = .refused "ExecutionError" false 0)
    ∧ (r.opselOk = true → r.varsOk = true → r.operation = .subscription → r.streamRuntime = true →
        r.rootCollectOk = true →
        (collectSels r.root []).length = 1 → (r.fieldDefined = false ∨ r.hasSubResolver = false) →
        subscribe r = .refused "RuntimeError" false 0)
    ∧ (r.opselOk = true → r.varsOk = true → r.operation = .subscription → r.streamRuntime = true →
        r.rootCollectOk = true → r.argsOk = true →
        (collectSels r.root []).length = 1 → r.fieldDefined = true → r.hasSubResolver = true →
        subscribe r = .stream (responses true ⟨[]⟩ 0 r.events) (r.events.length + 1)) := by
  obtain ⟨oo, vo, op, root, fd, hs, rt, rc, ao, evs⟩ := r
  refine ⟨?_, ?_, ?_, ?_, ?_, ?_, ?_⟩
  · intro h; simp_all [subscribe]
  · intro h1 h2; simp_all [subscribe]
  · intro h1 h2 h3 h4; simp_all [subscribe]
  · rintro h1 h2 (h | h) <;> simp_all [subscribe]
  · intro h1 h2 h3 h4 hc h5; simp_all [subscribe]
  · intro h1 h2 h3 h4 hc h5 h6
    rcases h6 with h | h <;> simp_all [subscribe]
  · intro h1 h2 h3 h4 hc ha h5 h6 h7
    have := collect_eq_responses true (evs.length + 1) ⟨evs, ⟨[]⟩, 0, 0⟩ (by simp)
    simp_all [subscribe]

/-- the refusals that do not depend on the request's variables come before variable coercion: a non-subscription
    operation and a runtime without stream support are refused with the documented `RuntimeError` WHATEVER the variables are
    (missing, wrongly typed, …) -/
theorem refused_before_variables (r : SubRequest) (h1 : r.opselOk = true)
    (h : r.operation ≠ .subscription ∨ r.streamRuntime = false) :
    subscribe r = .refused "RuntimeError" false 0 := by
  obtain ⟨oo, vo, op, root, fd, hs, rt, rc, ao, evs⟩ := r
  rcases h with h | h <;> simp_all [subscribe]

/-- **refusals, conditions that cannot be evaluated** — a subscription whose root `@skip` / `@include`
    condition, or whose subscription-field argument, cannot be coerced (a defaulted nullable variable sent
    as `null` at a non-null position: the document validates and the variables are accepted) is refused
    with `ExecutionError` — the class `subscribe` uses to refuse a request — and neither the subscription
    resolver is called nor an event pulled. -/
theorem refusals_uncomputable (r : SubRequest)
    (h1 : r.opselOk = true) (h2 : r.varsOk = true) (h3 : r.operation = .subscription) (h4 : r.streamRuntime = true) :
    (r.rootCollectOk = false → subscribe r = .refused "ExecutionError" false 0)
    ∧ (r.rootCollectOk = true → (collectSels r.root []).length = 1 → r.fieldDefined = true → r.hasSubResolver = true →
        r.argsOk = false → subscribe r = .refused "ExecutionError" false 0) := by
  obtain ⟨oo, vo, op, root, fd, hs, rt, rc, ao, evs⟩ := r
  refine ⟨?_, ?_⟩
  · intro h; simp_all [subscribe]
  · intro a b c d e; simp_all [subscribe]

/-- an accepted subscription: one result per event, in order, each the fresh execution of its
    event, errors isolated, source pulled `n + 1` times (the stream ends with the source) -/
theorem accepted_stream (r : SubRequest) (rs : List Result) (pulls : Nat) (h : subscribe r = .stream rs pulls) :
    rs.length = r.events.length ∧ pulls = r.events.length + 1
    ∧ (∀ j, rs[j]? = r.events[j]?.map (freshExec j))
    ∧ (∀ (j : Nat) (res : Result), rs[j]? = some res → ∀ x ∈ res.errors, x.event = j) := by
  have R := refusals r
  by_cases c0 : r.opselOk = true
  case neg => rw [R.1 (by simpa using c0)] at h; cases h
  by_cases c1 : r.operation = .subscription
  case neg => rw [R.2.1 c0 c1] at h; cases h
  by_cases c2 : r.streamRuntime = true
  case neg => rw [refused_before_variables r c0 (.inr (by simpa using c2))] at h; cases h
  by_cases c0' : r.varsOk = true
  case neg => rw [R.2.2.1 c0 c1 c2 (by simpa using c0')] at h; cases h
  have U := refusals_uncomputable r c0 c0' c1 c2
  by_cases cc : r.rootCollectOk = true
  case neg => rw [U.1 (by simpa using cc)] at h; cases h
  by_cases c3 : (collectSels r.root []).length = 1
  case neg => rw [R.2.2.2.2.1 c0 c0' c1 c2 cc c3] at h; cases h
  by_cases c4 : r.fieldDefined = true
  case neg => rw [R.2.2.2.2.2.1 c0 c0' c1 c2 cc c3 (.inl (by simpa using c4))] at h; cases h
  by_cases c5 : r.hasSubResolver = true
  case neg => rw [R.2.2.2.2.2.1 c0 c0' c1 c2 cc c3 (.inr (by simpa using c5))] at h; cases h
  by_cases ca : r.argsOk = true
  case neg => rw [U.2 cc c3 c4 c5 (by simpa using ca)] at h; cases h
  rw [R.2.2.2.2.2.2 c0 c0' c1 c2 cc ca c3 c4 c5] at h
  injection h with h1 h2
  subst h1 h2
  refine ⟨one_result_per_event _ _ _ _, rfl, ?_, ?_⟩
  · intro j; simpa using kth_result_is_exec_of_kth_event ⟨[]⟩ 0 r.events j
  · intro j res hj; simpa using errors_isolated ⟨[]⟩ 0 r.events j res hj

example : ∃ rs pulls, subscribe ⟨true, true, .subscription, [.field (some "root"), .spread [.field (some "root")]], true, true, true, true, true,
    [evFail, evOk, evFail]⟩ = .stream rs pulls ∧ rs.length = 3 :=
  ⟨_, _, rfl, by decide⟩

example : subscribe ⟨true, true, .subscription, [.field (some "tick")], true, true, true, true, false, [evOk]⟩
    = .refused "ExecutionError" false 0 := rfl

/-- the spelling the seeded change let through: one fragment spread that expands to two fields -/
example : subscribe ⟨true, true, .subscription, [.spread [.field (some "counter"), .field (some "doubled")]], true, true, true, true, true, [evOk]⟩
    = .refused "ExecutionError" false 0 := rfl

end PyGql.Props.C17

/-
  C17 — subscriptions map each source event to one isolated result, in order.
  Theorems about the model `PyGqlModel/Subscribe.lean` (tied to /repo by harness/corr/C17.py).
-/
import PyGqlModel.Subscribe

set_option linter.unusedSimpArgs false
set_option linter.unusedVariables false

namespace PyGql.Props.C17
open PyGql.Subscribe PyGql.Instr

/-! ## the stream protocol -/

/-- draining the `AsyncMap` with enough calls is the plain map over the source; the source is
    pulled once per event plus the final pull that ends the stream -/
theorem collect_eq_responses (clear : Bool) : ∀ (fuel : Nat) (s : Stream), s.source.length < fuel →
    (Stream.collect clear fuel s).1 = responses clear s.st s.k s.source
    ∧ (Stream.collect clear fuel s).2.pulls = s.pulls + s.source.length + 1
    ∧ (Stream.collect clear fuel s).2.source = []
  | 0, s, h => by omega
  | fuel + 1, s, h => by
    obtain ⟨src, st, k, pulls⟩ := s
    cases src with
    | nil => simp [Stream.collect, Stream.next, responses]
    | cons e es =>
      have ih := collect_eq_responses clear fuel
        ⟨es, (executeSubscriptionEvent clear st k e).1, k + 1, pulls + 1⟩ (by simp at h ⊢; omega)
      simp only [Stream.collect, Stream.next, responses, ih, List.length_cons]
      simp; omega

/-- **one_result_per_event** — exactly one result per source event (same length; order is
    `kth_result_is_exec_of_kth_event`), and the response stream ends when the source ends: the
    call after the last result pulls the exhausted source once and stops. -/
theorem one_result_per_event (clear : Bool) (st : ExecState) (k : Nat) (evs : List Event) :
    (responses clear st k evs).length = evs.length := by
  induction evs generalizing st k with
  | nil => rfl
  | cons e es ih => simp [responses, ih]

end PyGql.Props.C17

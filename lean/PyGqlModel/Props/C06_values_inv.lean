/-
  C06 - property theorems, part 18: `perm_selections` / `perm_arguments` / `alpha_fragments` for
  `ValuesOfCorrectTypeChecker`. The clause `Spec.valuesOfCorrectType` is a statement over the context enumeration
  `gnDoc (IView.enter s) {} d`; the input context does not look at what `Tr` changes (selection order, argument
  order, fragment names), and the nodes the clause constrains (literals, fields of object literals) are untouched by
  `Tr`, so the clause - hence, by `rule_values_of_correct_type_iff`, the verdict of the rule - is invariant
  (val1's `forall_gnDoc_tr`, `Lemmas/ValidateCtxTr.lean`).
-/
import PyGqlModel.Props.C06_values
import PyGqlModel.Props.C06_inv2
namespace PyGql.Props.C06
open PyGql PyGql.Validate PyGql.Validate.Spec

theorem iview_enter_tr (T : Tr) (s : SchemaD) (n : Node) (w : IView) : IView.enter s (T.node n) w = IView.enter s n w := by
  cases n with
  | inline on dirs =>
    show ({ w with view := View.enter s (T.node (.inline on dirs)) w.view } : IView) = { w with view := _ }
    rw [view_enter_tr]
  | _ => rfl

theorem valueNodeOk_tr (T : Tr) (s : SchemaD) (fx : Fixes) (n : Node) (w : IView) :
    valueNodeOk s fx (T.node n) w ↔ valueNodeOk s fx n w := by
  cases n <;> first | exact Iff.rfl | (simp only [Tr.node, valueNodeOk])

/-- the clause of 5.6.1 (as implemented) is invariant under `Tr` -/
theorem values_spec_tr (T : Tr) (s : SchemaD) (fx : Fixes) (d : Doc) :
    Spec.valuesOfCorrectType s fx (T.doc d) ↔ Spec.valuesOfCorrectType s fx d := by
  unfold Spec.valuesOfCorrectType inputNodes
  rw [forall_gnDoc_tr T (IView.enter s) (iview_enter_tr T s) d {} (fun p => valueNodeOk s fx p.1 p.2)]
  exact ⟨fun h q hq => (valueNodeOk_tr T s fx q.1 q.2).mp (h q hq), fun h q hq => (valueNodeOk_tr T s fx q.1 q.2).mpr (h q hq)⟩

/-- **the verdict of `ValuesOfCorrectTypeChecker` is invariant under `Tr`** (no hypothesis on `T`, the fixes or the
    document) -/
theorem tr_invariance_values (T : Tr) (s : SchemaD) (fx : Fixes) (d : Doc) :
    Silent s fx .valuesOfCorrectType (T.doc d) ↔ Silent s fx .valuesOfCorrectType d := by
  rw [rule_values_of_correct_type_iff, rule_values_of_correct_type_iff]
  exact values_spec_tr T s fx d

theorem perm_selections_values (π : List Sel → List Sel) (hπ : ∀ l, (π l).Perm l) (s : SchemaD) (fx : Fixes) (d : Doc) :
    Silent s fx .valuesOfCorrectType ((Tr.mk π id id hπ (fun _ => List.Perm.refl _)).doc d) ↔
      Silent s fx .valuesOfCorrectType d :=
  tr_invariance_values _ s fx d

theorem perm_arguments_values (π : List Arg → List Arg) (hπ : ∀ l, (π l).Perm l) (s : SchemaD) (fx : Fixes) (d : Doc) :
    Silent s fx .valuesOfCorrectType ((Tr.mk id π id (fun _ => List.Perm.refl _) hπ).doc d) ↔
      Silent s fx .valuesOfCorrectType d :=
  tr_invariance_values _ s fx d

/-- fragment renaming: not even injectivity is needed for this rule -/
theorem alpha_fragments_values (ρ : String → String) (s : SchemaD) (fx : Fixes) (d : Doc) :
    Silent s fx .valuesOfCorrectType ((Tr.mk id id ρ (fun _ => List.Perm.refl _) (fun _ => List.Perm.refl _)).doc d) ↔
      Silent s fx .valuesOfCorrectType d :=
  tr_invariance_values _ s fx d

/-! instance: reversing every selection list and every argument list -/
example (s : SchemaD) (fx : Fixes) (d : Doc) :
    Silent s fx .valuesOfCorrectType ((Tr.mk List.reverse List.reverse id (fun l => l.reverse_perm)
      (fun l => l.reverse_perm)).doc d) ↔ Silent s fx .valuesOfCorrectType d :=
  tr_invariance_values _ s fx d

/-- both verdicts occur: `{ s(f: true, l: []) }` is reported, so is `{ s(l: [], f: true) }`; `{ s(f: "x") }` passes
    with its arguments and selections reversed -/
example : ¬ Silent vSchema Fixes.all .valuesOfCorrectType
    ((Tr.mk id List.reverse id (fun _ => List.Perm.refl _) (fun l => l.reverse_perm)).doc
      ⟨[opV [] 1 [fld none "s" [⟨"f", .bool true⟩, ⟨"l", .list []⟩]]]⟩) := fun h =>
  absurd ((tr_invariance_values _ vSchema Fixes.all _).mp h) (by unfold Silent; decide +kernel)
example : Silent vSchema Fixes.all .valuesOfCorrectType
    ((Tr.mk List.reverse List.reverse id (fun l => l.reverse_perm) (fun l => l.reverse_perm)).doc
      ⟨[opV [] 1 [fld none "s" [⟨"f", .str "x"⟩]]]⟩) :=
  (tr_invariance_values _ vSchema Fixes.all _).mpr (by unfold Silent; decide +kernel)

end PyGql.Props.C06

/-
  C20 — "diffing a schema against a STRUCTURALLY EQUAL one reports nothing", for descriptions that are equal up to the
  order of every list at every level (`SchemaEqv`), not only for `diffSchema s s` (`diff_refl`): `diff_eqv_zero`.
-/
import PyGqlModel.Props.C20_perm_deep

namespace PyGql.Props.C20
open PyGql PyGql.Differ PyGql.Diff

/-- **Structurally equal schemas diff to nothing**, at every severity filter: the same types, directives, fields,
    arguments, enum values, input fields, union members, interfaces and locations, each list in any order. -/
theorem diff_eqv_zero (s s' : SchemaD) (h : SchemaEqv s s') (u : UniqSchema s) (m : Nat) : diffSchema s s' m = [] := by
  have hp := diff_perm_deep s s s s' (SchemaEqv.refl s) h u m
  rw [diff_refl s u m] at hp
  exact hp.symm.eq_nil

end PyGql.Props.C20

/-
  C01 — "regardless of insignificant whitespace, commas, comments and byte order marks", at TEXT level (audit F12).

  `lex_ignored_invariant` is the lexer-level statement.  Here: two texts tiled by lexemes with the same kinds and values —
  i.e. one is the other with its ignored runs replaced by ANY other admissible ignored runs (white space, line terminators
  LF / CR / CRLF, commas, BOMs, comments) — are both accepted or both rejected by `parse`, under every flag combination, and
  the trees are EQUAL UP TO SOURCE POSITIONS.

  `parse_text_ignored_invariant`        documents (`parse`)
  `parse_value_text_ignored_invariant`  `parse_value`        `parse_type_text_ignored_invariant`  `parse_type`
-/
import PyGqlModel.Props.C01_text
import PyGqlModel.Props.C02_spans
import PyGqlModel.Lemmas.ParseClsInv
namespace PyGql.Props.C01
open PyGql PyGql.Parse PyGql.Ast PyGql.Spec
open PyGql.Spec.Lexical (Tiles)

private theorem cls_of_kv {t t2 : Tok} (h : kv t2 = kv t) : cls t2 = cls t := by
  simp only [kv, Prod.mk.injEq] at h
  simp [cls, h.1, h.2]

private theorem map_cls_of_kv : ∀ {ts ts2 : List Tok}, ts2.map kv = ts.map kv → ts2.map cls = ts.map cls
  | [], [], _ => rfl
  | [], _ :: _, h => by simp at h
  | _ :: _, [], h => by simp at h
  | t :: ts, t2 :: ts2, h => by
    simp only [List.map_cons, List.cons.injEq] at h ⊢
    exact ⟨cls_of_kv h.1, map_cls_of_kv h.2⟩

/-- the matcher under `no_location` on token lists with the same kinds and values -/
private theorem matches_kv (fl : Flags) (hf : fl.noLocation = true) (items : List Item) (toks toks2 : List Tok)
    (h : toks2.map kv = toks.map kv) (m : Matches fl items toks) : Matches fl items toks2 := by
  obtain ⟨l', hm⟩ := (matches_iff _ _ _).1 m
  obtain ⟨l2, r2, h2, e2⟩ := checkAll_cls fl hf items default l' toks [] hm default toks2 (map_cls_of_kv h)
  have : r2 = [] := by simpa using e2
  subst this
  exact (matches_iff _ _ _).2 ⟨l2, h2⟩

private theorem one_way (fl : Flags) (s₁ s₂ : Text) (body₁ body₂ : List Tok) (h₁ : Tiles s₁.length s₁ body₁)
    (h₂ : Tiles s₂.length s₂ body₂) (hsame : body₂.map kv = body₁.map kv) (d₁ : Document)
    (hp : parseText fl s₁ = some d₁) : ∃ d₂, parseText fl s₂ = some d₂ ∧ d₂.erase = d₁.erase := by
  have hl₁ := lex_render s₁ body₁ h₁
  have hl₂ := lex_render s₂ body₂ h₂
  unfold parseText at hp ⊢
  rw [hl₁] at hp
  rw [hl₂]
  simp only at hp ⊢
  have hd : parseDocument fl (Lex.sofTok :: body₁) = .ok d₁ := by
    cases hh : parseDocument fl (Lex.sofTok :: body₁) with
    | ok d => rw [hh] at hp; simp [Except.toOption] at hp; rw [hp]
    | error e => rw [hh] at hp; simp [Except.toOption] at hp
  have he : parseDocument { fl with noLocation := true } (Lex.sofTok :: body₁) = .ok d₁.erase := by
    rw [PyGql.Props.C02.noloc_erasure, hd]; rfl
  obtain ⟨w, m⟩ := parse_sound_document _ _ _ he
  have m2 := matches_kv { fl with noLocation := true } rfl _ _ (Lex.sofTok :: body₂) (by simp [hsame]) m
  have hc := parse_complete_document { fl with noLocation := true } (Lex.sofTok :: body₂) d₁.erase w m2
  rw [PyGql.Props.C02.noloc_erasure] at hc
  cases hq : parseDocument fl (Lex.sofTok :: body₂) with
  | error e => rw [hq] at hc; cases hc
  | ok d₂ =>
    rw [hq] at hc
    exact ⟨d₂, rfl, by simpa [Except.map] using hc⟩

/-- **parse_text_ignored_invariant** — IGNORED CHARACTERS ARE INSIGNIFICANT FOR `parse`: two texts that are tilings of
    lexemes with the same kinds and values (whatever ignored runs separate them) are both accepted or both rejected, under
    every flag combination, and the two trees are equal up to source positions. -/
theorem parse_text_ignored_invariant (fl : Flags) (s₁ s₂ : Text) (body₁ body₂ : List Tok)
    (h₁ : Tiles s₁.length s₁ body₁) (h₂ : Tiles s₂.length s₂ body₂) (hsame : body₁.map kv = body₂.map kv) :
    (parseText fl s₁).map Document.erase = (parseText fl s₂).map Document.erase := by
  cases hp₁ : parseText fl s₁ with
  | some d₁ =>
    obtain ⟨d₂, hp₂, e⟩ := one_way fl s₁ s₂ body₁ body₂ h₁ h₂ hsame.symm d₁ hp₁
    rw [hp₂]; simp [e]
  | none =>
    cases hp₂ : parseText fl s₂ with
    | none => rfl
    | some d₂ =>
      obtain ⟨d₁, hp₁', _⟩ := one_way fl s₂ s₁ body₂ body₁ h₂ h₁ hsame d₂ hp₂
      rw [hp₁] at hp₁'; cases hp₁'

private theorem one_way_value (fl : Flags) (s₁ s₂ : Text) (body₁ body₂ : List Tok) (h₁ : Tiles s₁.length s₁ body₁)
    (h₂ : Tiles s₂.length s₂ body₂) (hsame : body₂.map kv = body₁.map kv) (v₁ : Value)
    (hp : parseValueText fl s₁ = some v₁) : ∃ v₂, parseValueText fl s₂ = some v₂ ∧ v₂.erase = v₁.erase := by
  have hl₁ := lex_render s₁ body₁ h₁
  have hl₂ := lex_render s₂ body₂ h₂
  unfold parseValueText at hp ⊢
  rw [hl₁] at hp
  rw [hl₂]
  simp only at hp ⊢
  have hd : parseValue fl (Lex.sofTok :: body₁) = .ok v₁ := by
    cases hh : parseValue fl (Lex.sofTok :: body₁) with
    | ok d => rw [hh] at hp; simp [Except.toOption] at hp; rw [hp]
    | error e => rw [hh] at hp; simp [Except.toOption] at hp
  have he : parseValue { fl with noLocation := true } (Lex.sofTok :: body₁) = .ok v₁.erase := by
    rw [PyGql.Props.C02.noloc_erasure_value, hd]; rfl
  obtain ⟨w, m⟩ := parseValue_sound _ _ _ he
  have m2 := matches_kv { fl with noLocation := true } rfl _ _ (Lex.sofTok :: body₂) (by simp [hsame]) m
  have hc := parseValue_complete { fl with noLocation := true } (Lex.sofTok :: body₂) v₁.erase w m2
  rw [PyGql.Props.C02.noloc_erasure_value] at hc
  cases hq : parseValue fl (Lex.sofTok :: body₂) with
  | error e => rw [hq] at hc; cases hc
  | ok v₂ =>
    rw [hq] at hc
    exact ⟨v₂, rfl, by simpa [Except.map] using hc⟩

/-- the same for `parse_value` -/
theorem parse_value_text_ignored_invariant (fl : Flags) (s₁ s₂ : Text) (body₁ body₂ : List Tok)
    (h₁ : Tiles s₁.length s₁ body₁) (h₂ : Tiles s₂.length s₂ body₂) (hsame : body₁.map kv = body₂.map kv) :
    (parseValueText fl s₁).map Value.erase = (parseValueText fl s₂).map Value.erase := by
  cases hp₁ : parseValueText fl s₁ with
  | some v₁ =>
    obtain ⟨v₂, hp₂, e⟩ := one_way_value fl s₁ s₂ body₁ body₂ h₁ h₂ hsame.symm v₁ hp₁
    rw [hp₂]; simp [e]
  | none =>
    cases hp₂ : parseValueText fl s₂ with
    | none => rfl
    | some v₂ =>
      obtain ⟨v₁, hp₁', _⟩ := one_way_value fl s₂ s₁ body₂ body₁ h₂ h₁ hsame v₂ hp₂
      rw [hp₁] at hp₁'; cases hp₁'

private theorem one_way_type (fl : Flags) (s₁ s₂ : Text) (body₁ body₂ : List Tok) (h₁ : Tiles s₁.length s₁ body₁)
    (h₂ : Tiles s₂.length s₂ body₂) (hsame : body₂.map kv = body₁.map kv) (t₁ : TypeRef)
    (hp : parseTypeText fl s₁ = some t₁) : ∃ t₂, parseTypeText fl s₂ = some t₂ ∧ t₂.erase = t₁.erase := by
  have hl₁ := lex_render s₁ body₁ h₁
  have hl₂ := lex_render s₂ body₂ h₂
  unfold parseTypeText at hp ⊢
  rw [hl₁] at hp
  rw [hl₂]
  simp only at hp ⊢
  have hd : parseType fl (Lex.sofTok :: body₁) = .ok t₁ := by
    cases hh : parseType fl (Lex.sofTok :: body₁) with
    | ok d => rw [hh] at hp; simp [Except.toOption] at hp; rw [hp]
    | error e => rw [hh] at hp; simp [Except.toOption] at hp
  have he : parseType { fl with noLocation := true } (Lex.sofTok :: body₁) = .ok t₁.erase := by
    rw [PyGql.Props.C02.noloc_erasure_type, hd]; rfl
  obtain ⟨w, m⟩ := parseType_sound _ _ _ he
  have m2 := matches_kv { fl with noLocation := true } rfl _ _ (Lex.sofTok :: body₂) (by simp [hsame]) m
  have hc := parseType_complete { fl with noLocation := true } (Lex.sofTok :: body₂) t₁.erase w m2
  rw [PyGql.Props.C02.noloc_erasure_type] at hc
  cases hq : parseType fl (Lex.sofTok :: body₂) with
  | error e => rw [hq] at hc; cases hc
  | ok t₂ =>
    rw [hq] at hc
    exact ⟨t₂, rfl, by simpa [Except.map] using hc⟩

/-- the same for `parse_type` -/
theorem parse_type_text_ignored_invariant (fl : Flags) (s₁ s₂ : Text) (body₁ body₂ : List Tok)
    (h₁ : Tiles s₁.length s₁ body₁) (h₂ : Tiles s₂.length s₂ body₂) (hsame : body₁.map kv = body₂.map kv) :
    (parseTypeText fl s₁).map TypeRef.erase = (parseTypeText fl s₂).map TypeRef.erase := by
  cases hp₁ : parseTypeText fl s₁ with
  | some t₁ =>
    obtain ⟨t₂, hp₂, e⟩ := one_way_type fl s₁ s₂ body₁ body₂ h₁ h₂ hsame.symm t₁ hp₁
    rw [hp₂]; simp [e]
  | none =>
    cases hp₂ : parseTypeText fl s₂ with
    | none => rfl
    | some t₂ =>
      obtain ⟨t₁, hp₁', _⟩ := one_way_type fl s₂ s₁ body₂ body₁ h₂ h₁ hsame t₂ hp₂
      rw [hp₁] at hp₁'; cases hp₁'

/-! ### non-vacuity: `{a,b}` and ` { a # c⏎ b } ` (BOM, comment, commas) -/
example : (parseText {} [123, 97, 44, 98, 125]).map Document.erase =
    (parseText {} [0xFEFF, 32, 123, 32, 97, 32, 35, 32, 99, 13, 10, 32, 98, 44, 44, 32, 125, 32]).map Document.erase := by rfl
/-- and the hypothesis: the two token lists have the same kinds and values -/
example : ((Lex.lexAll [123, 97, 44, 98, 125]).toOption.map (·.map kv)) =
    ((Lex.lexAll [0xFEFF, 32, 123, 32, 97, 32, 35, 32, 99, 13, 10, 32, 98, 44, 44, 32, 125, 32]).toOption.map (·.map kv)) := by decide

end PyGql.Props.C01

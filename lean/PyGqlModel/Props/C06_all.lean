/-
  C06 - property theorems, part 6: all rules proved so far together (`ProvedAll` = `Proved` of C06_inv.lean, the
  node-by-node and name rules, + the four type-dependent rules of C06_typed.lean): uniform equivalence,
  verdict, attribution and invariance under reordering of definitions - each about the rules run ALONE (the chain:
  `Props/C06_chain.lean`). (Invariance under `Tr` - selections, arguments, fragment names -: `Props/C06_inv*.lean`, all 26
  rules in `Props/C06_inv11.lean`.)
-/
import PyGqlModel.Props.C06_inv
import PyGqlModel.Props.C06_typed
import PyGqlModel.Props.C06_skip
import PyGqlModel.Props.C06_input
import PyGqlModel.Props.C06_ctx
import PyGqlModel.Props.C06_spreads
import PyGqlModel.Props.C06_vars
import PyGqlModel.Props.C06_frags
import PyGqlModel.Props.C06_cycles3
import PyGqlModel.Props.C06_values
import PyGqlModel.Props.C06_overlap
import PyGqlModel.Props.C06_overlap_full
namespace PyGql.Props.C06
open PyGql PyGql.Validate PyGql.Validate.Spec

def ProvedTyped : List Rule :=
  [.fieldsOnCorrectType, .scalarLeafs, .knownArgumentNames, .providedRequiredArguments, .fragmentsOnCompositeTypes,
   .uniqueInputFieldNames, .knownDirectives, .noUnusedFragments]
/-- rules whose specification predicate depends on the ORDER of definitions when fragment names are not unique
    (the last definition of a name wins) -/
def ProvedOrder : List Rule := [.possibleFragmentSpreads]
/-- the variable rules (val2, Props/C06_vars.lean): proved for the code with the fix commits of V3 / V4 -/
def ProvedVars : List Rule :=
  [.uniqueVariableNames, .noUndefinedVariables, .noUnusedVariables, .variablesInAllowedPosition]
def ProvedPermDefs : List Rule := Proved ++ ProvedTyped
/-- proved for documents with unique, non-empty fragment names -/
def ProvedCyc : List Rule := [.noFragmentCycles]
/-- val2, Props/C06_values.lean (the clause the code implements; V8 is the gap to 5.6.1) -/
def ProvedValues : List Rule := [.valuesOfCorrectType]
/-- val2, Props/C06_overlap_full.lean: under `OverlapHyps` -/
def ProvedOverlap : List Rule := [.overlappingFieldsCanBeMerged]
def ProvedAll : List Rule := ProvedPermDefs ++ ProvedOrder ++ ProvedVars ++ ProvedCyc ++ ProvedValues ++ ProvedOverlap

/-- side conditions of the soundness half of 5.3.2 (val2): the routes to the parent type of a selection set agree, no
    fragment is named "", the `field_map is fragment_field_map` shortcut is never taken, and the search does not raise
    (the model's fuel = Python's `RecursionError`). They can fail only for documents with fragment CYCLES (reported by
    `NoFragmentCyclesChecker`) or duplicate / unknown fragment definitions; they are not derived here from the other
    clauses, hence the `_partial` suffix of the theorems that take them. (They ARE derived, for documents passing the
    driver's static checks, in `Props/C06_overlap_hyps{,2,3}.lean` (val2); the suffix-free statements are in
    `Props/C06_head.lean`: `verdict_iff_all`, `accepted_spec_valid_all`, `attribution_all`.) -/
def OverlapHyps (s : SchemaD) (fx : Fixes) (d : Doc) : Prop := Spec.ParentsAgree s d ∧ OverlapSide s d ∧ NoCrash s fx d

/-- the variants of the validator the uniform theorems speak about: the variable collector of /repo HEAD
    (fix commit 160f78c). `Fixes.all` satisfies it; the harness checks on every run that the tree under test does -/
def HeadVars (fx : Fixes) : Prop := fx.v3 = true ∧ fx.v4 = true ∧ fx.v11 = true ∧ fx.v7 = true

theorem headVars_all : HeadVars Fixes.all := ⟨rfl, rfl, rfl, rfl⟩

/-- what the parser guarantees and no rule checks: fragment names are not empty -/
def NamesNonEmpty (d : Doc) : Prop := ∀ f ∈ Spec.fragNames d, f ≠ ""

def SpecAll (r : Rule) (s : SchemaD) (fx : Fixes) (d : Doc) : Prop :=
  match r with
  | .fieldsOnCorrectType => Spec.fieldsOnCorrectType s d
  | .scalarLeafs => Spec.scalarLeafs s d
  | .knownArgumentNames => Spec.knownArgumentNames s d
  | .providedRequiredArguments => Spec.providedRequiredArguments s d
  | .fragmentsOnCompositeTypes => Spec.fragmentsOnCompositeTypes s d
  | .uniqueInputFieldNames => Spec.uniqueInputFieldNames d
  | .knownDirectives => Spec.knownDirectives s d
  | .noUnusedFragments => Spec.everyFragmentSpreadSomewhere d
  | .possibleFragmentSpreads => Spec.possibleFragmentSpreads s fx d
  | .uniqueVariableNames => Spec.uniqueVariableNames d
  | .noUndefinedVariables => Spec.noUndefinedVariables d
  | .noUnusedVariables => Spec.noUnusedVariables d
  | .variablesInAllowedPosition => Spec.variablesInAllowedPosition s d
  | .noFragmentCycles => Spec.noFragmentCycles d
  | .valuesOfCorrectType => Spec.valuesOfCorrectType s fx d
  | .overlappingFieldsCanBeMerged => Spec.overlappingFieldsCanBeMerged s d
  | r => SpecOf r s d

/-- the 25 rules other than `OverlappingFieldsCanBeMerged`: no side condition of the merge search -/
theorem rule_iff_nonoverlap (s : SchemaD) (fx : Fixes) (hfx : HeadVars fx) (d : Doc) (hne : NamesNonEmpty d)
    (hnd : (Spec.fragNames d).Nodup) (r : Rule) (hr : r ∈ ProvedAll) (ho : r ≠ .overlappingFieldsCanBeMerged) :
    Silent s fx r d ↔ SpecAll r s fx d := by
  simp only [ProvedAll, ProvedPermDefs, List.mem_append] at hr
  rcases hr with (((((hr | hr) | hr) | hr) | hr) | hr) | hr
  · have := rule_iff s fx d r hr
    simp only [Proved, List.mem_cons, List.not_mem_nil, or_false] at hr
    rcases hr with rfl | rfl | rfl | rfl | rfl | rfl | rfl | rfl | rfl | rfl <;> exact this
  · simp only [ProvedTyped, List.mem_cons, List.not_mem_nil, or_false] at hr
    rcases hr with rfl | rfl | rfl | rfl | rfl | rfl | rfl | rfl
    · exact rule_fields_on_correct_type_iff s fx d
    · exact rule_scalar_leafs_iff s fx d
    · exact rule_known_argument_names_iff s fx d
    · exact rule_provided_required_arguments_iff s fx d
    · exact rule_fragments_on_composite_types_iff s fx d
    · exact rule_unique_input_field_names_iff s fx d
    · exact rule_known_directives_iff s fx d
    · exact rule_no_unused_fragments_iff_implemented s fx d
  · simp only [ProvedOrder, List.mem_cons, List.not_mem_nil, or_false] at hr
    subst hr
    exact rule_possible_fragment_spreads_iff s fx d
  · simp only [ProvedVars, List.mem_cons, List.not_mem_nil, or_false] at hr
    rcases hr with rfl | rfl | rfl | rfl
    · exact rule_unique_variable_names_iff s fx d
    · exact rule_no_undefined_variables_iff s fx hfx.2.1 d
    · exact rule_no_unused_variables_iff s fx hfx.2.1 d
    · exact rule_variables_in_allowed_position_iff s fx hfx.1 hfx.2.1 d
  · simp only [ProvedCyc, List.mem_cons, List.not_mem_nil, or_false] at hr
    subst hr
    exact rule_no_fragment_cycles_iff s fx hfx.2.2.1 d hnd hne
  · simp only [ProvedValues, List.mem_cons, List.not_mem_nil, or_false] at hr
    subst hr
    exact rule_values_of_correct_type_iff s fx d
  · simp only [ProvedOverlap, List.mem_cons, List.not_mem_nil, or_false] at hr
    exact absurd hr ho

theorem rule_iff_all (s : SchemaD) (fx : Fixes) (hfx : HeadVars fx) (d : Doc) (hne : NamesNonEmpty d)
    (hov : OverlapHyps s fx d) (hnd : (Spec.fragNames d).Nodup) (r : Rule) (hr : r ∈ ProvedAll) :
    Silent s fx r d ↔ SpecAll r s fx d := by
  by_cases ho : r = .overlappingFieldsCanBeMerged
  · subst ho
    exact rule_overlapping_fields_can_be_merged_iff_partial s fx hfx.2.2.2 d hov.1 hov.2.1 hov.2.2
  · exact rule_iff_nonoverlap s fx hfx d hne hnd r hr ho

/-- the rules of `ProvedPermDefs` need no hypothesis on `fx` -/
theorem rule_iff_permdefs (s : SchemaD) (fx : Fixes) (d : Doc) (r : Rule) (hr : r ∈ ProvedPermDefs) :
    Silent s fx r d ↔ SpecAll r s fx d := by
  simp only [ProvedPermDefs, List.mem_append] at hr
  rcases hr with hr | hr
  · have := rule_iff s fx d r hr
    simp only [Proved, List.mem_cons, List.not_mem_nil, or_false] at hr
    rcases hr with rfl | rfl | rfl | rfl | rfl | rfl | rfl | rfl | rfl | rfl <;> exact this
  · simp only [ProvedTyped, List.mem_cons, List.not_mem_nil, or_false] at hr
    rcases hr with rfl | rfl | rfl | rfl | rfl | rfl | rfl | rfl
    · exact rule_fields_on_correct_type_iff s fx d
    · exact rule_scalar_leafs_iff s fx d
    · exact rule_known_argument_names_iff s fx d
    · exact rule_provided_required_arguments_iff s fx d
    · exact rule_fragments_on_composite_types_iff s fx d
    · exact rule_unique_input_field_names_iff s fx d
    · exact rule_known_directives_iff s fx d
    · exact rule_no_unused_fragments_iff_implemented s fx d

/-- **verdict_iff** for the conjunction of the 26 rules, GENERAL FORM (`_partial`: the side conditions of the overlap rule
    `OverlapHyps` are a hypothesis; discharged in `verdict_iff_all` / `verdict_iff_all_memo`) [ALONE-RUN statement: every rule visitor is run in a chain of its own, `Silent` / `SilentM` count RECORDED ERRORS only (a run that raised is not excluded); the statement about the chain `validate_ast` runs, exception flag included, is in `Props/C06_chain.lean`: `chainM_silent_iff_spec`, `verdictM_iff_spec`.] -/
theorem verdict_iff_all_partial (s : SchemaD) (fx : Fixes) (hfx : HeadVars fx) (d : Doc) (hne : NamesNonEmpty d)
    (hov : OverlapHyps s fx d) :
    (∀ r ∈ ProvedAll, Silent s fx r d) ↔ (∀ r ∈ ProvedAll, SpecAll r s fx d) := by
  have huf : Rule.uniqueFragmentNames ∈ ProvedAll := by decide
  constructor
  · intro h
    have hnd : (Spec.fragNames d).Nodup := (rule_unique_fragment_names_iff s fx d).mp (h _ huf)
    exact fun r hr => (rule_iff_all s fx hfx d hne hov hnd r hr).mp (h r hr)
  · intro h
    have hnd : (Spec.fragNames d).Nodup := h _ huf
    exact fun r hr => (rule_iff_all s fx hfx d hne hov hnd r hr).mpr (h r hr)

/-- every rule of the chain is in `ProvedAll` -/
theorem provedAll_complete : ∀ r ∈ Rule.all, r ∈ ProvedAll := by decide
theorem provedAll_sub : ∀ r ∈ ProvedAll, r ∈ Rule.all := by decide

/-- **valid by the specification clauses ⇒ accepted, for ALL 26 rules, without side conditions** [ALONE-RUN statement: every rule visitor is run in a chain of its own, `Silent` / `SilentM` count RECORDED ERRORS only (a run that raised is not excluded); the statement about the chain `validate_ast` runs, exception flag included, is in `Props/C06_chain.lean`: `spec_valid_chainM_accepts`; here the overlap rule is the UN-memoised search, which may have exhausted its fuel (`NoCrash` is not concluded).]: if the clause of
    every rule holds, NO rule visitor reports (only `HeadVars` = the code of /repo HEAD, and non-empty fragment names) -/
theorem spec_valid_accepted_all (s : SchemaD) (fx : Fixes) (hfx : HeadVars fx) (d : Doc) (hne : NamesNonEmpty d)
    (h : ∀ r ∈ Rule.all, SpecAll r s fx d) : ∀ r ∈ Rule.all, Silent s fx r d := by
  have hnd : (Spec.fragNames d).Nodup := h .uniqueFragmentNames (by decide)
  intro r hr
  by_cases ho : r = .overlappingFieldsCanBeMerged
  · subst ho
    exact rule_overlapping_fields_can_be_merged_no_false_alarm_partial s fx hfx.2.2.2 d (h _ hr)
  · -- the other 25 rules need no overlap side condition
    exact (rule_iff_nonoverlap s fx hfx d hne hnd r (provedAll_complete r hr) ho).mpr (h r hr)

/-- **accepted ⇒ valid by all 26 clauses**, under the side conditions of the overlap rule (`_partial`: `OverlapHyps` is a
    hypothesis) [ALONE-RUN statement: every rule visitor is run in a chain of its own, `Silent` / `SilentM` count RECORDED ERRORS only (a run that raised is not excluded); the statement about the chain `validate_ast` runs, exception flag included, is in `Props/C06_chain.lean`: `chainM_accepted_spec_valid`.] -/
theorem accepted_spec_valid_all_partial (s : SchemaD) (fx : Fixes) (hfx : HeadVars fx) (d : Doc) (hne : NamesNonEmpty d)
    (hov : OverlapHyps s fx d) (h : ∀ r ∈ Rule.all, Silent s fx r d) : ∀ r ∈ Rule.all, SpecAll r s fx d := fun r hr =>
  (verdict_iff_all_partial s fx hfx d hne hov).mp (fun r' hr' => h r' (provedAll_sub r' hr')) r (provedAll_complete r hr)

/-- **attribution** over the 26 rules (on the rules run ALONE; see `attribution_partial`; `_partial`: `OverlapHyps` is a
    hypothesis; nothing is claimed about which errors the CHAIN records - there a skipping member hides nodes from the
    others) -/
theorem attribution_all_partial (s : SchemaD) (fx : Fixes) (hfx : HeadVars fx) (d : Doc) (hne : NamesNonEmpty d)
    (hov : OverlapHyps s fx d) (hnd : (Spec.fragNames d).Nodup) (r : Rule) (hr : r ∈ ProvedAll)
    (hbad : ¬ SpecAll r s fx d) (hothers : ∀ r' ∈ ProvedAll, r' ≠ r → SpecAll r' s fx d) :
    0 < E (alone s fx r d) ∧ ∀ r' ∈ ProvedAll, r' ≠ r → E (alone s fx r' d) = 0 := by
  refine ⟨Nat.pos_of_ne_zero fun h0 => hbad ((rule_iff_all s fx hfx d hne hov hnd r hr).mp h0), fun r' hr' hdiff => ?_⟩
  exact (rule_iff_all s fx hfx d hne hov hnd r' hr').mpr (hothers r' hr' hdiff)

theorem typedNodes_perm (s : SchemaD) {d d' : Doc} (h : d.defs.Perm d'.defs) (p : Node × View) :
    p ∈ typedNodes s d ↔ p ∈ typedNodes s d' := (h.flatMap_right _).mem_iff

/-- **perm_definitions** for 17 of the 26 rules (not `SingleFieldSubscriptions`, whose clause reads the fragment table; `PossibleFragmentSpreads` reads the type condition of the LAST
    definition of a fragment name, so with duplicate fragment names its predicate depends on the order). The other
    rules, under the uniqueness hypotheses they need: Props/C06_inv4.lean, C06_inv5.lean, C06_inv9.lean
    (`perm_definitions_all25_partial`: 25 of 26). [ALONE-RUN statement, rule by rule: each rule visitor in a chain of its own; for the verdict of the chain `validate_ast` runs see `Props/C06_chain.lean: chainM_six_transformations`.] -/
theorem perm_definitions_all_partial (s : SchemaD) (fx : Fixes) {d d' : Doc} (h : d.defs.Perm d'.defs) (r : Rule)
    (hr : r ∈ ProvedPermDefs) (hns : r ≠ .singleFieldSubscriptions) : Silent s fx r d ↔ Silent s fx r d' := by
  rw [rule_iff_permdefs s fx d r hr, rule_iff_permdefs s fx d' r hr]
  simp only [ProvedPermDefs, List.mem_append] at hr
  rcases hr with hr | hr
  · have := spec_perm_definitions s h r hr hns
    simp only [Proved, List.mem_cons, List.not_mem_nil, or_false] at hr
    rcases hr with rfl | rfl | rfl | rfl | rfl | rfl | rfl | rfl | rfl | rfl <;> exact this
  · have hm := typedNodes_perm s h
    simp only [ProvedTyped, List.mem_cons, List.not_mem_nil, or_false] at hr
    have hnodes : ∀ (P : Node → Prop), (∀ d, P (.document d)) → ((∀ n ∈ nodes d, P n) ↔ (∀ n ∈ nodes d', P n)) := by
      intro P hP
      simp only [nodes, List.mem_cons, List.mem_flatMap, forall_eq_or_imp]
      constructor
      · rintro ⟨_, H⟩; exact ⟨hP _, fun n ⟨x, hx, hm⟩ => H n ⟨x, h.mem_iff.mpr hx, hm⟩⟩
      · rintro ⟨_, H⟩; exact ⟨hP _, fun n ⟨x, hx, hm⟩ => H n ⟨x, h.mem_iff.mp hx, hm⟩⟩
    have hg : ∀ {X : Type} (down : Node → X → X) (x0 : X) (p : Node × X), p ∈ gnDoc down x0 d ↔ p ∈ gnDoc down x0 d' :=
      fun down x0 p => (h.flatMap_right _).mem_iff
    rcases hr with rfl | rfl | rfl | rfl | rfl | rfl | rfl | rfl
    · simp only [SpecAll, Spec.fieldsOnCorrectType, hm]
    · simp only [SpecAll, Spec.scalarLeafs, hm]
    · simp only [SpecAll, Spec.knownArgumentNames, hm]
    · simp only [SpecAll, Spec.providedRequiredArguments, hm]
    · simp only [SpecAll, Spec.fragmentsOnCompositeTypes]
      exact and_congr (hnodes _ (fun _ => by simp)) (hnodes _ (fun _ => by simp))
    · exact hnodes _ (fun _ => by simp)
    · simp only [SpecAll, Spec.knownDirectives, hg]
    · simp only [SpecAll, Spec.everyFragmentSpreadSomewhere]
      have hmem : ∀ n, n ∈ nodes d ↔ (n = .document d ∨ n ∈ d.defs.flatMap defNodes) := fun n => by simp [nodes]
      have hmem' : ∀ n, n ∈ nodes d' ↔ (n = .document d' ∨ n ∈ d'.defs.flatMap defNodes) := fun n => by simp [nodes]
      have hfl : ∀ n, n ∈ d.defs.flatMap defNodes ↔ n ∈ d'.defs.flatMap defNodes := fun n => (h.flatMap_right _).mem_iff
      constructor
      · intro H n hn name on dirs e
        subst e
        rcases (hmem' _).mp hn with h0 | h0
        · cases h0
        · obtain ⟨m, hm', ds, rfl⟩ := H _ ((hmem _).mpr (Or.inr ((hfl _).mpr h0))) name on dirs rfl
          rcases (hmem _).mp hm' with h1 | h1
          · cases h1
          · exact ⟨_, (hmem' _).mpr (Or.inr ((hfl _).mp h1)), ds, rfl⟩
      · intro H n hn name on dirs e
        subst e
        rcases (hmem _).mp hn with h0 | h0
        · cases h0
        · obtain ⟨m, hm', ds, rfl⟩ := H _ ((hmem' _).mpr (Or.inr ((hfl _).mp h0))) name on dirs rfl
          rcases (hmem' _).mp hm' with h1 | h1
          · cases h1
          · exact ⟨_, (hmem _).mpr (Or.inr ((hfl _).mpr h1)), ds, rfl⟩

/-- every rule of the chain is either proved or listed in `Spec.Unproved` -/
theorem proved_all_or_listed : ∀ r ∈ Rule.all, r ∈ ProvedAll ∨ r.name ∈ Spec.Unproved := by decide

theorem unproved_empty : Spec.Unproved = [] := rfl

end PyGql.Props.C06

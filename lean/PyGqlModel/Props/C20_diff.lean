/-
  C20 — property theorems about the model of `diff_schema` (PyGqlModel/Diff.lean).
  The model is tied to the code by the correspondence (harness/corr/C20.py: real diff_schema vs
  drv_C20 on generated schema pairs); the safe-change predicates and severities it uses are the
  ones re-translated / re-extracted from the source on every run.
-/
import PyGqlModel.Diff
import PyGqlModel.Props.C20

set_option linter.unusedSimpArgs false
set_option linter.unusedVariables false

namespace PyGql.Props.C20
open PyGql PyGql.Differ PyGql.Diff PyGql.Generated.Differ

/-- every element is the first one carrying its name (= names are unique in the list) -/
def Uniq {α} (name : α → String) (l : List α) : Prop :=
  ∀ x ∈ l, l.find? (fun y => name y == name x) = some x

private theorem mk_severity (c : String) (k) (r : Bool) : (mk c k r).severity = sev c r := rfl

/-! ### every elementary removal / retyping is reported, by a BREAKING change naming the element -/

/-- Removing a type is reported as `TypeRemoved` naming it, at every severity filter. -/
theorem removed_type_reported (o n : SchemaD) (t : TypeD) (m : Nat) (hm : m ≤ 2)
    (ht : t ∈ o.types) (hn : n.findType t.name = none) :
    mk "TypeRemoved" [("type_name", t.name)] ∈ diffSchema o n m := by
  unfold diffSchema
  apply List.mem_filter.mpr
  constructor
  · simp only [List.mem_append]
    iterate 8 left
    right
    unfold findRemovedTypes
    apply List.mem_map.mpr
    exact ⟨t, List.mem_filter.mpr ⟨ht, by simp [hn]⟩, rfl⟩
  · have : sev "TypeRemoved" false = 2 := by decide
    simp [mk_severity, this]; exact hm

/-- Adding a type is reported as `TypeAdded` naming it (when compatible changes are not filtered out). -/
theorem added_type_reported (o n : SchemaD) (t : TypeD)
    (ht : t ∈ n.types) (ho : o.findType t.name = none) :
    mk "TypeAdded" [("type_name", t.name)] ∈ diffSchema o n 0 := by
  unfold diffSchema
  apply List.mem_filter.mpr
  refine ⟨?_, by simp⟩
  simp only [List.mem_append]
  iterate 7 left
  right
  unfold findAddedTypes
  apply List.mem_map.mpr
  exact ⟨t, List.mem_filter.mpr ⟨ht, by simp [ho]⟩, rfl⟩

private theorem mem_diffSchema_of_object (o n : SchemaD) (c : Change) (m : Nat)
    (hc : c ∈ diffObjectTypes o n) (hs : c.severity ≥ m) : c ∈ diffSchema o n m := by
  unfold diffSchema
  apply List.mem_filter.mpr
  refine ⟨?_, by simpa using hs⟩
  simp only [List.mem_append]
  iterate 2 left
  right
  exact hc

/-- Removing a field of an object type present in both schemas is reported as BREAKING `FieldRemoved`. -/
theorem removed_field_reported (o n : SchemaD) (ot nt : TypeD) (f : FieldD) (m : Nat) (hm : m ≤ 2)
    (hp : (ot, nt) ∈ matchingPairs o n .object) (hf : f ∈ ot.fields)
    (hn : nt.fields.find? (·.name == f.name) = none) :
    mk "FieldRemoved" [("field", f.name), ("type", ot.name)] ∈ diffSchema o n m := by
  apply mem_diffSchema_of_object
  · unfold diffObjectTypes
    apply List.mem_flatMap.mpr
    refine ⟨(ot, nt), hp, ?_⟩
    simp only [List.mem_append]
    left; left
    unfold diffFields
    simp only [List.mem_append]
    left
    apply List.mem_flatMap.mpr
    exact ⟨f, hf, by simp [hn]⟩
  · have : sev "FieldRemoved" false = 2 := by decide
    rw [mk_severity, this]; omega

/-- A field whose type change is not classified safe is reported as BREAKING `FieldChangedType`. -/
theorem retyped_field_reported (o n : SchemaD) (ot nt : TypeD) (f g : FieldD) (m : Nat) (hm : m ≤ 2)
    (hp : (ot, nt) ∈ matchingPairs o n .object) (hf : f ∈ ot.fields)
    (hg : nt.fields.find? (·.name == f.name) = some g)
    (hu : safeOut f.type g.type = false) :
    mk "FieldChangedType" [("new_field", g.name), ("old_field", f.name), ("type", ot.name)] ∈ diffSchema o n m := by
  apply mem_diffSchema_of_object
  · unfold diffObjectTypes
    apply List.mem_flatMap.mpr
    refine ⟨(ot, nt), hp, ?_⟩
    simp only [List.mem_append]
    left; left
    unfold diffFields
    simp only [List.mem_append]
    left
    apply List.mem_flatMap.mpr
    refine ⟨f, hf, ?_⟩
    simp only [hg, diffField, List.mem_append]
    left; left
    simp [hu]
  · have : sev "FieldChangedType" false = 2 := by decide
    rw [mk_severity, this]; omega

/-! ### whenever nothing BREAKING is reported, positions are safe -/

/-- **No breaking change ⇒ argument positions at least as permissive** (semantic, all type
    expressions): if `diff_schema(old, new, min_severity=BREAKING)` is empty then for every object
    type present in both, every field present in both and every argument present in both, each value
    the old argument type accepts is accepted by the new one. -/
theorem nobreaking_args_permissive (o n : SchemaD) (h : diffSchema o n 2 = [])
    (ot nt : TypeD) (hp : (ot, nt) ∈ matchingPairs o n .object)
    (f g : FieldD) (hf : f ∈ ot.fields) (hg : nt.fields.find? (·.name == f.name) = some g)
    (a b : ArgD) (ha : a ∈ f.args) (hb : g.args.find? (·.name == a.name) = some b) :
    InCompat a.type b.type := by
  apply safeIn_sound
  cases hs : safeIn a.type b.type with
  | true => rfl
  | false =>
    exfalso
    have hc : mk "FieldArgumentChangedType"
        [("field", f.name), ("new_argument", b.name), ("old_argument", a.name), ("type", ot.name)]
        ∈ diffSchema o n 2 := by
      apply mem_diffSchema_of_object
      · unfold diffObjectTypes
        apply List.mem_flatMap.mpr
        refine ⟨(ot, nt), hp, ?_⟩
        simp only [List.mem_append]
        left; left
        unfold diffFields
        simp only [List.mem_append]
        left
        apply List.mem_flatMap.mpr
        refine ⟨f, hf, ?_⟩
        simp only [hg, diffField, List.mem_append]
        left; right
        unfold diffFieldArguments
        simp only [List.mem_append]
        left; left
        apply List.mem_filterMap.mpr
        exact ⟨a, ha, by simp [hb, hs]⟩
      · have : sev "FieldArgumentChangedType" false = 2 := by decide
        rw [mk_severity, this]; omega
    rw [h] at hc
    exact absurd hc (List.not_mem_nil)

/-- **No breaking change ⇒ output positions at least as strict** — PARTIAL: proved for list-free
    field types (the full statement fails today at list items: finding G1, `safeOut_full_fails_today`). -/
theorem nobreaking_fields_strict_partial (o n : SchemaD) (h : diffSchema o n 2 = [])
    (ot nt : TypeD) (hp : (ot, nt) ∈ matchingPairs o n .object)
    (f g : FieldD) (hf : f ∈ ot.fields) (hg : nt.fields.find? (·.name == f.name) = some g)
    (wf : f.type.wf = true) (wg : g.type.wf = true)
    (lf : listFree f.type = true) (lg : listFree g.type = true) :
    OutCompat f.type g.type := by
  apply (safeOut_iff_partial f.type g.type wf wg lf lg).mp
  cases hs : safeOut f.type g.type with
  | true => rfl
  | false =>
    exfalso
    have := retyped_field_reported o n ot nt f g 2 (Nat.le_refl _) hp hf hg hs
    rw [h] at this
    exact absurd this (List.not_mem_nil)

/-- The severity filter is a filter: the BREAKING report is the BREAKING part of the full report. -/
theorem min_severity_filters (o n : SchemaD) (m : Nat) :
    diffSchema o n m = (diffSchema o n 0).filter (fun c => c.severity ≥ m) := by
  unfold diffSchema
  simp [List.filter_filter]

/-! ### non-vacuity: a concrete pair on which the hypotheses hold and the conclusion is not trivial -/

private def sOld : SchemaD :=
  { types := [{ kind := .object, name := "Query",
                fields := [{ name := "a", type := .named "Int",
                             args := [{ name := "x", type := .nonNull (.named "Int") }] },
                           { name := "gone", type := .named "Int" }] }] }
private def sNew : SchemaD :=
  { types := [{ kind := .object, name := "Query",
                fields := [{ name := "a", type := .nonNull (.named "Int"),
                             args := [{ name := "x", type := .named "Int" }] }] }] }

example : (diffSchema sOld sNew 2).map (·.cls) = ["FieldRemoved"] := by decide
example : diffSchema sNew sNew 0 = [] := by decide
example : (diffSchema sNew sOld 0).map (·.cls) = ["FieldChangedType", "FieldArgumentChangedType", "FieldAdded"] := by decide
/-- the compatible retypings (`Int` -> `Int!` on the field, `Int!` -> `Int` on the argument) are reported, as COMPATIBLE -/
example : (diffSchema sOld sNew 0).map (fun c => (c.cls, c.severity))
    = [("FieldChangedType", 0), ("FieldArgumentChangedType", 0), ("FieldRemoved", 2)] := by decide

end PyGql.Props.C20

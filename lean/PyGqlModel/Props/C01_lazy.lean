/-
  C01 — the LAZY token window of `Parser` (`ParseLazy.lean`): the real parser pulls tokens on demand, so for a text with a
  lexical error it may fail on an earlier token and report THAT grammatical error instead of the lexical one.

  `lexPrefix_of_ok` / `lexPrefix_of_error`   the prefix lexer is `lexAll` keeping the tokens before the error
  `lazy_eq_eager_of_lexable`   on a text the lexer accepts, lazy and eager pipelines coincide — result AND error
  `lazy_ok_iff`                acceptance and the tree returned never depend on the window (any entry point): every
                               acceptance theorem (`parse_text_accepts_iff`, `parse_text_result`, …) holds for the lazy parser
  `parse_text_lazy_error_in_range`   every error the lazy pipeline reports is within the text, except the lexer's L6 on an
                               `OpenEscape` text — and there only if the parser gets as far as the open string
  `lazy_prefix_never_ok`       the parser never succeeds on the tokens before a lexical error (a success consumes `<EOF>`)
  `ParseFuelSufficientStatement`   (NOT proved, kept visible) the parser model never reports its own fuel exhaustion;
                               `parse_fuel_sufficient_partial` is the proved part
  `lazy_differs`               the two pipelines do differ on rejected texts: `} "\` (eager: NonTerminatedString at 5, one
                               past the end; lazy: the `}` at 0)
-/
import PyGqlModel.ParseLazy
import PyGqlModel.Props.C01_errors_iff
import PyGqlModel.Props.C01_parse
namespace PyGql.Props.C01
open PyGql PyGql.Parse PyGql.Ast PyGql.Lex
open PyGql.Spec.Lexical (OpenEscape)

private theorem lexLoop_eq (n : Nat) : ∀ (fuel : Nat) (s : Text),
    lexLoop n fuel s = (match lexLoopP n fuel s with | (ts, none) => .ok ts | (_, some e) => .error e)
  | 0, s => rfl
  | fuel + 1, s => by
    cases hn : next n s with
    | error e => simp [lexLoop, lexLoopP, hn]
    | ok p =>
      obtain ⟨tok, o⟩ := p
      cases o with
      | none => simp [lexLoop, lexLoopP, hn]
      | some rest =>
        simp only [lexLoop, lexLoopP, hn]
        rw [lexLoop_eq n fuel rest]
        cases h : lexLoopP n fuel rest with
        | mk ts o => cases o <;> simp

/-- the prefix lexer on an accepted text: all the tokens, no error -/
theorem lexPrefix_of_ok (s : Text) (toks : List Tok) (h : lexAll s = .ok toks) : lexPrefix s = (toks, none) := by
  unfold lexAll at h
  rw [lexLoop_eq] at h
  unfold lexPrefix
  cases hp : lexLoopP s.length (s.length + 1) s with
  | mk ts o =>
    rw [hp] at h
    cases o with
    | none => simp only [Except.ok.injEq] at h; simp [h]
    | some e => cases h

/-- the prefix lexer on a rejected text: some tokens, and the error of `lexAll` -/
theorem lexPrefix_of_error (s : Text) (e : Lex.SynErr) (h : lexAll s = .error e) : ∃ toks, lexPrefix s = (toks, some e) := by
  unfold lexAll at h
  rw [lexLoop_eq] at h
  unfold lexPrefix
  cases hp : lexLoopP s.length (s.length + 1) s with
  | mk ts o =>
    rw [hp] at h
    cases o with
    | none => cases h
    | some e' => simp only [Except.error.injEq] at h; subst h; exact ⟨_, rfl⟩

private theorem lexLoopP_in_range (n : Nat) : ∀ (fuel : Nat) (s : Text), ∀ t ∈ (lexLoopP n fuel s).1, TokR n t
  | 0, s => by simp [lexLoopP]
  | fuel + 1, s => by
    simp only [lexLoopP]
    split
    · simp
    · rename_i tok hn
      obtain ⟨rfl, _⟩ := next_eof n s tok hn
      intro t ht
      simp only [List.mem_singleton] at ht
      subst ht
      exact ⟨Nat.le_refl _, Nat.le_refl _⟩
    · rename_i tok rest hn
      obtain ⟨ign, lex, _, _, _, _, _, hst, hsp⟩ := next_sound n s rest tok hn
      intro t ht
      rcases List.mem_cons.1 ht with rfl | ht
      · exact ⟨by rw [hst]; exact Nat.sub_le _ _, by rw [hsp]; exact Nat.sub_le _ _⟩
      · exact lexLoopP_in_range n fuel rest t ht

/-- every token the lexer yields — also before an error — lies inside the text -/
theorem lexPrefix_in_range (s : Text) : ∀ t ∈ (lexPrefix s).1, TokR s.length t := by
  intro t ht
  unfold lexPrefix at ht
  rcases List.mem_cons.1 ht with rfl | ht
  · exact ⟨Nat.zero_le _, Nat.zero_le _⟩
  · exact lexLoopP_in_range _ _ _ t ht

/-- on a text the lexer accepts the window makes no difference at all: same result, same error -/
theorem lazy_eq_eager_of_lexable {α} (p : List Tok → Except Parse.SynErr α) (s : Text) (toks : List Tok)
    (h : lexAll s = .ok toks) : withLexerLazy p s = withLexer p s := by
  unfold withLexerLazy withLexer
  rw [lexPrefix_of_ok s toks h, h]
  cases p toks <;> rfl

/-- `lazy_ok_iff`: ACCEPTANCE AND THE TREE do not depend on the window, for any entry point -/
theorem lazy_ok_iff {α} (p : List Tok → Except Parse.SynErr α) (s : Text) (a : α) :
    withLexerLazy p s = .ok a ↔ withLexer p s = .ok a := by
  cases hl : lexAll s with
  | ok toks => rw [lazy_eq_eager_of_lexable p s toks hl]
  | error le =>
    obtain ⟨toks, hp⟩ := lexPrefix_of_error s le hl
    unfold withLexerLazy withLexer
    rw [hp, hl]
    simp only
    constructor
    · intro h
      split at h
      · split at h <;> cases h
      · cases h
    · intro h; cases h

/-- the error clause for the LAZY pipeline (`parse`, `parse_value`, `parse_type`, all flags): a rejection reports a
    position within the text, the only exception being the lexer's NonTerminatedString at len + 1 on a text that ends
    inside an open quoted string with a truncated escape. -/
theorem parse_text_lazy_error_in_range (fl : Flags) (s : Text) (e : TextErr)
    (h : parseTextLazyE fl s = .error e ∨ parseValueTextLazyE fl s = .error e ∨ parseTypeTextLazyE fl s = .error e) :
    e.pos ≤ s.length ∨ (OpenEscape s ∧ e = .lex ⟨.nonTerminatedString, s.length + 1⟩) := by
  have hr := lexPrefix_in_range s
  have key : ∀ {α} (p : List Tok → Except Parse.SynErr α),
      (∀ toks, (∀ t ∈ toks, TokR s.length t) → ∀ pe, p toks = .error pe → pe.pos ≤ s.length) →
      withLexerLazy p s = .error e →
      e.pos ≤ s.length ∨ (OpenEscape s ∧ e = .lex ⟨.nonTerminatedString, s.length + 1⟩) := by
    intro α p hp hw
    have lexcase : ∀ le, lexAll s = .error le → e = .lex le →
        e.pos ≤ s.length ∨ (OpenEscape s ∧ e = .lex ⟨.nonTerminatedString, s.length + 1⟩) := by
      intro le hl he
      subst he
      rcases error_in_range_partial s le hl with h' | ⟨h1, h2⟩
      · exact .inl h'
      · refine .inr ⟨(error_position_iff_open_escape s le hl).1 h1, ?_⟩
        cases le; simp only at h1 h2; subst h1 h2; rfl
    unfold withLexerLazy at hw
    cases hpre : lexPrefix s with
    | mk toks o =>
      rw [hpre] at hw hr
      cases o with
      | none =>
        simp only at hw
        split at hw
        · cases hw
        · rename_i pe hpe
          cases hw
          exact .inl (hp toks hr pe hpe)
      | some le =>
        have hl : lexAll s = .error le := by
          cases hh : lexAll s with
          | ok tk => rw [lexPrefix_of_ok s tk hh] at hpre; cases hpre
          | error le' =>
            obtain ⟨tk, h2⟩ := lexPrefix_of_error s le' hh
            rw [h2] at hpre; cases hpre; rfl
        simp only at hw
        split at hw
        · rename_i pe hpe
          split at hw
          · cases hw; exact lexcase le hl rfl
          · cases hw; exact .inl (hp toks hr pe hpe)
        · cases hw; exact lexcase le hl rfl
  rcases h with h | h | h
  · exact key _ (fun toks ht pe => (parse_error_in_range fl s.length toks ht pe).1) h
  · exact key _ (fun toks ht pe => (parse_error_in_range fl s.length toks ht pe).2.1) h
  · exact key _ (fun toks ht pe => (parse_error_in_range fl s.length toks ht pe).2.2) h

/-! ### the branch "the parser succeeds on the tokens before a lexical error" of `withLexerLazy` is dead -/

private theorem lexLoopP_no_eof (n : Nat) : ∀ (fuel : Nat) (s : Text) (e : Lex.SynErr), (lexLoopP n fuel s).2 = some e →
    ∀ t ∈ (lexLoopP n fuel s).1, t.kind ≠ .eof
  | 0, s, e, _ => by simp [lexLoopP]
  | fuel + 1, s, e, h => by
    simp only [lexLoopP] at h ⊢
    split at h
    · simp
    · cases h
    · rename_i tok rest hn
      obtain ⟨ign, lex, _, _, hl, _⟩ := next_sound n s rest tok hn
      intro t ht
      rcases List.mem_cons.1 ht with rfl | ht
      · intro hk; rw [hk] at hl; exact hl
      · exact lexLoopP_no_eof n fuel rest e h t ht

private theorem checkAll_ends_eof (fl : Flags) (is : List Spec.Item) (l l' : Tok) (ts rest : List Tok)
    (h : Spec.Item.checkAll fl (is ++ [Spec.p .eof]) l ts = some (l', rest)) : ∃ t ∈ ts, t.kind = .eof := by
  rw [Spec.checkAll_append] at h
  obtain ⟨l1, ts1, h1, h2⟩ := h
  rw [Spec.checkAll_cons] at h2
  obtain ⟨l2, ts2, h3, _⟩ := h2
  rw [Spec.check_tok] at h3
  obtain ⟨t, rfl, hc, _⟩ := h3
  obtain ⟨pre, rfl, _, _⟩ := Spec.checkAll_spans fl is l l1 ts _ h1
  exact ⟨t, by simp, congrArg Prod.fst hc⟩

/-- a token list without `<EOF>` is never accepted, by any entry point: a successful parse consumes `<EOF>` -/
theorem no_eof_never_ok (fl : Flags) (toks : List Tok) (hne : ∀ t ∈ toks, t.kind ≠ .eof) :
    (∀ d, parseDocument fl toks ≠ .ok d) ∧ (∀ v, parseValue fl toks ≠ .ok v) ∧ (∀ t, parseType fl toks ≠ .ok t) := by
  refine ⟨fun d h => ?_, fun v h => ?_, fun t h => ?_⟩
  · obtain ⟨_, m⟩ := parse_sound_document fl toks d h
    obtain ⟨l', m⟩ := (matches_iff _ _ _).1 m
    rw [Spec.checkAll_cons] at m
    obtain ⟨l1, ts1, m1, _⟩ := m
    unfold Spec.documentV at m1
    rw [Spec.check_node] at m1
    obtain ⟨f, tl, e, hall, _⟩ := m1
    have e2 : Spec.p .sof :: (d.definitions.map Spec.definitionV ++ [Spec.p .eof]) =
        (Spec.p .sof :: d.definitions.map Spec.definitionV) ++ [Spec.p .eof] := by simp
    rw [e2] at hall
    obtain ⟨t, ht, hk⟩ := checkAll_ends_eof fl _ _ _ _ _ hall
    exact hne t ht hk
  · obtain ⟨_, m⟩ := parseValue_sound fl toks v h
    obtain ⟨l', m⟩ := (matches_iff _ _ _).1 m
    obtain ⟨t, ht, hk⟩ := checkAll_ends_eof fl [Spec.p .sof, Spec.valueV v] _ _ _ _ m
    exact hne t ht hk
  · obtain ⟨_, m⟩ := parseType_sound fl toks t h
    obtain ⟨l', m⟩ := (matches_iff _ _ _).1 m
    obtain ⟨t', ht, hk⟩ := checkAll_ends_eof fl [Spec.p .sof, Spec.typeV t] _ _ _ _ m
    exact hne t' ht hk

/-- … and the tokens before a lexical error contain no `<EOF>`: the "succeeds" branch of `withLexerLazy` never runs -/
theorem lazy_prefix_never_ok (fl : Flags) (s : Text) (toks : List Tok) (le : Lex.SynErr)
    (h : lexPrefix s = (toks, some le)) :
    (∀ d, parseDocument fl toks ≠ .ok d) ∧ (∀ v, parseValue fl toks ≠ .ok v) ∧ (∀ t, parseType fl toks ≠ .ok t) := by
  apply no_eof_never_ok
  unfold lexPrefix at h
  simp only [Prod.mk.injEq] at h
  obtain ⟨rfl, h2⟩ := h
  intro t ht
  rcases List.mem_cons.1 ht with rfl | ht
  · simp [sofTok]
  · exact lexLoopP_no_eof _ _ _ le h2 t ht

/-! ### what is NOT proved about the parser model: its fuel (audit F7b)

The loops and recursions of the token-level parser model take fuel (`runAll`: token count + 1) and end in `fail "fuel"`, an
ordinary `SynErr`.  For the LEXER the corresponding branch is proved unreachable (`lex_fuel_sufficient`).  For the PARSER:
  * on ACCEPTED token lists the fuel suffices — `parse_complete_document` returns the tree, for every well-formed derivation;
  * the VERDICT never depends on it — `parseDocument_accepts_iff` is an iff with the grammar;
  * every position statement (`parse_error_in_range`, `parse_text_lazy_error_in_range`) holds for the fuel error as for any
    other (it is reported at the next token);
  * that a REJECTION is never the fuel artefact is the statement below. It is NOT proved (it needs a progress lemma for every
    parse function: each loop iteration consumes a token). It is exercised: the correspondence compares position AND class of
    every parser rejection with the real parser (`corr:syntax-error-differs`) over the bounded-exhaustive token strings, and
    reports `corr:model-fuel-exhausted` if the model's message is ever "fuel"
    (evidence: `parser_model_rejections_without_fuel_artefact`). -/

/-- THE FULL STATEMENT (not proved): the parser model never runs out of fuel -/
def ParseFuelSufficientStatement : Prop :=
  ∀ (fl : Flags) (toks : List Tok) (e : Parse.SynErr),
    (parseDocument fl toks = .error e ∨ parseValue fl toks = .error e ∨ parseType fl toks = .error e) → e.msg ≠ "fuel"

/-- the proved part: no ACCEPTED token list is affected (a derivation of a well-formed tree is parsed, whatever its size) -/
theorem parse_fuel_sufficient_partial (fl : Flags) (toks : List Tok) (d : Document)
    (w : Spec.wfDocument fl d = true) (m : Matches fl [Spec.documentV d] toks) (e : Parse.SynErr) :
    parseDocument fl toks ≠ .error e := by
  rw [parse_complete_document fl toks d w m]; intro h; cases h

/-- the two pipelines DO differ on rejected texts: `} "\` — the eager composition reports the lexer's NonTerminatedString one
    past the end (position 5 of a text of length 4), the lazy parser the `}` at position 0 -/
theorem lazy_differs :
    (match parseTextE {} [125, 32, 34, 92] with | .error e => e.pos | .ok _ => 0) = 5 ∧
    (match parseTextLazyE {} [125, 32, 34, 92] with | .error e => e.pos | .ok _ => 1) = 0 := by decide

/-! ### non-vacuity -/
/-- `{ a "\`: the lazy parser DOES get as far as the open string: the lexer's error, at 7 = len + 1 -/
example : (match parseTextLazyE {} [123, 32, 97, 32, 34, 92] with | .error e => e.pos | .ok _ => 0) = 7 := by decide
example : (lexPrefix [123, 32, 97, 32, 34, 92]).1.map (·.kind) = [.sof, .curlyL, .name] := by decide

end PyGql.Props.C01

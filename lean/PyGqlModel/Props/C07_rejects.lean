/-
  C07 — property theorems, part 3: the rejection classes. "Rejected" = no amount of fuel yields a value:
  `∀ pv, … ≠ .ok pv`. In the executor the arguments are coerced before the resolver is called
  (`resolve_field`: `coerced_args = self.argument_values(...)` precedes `resolver(...)`), so a rejected input
  never reaches a resolver; the pipeline oracle of harness/corr/C07.py checks exactly that on the real code.
-/
import PyGqlModel.Props.C07

set_option linter.unusedSimpArgs false
set_option linter.unusedVariables false

namespace PyGql.Props.C07
open PyGql PyGql.Coerce PyGql.Generated.Scalars

/-- the five specified scalars -/
def IsSpecifiedScalar : NamedT → Prop
  | .int | .float | .string | .boolean | .id => True
  | _ => False

/-- **rejects: null for non-null** — as a JSON value, as a literal, through a variable inside a literal, and
    through a variable bound to None at a non-null ARGUMENT (fix A3). -/
theorem rejects_null_for_nonnull (reg : Reg) (vars : Option (List (String × PV))) (fuel : Nat) (t : Ty) (pv : PV) :
    coerceValue reg fuel (.nonNull t) .null ≠ .ok pv ∧
    valueFromAst reg vars fuel (.nonNull t) .null ≠ .ok pv ∧
    (∀ x vs, vars = some vs → lookupLast x vs = some .none → valueFromAst reg vars fuel (.nonNull t) (.var x) ≠ .ok pv) := by
  cases fuel with
  | zero => simp [coerceValue, valueFromAst]
  | succ fuel =>
    refine ⟨by simp [coerceValue, Ty.isNonNull, JV.isNull], by simp [valueFromAst, Ty.isNonNull, Lit.isNull], ?_⟩
    intro x vs hv hx
    simp [valueFromAst, extractVariable, hv, hx, Ty.isNonNull, PV.isNone]

theorem rejects_null_argument (reg : Reg) (fuel : Nat) (vars : List (String × PV)) (args : List (String × Lit)) (d : InField)
    (x : String) (hn : d.type.isNonNull = true) (ha : lookupLast d.name args = some (.var x))
    (hx : lookupLast x vars = some .none) (o : Option PV) : coerceArg reg fuel vars args d ≠ .ok o := by
  simp [coerceArg, ha, hx, hn, PV.isNone]

theorem rejects_null_variable (reg : Reg) (fuel : Nat) (variables : List (String × JV)) (d : VarDef)
    (hn : d.type.isNonNull = true) (hx : lookupLast d.name variables = some .null) (o : Option PV) :
    coerceVariable reg fuel variables d ≠ .ok o := by
  unfold coerceVariable
  split
  · simp
  · simp [hx, hn, JV.isNull]

/-- a rejected list item rejects the list; a rejected supplied field rejects the object (rejections propagate outwards) -/
theorem rejects_propagate_list {α β : Type} (f : α → Except Err β) (l : List α) (r : List β) (h : mapE f l = .ok r) :
    ∀ x, x ∈ l → ∃ y, f x = .ok y := by
  induction l generalizing r with
  | nil => intro x hx; cases hx
  | cons a as ih =>
    intro x hx
    simp only [mapE] at h
    split at h
    · cases h
    · rename_i y hy
      split at h
      · cases h
      · rename_i ys hys
        cases hx with
        | head => exact ⟨y, hy⟩
        | tail _ hm => exact ih ys hys x hm

theorem rejects_propagate_field {α : Type} (get : String → Option α) (rec : Ty → α → R) (fs : List InField)
    (r : List (String × PV)) (h : fieldLoop get rec fs = .ok r) :
    ∀ f, f ∈ fs → (∀ v, get f.name = some v → ∃ pv, rec f.type v = .ok pv) ∧
                  (get f.name = none → f.default = none → f.type.isNonNull = false) := by
  induction fs generalizing r with
  | nil => intro f hf; cases hf
  | cons a as ih =>
    intro f hf
    simp only [fieldLoop] at h
    split at h
    · rename_i hg
      split at h
      · rename_i d hd
        split at h
        · cases h
        · rename_i r' hr'
          cases hf with
          | head => exact ⟨fun v hv => by simp [hg] at hv, fun _ hd' => by simp [hd] at hd'⟩
          | tail _ hm => exact ih r' hr' f hm
      · rename_i hd
        split at h
        · cases h
        · rename_i hnn
          cases hf with
          | head => exact ⟨fun v hv => by simp [hg] at hv, fun _ _ => by simpa using hnn⟩
          | tail _ hm => exact ih r h f hm
    · rename_i v hg
      split at h
      · cases h
      · rename_i pv hpv
        split at h
        · cases h
        · rename_i r' hr'
          cases hf with
          | head => exact ⟨fun v' hv' => by rw [hg] at hv'; cases hv'; exact ⟨pv, hpv⟩, fun hn => by simp [hg] at hn⟩
          | tail _ hm => exact ih r' hr' f hm

/-- **rejects: missing required field** (non-null, no default) — both routes -/
theorem rejects_missing_required {reg : Reg} {n : String} {fs : List InField} (hn : reg.get? n = some (.input fs))
    (vars : Option (List (String × PV))) (fuel : Nat) (f : InField) (hf : f ∈ fs)
    (hreq : f.type.isNonNull = true) (hd : f.default = none) (pv : PV) :
    (∀ kvs, lookupLast f.name kvs = none → coerceValue reg fuel (.named n) (.obj kvs) ≠ .ok pv) ∧
    (∀ lkvs, lookupLast f.name lkvs = none → valueFromAst reg vars fuel (.named n) (.obj lkvs) ≠ .ok pv) := by
  cases fuel with
  | zero => simp [coerceValue, valueFromAst]
  | succ fuel =>
    constructor
    · intro kvs hk h
      simp only [coerceValue, Ty.isNonNull, Bool.false_and, stripNN, coerceCore, JV.isNull, hn, coerceInputObject] at h
      simp at h
      split at h
      · cases h
      · rename_i r hr
        have := (rejects_propagate_field _ _ fs r ((fieldLoopC_ok_iff _ _ _ _).1 hr) f hf).2 hk hd
        simp [hreq] at this
    · intro lkvs hk h
      simp only [valueFromAst, Ty.isNonNull, Bool.false_and, stripNN, vfaCore, Lit.isNull, hn, extractInputObject] at h
      simp at h
      split at h
      · cases h
      · rename_i r hr
        have := (rejects_propagate_field _ _ fs r hr f hf).2 hk hd
        simp [hreq] at this

/-- **rejects: unknown input field** — both routes (the literal route by fix A5) -/
theorem rejects_unknown_field {reg : Reg} {n : String} {fs : List InField} (hn : reg.get? n = some (.input fs))
    (vars : Option (List (String × PV))) (fuel : Nat) (pv : PV) :
    (∀ kvs, allKnown fs kvs = false → coerceValue reg fuel (.named n) (.obj kvs) ≠ .ok pv) ∧
    (∀ lkvs, allKnown fs lkvs = false → valueFromAst reg vars fuel (.named n) (.obj lkvs) ≠ .ok pv) := by
  cases fuel with
  | zero => simp [coerceValue, valueFromAst]
  | succ fuel =>
    constructor
    · intro kvs hk h
      simp only [coerceValue, Ty.isNonNull, Bool.false_and, stripNN, coerceCore, JV.isNull, hn, coerceInputObject] at h
      simp at h
      split at h
      · cases h
      · simp [hk] at h
    · intro lkvs hk h
      simp only [valueFromAst, Ty.isNonNull, Bool.false_and, stripNN, vfaCore, Lit.isNull, hn, extractInputObject] at h
      simp at h
      split at h
      · cases h
      · simp [hk] at h

/-- **rejects: unknown enum name** — both routes -/
theorem rejects_unknown_enum {reg : Reg} {n : String} {vs : List (String × PV)} (hn : reg.get? n = some (.enum vs))
    (vars : Option (List (String × PV))) (fuel : Nat) (s : String) (hs : ∀ p, p ∈ vs → p.1 ≠ s) (pv : PV) :
    coerceValue reg fuel (.named n) (.str s) ≠ .ok pv ∧
    valueFromAst reg vars fuel (.named n) (.enum s) ≠ .ok pv := by
  cases fuel with
  | zero => simp [coerceValue, valueFromAst]
  | succ fuel =>
    constructor
    · simp [coerceValue, Ty.isNonNull, stripNN, coerceCore, JV.isNull, hn, getValue_unknown hs]
    · simp [valueFromAst, Ty.isNonNull, stripNN, vfaCore, Lit.isNull, hn, getValue_unknown hs]

/-- **rejects: structurally wrong JSON** — an array or object where a specified scalar is expected (fix A4 for
    Boolean / String / ID), a non-string where an enum is expected, a non-object where an input object is expected. -/
theorem rejects_structurally_wrong_json {reg : Reg} {n : String} (fuel : Nat) (pv : PV) :
    (∀ k, reg.get? n = some k → IsSpecifiedScalar k →
        (∀ l, coerceValue reg fuel (.named n) (.list l) ≠ .ok pv) ∧ (∀ kvs, coerceValue reg fuel (.named n) (.obj kvs) ≠ .ok pv)) ∧
    (∀ vs, reg.get? n = some (.enum vs) → ∀ v, v.isNull = false → (∀ s, v ≠ .str s) →
        coerceValue reg fuel (.named n) v ≠ .ok pv) ∧
    (∀ fs, reg.get? n = some (.input fs) → ∀ v, v.isNull = false → (∀ kvs, v ≠ .obj kvs) →
        coerceValue reg fuel (.named n) v ≠ .ok pv) := by
  cases fuel with
  | zero => simp [coerceValue]
  | succ fuel =>
    refine ⟨?_, ?_, ?_⟩
    · intro k hk hs
      cases k <;> simp [IsSpecifiedScalar] at hs <;>
        simp [coerceValue, Ty.isNonNull, stripNN, coerceCore, JV.isNull, hk, coerceInt, coerceFloat, parseString, parseBool, parseId]
    · intro vs hk v hv hns
      cases v <;> simp_all [coerceValue, Ty.isNonNull, stripNN, coerceCore, JV.isNull]
    · intro fs hk v hv hno
      cases v <;> simp_all [coerceValue, Ty.isNonNull, stripNN, coerceCore, JV.isNull, coerceInputObject]

/-- **rejects: non-finite Float** (fix X2) — the infinities and NaN are refused at a `Float` position on both routes:
    a JSON float (`json.loads` admits `Infinity` / `NaN`), a JSON string that `float()` maps to a non-finite value
    (`"inf"`, `"nan"`, `"1e999"`), and an overflowing literal (`1e999`) — "non-finite" as the lexeme model `PyNum.pyFloat`
    computes it. Stated about the finiteness guard re-extracted from `coerce_float` on every run. -/
theorem rejects_non_finite_float {reg : Reg} {n : String} (hn : reg.get? n = some .float)
    (vars : Option (List (String × PV))) (fuel : Nat) (t : String) (d : PyNum.Dbl) (ht : PyNum.pyFloat t = some d)
    (hc : clsOf d ≠ .finite) (pv : PV) :
    coerceValue reg fuel (.named n) (.float t) ≠ .ok pv ∧
    coerceValue reg fuel (.named n) (.str t) ≠ .ok pv ∧
    valueFromAst reg vars fuel (.named n) (.float t) ≠ .ok pv := by
  have hg : floatGuardRejects (clsOf d) = true := (floatGuard_spec _).2 hc
  cases fuel with
  | zero => simp [coerceValue, valueFromAst]
  | succ fuel =>
    refine ⟨?_, ?_, ?_⟩
    · simp [coerceValue, Ty.isNonNull, stripNN, coerceCore, JV.isNull, hn, coerceFloat, ht, floatChecked, hg]
    · simp only [coerceValue, Ty.isNonNull, Bool.false_and, stripNN, coerceCore, JV.isNull, hn, coerceFloat, ht, floatChecked, hg]
      simp
    · simp only [valueFromAst, Ty.isNonNull, Bool.false_and, stripNN, vfaCore, Lit.isNull, hn, isScalarLit, parseLiteral, ht, floatChecked, hg]
      simp

/-- the lexemes in question -/
example : PyNum.pyFloat "inf" = some (.inf false) ∧ PyNum.pyFloat "-Infinity" = some (.inf true) ∧ PyNum.pyFloat "nan" = some .nan ∧
    PyNum.pyFloat "1e999" = some (.inf false) ∧ PyNum.pyFloat "-1e999" = some (.inf true) := by decide

/-- finite floats are still accepted unchanged (the guard refuses nothing else) -/
theorem accepts_finite_float {reg : Reg} {n : String} (hn : reg.get? n = some .float) (fuel : Nat) (t : String)
    (neg : Bool) (m : Nat) (e : Int) (ht : PyNum.pyFloat t = some (.finite neg m e)) :
    coerceValue reg (fuel + 1) (.named n) (.float t) = .ok (.float (.text t)) := by
  simp [coerceValue, Ty.isNonNull, stripNN, coerceCore, JV.isNull, hn, coerceFloat, ht, clsOf, floatChecked_finite]

/-- **rejects: structurally wrong literal** — a list / object / enum literal where a specified scalar, or a custom scalar
    WITHOUT its own `parse_literal`, is expected (a custom scalar with its own `parse_literal` is handed every literal: its
    business), anything but an enum value where an enum is expected, anything but an object where an input object is expected. -/
theorem rejects_structurally_wrong_literal {reg : Reg} {n : String} (vars : Option (List (String × PV))) (fuel : Nat) (pv : PV) :
    (∀ k, reg.get? n = some k → (IsSpecifiedScalar k ∨ (k = .custom ∧ reg.customHasParseLiteral n = false)) →
        ∀ l, l.isNull = false → isScalarLit l = false →
        (∀ x, l ≠ .var x) → valueFromAst reg vars fuel (.named n) l ≠ .ok pv) ∧
    (∀ vs, reg.get? n = some (.enum vs) → ∀ l, l.isNull = false → (∀ s, l ≠ .enum s) → (∀ x, l ≠ .var x) →
        valueFromAst reg vars fuel (.named n) l ≠ .ok pv) ∧
    (∀ fs, reg.get? n = some (.input fs) → ∀ l, l.isNull = false → (∀ lkvs, l ≠ .obj lkvs) → (∀ x, l ≠ .var x) →
        valueFromAst reg vars fuel (.named n) l ≠ .ok pv) := by
  cases fuel with
  | zero => simp [valueFromAst]
  | succ fuel =>
    refine ⟨?_, ?_, ?_⟩
    · intro k hk hs l hl hsc hx
      cases l <;> simp_all [isScalarLit] <;>
        (cases k <;> simp_all [IsSpecifiedScalar, valueFromAst, Ty.isNonNull, stripNN, vfaCore, Lit.isNull, isScalarLit, litAdmitted])
    · intro vs hk l hl hne hx
      cases l <;> simp_all [valueFromAst, Ty.isNonNull, stripNN, vfaCore, Lit.isNull]
    · intro fs hk l hl hno hx
      cases l <;> simp_all [valueFromAst, Ty.isNonNull, stripNN, vfaCore, Lit.isNull]

end PyGql.Props.C07

/-
  C01 quantifies over `str` AND UTF-8 `bytes` sources.  The `bytes` path (`ensure_unicode` in `Lexer.__init__`, fix C01-B8) is
  modelled in `Utf8.lean` / `ParseBytes.lean`:

  `decode_encode`            the UTF-8 encoding of a text of scalar values decodes to the text
  `parse_bytes_eq_text`      so `parse(text.encode("utf8"))` IS `parse(text)` — same tree, same error — for `parse`,
                             `parse_value`, `parse_type` and all flags: every theorem about texts holds for their bytes
  `decode_ok_iff`            and the decoder accepts ONLY such encodings: it is the inverse of `encode` (strict UTF-8)
  `parse_bytes_accepts_iff`  a bytes source is accepted exactly when it is the encoding of an accepted text, with the same tree
  `decode_error_in_range`    a source that is not valid UTF-8 is rejected at a character offset within the source
  `parse_bytes_total`        and never with anything but a syntax error (the model has no other outcome: stated as the shape
                             of the result)
-/
import PyGqlModel.ParseBytes
import PyGqlModel.Lemmas.Utf8Roundtrip
import PyGqlModel.Lemmas.Utf8Sound
namespace PyGql.Props.C01
open PyGql PyGql.Parse PyGql.Ast PyGql.Utf8

/-- `text.encode("utf8").decode("utf8") == text` for every text of Unicode scalar values -/
theorem decode_encode (t : Text) (ht : t.all isScalar = true) : decode (encode t) = .ok t := by
  unfold decode
  rw [feed_encode t ht []]; rfl

/-- `bytes` sources: `parse(text.encode("utf8"), **flags)` is `parse(text, **flags)` — the same tree or the same syntax
    error — and likewise `parse_value`, `parse_type`. -/
theorem parse_bytes_eq_text (fl : Flags) (t : Text) (ht : t.all isScalar = true) :
    parseBytesE fl (encode t) = parseTextE fl t ∧ parseValueBytesE fl (encode t) = parseValueTextE fl t ∧
      parseTypeBytesE fl (encode t) = parseTypeTextE fl t := by
  simp [parseBytesE, parseValueBytesE, parseTypeBytesE, onBytes, decode_encode t ht]

private theorem feed_error_le (bs : List Nat) : ∀ (st : St) (p : Nat), feed st bs = .error p → p ≤ st.out.length + bs.length := by
  induction bs with
  | nil =>
    intro st p h
    simp only [feed] at h
    split at h
    · cases h
    · cases h; simp
  | cons b r ih =>
    intro st p h
    rw [feed] at h
    repeat' split at h
    all_goals first
      | (cases h; simp only [List.length_cons]; omega)
      | (have := ih _ _ h; simp only [List.length_cons] at this ⊢; omega)

/-- an undecodable source is rejected at a character offset no larger than its length in bytes — hence within the text
    the error carries (the source with every undecodable byte shown as U+FFFD has at least as many characters as
    undecodable sequences start before) -/
theorem decode_error_in_range (bs : List Nat) (p : Nat) (h : decode bs = .error p) : p ≤ bs.length := by
  have := feed_error_le bs {} p h
  simpa using this

/-- a `bytes` source is either decoded and handled as its text, or rejected with `InvalidCharacter` (a syntax error) -/
theorem parse_bytes_total (fl : Flags) (bs : List Nat) :
    (∃ t, decode bs = .ok t ∧ parseBytesE fl bs = parseTextE fl t) ∨
    (∃ p, p ≤ bs.length ∧ parseBytesE fl bs = .error (.lex ⟨.invalidCharacter, p⟩)) := by
  cases h : decode bs with
  | ok t => exact .inl ⟨t, rfl, by simp [parseBytesE, onBytes, h]⟩
  | error p => exact .inr ⟨p, decode_error_in_range bs p h, by simp [parseBytesE, onBytes, h]⟩

/-- `decode_ok_iff`: the decoder accepts EXACTLY the UTF-8 encodings of texts of Unicode scalar values (shortest form, no
    surrogates, at most U+10FFFF) and returns the text: `bytes.decode("utf8")` is the inverse of `str.encode("utf8")`. -/
theorem decode_ok_iff (bs : List Nat) (t : Text) : decode bs = .ok t ↔ (t.all isScalar = true ∧ encode t = bs) := by
  constructor
  · intro h
    obtain ⟨u, e, hu, hb⟩ := feed_sound bs.length bs [] t (Nat.le_refl _) h
    simp only [List.reverse_nil, List.nil_append] at e
    subst e
    exact ⟨hu, hb⟩
  · rintro ⟨ht, rfl⟩
    exact decode_encode t ht

/-- `parse_bytes_accepts_iff`: a `bytes` source is accepted EXACTLY WHEN it is the UTF-8 encoding of a text (of scalar values)
    that `parse` accepts, and the tree is that text's tree — so "text accepted ⇔ derives from the grammar"
    (`parse_text_accepts_iff`) carries over to bytes sources verbatim. -/
theorem parse_bytes_accepts_iff (fl : Flags) (bs : List Nat) (d : Document) :
    parseBytesE fl bs = .ok d ↔ ∃ t, t.all isScalar = true ∧ encode t = bs ∧ parseTextE fl t = .ok d := by
  constructor
  · intro h
    simp only [parseBytesE, onBytes] at h
    split at h
    · rename_i t ht
      obtain ⟨h1, h2⟩ := (decode_ok_iff bs t).1 ht
      exact ⟨t, h1, h2, h⟩
    · cases h
  · rintro ⟨t, ht, rfl, hp⟩
    rw [(parse_bytes_eq_text fl t ht).1]; exact hp

/-! ### non-vacuity -/
/-- `é`, `€`, U+1F600 and a lone-surrogate-free text round-trip -/
example : encode [0xE9, 0x20AC, 0x1F600, 97] = [0xC3, 0xA9, 0xE2, 0x82, 0xAC, 0xF0, 0x9F, 0x98, 0x80, 97] := by decide
example : decode [0xC3, 0xA9, 0xE2, 0x82, 0xAC, 0xF0, 0x9F, 0x98, 0x80, 97] = .ok [0xE9, 0x20AC, 0x1F600, 97] := by rfl
/-- overlong, surrogate, > U+10FFFF, lone continuation, truncated: rejected at the right character offset -/
example : decode [0xC0, 0x80] = .error 0 := by rfl
example : decode [97, 0xED, 0xA0, 0x80] = .error 1 := by rfl
example : decode [0xF4, 0x90, 0x80, 0x80] = .error 0 := by rfl
example : decode [0xC3, 0xA9, 0x80] = .error 1 := by rfl
example : decode [123, 32, 97, 32, 125, 0xE2, 0x82] = .error 5 := by rfl
/-- `parse(b"{ a }\xff")` is InvalidCharacter at 5 -/
example : (parseBytesE {} [123, 32, 97, 32, 125, 0xFF]).toOption.isNone = true ∧
    (match parseBytesE {} [123, 32, 97, 32, 125, 0xFF] with | .error e => e.pos | .ok _ => 0) = 5 := by decide

end PyGql.Props.C01

/-
  C06 - property theorems, part 25: EVERY `SkipNode` COMES WITH AN ERROR OF THE RULE THAT RAISES IT, and its
  consequences for an arbitrary chain.

  With proposed_fixes/C06-H5 (`ValuesOfCorrectTypeChecker` no longer raises `SkipNode` at an object literal it ACCEPTED;
  bug-hunt finding C06/1: the silent skip hid the contents of the literal from every other rule) the last silent
  `SkipNode` of the rules is gone:
    * `skip_reports`: a rule that raises at a node has just added an error (all 26 rules, all node kinds);
    * `enterRule_mono`, `leaveRule_mono`: no rule ever removes an error;
    * `monoAlg`: in ANY chain the error count never decreases over any visit;
    * `silent_node_not_skipped`: a node over which a chain adds no error was skipped by NO member - every member
      entered it, its children were visited, every member left it. In particular a run of the standard chain that
      reports nothing has shown every node of the document to every rule.
  This is obstacle (b) of the note in `Props/C06_balanced.lean`; obstacle (a) - the frame property of the 26 rules,
  needed to compare a rule's reports in the chain with its reports alone - is proved in `Props/C06_chain.lean`
  (`framed_enterRule`), and with it `chain_silent_iff_alone`: the chain records no error iff every member alone is silent.
  (`KnownTypeNamesChecker._skip` on type-system definitions raises without an error of its own; the model has no nodes
  below a type-system definition, and `ExecutableDefinitionsChecker` reports every such definition.)
-/
import PyGqlModel.Lemmas.ValidateValues
import PyGqlModel.Lemmas.ValidateWalkG
import PyGqlModel.Lemmas.ValidateCtx
namespace PyGql.Props.C06
open PyGql PyGql.Validate

set_option maxHeartbeats 1000000 in
/-- a rule that raises `SkipNode` at a node has just reported an error at that node -/
theorem skip_reports (s : SchemaD) (fx : Fixes) (r : Rule) (n : Node) (ti : TI) (rs : RS)
    (h : (enterRule s fx r n ti rs).2 = true) : rs.errs.length < (enterRule s fx r n ti rs).1.errs.length := by
  cases r <;> cases n <;> first | (simp [enterRule] at h; done) | skip
  all_goals (first | (simp [enterRule, RS.err, RS.errN] at h ⊢; done) | (simp [enterRule] at h ⊢; split at h <;> simp_all [RS.err, RS.errN]; done) | skip)
  case executableDefinitions.document d =>
    simp only [enterRule, RS.errN, List.length_append, List.length_replicate, decide_eq_true_eq] at h ⊢
    omega
  case fragmentsOnCompositeTypes.inline on dirs =>
    cases on <;> simp [enterRule] at h ⊢
    split at h <;> simp_all [RS.err]
  case possibleFragmentSpreads.spread name dirs =>
    simp only [enterRule] at h ⊢
    repeat' split at h
    all_goals simp_all [RS.err]
  case possibleFragmentSpreads.inline on dirs =>
    simp only [enterRule] at h ⊢
    repeat' split at h
    all_goals simp_all [RS.err]
  case noFragmentCycles.spread name dirs =>
    simp only [enterRule] at h ⊢
    repeat' split at h
    all_goals simp_all [RS.err]
  case knownDirectives.directive d =>
    simp only [enterRule] at h ⊢
    repeat' split at h
    all_goals simp_all [RS.err]
  case valuesOfCorrectType.value v =>
    obtain ⟨h1, h2⟩ := voc_enter s fx (.value v) ti rs
    rw [h1] at h
    rw [h2, h]
    simp only [↓reduceIte]
    cases v <;> simp [vocBad] at h
    rename_i fs
    have : scalarErrs s ti (.obj fs) ≠ 0 := by
      cases hit : ti.inputType.map (·.base) <;> simp_all
    simp only [vocS]
    omega


set_option maxHeartbeats 1000000 in
/-- no rule ever removes an error on entering a node -/
theorem enterRule_mono (s : SchemaD) (fx : Fixes) (r : Rule) (n : Node) (ti : TI) (rs : RS) :
    rs.errs.length ≤ (enterRule s fx r n ti rs).1.errs.length := by
  cases r <;> cases n
  case valuesOfCorrectType.value v =>
    have := (voc_enter s fx (.value v) ti rs).2
    omega
  all_goals first | (simp [enterRule]; done) | skip
  all_goals (first
    | (simp [enterRule, RS.err, RS.errN]; done)
    | (simp only [enterRule]; repeat' split; all_goals (simp [RS.err, RS.errN, RS.addOpt]); done)
    | skip)
  case fragmentsOnCompositeTypes.inline on dirs => cases on <;> ((try simp only [enterRule]); repeat' split) <;> (first | (simp [RS.err, RS.errN, RS.addOpt]; done) | (simp [RS.err, RS.errN, RS.addOpt]; omega) | (simp_all [RS.err, RS.errN, RS.addOpt]; done))
  case variablesAreInputTypes.varDef v => ((try simp only [enterRule]); repeat' split) <;> (first | (simp [RS.err, RS.errN, RS.addOpt]; done) | (simp [RS.err, RS.errN, RS.addOpt]; omega) | (simp_all [RS.err, RS.errN, RS.addOpt]; done))
  case scalarLeafs.field a b c d => ((try simp only [enterRule]); repeat' split) <;> (first | (simp [RS.err, RS.errN, RS.addOpt]; done) | (simp [RS.err, RS.errN, RS.addOpt]; omega) | (simp_all [RS.err, RS.errN, RS.addOpt]; done))
  case fieldsOnCorrectType.field a b c d => ((try simp only [enterRule]); repeat' split) <;> (first | (simp [RS.err, RS.errN, RS.addOpt]; done) | (simp [RS.err, RS.errN, RS.addOpt]; omega) | (simp_all [RS.err, RS.errN, RS.addOpt]; done))
  case possibleFragmentSpreads.spread a b => ((try simp only [enterRule]); repeat' split) <;> (first | (simp [RS.err, RS.errN, RS.addOpt]; done) | (simp [RS.err, RS.errN, RS.addOpt]; omega) | (simp_all [RS.err, RS.errN, RS.addOpt]; done))
  case possibleFragmentSpreads.inline a b => ((try simp only [enterRule]); repeat' split) <;> (first | (simp [RS.err, RS.errN, RS.addOpt]; done) | (simp [RS.err, RS.errN, RS.addOpt]; omega) | (simp_all [RS.err, RS.errN, RS.addOpt]; done))
  case noFragmentCycles.spread a b => ((try simp only [enterRule]); repeat' split) <;> (first | (simp [RS.err, RS.errN, RS.addOpt]; done) | (simp [RS.err, RS.errN, RS.addOpt]; omega) | (simp_all [RS.err, RS.errN, RS.addOpt]; done))
  case noUndefinedVariables.value v => cases v <;> simp
  case noUnusedVariables.value v => cases v <;> simp
  case knownDirectives.directive d => ((try simp only [enterRule]); repeat' split) <;> (first | (simp [RS.err, RS.errN, RS.addOpt]; done) | (simp [RS.err, RS.errN, RS.addOpt]; omega) | (simp_all [RS.err, RS.errN, RS.addOpt]; done))
  case variablesInAllowedPosition.value v => cases v <;> simp
  case uniqueInputFieldNames.value v => cases v <;> simp [RS.errN]
  case uniqueInputFieldNames.objField nm => ((try simp only [enterRule]); repeat' split) <;> (first | (simp [RS.err, RS.errN, RS.addOpt]; done) | (simp [RS.err, RS.errN, RS.addOpt]; omega) | (simp_all [RS.err, RS.errN, RS.addOpt]; done))


set_option maxHeartbeats 1000000 in
/-- no rule ever removes an error on leaving a node -/
theorem leaveRule_mono (s : SchemaD) (fx : Fixes) (r : Rule) (n : Node) (ti : TI) (rs : RS) :
    rs.errs.length ≤ (leaveRule s fx r n ti rs).errs.length := by
  cases r <;> cases n <;> first | (simp [leaveRule]; done) | skip
  all_goals (first
    | (simp [leaveRule, RS.err, RS.errN]; done)
    | (simp only [leaveRule]; repeat' split; all_goals (simp [RS.err, RS.errN, RS.addOpt]); done)
    | skip)
  case uniqueInputFieldNames.value v => cases v <;> simp

/-! ### the chain -/

theorem enterRules_mono (c : Cfg) (n : Node) (ti : TI) : ∀ (rules : List Rule) (rs : RS),
    rs.errs.length ≤ (enterRules c n ti rules rs).1.errs.length
  | [], rs => Nat.le_refl _
  | r :: rest, rs => by
    have h1 := enterRule_mono c.schema c.fixes r n ti rs
    have h2 := enterRules_mono c n ti rest (enterRule c.schema c.fixes r n ti rs).1
    rw [enterRules]
    exact Nat.le_trans h1 h2

/-- some member raised `SkipNode` ⇒ the error count grew while the members entered -/
theorem enterRules_skip_lt (c : Cfg) (n : Node) (ti : TI) : ∀ (rules : List Rule) (rs : RS),
    (enterRules c n ti rules rs).2 = true → rs.errs.length < (enterRules c n ti rules rs).1.errs.length
  | [], rs, h => by simp [enterRules] at h
  | r :: rest, rs, h => by
    have m1 := enterRule_mono c.schema c.fixes r n ti rs
    have m2 := enterRules_mono c n ti rest (enterRule c.schema c.fixes r n ti rs).1
    rw [enterRules] at h ⊢
    simp only [Bool.or_eq_true] at h
    rcases h with h | h
    · exact Nat.lt_of_lt_of_le (skip_reports c.schema c.fixes r n ti rs h) m2
    · exact Nat.lt_of_le_of_lt m1 (enterRules_skip_lt c n ti rest _ h)

theorem foldl_leave_mono (c : Cfg) (n : Node) (ti : TI) : ∀ (rules : List Rule) (rs : RS),
    rs.errs.length ≤ (rules.foldl (fun rs r => leaveRule c.schema c.fixes r n ti rs) rs).errs.length
  | [], rs => Nat.le_refl _
  | r :: rest, rs => by
    rw [List.foldl_cons]
    exact Nat.le_trans (leaveRule_mono c.schema c.fixes r n ti rs) (foldl_leave_mono c n ti rest _)

theorem enter_mono (c : Cfg) (n : Node) (st : St) : E st ≤ E (enter c n st).1 := by
  unfold enter E
  exact enterRules_mono c n _ c.rules st.rs

theorem leave_mono (c : Cfg) (n : Node) (st : St) : E st ≤ E (leave c n st) := by
  unfold leave E
  exact foldl_leave_mono c n _ _ st.rs

theorem leaveSkipped_mono (c : Cfg) (n : Node) (st0 st1 : St) : E st1 ≤ E (leaveSkipped c n st0 st1) := by
  unfold leaveSkipped E
  exact foldl_leave_mono c n _ _ st1.rs

theorem enter_skip_lt (c : Cfg) (n : Node) (st : St) (h : (enter c n st).2 = true) : E st < E (enter c n st).1 := by
  unfold enter E at *
  exact enterRules_skip_lt c n _ c.rules st.rs h

/-- **errors never decrease, in any chain** -/
theorem monoAlg (c : Cfg) : WalkAlg c (fun _ st st' => E st ≤ E st') where
  nil st := Nat.le_refl _
  append h1 h2 := Nat.le_trans h1 h2
  node n body ns st _ hb := by
    cases hs : (enter c n st).2
    · rw [visitNode_false hs]
      exact Nat.le_trans (enter_mono c n st) (Nat.le_trans (hb _) (leave_mono c n _))
    · rw [visitNode_true hs]
      exact Nat.le_trans (enter_mono c n st) (leaveSkipped_mono c n st _)

/-- **a node over which the chain adds no error is skipped by no member**: every member entered it, its children
    were visited, every member left it - for ANY list of rules (given that the visit of the children cannot remove
    errors, which `monoAlg` provides for every visit function) -/
theorem silent_node_not_skipped (c : Cfg) (n : Node) (body : St → St) (st : St)
    (h : E (visitNode c n body st) = E st) : (enter c n st).2 = false := by
  cases hs : (enter c n st).2
  · rfl
  · exfalso
    rw [visitNode_true hs] at h
    have := enter_skip_lt c n st hs
    have := leaveSkipped_mono c n st (enter c n st).1
    omega


/-- the same at the document node -/
theorem silent_run_document_not_skipped (c : Cfg) (d : Doc) (h : E (visitDocument c d {}) = 0) :
    (enter c (.document d) {}).2 = false := by
  rw [visitDocument] at h
  exact silent_node_not_skipped c (.document d) _ {} (by rw [h]; rfl)

end PyGql.Props.C06

/-
  C12 — `print_build_roundtrip`, part 2: members, types, directive definitions, roots; the decidable
  well-formedness predicate `printBuildWF`; the whole-schema theorem.
-/
import PyGqlModel.Props.C12_todoc

set_option linter.unusedVariables false
set_option linter.unusedSimpArgs false
set_option linter.unnecessarySimpa false

namespace PyGql.Props.C12
open PyGql PyGql.Sdl PyGql.SdlSpec PyGql.SdlPrint PyGql.Props.C11

/-! ### named well-formedness predicates (all decidable: `Bool`) -/

/-- **NoH5 (document level)**: a description, if present, is not empty (an empty description is not printed) -/
def descOK (d : Option String) : Bool := match d with | some x => !x.isEmpty | none => true

/-- **NoH6**: a deprecation reason, if present, is not empty (printed as bare `@deprecated`, read back as the default reason) -/
def deprOK (r : Option String) : Bool := match r with | some x => !x.isEmpty | none => true

def isNullJ (v : J) : Bool := match v with | .null => true | _ => false

/-- argument / input field: known type, canonical default value (`wtB`: NoH2, NoH8), by-name content only -/
def argOK (s : SchemaD) (a : ArgD) : Bool :=
  a.pythonName == a.name && (docEnv s).resolves a.type.base && descOK a.desc &&
  (if a.hasDefault then wtB s valueFuel a.default a.type else isNullJ a.default)

def fieldOK (s : SchemaD) (f : FieldD) : Bool :=
  f.args.all (argOK s) && (docEnv s).resolves f.type.base && f.resolver.isNone && f.subscriptionResolver.isNone && deprOK f.deprecated && descOK f.desc

/-- enum value: SDL-style (internal value = name; a printed schema cannot carry Python values), not a reserved word -/
def enumValOK (v : EnumValD) : Bool :=
  (match v.value with | .str y => y == v.name | _ => false) && !reservedEnumNames.contains v.name && deprOK v.deprecated && descOK v.desc

/-- only the member lists of the type's kind are populated -/
def shapeOK (t : TypeD) : Bool :=
  match t.kind with
  | .scalar => t.interfaces.isEmpty && t.fields.isEmpty && t.members.isEmpty && t.values.isEmpty && t.inputFields.isEmpty
  | .object => t.members.isEmpty && t.values.isEmpty && t.inputFields.isEmpty
  | .interface => t.interfaces.isEmpty && t.members.isEmpty && t.values.isEmpty && t.inputFields.isEmpty
  | .union => t.interfaces.isEmpty && t.fields.isEmpty && t.values.isEmpty && t.inputFields.isEmpty
  | .enum => t.interfaces.isEmpty && t.fields.isEmpty && t.members.isEmpty && t.inputFields.isEmpty
  | .input => t.interfaces.isEmpty && t.fields.isEmpty && t.members.isEmpty && t.values.isEmpty

def typeOK (s : SchemaD) (t : TypeD) : Bool :=
  shapeOK t && t.fields.all (fieldOK s) && t.inputFields.all (argOK s) && t.values.all enumValOK &&
  !hasDup (t.values.map (·.name)) && t.interfaces.all (docEnv s).resolves && t.members.all (docEnv s).resolves &&
  t.defaultResolver.isNone && !t.builtin && descOK t.desc && !isDefaultName t.name

def directiveOK (s : SchemaD) (d : DirectiveD) : Bool :=
  d.args.all (argOK s) && descOK d.desc && !specifiedDirectives.contains d.name

/-! ### members -/

private theorem descToDoc_ok (d : Option String) (h : descOK d = true) : descToDoc d = d := by
  cases d with
  | none => rfl
  | some x => simp only [descOK, Bool.not_eq_true'] at h; simp [descToDoc, h]

theorem arg_to_doc_build (s : SchemaD) (a : ArgD) (h : argOK s a = true) : buildArgument (docEnv s) (argToDef s a) = .ok a := by
  simp only [argOK, Bool.and_eq_true] at h
  obtain ⟨⟨⟨h1, h2⟩, h3⟩, h4⟩ := h
  have hp : a.pythonName = a.name := by simpa using h1
  have hd := descToDoc_ok a.desc h3
  cases a with
  | mk name type hasDefault default desc pythonName =>
    simp only [] at hp h2 hd h4
    subst hp
    cases hasDefault with
    | false =>
      simp only [Bool.false_eq_true, if_false] at h4
      have : default = .null := by cases default <;> simp [isNullJ] at h4 ⊢
      subst this
      simp [buildArgument, argToDef, checkRef, h2, hd, bind, Except.bind, pure, Except.pure]
    | true =>
      simp only [if_true] at h4
      obtain ⟨lit, hl1, hl2⟩ := default_roundtrip_doc s valueFuel default type h4
      have hv : valueFromAst (docEnv s) coerceFuel lit type = some (some default) := hl2
      simp [buildArgument, argToDef, checkRef, h2, hd, hl1, defaultValue, hv, bind, Except.bind, pure, Except.pure]

theorem mapM_to_doc {α β} (g : β → α) (f : α → R β) : ∀ (l : List β), (∀ x ∈ l, f (g x) = .ok x) → (l.map g).mapM f = .ok l := by
  intro l
  induction l with
  | nil => intro _; rfl
  | cons x xs ih =>
    intro h
    rw [List.map_cons, List.mapM_cons, h x (by simp), ih (fun y hy => h y (by simp [hy]))]
    rfl

theorem depr_roundtrip (r : Option String) (h : deprOK r = true) : deprecationReason (deprDirs r) = .ok r := by
  cases r with
  | none => simp [deprDirs, deprecationReason, pure, Except.pure]
  | some x =>
    simp only [deprOK, Bool.not_eq_true'] at h
    by_cases hx : (x == DEFAULT_DEPRECATION) = true
    · have e : x = DEFAULT_DEPRECATION := by simpa using hx
      simp [deprDirs, h, hx, deprecationReason, lookupLast, pure, Except.pure, e, DEFAULT_DEPRECATION]
    · simp [deprDirs, h, hx, deprecationReason, lookupLast, pure, Except.pure]

theorem field_to_doc_build (s : SchemaD) (f : FieldD) (h : fieldOK s f = true) : buildField (docEnv s) (fieldToDef s f) = .ok f := by
  simp only [fieldOK, Bool.and_eq_true, List.all_eq_true] at h
  obtain ⟨⟨⟨⟨⟨h1, h2⟩, h3⟩, h3s⟩, h4⟩, h5⟩ := h
  have hargs := mapM_to_doc (argToDef s) (buildArgument (docEnv s)) f.args (fun a ha => arg_to_doc_build s a (h1 a ha))
  have hd := descToDoc_ok f.desc h5
  have hdep := depr_roundtrip f.deprecated h4
  cases f with
  | mk name type args deprecated desc resolver subres =>
    simp only [] at h2 h3 h3s h4 hargs hd hdep
    have hr : resolver = none := by simpa using h3
    subst hr
    have hrs : subres = none := by simpa using h3s
    subst hrs
    have hfd : fieldDeprecation deprecated = deprecated := by
      cases deprecated with
      | none => rfl
      | some x =>
        unfold fieldDeprecation
        split
        · rename_i heq; cases heq; simp [deprOK] at h4
        · rfl
    simp [buildField, fieldToDef, checkRef, h2, hargs, hdep, hfd, hd, bind, Except.bind, pure, Except.pure]

theorem enum_value_to_doc_build (v : EnumValD) (h : enumValOK v = true) : buildEnumValue (enumValToDef v) = .ok v := by
  simp only [enumValOK, Bool.and_eq_true, Bool.not_eq_true'] at h
  obtain ⟨⟨⟨h1, h2⟩, h3⟩, h4⟩ := h
  have hd := descToDoc_ok v.desc h4
  have hdep := depr_roundtrip v.deprecated h3
  cases v with
  | mk name value deprecated desc =>
    simp only [] at h1 h2 hd hdep
    have h2' : ¬ (name ∈ reservedEnumNames) := by simpa using h2
    cases value <;> simp at h1
    subst h1
    simp [buildEnumValue, enumValToDef, failIf, h2', hdep, hd, bind, Except.bind, pure, Except.pure]

/-! ### types and directive definitions -/

theorem type_to_doc_build (s : SchemaD) (t : TypeD) (h : typeOK s t = true) : buildTypeDef (docEnv s) (typeToDef s t) = .ok t := by
  simp only [typeOK, Bool.and_eq_true, List.all_eq_true, Bool.not_eq_true'] at h
  obtain ⟨⟨⟨⟨⟨⟨⟨⟨⟨⟨hs, hfs⟩, his⟩, hvs⟩, hdup⟩, hint⟩, hmem⟩, hres⟩, hbi⟩, hdesc⟩, _⟩ := h
  have hf := mapM_to_doc (fieldToDef s) (buildField (docEnv s)) t.fields (fun f hf => field_to_doc_build s f (hfs f hf))
  have hi := mapM_to_doc (argToDef s) (buildArgument (docEnv s)) t.inputFields (fun a ha => arg_to_doc_build s a (his a ha))
  have hv := mapM_to_doc enumValToDef buildEnumValue t.values (fun v hv => enum_value_to_doc_build v (hvs v hv))
  have hci : checkNames (docEnv s) t.interfaces = .ok () := (checkNames_ok_iff _ _).mpr (by simpa [List.all_eq_true] using hint)
  have hcm : checkNames (docEnv s) t.members = .ok () := (checkNames_ok_iff _ _).mpr (by simpa [List.all_eq_true] using hmem)
  have hdup' : hasDup ((t.values.map enumValToDef).map (·.name)) = false := by
    rw [List.map_map]; exact hdup
  have hd := descToDoc_ok t.desc hdesc
  cases t with
  | mk kind name desc interfaces fields members values inputFields defaultResolver builtin =>
    simp only [] at hf hi hv hci hcm hdup' hs hres hbi hd
    have e1 : defaultResolver = none := by simpa using hres
    subst e1 hbi
    cases kind <;> simp only [shapeOK, Bool.and_eq_true, List.isEmpty_iff] at hs <;>
      simp_all [buildTypeDef, typeToDef, failIf, bind, Except.bind, pure, Except.pure]

theorem directive_to_doc_build (s : SchemaD) (d : DirectiveD) (h : directiveOK s d = true) :
    buildDirective (docEnv s) (directiveToDef s d) = .ok d := by
  simp only [directiveOK, Bool.and_eq_true, List.all_eq_true] at h
  obtain ⟨⟨h1, h2⟩, _⟩ := h
  have hargs := mapM_to_doc (argToDef s) (buildArgument (docEnv s)) d.args (fun a ha => arg_to_doc_build s a (h1 a ha))
  have hd := descToDoc_ok d.desc h2
  cases d
  simp only [] at hargs hd
  simp [buildDirective, directiveToDef, hargs, hd, bind, Except.bind, pure, Except.pure]

/-! ### the printed document -/

private theorem typeDefs_append (a b : Doc) : typeDefs (a ++ b) = typeDefs a ++ typeDefs b := by
  simp [typeDefs, List.filterMap_append]

private theorem typeDefs_types (s : SchemaD) (l : List TypeD) : typeDefs (l.map (fun x => Def.type (typeToDef s x))) = l.map (typeToDef s) := by
  induction l with
  | nil => rfl
  | cons x xs ih => simp only [List.map_cons]; rw [show (Def.type (typeToDef s x) :: xs.map (fun x => Def.type (typeToDef s x))) = [Def.type (typeToDef s x)] ++ xs.map (fun x => Def.type (typeToDef s x)) from rfl, typeDefs_append, ih]; rfl

private theorem typeDefs_dirs (s : SchemaD) (l : List DirectiveD) : typeDefs (l.map (fun x => Def.directive (directiveToDef s x))) = [] := by
  induction l with
  | nil => rfl
  | cons x xs ih => simp only [List.map_cons]; rw [show (Def.directive (directiveToDef s x) :: xs.map (fun x => Def.directive (directiveToDef s x))) = [Def.directive (directiveToDef s x)] ++ xs.map (fun x => Def.directive (directiveToDef s x)) from rfl, typeDefs_append, ih]; rfl

private theorem typeDefs_block (c : Bool) (sd : SchemaDef) : typeDefs (if c then [Def.schema sd] else []) = [] := by
  cases c <;> rfl

private theorem dirDefs_append (a b : Doc) : dirDefs (a ++ b) = dirDefs a ++ dirDefs b := by
  simp [dirDefs, List.filterMap_append]

private theorem dirDefs_types (s : SchemaD) (l : List TypeD) : dirDefs (l.map (fun x => Def.type (typeToDef s x))) = [] := by
  induction l with
  | nil => rfl
  | cons x xs ih => simp only [List.map_cons]; rw [show (Def.type (typeToDef s x) :: xs.map (fun x => Def.type (typeToDef s x))) = [Def.type (typeToDef s x)] ++ xs.map (fun x => Def.type (typeToDef s x)) from rfl, dirDefs_append, ih]; rfl

private theorem dirDefs_dirs (s : SchemaD) (l : List DirectiveD) : dirDefs (l.map (fun x => Def.directive (directiveToDef s x))) = l.map (directiveToDef s) := by
  induction l with
  | nil => rfl
  | cons x xs ih => simp only [List.map_cons]; rw [show (Def.directive (directiveToDef s x) :: xs.map (fun x => Def.directive (directiveToDef s x))) = [Def.directive (directiveToDef s x)] ++ xs.map (fun x => Def.directive (directiveToDef s x)) from rfl, dirDefs_append, ih]; rfl

private theorem dirDefs_block (c : Bool) (sd : SchemaDef) : dirDefs (if c then [Def.schema sd] else []) = [] := by
  cases c <;> rfl

private theorem typeExts_append (a b : Doc) : typeExts (a ++ b) = typeExts a ++ typeExts b := by
  simp [typeExts, List.filterMap_append]

private theorem typeExts_types (s : SchemaD) (l : List TypeD) : typeExts (l.map (fun x => Def.type (typeToDef s x))) = [] := by
  induction l with
  | nil => rfl
  | cons x xs ih => simp only [List.map_cons]; rw [show (Def.type (typeToDef s x) :: xs.map (fun x => Def.type (typeToDef s x))) = [Def.type (typeToDef s x)] ++ xs.map (fun x => Def.type (typeToDef s x)) from rfl, typeExts_append, ih]; rfl

private theorem typeExts_dirs (s : SchemaD) (l : List DirectiveD) : typeExts (l.map (fun x => Def.directive (directiveToDef s x))) = [] := by
  induction l with
  | nil => rfl
  | cons x xs ih => simp only [List.map_cons]; rw [show (Def.directive (directiveToDef s x) :: xs.map (fun x => Def.directive (directiveToDef s x))) = [Def.directive (directiveToDef s x)] ++ xs.map (fun x => Def.directive (directiveToDef s x)) from rfl, typeExts_append, ih]; rfl

private theorem typeExts_block (c : Bool) (sd : SchemaDef) : typeExts (if c then [Def.schema sd] else []) = [] := by
  cases c <;> rfl

private theorem schemaExtensions_append (a b : Doc) : schemaExtensions (a ++ b) = schemaExtensions a ++ schemaExtensions b := by
  simp [schemaExtensions, List.filterMap_append]

private theorem schemaExtensions_types (s : SchemaD) (l : List TypeD) : schemaExtensions (l.map (fun x => Def.type (typeToDef s x))) = [] := by
  induction l with
  | nil => rfl
  | cons x xs ih => simp only [List.map_cons]; rw [show (Def.type (typeToDef s x) :: xs.map (fun x => Def.type (typeToDef s x))) = [Def.type (typeToDef s x)] ++ xs.map (fun x => Def.type (typeToDef s x)) from rfl, schemaExtensions_append, ih]; rfl

private theorem schemaExtensions_dirs (s : SchemaD) (l : List DirectiveD) : schemaExtensions (l.map (fun x => Def.directive (directiveToDef s x))) = [] := by
  induction l with
  | nil => rfl
  | cons x xs ih => simp only [List.map_cons]; rw [show (Def.directive (directiveToDef s x) :: xs.map (fun x => Def.directive (directiveToDef s x))) = [Def.directive (directiveToDef s x)] ++ xs.map (fun x => Def.directive (directiveToDef s x)) from rfl, schemaExtensions_append, ih]; rfl

private theorem schemaExtensions_block (c : Bool) (sd : SchemaDef) : schemaExtensions (if c then [Def.schema sd] else []) = [] := by
  cases c <;> rfl

private theorem schemaDefs_append (a b : Doc) : schemaDefs (a ++ b) = schemaDefs a ++ schemaDefs b := by
  simp [schemaDefs, List.filterMap_append]

private theorem schemaDefs_types (s : SchemaD) (l : List TypeD) : schemaDefs (l.map (fun x => Def.type (typeToDef s x))) = [] := by
  induction l with
  | nil => rfl
  | cons x xs ih => simp only [List.map_cons]; rw [show (Def.type (typeToDef s x) :: xs.map (fun x => Def.type (typeToDef s x))) = [Def.type (typeToDef s x)] ++ xs.map (fun x => Def.type (typeToDef s x)) from rfl, schemaDefs_append, ih]; rfl

private theorem schemaDefs_dirs (s : SchemaD) (l : List DirectiveD) : schemaDefs (l.map (fun x => Def.directive (directiveToDef s x))) = [] := by
  induction l with
  | nil => rfl
  | cons x xs ih => simp only [List.map_cons]; rw [show (Def.directive (directiveToDef s x) :: xs.map (fun x => Def.directive (directiveToDef s x))) = [Def.directive (directiveToDef s x)] ++ xs.map (fun x => Def.directive (directiveToDef s x)) from rfl, schemaDefs_append, ih]; rfl

private theorem schemaDefs_block (c : Bool) (sd : SchemaDef) : schemaDefs (if c then [Def.schema sd] else []) = (if c then [sd] else []) := by
  cases c <;> rfl

theorem typeDefs_schemaToDoc (s : SchemaD) : typeDefs (schemaToDoc s) = s.types.map (typeToDef s) := by
  simp only [schemaToDoc, typeDefs_append, typeDefs_block, typeDefs_dirs, typeDefs_types, List.nil_append]

theorem dirDefs_schemaToDoc (s : SchemaD) : dirDefs (schemaToDoc s) = s.directives.map (directiveToDef s) := by
  simp only [schemaToDoc, dirDefs_append, dirDefs_block, dirDefs_dirs, dirDefs_types, List.nil_append, List.append_nil]

theorem typeExts_schemaToDoc (s : SchemaD) : typeExts (schemaToDoc s) = [] := by
  simp only [schemaToDoc, typeExts_append, typeExts_block, typeExts_dirs, typeExts_types, List.append_nil]

theorem schemaExtensions_schemaToDoc (s : SchemaD) : schemaExtensions (schemaToDoc s) = [] := by
  simp only [schemaToDoc, schemaExtensions_append, schemaExtensions_block, schemaExtensions_dirs, schemaExtensions_types, List.append_nil]

theorem schemaDefs_schemaToDoc (s : SchemaD) :
    schemaDefs (schemaToDoc s) = if needsSchemaBlock s then [{ ops := rootOps s }] else [] := by
  simp only [schemaToDoc, schemaDefs_append, schemaDefs_block, schemaDefs_dirs, schemaDefs_types, List.append_nil]

/-! ### root operation types and the `schema { … }` block rule -/

/-- a root operation type, if set, is an OBJECT type of the schema (the validity rule for roots) -/
def rootIsObject (s : SchemaD) (r : Option String) : Bool :=
  match r with | some q => s.types.any (fun t => t.name == q && t.kind == .object) | none => true

/-- the three roots are object types of the schema. (Since fix H9 nothing more is needed: the printer writes the
    `schema` block whenever re-reading the document would not infer the same roots.) -/
def rootsOK (s : SchemaD) : Bool := rootIsObject s s.query && rootIsObject s s.mutation && rootIsObject s s.subscription

theorem root_resolves (s : SchemaD) (q : String) (h : s.types.any (fun t => t.name == q && t.kind == .object) = true) :
    (docEnv s).resolves q = true := by
  obtain ⟨t, ht, hq⟩ := List.any_eq_true.mp h
  simp only [Bool.and_eq_true] at hq
  have hf : (s.findType q).isSome = true := by
    simp only [SchemaD.findType, List.find?_isSome]
    exact ⟨t, ht, hq.1⟩
  simp only [Env.resolves, docEnv_findDef, Option.isSome_map, hf, Bool.or_true]

/-- the H9 rule is exactly what makes the default root names right: if the printer omits the `schema` block, reading
    the document back infers the schema's own roots -/
theorem defaultRoots_of_implied (s : SchemaD) (hn : needsSchemaBlock s = false) (hr : rootsOK s = true) :
    defaultRoots s.types = ⟨s.query, s.mutation, s.subscription⟩ := by
  have pick : ∀ (r : Option String) (n : String), rootImplied s r n = true → rootIsObject s r = true →
      (if s.types.any (fun t => t.name == n && t.kind == .object) then some n else none) = r := by
    intro r n hi ho
    cases r with
    | none =>
      simp only [rootImplied, Bool.not_eq_true'] at hi
      have : s.types.any (fun t => t.name == n && t.kind == .object) = false := by
        rw [List.any_eq_false] at hi ⊢
        intro t ht
        have := hi t ht
        simp [this]
      simp [this]
    | some x =>
      simp only [rootImplied] at hi
      have e : x = n := by simpa using hi
      subst e
      simp only [rootIsObject] at ho
      simp [ho]
  simp only [needsSchemaBlock, Bool.not_eq_false', Bool.and_eq_true] at hn
  simp only [rootsOK, Bool.and_eq_true] at hr
  simp only [defaultRoots]
  rw [pick s.query "Query" hn.1.1 hr.1.1, pick s.mutation "Mutation" hn.1.2 hr.1.2, pick s.subscription "Subscription" hn.2 hr.2]

theorem roots_addOps (s : SchemaD) (res : String → Bool) (hq : ∀ q, s.query = some q → res q = true)
    (hm : ∀ q, s.mutation = some q → res q = true) (hs : ∀ q, s.subscription = some q → res q = true) :
    addOps res (.lib .sdl) {} (rootOps s) = .ok ⟨s.query, s.mutation, s.subscription⟩ := by
  cases eq : s.query <;> cases em : s.mutation <;> cases es : s.subscription <;>
    simp_all [rootOps, addOps, Roots.get, Roots.set, pure, Except.pure]

/-! ### the decidable well-formedness predicate and the theorem -/

/-- **Well-formedness for the print/build round trip** (decidable). A schema description satisfies it iff
    * every type is `typeOK` (members of its kind only, known references, canonical default values — `wtB`: NoH2 /
      NoH8 —, SDL-style enum values, non-empty descriptions — NoH5 — and deprecation reasons — NoH6 —, no
      resolver attached: by-name content), every directive definition is `directiveOK`;
    * type names and directive names are unique and do not shadow built-in ones;
    * the roots are object types of the schema (`rootsOK`); no type refers to itself eagerly, no default value needs its own type's fields. -/
def printBuildWF (s : SchemaD) : Bool :=
  s.types.all (typeOK s) && s.directives.all (directiveOK s) && !hasDup (s.types.map (·.name)) && !hasDup (s.directives.map (·.name)) &&
  rootsOK s && !hasThunkCycle (docEnv s) (s.types.map (typeToDef s)) && !hasEagerCycle s.types && s.defaultResolver.isNone

theorem declared_schemaToDoc (s : SchemaD) (h : printBuildWF s = true) : Declared (schemaToDoc s) = some s := by
  simp only [printBuildWF, Bool.and_eq_true, List.all_eq_true, Bool.not_eq_true'] at h
  obtain ⟨⟨⟨⟨⟨⟨⟨hty, hdi⟩, _⟩, _⟩, hro⟩, _⟩, _⟩, hres⟩ := h
  have hmerged : merged (schemaToDoc s) = s.types.map (typeToDef s) := by
    rw [merged_noext _ (typeExts_schemaToDoc s), typeDefs_schemaToDoc]
  have htypes : (s.types.map (typeToDef s)).mapM (buildTypeDef (docEnv s)) = .ok s.types :=
    mapM_to_doc _ _ _ (fun t ht => type_to_doc_build s t (hty t ht))
  have hdirs : (s.directives.map (directiveToDef s)).mapM (buildDirective (docEnv s)) = .ok s.directives :=
    mapM_to_doc _ _ _ (fun d hd => directive_to_doc_build s d (hdi d hd))
  have hroots : declaredRoots (schemaToDoc s) s.types = ⟨s.query, s.mutation, s.subscription⟩ := by
    simp only [declaredRoots, schemaExtensions_schemaToDoc, schemaDefs_schemaToDoc, List.foldl_nil]
    by_cases hn : needsSchemaBlock s = true
    · simp only [hn, if_true]
      cases hq : s.query <;> cases hm : s.mutation <;> cases hs : s.subscription <;> simp [rootOps, hq, hm, hs, Roots.set]
    · simp only [hn, Bool.false_eq_true, if_false]
      exact defaultRoots_of_implied s (by simpa using hn) hro
  unfold Declared
  simp only [hmerged, dirDefs_schemaToDoc]
  have e : Env.of (s.types.map (typeToDef s)) = docEnv s := rfl
  rw [e, htypes, hdirs]
  simp only [hroots]
  have e1 : s.defaultResolver = none := by simpa using hres
  cases s
  simp only [] at e1
  subst e1
  rfl

/-- **print_build_roundtrip** (C12 headline, by-name model): for every schema description satisfying the explicit,
    decidable predicate `printBuildWF`, building the document the schema printer denotes — schema block by the
    printer's rule, directive definitions, type definitions with descriptions, deprecations and default values
    written as literals — gives back EXACTLY the schema. -/
theorem print_build_roundtrip (s : SchemaD) (h : printBuildWF s = true) : build (schemaToDoc s) = .ok s := by
  have hdecl := declared_schemaToDoc s h
  simp only [printBuildWF, Bool.and_eq_true, List.all_eq_true, Bool.not_eq_true'] at h
  obtain ⟨⟨⟨⟨⟨⟨⟨hty, hdi⟩, hut⟩, hud⟩, hro⟩, hth⟩, hea⟩, hres⟩ := h
  have htd := typeDefs_schemaToDoc s
  apply build_exact_noext
  exact
    { uniqueTypes := by
        rw [htd, List.map_map]; exact (hasDup_false_iff _).mp hut
      uniqueDirectives := by
        rw [dirDefs_schemaToDoc, List.map_map]; exact (hasDup_false_iff _).mp hud
      oneSchema := by rw [schemaDefs_schemaToDoc]; split <;> simp
      noBuiltinNames := by
        intro t ht
        rw [htd] at ht
        obtain ⟨t0, ht0, rfl⟩ := List.mem_map.mp ht
        have := hty t0 ht0
        simp only [typeOK, Bool.and_eq_true, Bool.not_eq_true'] at this
        exact this.2
      noTypeExt := typeExts_schemaToDoc s
      noSchemaExt := schemaExtensions_schemaToDoc s
      declares := hdecl
      noThunkCycle := by rw [htd]; exact hth
      noEagerCycle := hea
      noSpecified := by
        rw [List.any_eq_false]
        intro d hd
        have := hdi d hd
        simp only [directiveOK, Bool.and_eq_true, Bool.not_eq_true'] at this
        rw [this.2]; simp
      rootsOk := by
        rw [htd, schemaDefs_schemaToDoc]
        have hro' := hro
        simp only [rootsOK, Bool.and_eq_true] at hro'
        by_cases hn : needsSchemaBlock s = true
        · simp only [hn, if_true, List.head?_cons, buildRoots]
          have e : Env.of (s.types.map (typeToDef s)) = docEnv s := rfl
          rw [e]
          exact roots_addOps s _ (fun q e => by have := hro'.1.1; rw [e] at this; exact root_resolves s q this)
            (fun q e => by have := hro'.1.2; rw [e] at this; exact root_resolves s q this)
            (fun q e => by have := hro'.2; rw [e] at this; exact root_resolves s q this)
        · simp only [hn, Bool.false_eq_true, if_false, List.head?_nil, buildRoots, pure, Except.pure]
          rw [defaultRoots_of_implied s (by simpa using hn) hro] }

/-! ### the `schema` block written although every root is implied

With `include_custom_schema_directives` a schema-level directive node makes `print_schema_definition` write the block
(`not directives and …`) even when re-reading the document would infer the same roots.  The document then names the roots
explicitly; it builds to the same schema. -/

/-- the printer's document with the `schema` block forced by `b` -/
def schemaToDocB (s : SchemaD) (b : Bool) : Doc :=
  (if needsSchemaBlock s || b then [.schema { ops := rootOps s }] else []) ++
  s.directives.map (fun d => .directive (directiveToDef s d)) ++ s.types.map (fun t => .type (typeToDef s t))

theorem schemaToDocB_false (s : SchemaD) : schemaToDocB s false = schemaToDoc s := by
  simp [schemaToDocB, schemaToDoc]

private theorem typeDefs_schemaToDocB (s : SchemaD) (b : Bool) : typeDefs (schemaToDocB s b) = s.types.map (typeToDef s) := by
  simp only [schemaToDocB, typeDefs_append, typeDefs_block, typeDefs_dirs, typeDefs_types, List.nil_append]

private theorem dirDefs_schemaToDocB (s : SchemaD) (b : Bool) : dirDefs (schemaToDocB s b) = s.directives.map (directiveToDef s) := by
  simp only [schemaToDocB, dirDefs_append, dirDefs_block, dirDefs_dirs, dirDefs_types, List.nil_append, List.append_nil]

private theorem typeExts_schemaToDocB (s : SchemaD) (b : Bool) : typeExts (schemaToDocB s b) = [] := by
  simp only [schemaToDocB, typeExts_append, typeExts_block, typeExts_dirs, typeExts_types, List.append_nil]

private theorem schemaExtensions_schemaToDocB (s : SchemaD) (b : Bool) : schemaExtensions (schemaToDocB s b) = [] := by
  simp only [schemaToDocB, schemaExtensions_append, schemaExtensions_block, schemaExtensions_dirs, schemaExtensions_types, List.append_nil]

private theorem schemaDefs_schemaToDocB (s : SchemaD) (b : Bool) :
    schemaDefs (schemaToDocB s b) = if needsSchemaBlock s || b then [{ ops := rootOps s }] else [] := by
  simp only [schemaToDocB, schemaDefs_append, schemaDefs_block, schemaDefs_dirs, schemaDefs_types, List.append_nil]

theorem declared_schemaToDocB (s : SchemaD) (b : Bool) (h : printBuildWF s = true) : Declared (schemaToDocB s b) = some s := by
  simp only [printBuildWF, Bool.and_eq_true, List.all_eq_true, Bool.not_eq_true'] at h
  obtain ⟨⟨⟨⟨⟨⟨⟨hty, hdi⟩, _⟩, _⟩, hro⟩, _⟩, _⟩, hres⟩ := h
  have hmerged : merged (schemaToDocB s b) = s.types.map (typeToDef s) := by
    rw [merged_noext _ (typeExts_schemaToDocB s b), typeDefs_schemaToDocB]
  have htypes : (s.types.map (typeToDef s)).mapM (buildTypeDef (docEnv s)) = .ok s.types :=
    mapM_to_doc _ _ _ (fun t ht => type_to_doc_build s t (hty t ht))
  have hdirs : (s.directives.map (directiveToDef s)).mapM (buildDirective (docEnv s)) = .ok s.directives :=
    mapM_to_doc _ _ _ (fun d hd => directive_to_doc_build s d (hdi d hd))
  have hroots : declaredRoots (schemaToDocB s b) s.types = ⟨s.query, s.mutation, s.subscription⟩ := by
    simp only [declaredRoots, schemaExtensions_schemaToDocB, schemaDefs_schemaToDocB, List.foldl_nil]
    by_cases hn : (needsSchemaBlock s || b) = true
    · simp only [hn, if_true]
      cases hq : s.query <;> cases hm : s.mutation <;> cases hs : s.subscription <;> simp [rootOps, hq, hm, hs, Roots.set]
    · simp only [hn, Bool.false_eq_true, if_false]
      have hn' : needsSchemaBlock s = false := by
        cases hh : needsSchemaBlock s with
        | false => rfl
        | true => simp [hh] at hn
      exact defaultRoots_of_implied s hn' hro
  unfold Declared
  simp only [hmerged, dirDefs_schemaToDocB]
  have e : Env.of (s.types.map (typeToDef s)) = docEnv s := rfl
  rw [e, htypes, hdirs]
  simp only [hroots]
  have e1 : s.defaultResolver = none := by simpa using hres
  cases s
  simp only [] at e1
  subst e1
  rfl

/-- **print_build_roundtrip_block** — `print_build_roundtrip` for the document with a `schema` block that the printer
    writes only because of a schema-level directive node: naming the implied roots explicitly builds the same schema. -/
theorem print_build_roundtrip_block (s : SchemaD) (b : Bool) (h : printBuildWF s = true) : build (schemaToDocB s b) = .ok s := by
  have hdecl := declared_schemaToDocB s b h
  simp only [printBuildWF, Bool.and_eq_true, List.all_eq_true, Bool.not_eq_true'] at h
  obtain ⟨⟨⟨⟨⟨⟨⟨hty, hdi⟩, hut⟩, hud⟩, hro⟩, hth⟩, hea⟩, hres⟩ := h
  have htd := typeDefs_schemaToDocB s b
  apply build_exact_noext
  exact
    { uniqueTypes := by
        rw [htd, List.map_map]; exact (hasDup_false_iff _).mp hut
      uniqueDirectives := by
        rw [dirDefs_schemaToDocB, List.map_map]; exact (hasDup_false_iff _).mp hud
      oneSchema := by rw [schemaDefs_schemaToDocB]; split <;> simp
      noBuiltinNames := by
        intro t ht
        rw [htd] at ht
        obtain ⟨t0, ht0, rfl⟩ := List.mem_map.mp ht
        have := hty t0 ht0
        simp only [typeOK, Bool.and_eq_true, Bool.not_eq_true'] at this
        exact this.2
      noTypeExt := typeExts_schemaToDocB s b
      noSchemaExt := schemaExtensions_schemaToDocB s b
      declares := hdecl
      noThunkCycle := by rw [htd]; exact hth
      noEagerCycle := hea
      noSpecified := by
        rw [List.any_eq_false]
        intro d hd
        have := hdi d hd
        simp only [directiveOK, Bool.and_eq_true, Bool.not_eq_true'] at this
        rw [this.2]; simp
      rootsOk := by
        rw [htd, schemaDefs_schemaToDocB]
        have hro' := hro
        simp only [rootsOK, Bool.and_eq_true] at hro'
        by_cases hn : (needsSchemaBlock s || b) = true
        · simp only [hn, if_true, List.head?_cons, buildRoots]
          have e : Env.of (s.types.map (typeToDef s)) = docEnv s := rfl
          rw [e]
          exact roots_addOps s _ (fun q e => by have := hro'.1.1; rw [e] at this; exact root_resolves s q this)
            (fun q e => by have := hro'.1.2; rw [e] at this; exact root_resolves s q this)
            (fun q e => by have := hro'.2; rw [e] at this; exact root_resolves s q this)
        · simp only [hn, Bool.false_eq_true, if_false, List.head?_nil, buildRoots, pure, Except.pure]
          have hn' : needsSchemaBlock s = false := by
            cases hh : needsSchemaBlock s with
            | false => rfl
            | true => simp [hh] at hn
          rw [defaultRoots_of_implied s hn' hro] }

end PyGql.Props.C12

/-
  C13 ⟶ C20: a non-vacuous instance of `Props.C20.operations_stay_valid_of_valid`: two schema descriptions on which
  C13's `validate` returns no error (so `ValidSchema` holds by `validate_iff`), a compatible evolution of input
  positions between them, and a document with variables inside list and object literals that stays valid.
-/
import PyGqlModel.Props.C20_wf_of_valid
import PyGqlModel.Props.C13

set_option linter.unusedSimpArgs false
set_option linter.unusedVariables false

namespace PyGql.Props.C20
open PyGql PyGql.Differ PyGql.Diff PyGql.SchemaValidSpec


private def wBuiltins : List TypeD :=
  [{ kind := .scalar, name := "Int", builtin := true }, { kind := .scalar, name := "String", builtin := true },
   { kind := .scalar, name := "Boolean", builtin := true },
   { kind := .object, name := "__Schema", builtin := true, fields := [{ name := "types", type := .named "__Type" }] },
   { kind := .object, name := "__Type", builtin := true, fields := [{ name := "name", type := .named "String" }] }]

private def wO : SchemaD :=
  { query := some "Query",
    types := wBuiltins ++
      [{ kind := .enum, name := "Color", values := [{ name := "RED", value := .str "RED" }] },
       { kind := .input, name := "In",
         inputFields := [{ name := "x", type := .nonNull (.named "Int") },
                         { name := "ys", type := .list (.nonNull (.named "Int")) }] },
       { kind := .object, name := "Query",
         fields := [{ name := "f", type := .named "Int",
                      args := [{ name := "a", type := .nonNull (.named "In") }, { name := "c", type := .named "Color" }] }] }] }

private def wN : SchemaD :=
  { query := some "Query",
    types := wBuiltins ++
      [{ kind := .enum, name := "Color", values := [{ name := "RED", value := .str "RED" }, { name := "BLUE", value := .str "BLUE" }] },
       { kind := .input, name := "In",
         inputFields := [{ name := "x", type := .named "Int" }, { name := "ys", type := .list (.named "Int") },
                         { name := "extra", type := .named "String" }] },
       { kind := .object, name := "Query",
         fields := [{ name := "f", type := .named "Int",
                      args := [{ name := "a", type := .named "In" }, { name := "c", type := .named "Color" }] }] }] }

/-- `query ($v: Int!) { f(a: {x: $v, ys: [$v]}, c: RED) }` -/
private def wDoc : Validate.Doc :=
  { defs := [.op "query" none [{ name := "v", type := .nonNull (.named "Int"), default := none }] [] 0
      [.field none "f"
        [{ name := "a", value := .obj [.mk "x" (.var "v"), .mk "ys" (.list [.var "v"])] },
         { name := "c", value := .enum "RED" }] [] false 0 []]] }

example : SchemaRulesAll wN {} wDoc :=
  operations_stay_valid_of_valid wO wN true (by decide +kernel)
    ((PyGql.Props.C13.validate_iff wO true).1 (by decide)) ((PyGql.Props.C13.validate_iff wN true).1 (by decide))
    (by unfold DumpShape; decide) (by unfold DumpShape; decide) (by unfold ArgTypesWf; decide) (by decide) {} rfl rfl wDoc
    (rooted_of_rootedB wO wDoc (by decide))
    ⟨rules_of_rulesB wO wDoc (by decide), spreads_of_spreadsB wO {} wDoc (by decide),
     (PyGql.Props.C06.rule_values_of_correct_type_iff wO {} wDoc).mp (by unfold PyGql.Props.C06.Silent; decide +kernel),
     (PyGql.Props.C06.rule_variables_in_allowed_position_iff wO {} rfl rfl wDoc).mp
       (by unfold PyGql.Props.C06.Silent; decide +kernel)⟩

end PyGql.Props.C20

/-
  C20 — "whenever no breaking change is reported, every operation valid against the old schema is
  valid against the new one": the schema-shape half, as preservation theorems on the diff model.
  Each is the contrapositive of "this edit is reported as BREAKING".
-/
import PyGqlModel.Diff
import PyGqlModel.Props.C20_diff

set_option linter.unusedSimpArgs false
set_option linter.unusedVariables false

namespace PyGql.Props.C20
open PyGql PyGql.Differ PyGql.Diff PyGql.Generated.Differ

private theorem mkSev (c : String) (k) (r : Bool) : (mk c k r).severity = sev c r := rfl

private theorem not_mem_of_nil {α} {l : List α} (h : l = []) (x : α) : x ∉ l := by
  rw [h]; exact List.not_mem_nil

/-- generic: a BREAKING change produced by the object-type pass cannot exist when the BREAKING report is empty -/
private theorem no_object_breaking (o n : SchemaD) (h : diffSchema o n 2 = []) (c : Change)
    (hc : c ∈ diffObjectTypes o n) (hs : c.severity = 2) : False := by
  have : c ∈ diffSchema o n 2 := by
    unfold diffSchema
    apply List.mem_filter.mpr
    refine ⟨?_, by simp [hs]⟩
    simp only [List.mem_append]
    iterate 2 left
    right
    exact hc
  exact not_mem_of_nil h c this

/-- **Types are kept**: with no BREAKING change, every type of the old schema still exists. -/
theorem nobreaking_types_kept (o n : SchemaD) (h : diffSchema o n 2 = [])
    (t : TypeD) (ht : t ∈ o.types) : (n.findType t.name).isSome = true := by
  cases hf : n.findType t.name with
  | some _ => rfl
  | none =>
    exfalso
    have := removed_type_reported o n t 2 (Nat.le_refl _) ht hf
    exact not_mem_of_nil h _ this

/-- **Kinds are kept**: with no BREAKING change, a type keeps its kind (object stays object, …). -/
theorem nobreaking_kinds_kept (o n : SchemaD) (h : diffSchema o n 2 = [])
    (t t' : TypeD) (ht : t ∈ o.types) (hf : n.findType t.name = some t') : t.kind = t'.kind := by
  by_cases hk : t.kind = t'.kind
  · exact hk
  · exfalso
    have hc : mk "TypeChangedKind" [("new_kind_name", kindName t'.kind), ("old_kind_name", kindName t.kind), ("type_name", t.name)]
        ∈ diffSchema o n 2 := by
      unfold diffSchema
      apply List.mem_filter.mpr
      constructor
      · simp only [List.mem_append]
        iterate 5 left
        right
        unfold findChangedTypes
        apply List.mem_filterMap.mpr
        refine ⟨t, ht, ?_⟩
        simp [hf, hk]
      · have : sev "TypeChangedKind" false = 2 := by decide
        simp [mkSev, this]
    exact not_mem_of_nil h _ hc

/-- **Fields are kept**: with no BREAKING change, every field of an object type present in both
    schemas still exists (so `FieldsOnCorrectType` keeps holding for operations valid on the old schema). -/
theorem nobreaking_fields_kept (o n : SchemaD) (h : diffSchema o n 2 = [])
    (ot nt : TypeD) (hp : (ot, nt) ∈ matchingPairs o n .object) (f : FieldD) (hf : f ∈ ot.fields) :
    (nt.fields.find? (·.name == f.name)).isSome = true := by
  cases hn : nt.fields.find? (·.name == f.name) with
  | some _ => rfl
  | none =>
    exfalso
    have := removed_field_reported o n ot nt f 2 (Nat.le_refl _) hp hf hn
    exact not_mem_of_nil h _ this

/-- **Arguments are kept**: with no BREAKING change, every argument of a kept field still exists
    (`KnownArgumentNames` keeps holding). -/
theorem nobreaking_arguments_kept (o n : SchemaD) (h : diffSchema o n 2 = [])
    (ot nt : TypeD) (hp : (ot, nt) ∈ matchingPairs o n .object)
    (f g : FieldD) (hf : f ∈ ot.fields) (hg : nt.fields.find? (·.name == f.name) = some g)
    (a : ArgD) (ha : a ∈ f.args) : (g.args.find? (·.name == a.name)).isSome = true := by
  cases hn : g.args.find? (·.name == a.name) with
  | some _ => rfl
  | none =>
    exfalso
    apply no_object_breaking o n h (mk "FieldArgumentRemoved" [("argument", a.name), ("field", f.name), ("type", ot.name)])
    · unfold diffObjectTypes
      apply List.mem_flatMap.mpr
      refine ⟨(ot, nt), hp, ?_⟩
      simp only [List.mem_append]
      left; left
      unfold diffFields
      simp only [List.mem_append]
      left
      apply List.mem_flatMap.mpr
      refine ⟨f, hf, ?_⟩
      simp only [hg, diffField, List.mem_append]
      left; right
      unfold diffFieldArguments
      simp only [List.mem_append]
      left; left
      apply List.mem_filterMap.mpr
      exact ⟨a, ha, by simp [hn]⟩
    · have : sev "FieldArgumentRemoved" false = 2 := by decide
      rw [mkSev, this]

/-- **No new required argument**: with no BREAKING change, an argument added to a kept field is not
    required (`ProvidedRequiredArguments` keeps holding). -/
theorem nobreaking_no_new_required_argument (o n : SchemaD) (h : diffSchema o n 2 = [])
    (ot nt : TypeD) (hp : (ot, nt) ∈ matchingPairs o n .object)
    (f g : FieldD) (hf : f ∈ ot.fields) (hg : nt.fields.find? (·.name == f.name) = some g)
    (b : ArgD) (hb : b ∈ g.args) (hnew : f.args.find? (·.name == b.name) = none) :
    ArgD.required b = false := by
  cases hr : ArgD.required b with
  | false => rfl
  | true =>
    exfalso
    apply no_object_breaking o n h (mk "FieldArgumentAdded" [("argument", b.name), ("field", g.name), ("type", ot.name)] true)
    · unfold diffObjectTypes
      apply List.mem_flatMap.mpr
      refine ⟨(ot, nt), hp, ?_⟩
      simp only [List.mem_append]
      left; left
      unfold diffFields
      simp only [List.mem_append]
      left
      apply List.mem_flatMap.mpr
      refine ⟨f, hf, ?_⟩
      simp only [hg, diffField, List.mem_append]
      left; right
      unfold diffFieldArguments
      simp only [List.mem_append]
      left; right
      apply List.mem_map.mpr
      refine ⟨b, List.mem_filter.mpr ⟨hb, by simp [hnew]⟩, ?_⟩
      simp [hr]
    · have : sev "FieldArgumentAdded" true = 2 := by decide
      rw [mkSev, this]


private theorem no_breaking_at (o n : SchemaD) (h : diffSchema o n 2 = []) (c : Change)
    (hc : c ∈ findRemovedTypes o n ++ findAddedTypes o n ++ diffDirectives o n ++ findChangedTypes o n
      ++ diffUnionTypes o n ++ diffEnumTypes o n ++ diffObjectTypes o n ++ diffInterfaceTypes o n
      ++ diffInputTypes o n) (hs : c.severity = 2) : False := by
  have : c ∈ diffSchema o n 2 := by
    unfold diffSchema
    refine List.mem_filter.mpr ⟨?_, by simp [hs]⟩
    simp only [List.mem_append] at hc ⊢
    rcases hc with ((((((((h | h) | h) | h) | h) | h) | h) | h) | h) <;> simp [h]
  exact not_mem_of_nil h c this

/-- **Enum values are kept**: with no BREAKING change, every value of an enum present in both schemas
    still exists (enum literals in operations stay valid). -/
theorem nobreaking_enum_values_kept (o n : SchemaD) (h : diffSchema o n 2 = [])
    (oe ne : TypeD) (hp : (oe, ne) ∈ matchingPairs o n .enum) (v : EnumValD) (hv : v ∈ oe.values) :
    (ne.values.find? (·.name == v.name)).isSome = true := by
  cases hn : ne.values.find? (·.name == v.name) with
  | some _ => rfl
  | none =>
    exfalso
    apply no_breaking_at o n h (mk "EnumValueRemoved" [("enum", oe.name), ("value", v.name)])
    · simp only [List.mem_append]
      iterate 3 left
      right
      unfold diffEnumTypes
      apply List.mem_flatMap.mpr
      refine ⟨(oe, ne), hp, ?_⟩
      simp only [List.mem_append]
      left
      apply List.mem_filterMap.mpr
      exact ⟨v, hv, by simp [hn]⟩
    · have : sev "EnumValueRemoved" false = 2 := by decide
      rw [mkSev, this]

/-- **Union members are kept**: fragments on a member type stay possible. -/
theorem nobreaking_union_members_kept (o n : SchemaD) (h : diffSchema o n 2 = [])
    (ou nu : TypeD) (hp : (ou, nu) ∈ matchingPairs o n .union) (m : String) (hm : m ∈ ou.members) :
    nu.members.contains m = true := by
  cases hc : nu.members.contains m with
  | true => rfl
  | false =>
    exfalso
    apply no_breaking_at o n h (mk "TypeRemovedFromUnion" [("type_name", m), ("union", ou.name)])
    · simp only [List.mem_append]
      iterate 4 left
      right
      unfold diffUnionTypes
      apply List.mem_flatMap.mpr
      refine ⟨(ou, nu), hp, ?_⟩
      simp only [List.mem_append]
      left
      apply List.mem_map.mpr
      exact ⟨m, List.mem_filter.mpr ⟨hm, by rw [hc]; rfl⟩, rfl⟩
    · have : sev "TypeRemovedFromUnion" false = 2 := by decide
      rw [mkSev, this]

/-- **Input fields**: with no BREAKING change, every input field is kept with an at-least-as-permissive
    type, and no required input field is added (input object literals and variables stay valid). -/
theorem nobreaking_input_fields (o n : SchemaD) (h : diffSchema o n 2 = [])
    (ot nt : TypeD) (hp : (ot, nt) ∈ matchingPairs o n .input) :
    (∀ f ∈ ot.inputFields, ∃ g, nt.inputFields.find? (·.name == f.name) = some g ∧ InCompat f.type g.type)
    ∧ (∀ g ∈ nt.inputFields, ot.inputFields.find? (·.name == g.name) = none → ArgD.required g = false) := by
  have hmem : ∀ c, c ∈ diffInputTypes o n → c.severity = 2 → False := by
    intro c hc hs
    apply no_breaking_at o n h c _ hs
    simp only [List.mem_append]
    right
    exact hc
  constructor
  · intro f hf
    cases hn : nt.inputFields.find? (·.name == f.name) with
    | none =>
      exfalso
      apply hmem (mk "InputFieldRemoved" [("field", f.name), ("type", ot.name)])
      · unfold diffInputTypes
        apply List.mem_flatMap.mpr
        refine ⟨(ot, nt), hp, ?_⟩
        simp only [List.mem_append]
        left; left
        apply List.mem_filterMap.mpr
        exact ⟨f, hf, by simp [hn]⟩
      · have : sev "InputFieldRemoved" false = 2 := by decide
        rw [mkSev, this]
    | some g =>
      refine ⟨g, rfl, ?_⟩
      apply safeIn_sound
      cases hs : safeIn f.type g.type with
      | true => rfl
      | false =>
        exfalso
        apply hmem (mk "InputFieldChangedType" [("new_field", g.name), ("old_field", f.name), ("type", ot.name)])
        · unfold diffInputTypes
          apply List.mem_flatMap.mpr
          refine ⟨(ot, nt), hp, ?_⟩
          simp only [List.mem_append]
          left; left
          apply List.mem_filterMap.mpr
          exact ⟨f, hf, by simp [hn, hs]⟩
        · have : sev "InputFieldChangedType" false = 2 := by decide
          rw [mkSev, this]
  · intro g hg hnew
    cases hr : ArgD.required g with
    | false => rfl
    | true =>
      exfalso
      apply hmem (mk "InputFieldAdded" [("field", g.name), ("type", nt.name)] true)
      · unfold diffInputTypes
        apply List.mem_flatMap.mpr
        refine ⟨(ot, nt), hp, ?_⟩
        simp only [List.mem_append]
        left; right
        apply List.mem_map.mpr
        refine ⟨g, List.mem_filter.mpr ⟨hg, by simp [hnew]⟩, ?_⟩
        simp [hr]
      · have : sev "InputFieldAdded" true = 2 := by decide
        rw [mkSev, this]

end PyGql.Props.C20

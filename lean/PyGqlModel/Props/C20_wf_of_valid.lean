/-
  C20 ⟵ C13: the well-formedness hypotheses of the "operations stay valid" theorems (`OldWf`, `NewWf`, `OldWfIn`,
  `NewWfIn`) are CONSEQUENCES of C13's `ValidSchema` - the predicate `Schema.validate()` decides (`validate_iff`) and
  that `diff_schema` establishes for both schemas before comparing anything - plus three facts about DUMPS that no
  validation rule states:
  * `DumpShape`: only object / interface types carry `fields`, only input object types carry `inputFields` (the dump of
    a live schema is built that way);
  * the dump lists `String`, `__Schema`, `__Type` (built-in and introspection types are part of `Schema.types`);
  * argument / input field types are well-formed type expressions (no `T!!`).
  `operations_stay_valid_of_valid`: the 25-rule statement with `ValidSchema old` / `ValidSchema new` as hypotheses.
-/
import PyGqlModel.Props.C20_rules_all
import PyGqlModel.Spec.SchemaValidSpec
import PyGqlModel.Lemmas.ListEqv

set_option linter.unusedSimpArgs false
set_option linter.unusedVariables false

namespace PyGql.Props.C20
open PyGql PyGql.Differ PyGql.Diff PyGql.SchemaValidSpec

/-- only object / interface types carry fields, only input object types carry input fields -/
def DumpShape (s : SchemaD) : Prop :=
  ∀ t ∈ s.types, ((t.kind ≠ .object ∧ t.kind ≠ .interface) → t.fields = []) ∧ (t.kind ≠ .input → t.inputFields = [])

/-- argument and input field types are well-formed type expressions -/
def ArgTypesWf (s : SchemaD) : Prop :=
  (∀ t ∈ s.types, ∀ f ∈ t.fields, ∀ a ∈ f.args, a.type.wf = true) ∧
  (∀ d ∈ s.directives, ∀ a ∈ d.args, a.type.wf = true) ∧
  (∀ t ∈ s.types, ∀ a ∈ t.inputFields, a.type.wf = true)

private theorem uniq_of_nodup {l : List ArgD} (h : (l.map (·.name)).Nodup) : Uniq ArgD.name l :=
  fun x hx => PyGql.ListEqv.nodup_uniq (name := ArgD.name) h x hx

private theorem fieldsOK_of {s : SchemaD} {rv : Bool} (V : ValidSchema s rv) (sh : DumpShape s) (t : TypeD)
    (ht : t ∈ s.types) (hne : t.fields ≠ []) : FieldsOK s rv t := by
  have hok := V.2.1 t ht
  by_cases ho : t.kind = .object
  · simp only [TypeOK, ho] at hok; exact hok.2.1
  · by_cases hi : t.kind = .interface
    · simp only [TypeOK, hi] at hok; exact hok.2
    · exact absurd ((sh t ht).1 ⟨ho, hi⟩) hne

private theorem inputOK_of {s : SchemaD} {rv : Bool} (V : ValidSchema s rv) (sh : DumpShape s) (t : TypeD)
    (ht : t ∈ s.types) (hne : t.inputFields ≠ []) : InputOK s t := by
  have hok := V.2.1 t ht
  by_cases hi : t.kind = .input
  · simp only [TypeOK, hi] at hok; exact hok.2
  · exact absurd ((sh t ht).2 hi) hne

private theorem known_of_input {s : SchemaD} {ty : Ty} (h : SchemaValid.isInputType s ty = true) :
    (Validate.kindOf s ty.base).isSome = true := by
  unfold SchemaValid.isInputType at h
  show ((s.findType ty.base).map (·.kind)).isSome = true
  cases hk : SchemaValid.kindOf s ty.base with
  | none => rw [hk] at h; simp at h
  | some k => unfold SchemaValid.kindOf at hk; rw [hk]; rfl

private theorem known_of_output {s : SchemaD} {ty : Ty} (h : SchemaValid.isOutputType s ty = true) :
    (Validate.kindOf s ty.base).isSome = true := by
  unfold SchemaValid.isOutputType at h
  show ((s.findType ty.base).map (·.kind)).isSome = true
  cases hk : SchemaValid.kindOf s ty.base with
  | none => rw [hk] at h; simp at h
  | some k => unfold SchemaValid.kindOf at hk; rw [hk]; rfl

/-- **`NewWf` / `NewWfIn` from validity**: argument and input field names are unique -/
theorem newWf_of_valid (s : SchemaD) (rv : Bool) (V : ValidSchema s rv) (sh : DumpShape s) : NewWf s ∧ NewWfIn s := by
  refine ⟨⟨?_, ?_⟩, ⟨?_⟩⟩
  · intro t ht f hf
    have hfo := fieldsOK_of V sh t ht (List.ne_nil_of_mem hf)
    exact uniq_of_nodup (hfo.2.1 f hf).2.2.1.2
  · intro d hd
    exact uniq_of_nodup (V.2.2 d hd).2.2
  · intro t ht
    by_cases hne : t.inputFields = []
    · rw [hne]; intro x hx; cases hx
    · exact uniq_of_nodup (inputOK_of V sh t ht hne).2.2

/-- **`OldWf` from validity** (and the presence of the built-in / introspection types in the dump) -/
theorem oldWf_of_valid (s : SchemaD) (rv : Bool) (V : ValidSchema s rv) (sh : DumpShape s)
    (metas : (Validate.kindOf s "String").isSome = true ∧ (Validate.kindOf s "__Schema").isSome = true
      ∧ (Validate.kindOf s "__Type").isSome = true) : OldWf s := by
  refine ⟨?_, ?_, metas⟩
  · have := V.1.1
    cases hq : s.query with
    | none => exact absurd hq this
    | some _ => rfl
  · intro t ht f hf
    have hfo := fieldsOK_of V sh t ht (List.ne_nil_of_mem hf)
    exact known_of_output (hfo.2.1 f hf).2.1

/-- **`OldWfIn` from validity** (and well-formed argument types) -/
theorem oldWfIn_of_valid (s : SchemaD) (rv : Bool) (V : ValidSchema s rv) (sh : DumpShape s) (tw : ArgTypesWf s) :
    OldWfIn s := by
  refine ⟨?_, ?_, ?_⟩
  · intro t ht f hf a ha
    have hfo := fieldsOK_of V sh t ht (List.ne_nil_of_mem hf)
    exact ⟨tw.1 t ht f hf a ha, known_of_input ((hfo.2.1 f hf).2.2.1.1 a ha).2.1⟩
  · intro d hd a ha
    exact ⟨tw.2.1 d hd a ha, known_of_input (((V.2.2 d hd).2.1) a ha).2.1⟩
  · intro t ht a ha
    have hio := inputOK_of V sh t ht (List.ne_nil_of_mem ha)
    exact ⟨tw.2.2 t ht a ha, known_of_input (hio.2.1 a ha).2.1⟩

/-- **Operations stay valid, from the validity of the two schemas** (what `diff_schema` checks first): 25 of the 26
    rules of the C06 specification. -/
theorem operations_stay_valid_of_valid (o n : SchemaD) (rv : Bool) (h : diffSchema o n 2 = [])
    (Vo : ValidSchema o rv) (Vn : ValidSchema n rv) (sho : DumpShape o) (shn : DumpShape n) (two : ArgTypesWf o)
    (metas : (Validate.kindOf o "String").isSome = true ∧ (Validate.kindOf o "__Schema").isSome = true
      ∧ (Validate.kindOf o "__Type").isSome = true)
    (fx : Validate.Fixes) (hv9 : fx.v9 = true) (hv10 : fx.v10 = true) (d : Validate.Doc) (hR : OpsRooted o d)
    (hv : SchemaRulesAll o fx d) : SchemaRulesAll n fx d :=
  operations_stay_valid_rules_all o n h (oldWf_of_valid o rv Vo sho metas) (newWf_of_valid n rv Vn shn).1
    (oldWfIn_of_valid o rv Vo sho two) (newWf_of_valid n rv Vn shn).2 fx hv9 hv10 d hR hv

/-! non-vacuity: Props/C13_c20_bridge.lean (two schema descriptions on which C13's `validate` returns no error) -/

end PyGql.Props.C20

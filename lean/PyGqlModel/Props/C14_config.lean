/-
  C14 — the code variant of the working tree is pinned: `config_fixed`.
-/
import PyGqlModel.HeapCfg
import PyGqlModel.Generated.HeapCfg

namespace PyGql.Props.C14
open PyGql.Heap

/-- THE CODE VARIANT IN THE WORKING TREE IS THE REPAIRED ONE. `Generated/HeapCfg.lean` is rewritten from the source on every run;
    this `rfl` — and with it every `current_*` theorem of Props/C14*.lean, none of which takes a flag as a hypothesis — stops
    compiling as soon as one re-extracted flag changes (a regression is a broken obligation, never a vacuous theorem). -/
theorem config_fixed : PyGql.Generated.HeapCfg.currentCfg = Cfg.fixed := rfl

theorem cur_accumulateBusted : PyGql.Generated.HeapCfg.currentCfg.accumulateBusted = true := by rw [config_fixed]; rfl
theorem cur_cloneRegsByValue : PyGql.Generated.HeapCfg.currentCfg.cloneRegsByValue = true := by rw [config_fixed]; rfl
theorem cur_cloneRegsDeep : PyGql.Generated.HeapCfg.currentCfg.cloneRegsDeep = true := by rw [config_fixed]; rfl
theorem cur_cloneRegsFiltered : PyGql.Generated.HeapCfg.currentCfg.cloneRegsFiltered = true := by rw [config_fixed]; rfl
theorem cur_deepClone : PyGql.Generated.HeapCfg.currentCfg.deepClone = true := by rw [config_fixed]; rfl
theorem cur_extInputFieldExtended : PyGql.Generated.HeapCfg.currentCfg.extInputFieldExtended = true := by rw [config_fixed]; rfl
theorem cur_extKeepAll : PyGql.Generated.HeapCfg.currentCfg.extKeepAll = true := by rw [config_fixed]; rfl
theorem cur_extLeafCopied : PyGql.Generated.HeapCfg.currentCfg.extLeafCopied = true := by rw [config_fixed]; rfl
theorem cur_keepAllTypes : PyGql.Generated.HeapCfg.currentCfg.keepAllTypes = true := by rw [config_fixed]; rfl

end PyGql.Props.C14

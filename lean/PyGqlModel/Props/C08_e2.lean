/-
  C08 — finding E2 as a THEOREM PAIR (model: `AsyncExecE2.lean`; tied to the real code by the stage `e2-model` of
  harness/corr/C08.py: every completion order on the manual executor + BlockingExecutor, 2 000+ runs per check).

  A list field whose completion raises ResolverError after `items` were completed (a lazy iterable raising
  mid-iteration / an abstract entry whose `resolve_type` raises):

  * `e2_blocking_reports_every_item_error` — BlockingExecutor: the error list is EXACTLY the errors of `before`, every
    field error of every earlier item, the list field's own error, the errors of `after` (full, every operation);
  * `e2_deferred_loses_item_error` / `e2_deferred_may_keep_item_error` — the generic Executor on the thread pool: the
    SAME operation reports the earlier item's field error under one completion order and loses it under another
    (the orphaned Future's callback runs after the response was assembled);
  * `e2_alone_schedule_irrelevant` + `e2_alone_loses_deferred_item_errors` — without sibling root fields the response is
    assembled at once: whatever the deferred sub-resolvers of the earlier items report is lost in EVERY schedule;
  * `async_eq_blocking_e2_refuted` — "errors are a permutation of BlockingExecutor's for every schedule"
    (`async_eq_blocking`, proved for the operation form WITHOUT failing completions) is FALSE here.
-/
import PyGqlModel.AsyncExecE2
import PyGqlModel.Lemmas.ExecErr

set_option linter.unusedVariables false
set_option linter.unusedSimpArgs false

namespace PyGql.Props.C08
open PyGql.AsyncExec

/-- BlockingExecutor, every operation of the E2 form whose earlier items do not crash by themselves: the errors are
    those of `before`, then EVERY error of every earlier item (field errors of their sub-fields, non-null violations),
    then the list field's own error, then those of `after`. -/
theorem e2_blocking_reports_every_item_error (op : E2.Op) (hitems : denItems op.items ≠ none)
    (v : V) (errs : List Err) (h : (E2.runBlocking op).outcome = .ok v errs) :
    errs = errsFlds [] op.before ++ (errsItems op.path 0 op.items ++ (⟨op.path, .resolver⟩ :: errsFlds [] op.after)) := by
  unfold E2.runBlocking at h
  cases h1 : blockFields [] op.before {} with
  | mk r1 s1 =>
    rw [h1] at h
    cases r1 with
    | exc e => simp at h
    | ok kvs1 =>
      have e1 := blockFields_errs op.before [] {} kvs1 s1 h1
      simp only [E2.blockListField] at h
      have hden := blockItems_den op.items op.path 0 ((s1.emit (.call op.path)).emit (.done op.path))
      cases h2 : blockItems op.path 0 op.items ((s1.emit (.call op.path)).emit (.done op.path)) with
      | mk r2 s2 =>
        rw [h2] at h hden
        cases r2 with
        | exc e => simp [resOpt] at hden; exact absurd hden.symm hitems
        | ok vs =>
          have e2 := blockItems_errs op.items op.path 0 _ vs s2 h2
          simp only at h
          cases h3 : blockFields [] op.after (s2.addError op.path .resolver) with
          | mk r3 s3 =>
            rw [h3] at h
            cases r3 with
            | exc e => simp at h
            | ok kvs2 =>
              have e3 := blockFields_errs op.after [] _ kvs2 s3 h3
              simp only [Result.outcome, Outcome.ok.injEq] at h
              rw [← h.2, e3]
              simp only [ExecSt.addError, e2, ExecSt.emit, e1]
              simp

/-- the witness: `{ l { a } q }` — `l`'s iterable yields one object (sub-field `a`: deferred, raises ResolverError)
    and then raises; `q` is deferred and fine. Tasks in submission order: 0 = `l[0].a`, 1 = `q`. -/
def e2Witness : E2.Op :=
  { before := .nil, key := "l",
    items := .cons (.obj (.cons "a" .deferred .rerr .nil)) .nil,
    after := .cons "q" .deferred (.ok (.leaf 1)) .nil }

/-- non-vacuity of `e2_blocking_reports_every_item_error`, and the reference: BlockingExecutor reports BOTH errors -/
example : denItems e2Witness.items ≠ none := by decide
theorem e2_blocking_witness :
    (E2.runBlocking e2Witness).outcome
      = .ok (.obj [("l", .null), ("q", .leaf 1)])
          [⟨[.key "l", .idx 0, .key "a"], .resolver⟩, ⟨[.key "l"], .resolver⟩] := by rfl

/-- `q` completes first: the root Future is finished, the response is assembled with the list field's error only —
    the field error of `l[0].a` is LOST (its task is still in the queue; nothing waits for it). -/
theorem e2_deferred_loses_item_error :
    (E2.runAsync e2Witness [1]).outcome
      = .ok (.obj [("l", .null), ("q", .leaf 1)]) [⟨[.key "l"], .resolver⟩] := by rfl

/-- the orphaned `l[0].a` completes first, then `q`: same data, and its error IS reported (after the list's own) -/
theorem e2_deferred_may_keep_item_error :
    (E2.runAsync e2Witness [0, 0]).outcome
      = .ok (.obj [("l", .null), ("q", .leaf 1)])
          [⟨[.key "l"], .resolver⟩, ⟨[.key "l", .idx 0, .key "a"], .resolver⟩] := by rfl

/-- Without sibling root fields the root value is available as soon as `execute` returns: the completion order is
    irrelevant (nothing is ever delivered before the response is assembled). -/
theorem e2_alone_schedule_irrelevant (key : String) (items : Comps) (schedule : List Nat) :
    E2.runAsync ⟨.nil, key, items, .nil⟩ schedule = E2.runAsync ⟨.nil, key, items, .nil⟩ [] := by
  unfold E2.runAsync E2.execute E2.resolveRoot
  simp only [resolveFields, E2.resolveListField, E2.Op.path, E2.Op.keys, Flds.keys]
  cases hc : completeItems [Seg.key key] 0 items ((({} : ExecSt).emit (.call [Seg.key key])).emit (.done [Seg.key key])) with
  | mk r s1 =>
    cases r with
    | exc e => cases e <;> (cases schedule <;> rfl)
    | ok ns => cases schedule <;> rfl

/-- … and what is reported is exactly what was recorded SYNCHRONOUSLY while the items were completed, plus the list
    field's error: every error a DEFERRED sub-resolver of an earlier item would report is lost in EVERY schedule. -/
theorem e2_alone_loses_deferred_item_errors (key : String) (items : Comps) (schedule : List Nat) (ns : Nodes) (s1 : ExecSt)
    (hc : completeItems [Seg.key key] 0 items ((({} : ExecSt).emit (.call [Seg.key key])).emit (.done [Seg.key key])) = (.ok ns, s1)) :
    (E2.runAsync ⟨.nil, key, items, .nil⟩ schedule).outcome
      = .ok (.obj [(key, .null)]) (s1.errors ++ [⟨[Seg.key key], .resolver⟩]) := by
  rw [e2_alone_schedule_irrelevant]
  unfold E2.runAsync E2.execute E2.resolveRoot
  simp only [resolveFields, E2.resolveListField, E2.Op.path, E2.Op.keys, Flds.keys, hc]
  rfl

/-- instance: one item, sub-field `a` deferred → ResolverError, sub-field `b` sync → ResolverError: in every schedule
    only `b`'s error and the list's own are reported; BlockingExecutor reports all three. -/
example (schedule : List Nat) :
    (E2.runAsync ⟨.nil, "l", .cons (.obj (.cons "a" .deferred .rerr (.cons "b" .sync .rerr .nil))) .nil, .nil⟩ schedule).outcome
      = .ok (.obj [("l", .null)]) [⟨[.key "l", .idx 0, .key "b"], .resolver⟩, ⟨[.key "l"], .resolver⟩] := by
  have h := e2_alone_loses_deferred_item_errors "l"
    (.cons (.obj (.cons "a" .deferred .rerr (.cons "b" .sync .rerr .nil))) .nil) schedule _ _ rfl
  exact h
example :
    (E2.runBlocking ⟨.nil, "l", .cons (.obj (.cons "a" .deferred .rerr (.cons "b" .sync .rerr .nil))) .nil, .nil⟩).outcome
      = .ok (.obj [("l", .null)])
          [⟨[.key "l", .idx 0, .key "a"], .resolver⟩, ⟨[.key "l", .idx 0, .key "b"], .resolver⟩, ⟨[.key "l"], .resolver⟩] := by rfl

/-- the statement of `async_eq_blocking` transported to operations with a failing list completion -/
def AsyncEqBlockingE2Statement : Prop :=
  ∀ (op : E2.Op) (schedule : List Nat) (v v' : V) (errs errs' : List Err),
    (E2.runAsync op schedule).outcome = .ok v errs → (E2.runBlocking op).outcome = .ok v' errs' → errs.Perm errs'

/-- FALSE on today's code (finding E2): the witness above, `q` completing first. -/
theorem async_eq_blocking_e2_refuted : ¬ AsyncEqBlockingE2Statement := by
  intro h
  have hp := h e2Witness [1] _ _ _ _ e2_deferred_loses_item_error e2_blocking_witness
  have := hp.length_eq
  simp at this

end PyGql.Props.C08

/-
  C11 — the member builders of the model succeed EXACTLY on the members that satisfy the named type-system rules of
  `Spec/SdlRules.lean` (audit 3, finding F3: `SdlValid.declares` was "the model's builders succeed").

  * `buildTypeDef_ok_iff`, `buildDirective_ok_iff`: success ⇔ `TypeDefOK` / `DirDefOK`;
  * `declares_iff_rules`: `(Declared doc).isSome` ⇔ every merged definition and every directive definition satisfies
    its rules over the merged definitions — so the field `declares` of `SdlValid` / `SdlOK` / `SdlRules` can be read as
    these clauses;
  * `known_of_iff`: over `Env.of defs add`, `Known` is membership of the name in the specified / supplied / defined names.
-/
import PyGqlModel.Spec.SdlRules
import PyGqlModel.Spec.SdlSpec
import PyGqlModel.Props.C11_nos8

set_option linter.unusedVariables false
set_option linter.unusedSimpArgs false

namespace PyGql.Props.C11
open PyGql PyGql.Sdl PyGql.SdlSpec

/-- the computation succeeds -/
def Ok {α} (x : R α) : Prop := ∃ a, x = .ok a

theorem ok_pure {α} (a : α) : Ok (pure a : R α) := ⟨a, rfl⟩
theorem ok_ok {α} (a : α) : Ok (.ok a : R α) := ⟨a, rfl⟩
theorem not_ok_error {α} (e : Err) : ¬ Ok (.error e : R α) := fun ⟨_, h⟩ => by cases h

theorem ok_bind {α β} (x : R α) (f : α → R β) : Ok (x >>= f) ↔ ∃ a, x = .ok a ∧ Ok (f a) := by
  constructor
  · rintro ⟨b, h⟩
    obtain ⟨a, ha, hb⟩ := bind_ok _ _ _ h
    exact ⟨a, ha, b, hb⟩
  · rintro ⟨a, ha, b, hb⟩
    exact ⟨b, by rw [ha]; exact hb⟩

/-- a bind whose continuation always succeeds -/
theorem ok_bind_pure {α β} (x : R α) (f : α → R β) (hf : ∀ a, Ok (f a)) : Ok (x >>= f) ↔ Ok x := by
  rw [ok_bind]
  exact ⟨fun ⟨a, ha, _⟩ => ⟨a, ha⟩, fun ⟨a, ha⟩ => ⟨a, ha, hf a⟩⟩

theorem ok_mapM {α β} (f : α → R β) (l : List α) : Ok (l.mapM f) ↔ ∀ x ∈ l, Ok (f x) :=
  ⟨fun ⟨rs, h⟩ => mapM_all_ok f l rs h, fun h => mapM_ok_of_forall f l h⟩

theorem ok_failIf (c : Bool) (e : Err) : Ok (failIf c e) ↔ c = false := by
  cases c
  · exact ⟨fun _ => rfl, fun _ => ⟨(), rfl⟩⟩
  · exact ⟨fun h => absurd h (not_ok_error e), fun h => by cases h⟩

/-! ### the clauses -/

theorem resolves_iff (env : Env) (n : String) : env.resolves n = true ↔ Known env n := by
  simp only [Env.resolves, Known, Bool.or_eq_true, Option.isSome_iff_exists, or_assoc]

theorem find_name_isSome {α} (name : α → String) (l : List α) (n : String) :
    (∃ x, l.find? (fun y => name y == n) = some x) ↔ n ∈ l.map name := by
  rw [← Option.isSome_iff_exists, List.find?_isSome]
  simp only [List.mem_map, beq_iff_eq]

/-- over the by-name view of definitions and supplied types, "known" is membership of the name -/
theorem known_of_iff (defs : List TypeDef) (add : List TypeD) (n : String) : Known (Env.of defs add) n ↔ KnownIn defs add n := by
  unfold Known KnownIn Env.of
  simp only []
  rw [find_name_isSome (·.name) add n, find_name_isSome (·.name) defs n]

theorem checkRef_ok_iff (env : Env) (t : Ty) : Ok (checkRef env t) ↔ Known env t.base := by
  rw [← resolves_iff]
  unfold checkRef
  cases h : env.resolves t.base
  · rw [if_neg (by simp)]; exact ⟨fun h => absurd h (not_ok_error _), fun h => by cases h⟩
  · rw [if_pos rfl]; exact ⟨fun _ => rfl, fun _ => ok_pure _⟩

theorem checkNames_ok_known (env : Env) (ns : List String) : Ok (checkNames env ns) ↔ ∀ n ∈ ns, Known env n := by
  unfold checkNames
  by_cases h : ns.all env.resolves = true
  · simp only [h, if_true]
    refine ⟨fun _ n hn => (resolves_iff env n).mp (List.all_eq_true.mp h n hn), fun _ => ok_pure _⟩
  · simp only [h, if_false]
    refine ⟨fun h' => absurd h' (not_ok_error _), fun h' => absurd ?_ h⟩
    exact List.all_eq_true.mpr fun n hn => (resolves_iff env n).mpr (h' n hn)

theorem defaultValue_ok_iff (env : Env) (l : Lit) (ty : Ty) : Ok (defaultValue env l ty) ↔ ∃ v, CoercesTo env ty l v := by
  unfold defaultValue CoercesTo
  cases h : valueFromAst env coerceFuel l ty with
  | none => simp only []; exact ⟨fun h' => absurd h' (not_ok_error _), fun ⟨v, hv⟩ => by cases hv⟩
  | some o =>
    cases o with
    | none => simp only []; exact ⟨fun h' => absurd h' (not_ok_error _), fun ⟨v, hv⟩ => by cases hv⟩
    | some v => simp only []; exact ⟨fun _ => ⟨v, rfl⟩, fun _ => ok_pure _⟩

theorem deprecationReason_ok_iff (ds : List DirApp) : Ok (deprecationReason ds) ↔ DeprecatedOK ds := by
  unfold deprecationReason DeprecatedOK
  cases hf : ds.find? (·.name == "deprecated") with
  | none => simp only []; exact ⟨fun _ d hd => (by cases hd), fun _ => ok_pure _⟩
  | some d =>
    simp only []
    cases hl : lookupLast d.args "reason" with
    | none => simp only []; exact ⟨fun _ d' hd' l hl' => (by cases hd'; rw [hl] at hl'; cases hl'), fun _ => ok_pure _⟩
    | some l =>
      cases l <;> simp only []
      case null => exact ⟨fun _ d' hd' l hl' => (by cases hd'; rw [hl] at hl'; cases hl'; exact Or.inl rfl), fun _ => ok_pure _⟩
      case str s => exact ⟨fun _ d' hd' l hl' => (by cases hd'; rw [hl] at hl'; cases hl'; exact Or.inr ⟨s, rfl⟩), fun _ => ok_pure _⟩
      all_goals
        refine ⟨fun h' => absurd h' (not_ok_error _), fun h' => ?_⟩
        rcases h' d rfl _ hl with h1 | ⟨s, h1⟩ <;> cases h1

theorem buildArgument_ok_iff (env : Env) (a : InputValDef) : Ok (buildArgument env a) ↔ ArgOK env a := by
  unfold buildArgument ArgOK
  rw [ok_bind]
  constructor
  · rintro ⟨u, hu, h⟩
    refine ⟨(checkRef_ok_iff env a.type).mp ⟨u, hu⟩, fun l hl => ?_⟩
    rw [hl] at h
    simp only [] at h
    rw [ok_bind] at h
    obtain ⟨v, hv, _⟩ := h
    exact (defaultValue_ok_iff env l a.type).mp ⟨v, hv⟩
  · rintro ⟨hk, hd⟩
    obtain ⟨u, hu⟩ := (checkRef_ok_iff env a.type).mpr hk
    refine ⟨u, hu, ?_⟩
    cases hdef : a.default with
    | none => exact ok_pure _
    | some l =>
      simp only []
      rw [ok_bind]
      obtain ⟨v, hv⟩ := (defaultValue_ok_iff env l a.type).mpr (hd l hdef)
      exact ⟨v, hv, ok_pure _⟩

theorem buildField_ok_iff (env : Env) (f : FieldDef) : Ok (buildField env f) ↔ FieldOK env f := by
  unfold buildField FieldOK
  rw [ok_bind]
  constructor
  · rintro ⟨u, hu, h⟩
    rw [ok_bind] at h
    obtain ⟨args, hargs, h⟩ := h
    rw [ok_bind] at h
    obtain ⟨r, hr, _⟩ := h
    exact ⟨(checkRef_ok_iff env f.type).mp ⟨u, hu⟩,
      fun a ha => (buildArgument_ok_iff env a).mp ((ok_mapM _ _).mp ⟨args, hargs⟩ a ha),
      (deprecationReason_ok_iff f.dirs).mp ⟨r, hr⟩⟩
  · rintro ⟨hk, ha, hd⟩
    obtain ⟨u, hu⟩ := (checkRef_ok_iff env f.type).mpr hk
    obtain ⟨args, hargs⟩ := (ok_mapM (buildArgument env) f.args).mpr fun a h => (buildArgument_ok_iff env a).mpr (ha a h)
    obtain ⟨r, hr⟩ := (deprecationReason_ok_iff f.dirs).mpr hd
    refine ⟨u, hu, ?_⟩
    rw [ok_bind]; refine ⟨args, hargs, ?_⟩
    rw [ok_bind]; exact ⟨r, hr, ok_pure _⟩

theorem buildEnumValue_ok_iff (v : EnumValDef) : Ok (buildEnumValue v) ↔ EnumValueOK v := by
  unfold buildEnumValue EnumValueOK
  rw [ok_bind]
  constructor
  · rintro ⟨u, hu, h⟩
    rw [ok_bind] at h
    obtain ⟨r, hr, _⟩ := h
    have := (ok_failIf _ _).mp ⟨u, hu⟩
    exact ⟨by simpa using this, (deprecationReason_ok_iff v.dirs).mp ⟨r, hr⟩⟩
  · rintro ⟨hn, hd⟩
    obtain ⟨u, hu⟩ := (ok_failIf (reservedEnumNames.contains v.name) (.lib .sdl)).mpr (by simpa using hn)
    obtain ⟨r, hr⟩ := (deprecationReason_ok_iff v.dirs).mpr hd
    refine ⟨u, hu, ?_⟩
    rw [ok_bind]; exact ⟨r, hr, ok_pure _⟩

theorem hasDup_false_iff (l : List String) : hasDup l = false ↔ l.Nodup := by
  induction l with
  | nil => simp [hasDup]
  | cons x xs ih =>
    simp only [hasDup, Bool.or_eq_false_iff, List.nodup_cons, ih]
    simp

/-- **the member builder succeeds exactly on the definitions that satisfy the named rules** -/
theorem buildTypeDef_ok_iff (env : Env) (d : TypeDef) : Ok (buildTypeDef env d) ↔ TypeDefOK env d := by
  unfold buildTypeDef TypeDefOK
  cases hk : d.kind <;> simp only []
  · exact ⟨fun _ => trivial, fun _ => ok_pure _⟩
  · rw [ok_bind]
    constructor
    · rintro ⟨fs, hfs, h⟩
      rw [ok_bind] at h
      obtain ⟨u, hu, _⟩ := h
      exact ⟨fun f hf => (buildField_ok_iff env f).mp ((ok_mapM _ _).mp ⟨fs, hfs⟩ f hf), (checkNames_ok_known env _).mp ⟨u, hu⟩⟩
    · rintro ⟨hf, hi⟩
      obtain ⟨fs, hfs⟩ := (ok_mapM (buildField env) d.fields).mpr fun f h => (buildField_ok_iff env f).mpr (hf f h)
      obtain ⟨u, hu⟩ := (checkNames_ok_known env d.interfaces).mpr hi
      refine ⟨fs, hfs, ?_⟩
      rw [ok_bind]; exact ⟨u, hu, ok_pure _⟩
  · rw [ok_bind_pure _ _ (fun _ => ok_pure _), ok_mapM]
    exact ⟨fun h f hf => (buildField_ok_iff env f).mp (h f hf), fun h f hf => (buildField_ok_iff env f).mpr (h f hf)⟩
  · rw [ok_bind_pure _ _ (fun _ => ok_pure _)]
    exact checkNames_ok_known env d.members
  · rw [ok_bind]
    constructor
    · rintro ⟨u, hu, h⟩
      rw [ok_bind_pure _ _ (fun _ => ok_pure _), ok_mapM] at h
      exact ⟨(hasDup_false_iff _).mp ((ok_failIf _ _).mp ⟨u, hu⟩), fun v hv => (buildEnumValue_ok_iff v).mp (h v hv)⟩
    · rintro ⟨hn, hv⟩
      obtain ⟨u, hu⟩ := (ok_failIf (hasDup (d.values.map (·.name))) (.lib .sdl)).mpr ((hasDup_false_iff _).mpr hn)
      refine ⟨u, hu, ?_⟩
      rw [ok_bind_pure _ _ (fun _ => ok_pure _), ok_mapM]
      exact fun v h => (buildEnumValue_ok_iff v).mpr (hv v h)
  · rw [ok_bind_pure _ _ (fun _ => ok_pure _), ok_mapM]
    exact ⟨fun h f hf => (buildArgument_ok_iff env f).mp (h f hf), fun h f hf => (buildArgument_ok_iff env f).mpr (h f hf)⟩

theorem buildDirective_ok_iff (env : Env) (d : DirDef) : Ok (buildDirective env d) ↔ DirDefOK env d := by
  unfold buildDirective DirDefOK
  rw [ok_bind_pure _ _ (fun _ => ok_pure _), ok_mapM]
  exact ⟨fun h f hf => (buildArgument_ok_iff env f).mp (h f hf), fun h f hf => (buildArgument_ok_iff env f).mpr (h f hf)⟩

/-! ### `SdlValid.declares` as named rules -/

/-- the rules the field `declares` of `SdlValid` stands for: every MERGED definition and every directive definition
    satisfies its clauses over the merged definitions -/
structure DeclaresRules (doc : Doc) : Prop where
  types : ∀ t ∈ merged doc, TypeDefOK (Env.of (merged doc)) t
  directives : ∀ d ∈ dirDefs doc, DirDefOK (Env.of (merged doc)) d

/-- **`declares` ⇔ the named rules** (both directions) -/
theorem declares_iff_rules (doc : Doc) : (Declared doc).isSome = true ↔ DeclaresRules doc := by
  unfold Declared
  simp only []
  constructor
  · intro h
    cases h1 : (merged doc).mapM (buildTypeDef (Env.of (merged doc))) with
    | error e => rw [h1] at h; simp at h
    | ok ts =>
      cases h2 : (dirDefs doc).mapM (buildDirective (Env.of (merged doc))) with
      | error e => rw [h1, h2] at h; simp at h
      | ok ds =>
        exact ⟨fun t ht => (buildTypeDef_ok_iff _ t).mp ((ok_mapM _ _).mp ⟨ts, h1⟩ t ht),
               fun d hd => (buildDirective_ok_iff _ d).mp ((ok_mapM _ _).mp ⟨ds, h2⟩ d hd)⟩
  · rintro ⟨ht, hd⟩
    obtain ⟨ts, h1⟩ := (ok_mapM (buildTypeDef (Env.of (merged doc))) (merged doc)).mpr fun t h => (buildTypeDef_ok_iff _ t).mpr (ht t h)
    obtain ⟨ds, h2⟩ := (ok_mapM (buildDirective (Env.of (merged doc))) (dirDefs doc)).mpr fun d h => (buildDirective_ok_iff _ d).mpr (hd d h)
    rw [h1, h2]; rfl

/-- the structural rules of a document with `declares` replaced by the named clauses -/
structure SdlValidRules (doc : Doc) : Prop where
  uniqueTypes : (typeDefs doc).map (·.name) |>.Nodup
  uniqueDirectives : (dirDefs doc).map (·.name) |>.Nodup
  oneSchema : (schemaDefs doc).length ≤ 1
  extTargets : ∀ e ∈ typeExts doc, ∃ t ∈ typeDefs doc, t.name = e.name ∧ t.kind = e.kind
  noBuiltinNames : ∀ t ∈ typeDefs doc, isDefaultName t.name = false
  members : DeclaresRules doc
  mergedMembersUnique : ∀ t ∈ merged doc, (t.fields.map (·.name)).Nodup ∧ (t.inputFields.map (·.name)).Nodup
      ∧ (t.values.map (·.name)).Nodup ∧ t.members.Nodup ∧ t.interfaces.Nodup

/-- `SdlValid` IS the rule set in which nothing refers to the builder -/
theorem sdlValid_iff_rules (doc : Doc) : SdlValid doc ↔ SdlValidRules doc :=
  ⟨fun v => ⟨v.uniqueTypes, v.uniqueDirectives, v.oneSchema, v.extTargets, v.noBuiltinNames, (declares_iff_rules doc).mp v.declares, v.mergedMembersUnique⟩,
   fun v => ⟨v.uniqueTypes, v.uniqueDirectives, v.oneSchema, v.extTargets, v.noBuiltinNames, (declares_iff_rules doc).mpr v.members, v.mergedMembersUnique⟩⟩

/-! ### non-vacuity -/

example : SdlValidRules okDoc := (sdlValid_iff_rules okDoc).mp
  ⟨by decide, by decide, by decide, by decide, by decide, by decide, by decide⟩

example : ¬ TypeDefOK (Env.of []) { kind := .object, name := "Q", fields := [{ name := "a", type := .named "Nope" }] } := by
  intro h
  have h' : (∀ f ∈ [({ name := "a", type := .named "Nope" } : FieldDef)], FieldOK (Env.of []) f) ∧ _ := h
  rcases (h'.1 _ (List.Mem.head _)).1 with h1 | ⟨t, h1⟩ | ⟨d, h1⟩
  · revert h1; decide
  · cases h1
  · cases h1

end PyGql.Props.C11

/-
  C14 — MIXED runs: "all sequences of clone / transform / extend operations applied to the same source".

  `runOps` applies any sequence of `transform_schema(source, *visitors)` (`[]` = `clone()`) and `extend_schema(source, ext)` to ONE
  source and keeps every result. `run_ops_untouched_preserved` (FULL, induction over the sequence): at the end of the run
  * no object of the source was written; the source is still closed and well-formed;
  * every TRANSFORM result is still closed, well-formed and `TRel` to the source (`ResultIntact`, Props/C14_sequence.lean);
  * every EXTENSION result still registers, under the name of every non-protected source type, a rebuilt object that keeps the
    type's attributes (`TypeKept`) and whose member list is — in order — a fresh rebuilt copy of every source member
    (`MembersRel`: field / argument / input-field attributes as far as the constructors pass them on, all of them for the
    variant of /repo) followed by what the extension adds (`ExtIntact`): exactly the conclusion of `untouched_preserved_extend`,
    now read in the FINAL heap and against the source as it was when the run started; and it is still closed and well-formed
    (`extend_closed_wf`; the documents only use defined names and define new, non-reserved, distinct type names: `ExtOK`).
  Closedness and well-formedness of the extension results, and operations applied to the RESULT of any earlier step, are
  `extend_closed_wf` (Props/C14_extend_closed.lean) and `history_closed_framed` (Props/C14_history.lean).
-/
import PyGqlModel.Props.C14_sequence
import PyGqlModel.Props.C14_extend_closed

set_option linter.unusedSimpArgs false
set_option linter.unusedVariables false

namespace PyGql.Props.C14
open PyGql.Heap PyGql.Heap.Own

inductive Op where
  | transform (vs : List Visitor)
  | extend (ext : Ext)

inductive Res where
  | transformed (vs : List Visitor) (s' : Schema)
  | extended (ext : Ext) (s' : Schema)

/-- the run: every operation applied to the SAME source `s`; the final heap and all results, in order -/
def runOps (cfg : Cfg) (fuel : Nat) (s : Schema) : List Op → Heap → Option (Heap × List Res)
  | [], h => some (h, [])
  | .transform vs :: rest, h =>
    match transform cfg fuel vs s h with
    | none => none
    | some r =>
      match runOps cfg fuel s rest r.1 with
      | none => none
      | some rr => some (rr.1, .transformed vs r.2 :: rr.2)
  | .extend ext :: rest, h =>
    match runOps cfg fuel s rest (extend cfg ext s h).1 with
    | none => none
    | some rr => some (rr.1, .extended ext (extend cfg ext s h).2 :: rr.2)

/-- what `untouched_preserved_extend` says about an extension result `s'` of source `(h0, s)`, read in heap `hN` -/
def ExtIntact (cfg : Cfg) (ext : Ext) (h0 : Heap) (s : Schema) (hN : Heap) (s' : Schema) : Prop :=
  ∀ n a t, (n, a) ∈ s.types → isProtected n = false → h0.readType a = some t →
    ∃ N a' t' kept added, lookup s'.types n = some a' ∧ hN.readType a' = some t' ∧ TypeKept cfg t t' ∧ t'.fields = kept ++ added ∧
      MembersRel cfg N h0 hN h0.size t kept ∧ (assocD ext.fields t.name = [] → assocD ext.inputFields t.name = [] → added = [])

def OpOK (s : Schema) : Op → Prop
  | .transform vs => ∀ v, v ∈ vs → NoWrap v
  | .extend ext => ExtOK s ext ∧ ∀ e, e ∈ ext.newTypes → isProtected e.1 = false

def ResIntact (cfg : Cfg) (h0 : Heap) (s : Schema) (hN : Heap) : Res → Prop
  | .transformed vs s' => ResultIntact h0 s hN (vs, s')
  | .extended ext s' => ExtIntact cfg ext h0 s hN s' ∧ closedB hN s' = true ∧ wfB hN s' = true

private theorem all2_imp_mem {α β : Type} {R S : α → β → Prop} : ∀ {l1 : List α} {l2 : List β}, All2 R l1 l2 →
    (∀ a, a ∈ l1 → ∀ b, R a b → S a b) → All2 S l1 l2 := by
  intro l1 l2 hs
  induction hs with
  | nil => intro _; exact All2.nil
  | cons hd _ ih => intro hrs; exact All2.cons (hrs _ (by simp) _ hd) (ih fun a ha => hrs a (by simp [ha]))

private theorem readArg_frame_src2 {h0 h : Heap} (f : Frame h0 h) {a : Addr} {g : ArgO} (hg : h0.readArg a = some g) : h.readArg a = some g := by
  simp only [Heap.readArg, f.2 a (read_lt h0 a _ (readArg_read hg))]; exact hg

private theorem readField_frame_src2 {h0 h : Heap} (f : Frame h0 h) {a : Addr} {g : FieldO} (hg : h0.readField a = some g) : h.readField a = some g := by
  simp only [Heap.readField, f.2 a (read_lt h0 a _ (readField_read hg))]; exact hg

private theorem argRelB_source_frame {k : Bool} {N : List (String × Addr)} {h0 h hout : Heap} (f : Frame h0 h) {a c : Addr}
    (hr : ∃ g, h0.readArg a = some g) (r : ArgRelB k N h hout h.size a c) : ArgRelB k N h0 hout h0.size a c := by
  obtain ⟨g0, hg0⟩ := hr
  obtain ⟨hlo, g, g', h1, h2, hk⟩ := r
  rw [readArg_frame_src2 f hg0] at h1
  cases h1
  exact ⟨Nat.le_trans f.1 hlo, g0, g', hg0, h2, hk⟩

private theorem fieldRelB_source_frame {cfg : Cfg} {N : List (String × Addr)} {h0 h hout : Heap} (f : Frame h0 h) {a c : Addr}
    (hr : ∃ f0, h0.readField a = some f0 ∧ ∀ x, x ∈ f0.args → ∃ g, h0.readArg x = some g) (r : FieldRelB cfg N h hout h.size a c) :
    FieldRelB cfg N h0 hout h0.size a c := by
  obtain ⟨f0, hf0, hargs⟩ := hr
  obtain ⟨hlo, fs, f', h1, h2, hk, ha⟩ := r
  rw [readField_frame_src2 f hf0] at h1
  cases h1
  exact ⟨Nat.le_trans f.1 hlo, f0, f', hf0, h2, hk, all2_imp_mem ha fun x hx c' rc => argRelB_source_frame f (hargs x hx) rc⟩

/-- the SOURCE side of `MembersRel` may be read in the heap the source was created in -/
theorem membersRel_source_frame {cfg : Cfg} {N : List (String × Addr)} {h0 h hout : Heap} (f : Frame h0 h) {t : TypeO} {kept : List Addr}
    (hm : MembersReadable h0 t) (r : MembersRel cfg N h hout h.size t kept) : MembersRel cfg N h0 hout h0.size t kept := by
  simp only [MembersRel, MembersReadable] at hm r ⊢
  cases hk : t.kind <;> simp only [hk] at hm r ⊢
  · exact all2_imp_mem r fun x hx c rc => fieldRelB_source_frame f (hm x hx) rc
  · exact all2_imp_mem r fun x hx c rc => fieldRelB_source_frame f (hm x hx) rc
  · exact r
  · exact r
  · exact all2_imp_mem r fun x hx c rc => argRelB_source_frame f (hm x hx) rc
  · exact r

theorem ExtIntact.frame {cfg : Cfg} {ext : Ext} {h0 : Heap} {s : Schema} {h1 h2 : Heap} {s' : Schema} (f : Frame h1 h2)
    (i : ExtIntact cfg ext h0 s h1 s') : ExtIntact cfg ext h0 s h2 s' := by
  intro n a t hm hp ht
  obtain ⟨N, a', t', kept, added, g1, g2, g3, g4, g5, g6⟩ := i n a t hm hp ht
  refine ⟨N, a', t', kept, added, g1, ?_, g3, g4, ?_, g6⟩
  · simp only [Heap.readType, f.2 a' (readType_lt' g2)]; exact g2
  · exact g5.keep ⟨f.1, fun c _ hc => f.2 c hc⟩

theorem ResIntact.frame {cfg : Cfg} {h0 : Heap} {s : Schema} {h1 h2 : Heap} (f : Frame h1 h2) {r : Res}
    (i : ResIntact cfg h0 s h1 r) : ResIntact cfg h0 s h2 r := by
  cases r with
  | transformed vs s' => exact ResultIntact.frame f i
  | extended ext s' => exact ⟨ExtIntact.frame f i.1, closedB_frame f s' i.2.1, wfB_frame f s' i.2.2⟩

/-- general form (the source lives in `h0`, the run starts in a later heap `h` that frames it) -/
theorem runOps_intact (cfg : Cfg) (hd : cfg.deepClone = true) (hk : cfg.keepAllTypes = true) (hacc : cfg.accumulateBusted = true)
    (hx : cfg.extKeepAll = true) (hin : cfg.extInputFieldExtended = true) (fuel : Nat) (s : Schema) (h0 : Heap) (hc0 : closedB h0 s = true) (hw0 : wfB h0 s = true) :
    ∀ (ops : List Op), (∀ o, o ∈ ops → OpOK s o) → ∀ (h hN : Heap) (rs : List Res),
      Frame h0 h → runOps cfg (2 + fuel) s ops h = some (hN, rs) →
      Frame h hN ∧ rs.length = ops.length ∧ ∀ r, r ∈ rs → ResIntact cfg h0 s hN r := by
  intro ops
  induction ops with
  | nil =>
    intro _ h hN rs _ e
    simp only [runOps, Option.some.injEq, Prod.mk.injEq] at e
    obtain ⟨rfl, rfl⟩ := e
    exact ⟨Frame.refl h, rfl, by simp⟩
  | cons o rest ih =>
    intro hv h hN rs f0 e
    have hc : closedB h s = true := closedB_frame f0 s hc0
    have hw : wfB h s = true := wfB_frame f0 s hw0
    have hvr : ∀ o', o' ∈ rest → OpOK s o' := fun o' ho' => hv o' (by simp [ho'])
    cases o with
    | transform vs =>
      have hvs : ∀ v, v ∈ vs → NoWrap v := hv (.transform vs) (by simp)
      simp only [runOps] at e
      split at e
      · cases e
      · rename_i r hr
        obtain ⟨h1, s1⟩ := r
        split at e
        · cases e
        · rename_i rr hrr
          obtain ⟨hN', rs'⟩ := rr
          simp only [Option.some.injEq, Prod.mk.injEq] at e
          obtain ⟨rfl, rfl⟩ := e
          have f1 : Frame h h1 := clone_frames_source cfg hd (2 + fuel) vs s h h1 s1 hc hr
          obtain ⟨f2, e2, i2⟩ := ih hvr h1 hN' rs' (f0.trans f1) hrr
          refine ⟨f1.trans f2, by simp [e2], ?_⟩
          intro r hrm
          simp only [List.mem_cons] at hrm
          rcases hrm with rfl | hrm
          · have one := runAll_intact cfg hd hk hacc fuel s h0 hc0 hw0 [vs] (by simpa using hvs) h h1 [(vs, s1)] f0
              (by simp [runAll, hr])
            exact ResIntact.frame f2 (r := .transformed vs s1) (one.2.2 (vs, s1) (by simp))
          · exact i2 r hrm
    | extend ext =>
      obtain ⟨hok, hnp⟩ : ExtOK s ext ∧ ∀ e, e ∈ ext.newTypes → isProtected e.1 = false := hv (.extend ext) (by simp)
      have hnew : ∀ e, e ∈ ext.newTypes → e.1 ∉ names s := hok.2.2
      simp only [runOps] at e
      split at e
      · cases e
      · rename_i rr hrr
        obtain ⟨hN', rs'⟩ := rr
        simp only [Option.some.injEq, Prod.mk.injEq] at e
        obtain ⟨rfl, rfl⟩ := e
        have f1 : Frame h (extend cfg ext s h).1 := extend_frames_source cfg ext s h
        obtain ⟨f2, e2, i2⟩ := ih hvr _ hN' rs' (f0.trans f1) hrr
        refine ⟨f1.trans f2, by simp [e2], ?_⟩
        intro r hrm
        simp only [List.mem_cons] at hrm
        rcases hrm with rfl | hrm
        · apply ResIntact.frame f2 (r := .extended ext (extend cfg ext s h).2)
          refine ⟨?_, extend_closed_wf cfg hx hin ext s h hc hw hok hnp⟩
          intro n a t hm hp ht0
          have ha : a < h0.size := readType_lt' ht0
          have ht : h.readType a = some t := by simp only [Heap.readType, f0.2 a ha]; exact ht0
          obtain ⟨N, a', t', kept, added, g1, g2, g3, g4, g5, g6⟩ := untouched_preserved_extend cfg hx ext s h hw hnew n a t hm hp ht
          exact ⟨N, a', t', kept, added, g1, g2, g3, g4,
            membersRel_source_frame f0 (membersReadable_of_shape _ h0 a t ht0 ((wfs_of_wfB hw0).types (n, a) hm)) g5, g6⟩
        · exact i2 r hrm

/-- FULL `untouched_preserved` over a whole MIXED run of transforms and extensions of one source (see the header) -/
theorem run_ops_untouched_preserved (cfg : Cfg) (hd : cfg.deepClone = true) (hk : cfg.keepAllTypes = true)
    (hacc : cfg.accumulateBusted = true) (hx : cfg.extKeepAll = true) (hin : cfg.extInputFieldExtended = true) (fuel : Nat) (s : Schema) (h : Heap)
    (hc : closedB h s = true) (hw : wfB h s = true) (ops : List Op) (hv : ∀ o, o ∈ ops → OpOK s o) (hN : Heap) (rs : List Res)
    (e : runOps cfg (2 + fuel) s ops h = some (hN, rs)) :
    Frame h hN ∧ closedB hN s = true ∧ wfB hN s = true ∧ rs.length = ops.length ∧ ∀ r, r ∈ rs → ResIntact cfg h s hN r := by
  obtain ⟨f, e1, i⟩ := runOps_intact cfg hd hk hacc hx hin fuel s h hc hw ops hv h hN rs (Frame.refl h) e
  exact ⟨f, closedB_frame f s hc, wfB_frame f s hw, e1, i⟩

/-- TOTALITY: on a closed well-formed source every mixed run succeeds -/
theorem runOps_total (cfg : Cfg) (hd : cfg.deepClone = true) (hk : cfg.keepAllTypes = true) (hacc : cfg.accumulateBusted = true)
    (fuel : Nat) (s : Schema) : ∀ (ops : List Op) (h : Heap), closedB h s = true → wfB h s = true →
      (runOps cfg (2 + fuel) s ops h).isSome = true := by
  intro ops
  induction ops with
  | nil => intro h _ _; rfl
  | cons o rest ih =>
    intro h hc hw
    cases o with
    | transform vs =>
      obtain ⟨h1, s1, e1, _, _⟩ := transform_closed_total cfg hd hk hacc vs s h hc hw fuel
      have f1 := clone_frames_source cfg hd (2 + fuel) vs s h h1 s1 hc e1
      obtain ⟨rr, hrr⟩ := Option.isSome_iff_exists.mp (ih h1 (closedB_frame f1 s hc) (wfB_frame f1 s hw))
      simp [runOps, e1, hrr]
    | extend ext =>
      have f1 := extend_frames_source cfg ext s h
      obtain ⟨rr, hrr⟩ := Option.isSome_iff_exists.mp (ih _ (closedB_frame f1 s hc) (wfB_frame f1 s hw))
      simp [runOps, hrr]

private theorem extOK_zed' : ExtOK s0 zed := by
  refine ⟨⟨?_, ?_, ?_, ?_, ?_⟩, by decide, by decide⟩
  · intro nm f hf; simp [zed, assocD] at hf
  · intro nm g hg; simp [zed, assocD] at hg
  · intro nm m hm; simp [zed, assocD] at hm
  · intro e f he hf
    simp only [zed, List.mem_singleton] at he
    subst he
    simp only [List.mem_singleton] at hf
    subst hf
    exact ⟨Or.inl (by decide), fun g hg => by cases hg⟩
  · intro e g he hg; simp [zed] at he

/-- non-vacuity on the witness: transform, extend, clone, extend again — all from the same source -/
example : closedB h0 s0 = true ∧ wfB h0 s0 = true ∧ OpOK s0 (.transform [.vis hideDog, .camel id]) ∧ OpOK s0 (.extend zed) ∧
    ((runOps Cfg.fixed (2 + 6) s0 [.transform [.vis hideDog, .camel id], .extend zed, .transform [], .extend zed] h0).map
      fun r => r.2.length) = some 4 := by
  refine ⟨by decide, by decide, ?_, ⟨extOK_zed', by decide⟩, by decide⟩
  intro v hv
  simp only [List.mem_cons, List.not_mem_nil, or_false] at hv
  rcases hv with rfl | rfl <;> trivial

end PyGql.Props.C14

/-
  C18 — `identity_noop` WITH TOTALITY: the converse of `coverage_partial`.

  `identity_noop` / `coverage_partial` speak about a visit that COMPLETED.  Here: whenever the visitor-free walk of the
  implemented child relation (`Spec.implEvents`, a computable function of table and tree, no visitor in it) completes,
  the visit of EVERY visitor that changes nothing completes too — no `TypeError` / `AttributeError` from a dispatch or an
  attribute access — returns the very node, leaves it untouched in place, and makes exactly those calls.
  So "the identity visit of this document completes and changes nothing, for all observers and all their states" is
  decided by one evaluation (`identity_total_witnesses`: the witness documents of both dialects, holding every node kind).
-/
import PyGqlModel.Props.C18_table

set_option linter.unusedVariables false

namespace PyGql.Props.C18
open PyGql.Visit PyGql.Generated.VisitTable

variable {σ : Type}

/-- `f` completes with the identity result wherever the walk `g` completes -/
private def OkF (f : Node → σ → Res (Out σ)) (g : Node → Res (List Ev)) : Prop :=
  ∀ c s tr, g c = .ok tr → ∃ o, f c s = .ok o ∧ o.tr = tr ∧ o.ret = some c ∧ o.orig = c

private theorem visitList_ok {f : Node → σ → Res (Out σ)} {g : Node → Res (List Ev)} (hf : OkF f g) :
    ∀ cs s tr, Spec.walkList g cs = .ok tr → ∃ s', visitList f cs s = .ok (cs, cs, s', tr) := by
  intro cs
  induction cs with
  | nil => intro s tr h; simp [Spec.walkList] at h; subst h; exact ⟨s, rfl⟩
  | cons c cs ih =>
    intro s tr h
    simp only [Spec.walkList] at h
    cases h1 : g c with
    | err e => simp [h1] at h
    | fuel => simp [h1] at h
    | ok t1 =>
      simp only [h1] at h
      cases h2 : Spec.walkList g cs with
      | err e => simp [h2] at h
      | fuel => simp [h2] at h
      | ok t2 =>
        simp only [h2, Res.ok.injEq] at h
        subst h
        obtain ⟨o, ho, htr, hret, horig⟩ := hf c s t1 h1
        obtain ⟨s', hl⟩ := ih o.st t2 h2
        exact ⟨s', by simp only [visitList, ho, hl, hret, horig, htr]⟩

private theorem runStep_ok {call : Target → Node → σ → Res (Out σ)} {wcall : Target → Node → Res (List Ev)}
    (hc : ∀ t, OkF (call t) (wcall t)) (st : Step) (n : Node) (s : σ) (tr : List Ev)
    (h : Spec.walkStep wcall st n = .ok tr) : ∃ s', runStep call st n s = .ok (n, s', tr) := by
  unfold Spec.walkStep at h
  unfold runStep
  split at h
  · rename_i happ; simp only [Res.ok.injEq] at h; subst h; exact ⟨s, by simp [happ]⟩
  · rename_i happ
    simp only [happ]
    split at h
    · simp at h
    · rename_i a ha
      simp only [ha]
      split at h
      · rename_i hg
        split at h
        · simp at h
        · rename_i hg2
          simp only [Res.ok.injEq] at h; subst h
          exact ⟨s, by simp [hg, hg2]⟩
      · rename_i c hs
        obtain ⟨o, ho, htr, hret, horig⟩ := hc st.target c s tr h
        refine ⟨o.st, ?_⟩
        simp only [hs, ho, hret, horig, htr, ite_self]
        rw [setAttr_getAttr n st.attr _ ha]
        simp
      · rename_i cs hs
        obtain ⟨s', hl⟩ := visitList_ok (hc st.target) cs s tr h
        refine ⟨s', ?_⟩
        simp only [hs, hl, ite_self]
        rw [setAttr_getAttr n st.attr _ ha]
        simp
      · simp at h

private theorem runSteps_ok {call : Target → Node → σ → Res (Out σ)} {wcall : Target → Node → Res (List Ev)}
    (hc : ∀ t, OkF (call t) (wcall t)) :
    ∀ (steps : List Step) (n : Node) (s : σ) (tr : List Ev), Spec.walkSteps wcall steps n = .ok tr →
      ∃ s', runSteps call steps n s = .ok (n, s', tr) := by
  intro steps
  induction steps with
  | nil => intro n s tr h; simp [Spec.walkSteps] at h; subst h; exact ⟨s, rfl⟩
  | cons st rest ih =>
    intro n s tr h
    simp only [Spec.walkSteps] at h
    cases h1 : Spec.walkStep wcall st n with
    | err e => simp [h1] at h
    | fuel => simp [h1] at h
    | ok t1 =>
      simp only [h1] at h
      cases h2 : Spec.walkSteps wcall rest n with
      | err e => simp [h2] at h
      | fuel => simp [h2] at h
      | ok t2 =>
        simp only [h2, Res.ok.injEq] at h
        subst h
        obtain ⟨s1, hs1⟩ := runStep_ok hc st n s t1 h1
        obtain ⟨s2, hs2⟩ := ih n s1 t2 h2
        exact ⟨s2, by simp only [runSteps, hs1, hs2]⟩

private theorem visitM_ok (T : Table) (v : Visitor σ) (hv : Observer v) :
    ∀ fuel m, OkF (visitM T v fuel m) (Spec.walk T fuel m) := by
  intro fuel
  induction fuel with
  | zero => intro m c s tr h; simp [Spec.walk] at h
  | succ fuel ih =>
    intro m c s tr h
    simp only [Spec.walk] at h
    cases hm : T.methods.lookup m with
    | none => simp [hm] at h
    | some steps =>
      simp only [hm] at h
      cases hb : Spec.walkSteps (Spec.walkTarget T (Spec.walk T fuel)) steps c with
      | err e => simp [hb] at h
      | fuel => simp [hb] at h
      | ok body =>
        simp only [hb, Res.ok.injEq] at h
        subst h
        have he := hv c s
        rcases hes : v.enter c s with ⟨act, s1⟩
        rw [hes] at he
        simp only at he
        subst he
        have hw : ∀ t, OkF (callTarget T (visitM T v fuel) t) (Spec.walkTarget T (Spec.walk T fuel) t) := by
          intro t c' s' tr' h'
          unfold Spec.walkTarget at h'
          unfold callTarget
          cases hr : resolve T t c'.kind with
          | error e => simp [hr] at h'
          | ok m' => simp only [hr] at h' ⊢; exact ih m' c' s' tr' h'
        obtain ⟨s2, hs2⟩ := runSteps_ok hw steps c s1 body hb
        refine ⟨⟨some c, c, v.leave c s2, ⟨true, c⟩ :: body ++ [⟨false, c⟩]⟩, ?_, rfl, rfl, rfl⟩
        simp only [visitM, hes, bodyMethod_of_kind_eq T _ c c rfl, hm, hs2]

/-- **identity_total** — if the visitor-free walk of the implemented child relation completes on `t`, then the visit of
    every visitor that changes nothing, from every state, completes: it returns `t` itself, leaves it untouched in place
    and makes exactly the calls of the walk. (`coverage_partial` is the converse.) -/
theorem identity_total (T : Table) (v : Visitor σ) (hv : Observer v) (fuel : Nat) (t : Node) (s : σ) (tr : List Ev)
    (h : Spec.implEvents T fuel t = .ok tr) :
    ∃ o, visit T v fuel t s = .ok o ∧ o.ret = some t ∧ o.orig = t ∧ o.tr = tr := by
  unfold Spec.implEvents at h
  unfold visit
  cases hl : T.visit.lookup t.kind with
  | none => simp [hl] at h
  | some m =>
    simp only [hl] at h ⊢
    obtain ⟨o, ho, htr, hret, horig⟩ := visitM_ok T v hv fuel m t s tr h
    exact ⟨o, ho, hret, horig, htr⟩

/-- the visit of an observer completes exactly when the walk does -/
theorem identity_completes_iff (T : Table) (v : Visitor σ) (hv : Observer v) (fuel : Nat) (t : Node) (s : σ) :
    (∃ o, visit T v fuel t s = .ok o) ↔ (∃ tr, Spec.implEvents T fuel t = .ok tr) :=
  ⟨fun ⟨o, h⟩ => ⟨o.tr, coverage_partial T v hv fuel t s o h⟩,
   fun ⟨tr, h⟩ => let ⟨o, ho, _⟩ := identity_total T v hv fuel t s tr h; ⟨o, ho⟩⟩

private def walkOk (t : Node) : Bool := match Spec.implEvents table 64 t with | .ok _ => true | _ => false

/-- today's table on the witness documents of both dialects (every node kind occurs): the walk completes, hence the
    identity visit of every observer does, and changes nothing -/
theorem identity_total_witnesses : walkOk witnessExec = true ∧ walkOk witnessSdl = true ∧ walkOk witnessSmall = true := by
  decide +kernel

/-- instance: every observer, every state, on the executable witness document -/
example (v : Visitor σ) (hv : Observer v) (s : σ) :
    ∃ o, visit table v 64 witnessExec s = .ok o ∧ o.ret = some witnessExec ∧ o.orig = witnessExec := by
  have h : walkOk witnessExec = true := identity_total_witnesses.1
  unfold walkOk at h
  split at h
  · rename_i tr htr
    obtain ⟨o, ho, h1, h2, _⟩ := identity_total table v hv 64 witnessExec s tr htr
    exact ⟨o, ho, h1, h2⟩
  · cases h

end PyGql.Props.C18

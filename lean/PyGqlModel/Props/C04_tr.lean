/-
  C04 / C05: the executor model's `skipSelection` and `fragmentTypeApplies` (`PyGqlModel/Exec.lean`) EQUAL the definitions the
  translator derives on every run from `utilities/collect_fields.py` (`Generated/TrCollect.lean`), instantiated with the
  model's environment: `directive_arguments(D, node, variables)` is `dirIf vars dirs <name of D>`, the schema lookups are
  `kindOf` / `isAbstract` / `isPossibleType`, types are referred to by name.
-/
import PyGqlModel.Exec
import PyGqlModel.Generated.TrCollect

namespace PyGql.Props.C04
open PyGql PyGql.Exec PyGql.Generated

/-- `schema.get_type_from_literal(type_condition)` in the by-name model: the name itself if the schema knows it
    (`UnknownType` otherwise); it is never called with `None` (`_fragment_type_applies` returns before) -/
def getTypeFromLiteral (s : SchemaD) : Option String → R String
  | none => .error (.internal "AttributeError")
  | some c => match kindOf s c with
    | none => .error (.internal "UnknownType")
    | some _ => .ok c

/-- **`_skip_selection`: model = source.** -/
theorem skip_selection_model_eq_source (vars : Vars) (dirs : List Dir) :
    skipSelection vars dirs
      = Tr._skip_selection Fail.internal (fun name ds vs => dirIf vs ds name) dirs vars := by
  unfold skipSelection Tr._skip_selection
  dsimp only
  cases dirIf vars dirs "skip" with
  | error e => rfl
  | ok sk =>
    cases dirIf vars dirs "include" with
    | error e => rfl
    | ok inc =>
      cases sk <;> cases inc <;> simp [Py.optGet, Py.mapErr, bind, Except.bind, pure, Except.pure]

/-- **`_fragment_type_applies`: model = source.** -/
theorem fragment_type_applies_model_eq_source (s : SchemaD) (obj : String) (cond : Option String) :
    fragmentTypeApplies s obj cond
      = Tr._fragment_type_applies Fail.internal (getTypeFromLiteral s) (isAbstract s) (isPossibleType s) obj cond := by
  unfold fragmentTypeApplies Tr._fragment_type_applies getTypeFromLiteral
  cases cond with
  | none => rfl
  | some c =>
    simp only [Option.isSome_some, Bool.not_true, Bool.false_eq_true, if_false]
    cases kindOf s c <;> rfl

end PyGql.Props.C04

/-
  C06 - property theorems, part 5: the type-dependent rules decided field by field / directive by directive,
  against the STATIC contexts of `Spec/TypedNodes.lean` (no stacks): `FieldsOnCorrectTypeChecker`,
  `ScalarLeafsChecker`, `KnownArgumentNamesChecker`, `ProvidedRequiredArgumentsChecker`.
  They rest on `Lemmas/ValidateTyped.lean`: the stacks of `TypeInfoVisitor` are balanced and show exactly the
  static context of each node.
-/
import PyGqlModel.Props.C06_names
import PyGqlModel.Lemmas.ValidateTyped
namespace PyGql.Props.C06
open PyGql PyGql.Validate PyGql.Validate.Spec

/-- single-rule chain: `TCF` from facts about `enterRule` / `leaveRule` -/
theorem tcf_of (s : SchemaD) (fx : Fixes) (r : Rule) (F G : Node → View → Nat)
    (hE : ∀ n ti rs, n.isDoc = false → (enterRule s fx r n ti rs).2 = false ∧
      (enterRule s fx r n ti rs).1.errs.length = rs.errs.length + F n ti.view)
    (hL : ∀ n ti rs, (leaveRule s fx r n ti rs).errs.length = rs.errs.length + G n ti.view) :
    TCF ⟨s, fx, [r]⟩ F G where
  noskip n st hn := by simp only [enter, enterRules_one]; exact (hE n _ _ hn).1
  enterE n st hn := by simp only [enter, enterRules_one, E]; exact (hE n _ _ hn).2
  leaveE n st _ := by
    simp only [leave, E, List.reverse_cons, List.reverse_nil, List.nil_append, List.foldl_cons, List.foldl_nil]
    exact hL n _ _

theorem tsum_zero_iff (F G : Node → View → Nat) (l : List (Node × View)) :
    tsum F G l = 0 ↔ ∀ p ∈ l, F p.1 p.2 = 0 ∧ G p.1 p.2 = 0 := by
  induction l with
  | nil => simp [tsum]
  | cons a as ih => rw [tsum_cons]; simp only [List.mem_cons, forall_eq_or_imp, ← ih]; omega

/-- generic shape: a type-dependent rule that is silent at the document node reports nothing ⇔ it has nothing to
    report at any (node, static context) pair of the document -/
theorem silent_iff_typed (s : SchemaD) (fx : Fixes) (r : Rule) (F G : Node → View → Nat) (d : Doc)
    (h : TCF ⟨s, fx, [r]⟩ F G)
    (hdoc : ∀ ti rs, enterRule s fx r (.document d) ti rs = (rs, false))
    (hldoc : ∀ ti rs, (leaveRule s fx r (.document d) ti rs).errs.length = rs.errs.length) :
    Silent s fx r d ↔ ∀ p ∈ typedNodes s d, F p.1 p.2 = 0 ∧ G p.1 p.2 = 0 := by
  unfold Silent alone
  have he : enter ⟨s, fx, [r]⟩ (.document d) {} = (({} : St), false) := by
    simp only [enter, enterRules_one, hdoc, tiEnter]
  rw [visitDocument, visitNode_noskip _ _ _ _ _ he]
  have hw := visitDefsT h d.defs ({} : St) rfl
  have hl : E (leave ⟨s, fx, [r]⟩ (.document d) (d.defs.foldl (fun st x => visitDef ⟨s, fx, [r]⟩ x st) {})) =
      E (d.defs.foldl (fun st x => visitDef ⟨s, fx, [r]⟩ x st) ({} : St)) := by
    simp only [leave, E, List.reverse_cons, List.reverse_nil, List.nil_append, List.foldl_cons, List.foldl_nil]
    exact hldoc _ _
  rw [hl, hw.2]
  have : E ({} : St) = 0 := rfl
  rw [this, Nat.zero_add, tsum_zero_iff]
  rfl

private theorem leave_len' (s : SchemaD) (fx : Fixes) (r : Rule)
    (hr : r ≠ .noUnusedFragments ∧ r ≠ .noFragmentCycles ∧ r ≠ .noUndefinedVariables ∧ r ≠ .noUnusedVariables ∧
      r ≠ .variablesInAllowedPosition ∧ r ≠ .providedRequiredArguments) :
    ∀ n ti rs, (leaveRule s fx r n ti rs).errs.length = rs.errs.length := by
  intro n ti rs
  obtain ⟨h1, h2, h3, h4, h5, h6⟩ := hr
  unfold leaveRule
  split <;> first | rfl | contradiction

/-! ### FieldsOnCorrectTypeChecker -/

def fFields : Node → View → Nat
  | .field .., v => if v.parent.isSome && v.field.isNone then 1 else 0
  | _, _ => 0

/-- **5.3.1 Field selections on objects, interfaces and unions** -/
theorem rule_fields_on_correct_type_iff (s : SchemaD) (fx : Fixes) (d : Doc) :
    Silent s fx .fieldsOnCorrectType d ↔ Spec.fieldsOnCorrectType s d := by
  have hL := leave_len' s fx .fieldsOnCorrectType (by decide)
  have hc := tcf_of s fx .fieldsOnCorrectType fFields (fun _ _ => 0)
    (fun n ti rs _ => by
      cases n <;> simp [enterRule, fFields, TI.view, RS.err]
      cases hp : ti.parentType <;> cases hf : ti.field <;> simp [RS.err])
    (fun n ti rs => by rw [hL]; rfl)
  rw [silent_iff_typed s fx _ _ _ d hc (by intro ti rs; simp [enterRule]) (fun ti rs => hL _ ti rs)]
  unfold Spec.fieldsOnCorrectType
  constructor
  · intro h p hp name args dirs hs e hpar
    have := (h p hp).1
    obtain ⟨n, v⟩ := p
    simp only at e; subst e
    simp only [fFields, hpar, Bool.true_and] at this
    cases hf : v.field <;> simp_all
  · intro h p hp
    refine ⟨?_, rfl⟩
    obtain ⟨n, v⟩ := p
    cases n <;> simp only [fFields]
    rename_i name args dirs hs
    cases hpar : v.parent.isSome
    · simp
    · have := h _ hp name args dirs hs rfl hpar
      simp only at this
      cases hf : v.field <;> simp_all


/-! ### ScalarLeafsChecker -/

def leafOf (s : SchemaD) (v : View) : Bool := match v.type.map (·.base) with | some b => isLeaf s b | none => false
def compOf (s : SchemaD) (v : View) : Bool := match v.type.map (·.base) with | some b => isComposite s b | none => false

def fLeafs (s : SchemaD) : Node → View → Nat
  | .field _ _ _ hs, v => (if leafOf s v && hs then 1 else 0) + (if compOf s v && !hs then 1 else 0)
  | _, _ => 0

/-- **5.3.3 Leaf field selections** -/
theorem rule_scalar_leafs_iff (s : SchemaD) (fx : Fixes) (d : Doc) :
    Silent s fx .scalarLeafs d ↔ Spec.scalarLeafs s d := by
  have hL := leave_len' s fx .scalarLeafs (by decide)
  have hc := tcf_of s fx .scalarLeafs (fLeafs s) (fun _ _ => 0)
    (fun n ti rs _ => by
      cases n <;> simp [enterRule, fLeafs, leafOf, compOf, TI.view, RS.err]
      rename_i name args dirs hs
      cases ht : ti.type <;> simp
      split <;> split <;> simp [RS.err] <;> omega)
    (fun n ti rs => by rw [hL]; rfl)
  rw [silent_iff_typed s fx _ _ _ d hc (by intro ti rs; simp [enterRule]) (fun ti rs => hL _ ti rs)]
  unfold Spec.scalarLeafs
  constructor
  · intro h p hp name args dirs hs e t ht
    have := (h p hp).1
    obtain ⟨n, v⟩ := p
    simp only at e ht; subst e
    simp only [fLeafs, leafOf, compOf, ht, Option.map_some, Nat.add_eq_zero_iff] at this
    constructor
    · intro hl; cases hs <;> simp_all
    · intro hcmp; cases hs <;> simp_all
  · intro h p hp
    refine ⟨?_, rfl⟩
    obtain ⟨n, v⟩ := p
    cases n <;> simp only [fLeafs]
    rename_i name args dirs hs
    cases ht : v.type with
    | none => simp [leafOf, compOf, ht]
    | some t =>
      have := h _ hp name args dirs hs rfl t ht
      simp only [leafOf, compOf, ht, Option.map_some]
      cases hl : isLeaf s t.base <;> cases hcm : isComposite s t.base <;> cases hs <;> simp_all

/-! ### KnownArgumentNamesChecker -/

def unknownArgs (defs : List ArgD) (args : List Arg) : Nat :=
  (args.filter fun a => !(defs.any (·.name == a.name))).length

def fKnownArgs : Node → View → Nat
  | .field _ args _ _, v => match v.field with | none => 0 | some fd => unknownArgs fd.args args
  | .directive d, v => match v.directive with | none => 0 | some dd => unknownArgs dd.args d.args
  | _, _ => 0

theorem unknownArgs_zero_iff (defs : List ArgD) (args : List Arg) :
    unknownArgs defs args = 0 ↔ ∀ a ∈ args, ∃ ad ∈ defs, ad.name = a.name := by
  simp [unknownArgs, List.filter_eq_nil_iff]

/-- **5.4.1 Argument names** -/
theorem rule_known_argument_names_iff (s : SchemaD) (fx : Fixes) (d : Doc) :
    Silent s fx .knownArgumentNames d ↔ Spec.knownArgumentNames s d := by
  have hL := leave_len' s fx .knownArgumentNames (by decide)
  have hc := tcf_of s fx .knownArgumentNames fKnownArgs (fun _ _ => 0)
    (fun n ti rs _ => by
      cases n <;> simp [enterRule, fKnownArgs, unknownArgs, TI.view, RS.errN]
      · cases ti.directive <;> simp <;> omega
      · cases ti.field <;> simp <;> omega)
    (fun n ti rs => by rw [hL]; rfl)
  rw [silent_iff_typed s fx _ _ _ d hc (by intro ti rs; simp [enterRule]) (fun ti rs => hL _ ti rs)]
  unfold Spec.knownArgumentNames
  constructor
  · intro h
    refine ⟨fun p hp name args dirs hs e fd hfd => ?_, fun p hp dr e dd hdd => ?_⟩
    · have := (h p hp).1
      obtain ⟨n, v⟩ := p
      simp only at e hfd; subst e
      simp only [fKnownArgs, hfd] at this
      exact (unknownArgs_zero_iff _ _).mp this
    · have := (h p hp).1
      obtain ⟨n, v⟩ := p
      simp only at e hdd; subst e
      simp only [fKnownArgs, hdd] at this
      exact (unknownArgs_zero_iff _ _).mp this
  · rintro ⟨h1, h2⟩ p hp
    refine ⟨?_, rfl⟩
    obtain ⟨n, v⟩ := p
    cases n <;> simp only [fKnownArgs]
    · rename_i dr
      cases hdd : v.directive with
      | none => rfl
      | some dd => exact (unknownArgs_zero_iff _ _).mpr (h2 _ hp dr rfl dd hdd)
    · rename_i name args dirs hs
      cases hfd : v.field with
      | none => rfl
      | some fd => exact (unknownArgs_zero_iff _ _).mpr (h1 _ hp name args dirs hs rfl fd hfd)

/-! ### ProvidedRequiredArgumentsChecker (reports on LEAVING the field / directive) -/

def missingArgs (defs : List ArgD) (args : List Arg) : Nat :=
  (defs.filter fun a => ArgD.required a && !(args.any (·.name == a.name))).length

def gRequired : Node → View → Nat
  | .field _ args _ _, v => match v.field with | none => 0 | some fd => missingArgs fd.args args
  | .directive d, v => match v.directive with | none => 0 | some dd => missingArgs dd.args d.args
  | _, _ => 0

theorem missingArgs_zero_iff (defs : List ArgD) (args : List Arg) :
    missingArgs defs args = 0 ↔ ∀ ad ∈ defs, ArgD.required ad = true → ∃ a ∈ args, a.name = ad.name := by
  simp [missingArgs, List.filter_eq_nil_iff]

/-- **5.4.2.1 Required arguments** -/
theorem rule_provided_required_arguments_iff (s : SchemaD) (fx : Fixes) (d : Doc) :
    Silent s fx .providedRequiredArguments d ↔ Spec.providedRequiredArguments s d := by
  have hc := tcf_of s fx .providedRequiredArguments (fun _ _ => 0) gRequired
    (fun n ti rs _ => by cases n <;> simp [enterRule])
    (fun n ti rs => by
      cases n <;> simp [leaveRule, gRequired, missingArgs, TI.view, RS.errN]
      · cases ti.directive <;> simp <;> omega
      · cases ti.field <;> simp <;> omega)
  rw [silent_iff_typed s fx _ _ _ d hc (by intro ti rs; simp [enterRule]) (by intro ti rs; simp [leaveRule])]
  unfold Spec.providedRequiredArguments
  constructor
  · intro h
    refine ⟨fun p hp name args dirs hs e fd hfd => ?_, fun p hp dr e dd hdd => ?_⟩
    · have := (h p hp).2
      obtain ⟨n, v⟩ := p
      simp only at e hfd; subst e
      simp only [gRequired, hfd] at this
      exact (missingArgs_zero_iff _ _).mp this
    · have := (h p hp).2
      obtain ⟨n, v⟩ := p
      simp only at e hdd; subst e
      simp only [gRequired, hdd] at this
      exact (missingArgs_zero_iff _ _).mp this
  · rintro ⟨h1, h2⟩ p hp
    refine ⟨rfl, ?_⟩
    obtain ⟨n, v⟩ := p
    cases n <;> simp only [gRequired]
    · rename_i dr
      cases hdd : v.directive with
      | none => rfl
      | some dd => exact (missingArgs_zero_iff _ _).mpr (h2 _ hp dr rfl dd hdd)
    · rename_i name args dirs hs
      cases hfd : v.field with
      | none => rfl
      | some fd => exact (missingArgs_zero_iff _ _).mpr (h1 _ hp name args dirs hs rfl fd hfd)

end PyGql.Props.C06

/-
  C04 / C05 — the fuel is not part of the meaning.
  * `collect_fuel_mono`, `exec_fuel_mono`: once a run does not end in `outOfFuel`, more fuel (for `collect_fields`
    and for the executor) gives literally the same result; hence the response of a request is a function of
    (schema, document, variables, world, operation name) — `response_unique`.
  * `collect_fuel_sufficient`: if the fragments of the document can be RANKED (a rank function that decreases along
    fragment spreads — the declarative form of "no fragment cycle"), `collect_fields` never runs out of fuel once
    the fuel exceeds the rank-measure of the selection set.
-/
import PyGqlModel.Exec

set_option linter.unusedSimpArgs false
set_option linter.unusedVariables false

namespace PyGql.Props.C04
open PyGql PyGql.Exec

def Fueled {α} (r : R α) : Prop := r ≠ .error .outOfFuel

/-- `f'` answers like `f` wherever `f` did not run out of fuel -/
def Extends3 {α β γ δ} (f f' : α → β → γ → R δ) : Prop := ∀ a b c, Fueled (f a b c) → f' a b c = f a b c

private theorem collectStep_mono (s : SchemaD) (doc : Doc) (vars : Vars)
    (rec rec' : String → List Sel → List String → R (Grouped × List String)) (hx : Extends3 rec rec') (obj : String) :
    ∀ (sels : List Sel) (seen : List String) (g : Grouped), Fueled (collectStep s doc vars rec obj sels seen g) →
      collectStep s doc vars rec' obj sels seen g = collectStep s doc vars rec obj sels seen g := by
  intro sels
  induction sels with
  | nil => intro seen g _; simp [collectStep]
  | cons sel rest ih =>
    intro seen g hfu
    cases sel with
    | field key name loc dirs args hs sub =>
      simp only [collectStep, bind, Except.bind] at hfu ⊢
      cases hsk : skipSelection vars dirs with
      | error e => rfl
      | ok b =>
        simp only [hsk] at hfu ⊢
        cases b with
        | true => simpa using ih seen g (by simpa using hfu)
        | false => simpa using ih seen _ (by simpa using hfu)
    | inline on dirs sub =>
      simp only [collectStep, bind, Except.bind, pure, Except.pure] at hfu ⊢
      cases hsk : skipSelection vars dirs with
      | error e => rfl
      | ok b =>
        simp only [hsk] at hfu ⊢
        cases b with
        | true => simpa using ih seen g (by simpa using hfu)
        | false =>
          simp only [Bool.false_eq_true, if_false] at hfu ⊢
          cases hap : fragmentTypeApplies s obj on with
          | error e => rfl
          | ok a =>
            simp only [hap] at hfu ⊢
            cases a with
            | false => simpa using ih seen g (by simpa using hfu)
            | true =>
              simp only [Bool.not_true, Bool.false_eq_true, if_false] at hfu ⊢
              cases hr : rec obj sub seen with
              | error e =>
                have hne : Fueled (rec obj sub seen) := by
                  intro h; rw [hr] at hfu h; simp at h; subst h; exact hfu rfl
                rw [hx obj sub seen hne, hr]
              | ok p =>
                rw [hx obj sub seen (by rw [hr]; intro h; simp at h), hr]
                simp only [hr] at hfu
                simpa using ih _ _ (by simpa using hfu)
    | spread name dirs =>
      simp only [collectStep, bind, Except.bind, pure, Except.pure] at hfu ⊢
      cases hfr : doc.fragment? name with
      | none => rfl
      | some fr =>
        simp only [hfr] at hfu ⊢
        cases hsk : skipSelection vars dirs with
        | error e => rfl
        | ok b =>
          simp only [hsk] at hfu ⊢
          cases b with
          | true => simpa using ih seen g (by simpa using hfu)
          | false =>
            simp only [Bool.false_eq_true, if_false] at hfu ⊢
            by_cases hseen : seen.contains name
            · simp only [hseen, if_true] at hfu ⊢; simpa using ih seen g (by simpa using hfu)
            · simp only [hseen, Bool.false_eq_true, if_false] at hfu ⊢
              cases hap : fragmentTypeApplies s obj (some fr.on) with
              | error e => rfl
              | ok a =>
                simp only [hap] at hfu ⊢
                cases a with
                | false => simpa using ih seen g (by simpa using hfu)
                | true =>
                  simp only [Bool.not_true, Bool.false_eq_true, if_false] at hfu ⊢
                  cases hr : rec obj fr.sels seen with
                  | error e =>
                    have hne : Fueled (rec obj fr.sels seen) := by
                      intro h; rw [hr] at hfu h; simp at h; subst h; exact hfu rfl
                    rw [hx obj fr.sels seen hne, hr]
                  | ok p =>
                    rw [hx obj fr.sels seen (by rw [hr]; intro h; simp at h), hr]
                    simp only [hr] at hfu
                    simpa using ih _ _ (by simpa using hfu)

/-- **collect_fuel_mono**: one more unit of fuel does not change a `collect_fields` result that did not run out -/
theorem collect_fuel_mono (s : SchemaD) (doc : Doc) (vars : Vars) (n : Nat) :
    Extends3 (collectFields s doc vars n) (collectFields s doc vars (n + 1)) := by
  induction n with
  | zero => intro obj sels seen h; exact absurd rfl h
  | succ n ih =>
    intro obj sels seen h
    simp only [collectFields] at h ⊢
    exact collectStep_mono s doc vars _ _ ih obj sels seen [] h

theorem collect_fuel_mono_le (s : SchemaD) (doc : Doc) (vars : Vars) (n m : Nat) (h : n ≤ m) :
    Extends3 (collectFields s doc vars n) (collectFields s doc vars m) := by
  induction h with
  | refl => intro a b c _; rfl
  | step _ ih =>
    intro a b c hf
    have h1 := ih a b c hf
    rw [← h1] at hf
    rw [collect_fuel_mono s doc vars _ a b c hf, h1]


/-! ### the executor -/

private theorem fcast {α β} {e : Fail} (h : Fueled (Except.error e : R α)) : Fueled (Except.error e : R β) := by
  intro he; apply h; cases he; rfl

private theorem completeList_mono (f f' : Path → RVal → R (Data × List Err)) (hx : ∀ p v, Fueled (f p v) → f' p v = f p v) (path : Path) :
    ∀ (vs : List RVal) (i : Nat), Fueled (completeList f path i vs) → completeList f' path i vs = completeList f path i vs := by
  intro vs
  induction vs with
  | nil => intro i _; simp [completeList]
  | cons v rest ih =>
    intro i hfu
    simp only [completeList, bind, Except.bind, pure, Except.pure] at hfu ⊢
    have h1 : Fueled (f (path ++ [Seg.idx i]) v) := by intro h; apply hfu; simp [h]
    rw [hx _ _ h1]
    cases hf : f (path ++ [Seg.idx i]) v with
    | error e => rfl
    | ok p1 =>
      simp only [hf] at hfu ⊢
      have h2 : Fueled (completeList f path (i + 1) rest) := by intro h; apply hfu; simp [h]
      rw [ih _ h2]

private theorem completeValue_mono (s : SchemaD) (e e' : String → Path → List Sel → R (Data × List Err)) (hx : Extends3 e e')
    (nodes : List FNode) :
    ∀ (t : Ty) (path : Path) (v : RVal), Fueled (completeValue s e nodes t path v) →
      completeValue s e' nodes t path v = completeValue s e nodes t path v := by
  intro t
  induction t with
  | named n =>
    intro path v hfu
    cases v with
    | null => simp [completeValue]
    | leaf j =>
      simp only [completeValue] at hfu ⊢
      cases hk : kindOf s n with
      | none => rfl
      | some k => cases k <;> simp only [hk] at hfu ⊢ <;> (try rfl) <;> exact hx _ _ _ hfu
    | list vs =>
      simp only [completeValue] at hfu ⊢
      cases hk : kindOf s n with
      | none => rfl
      | some k => cases k <;> simp only [hk] at hfu ⊢ <;> (try rfl) <;> exact hx _ _ _ hfu
    | raise vs msg ext =>
      simp only [completeValue] at hfu ⊢
      cases hk : kindOf s n with
      | none => rfl
      | some k => cases k <;> simp only [hk] at hfu ⊢ <;> (try rfl) <;> exact hx _ _ _ hfu
    | obj rt =>
      simp only [completeValue] at hfu ⊢
      cases hk : kindOf s n with
      | none => rfl
      | some k =>
        cases k <;> simp only [hk] at hfu ⊢ <;> (try rfl) <;> (try exact hx _ _ _ hfu)
        all_goals
          cases hr : kindOf s rt with
          | none => rfl
          | some k2 =>
            cases k2 <;> simp only [hr] at hfu ⊢ <;> (try rfl)
            by_cases hp : isPossibleType s n rt
            · simp only [hp, if_true] at hfu ⊢; exact hx _ _ _ hfu
            · simp [hp]
  | list t ih =>
    intro path v hfu
    cases v with
    | null => simp [completeValue]
    | leaf j => cases j <;> simp [completeValue]
    | obj rt => simp [completeValue]
    | raise vs msg ext =>
      simp only [completeValue] at hfu ⊢
      have h1 : Fueled (completeList (completeValue s e nodes t) path 0 vs) := by intro h; apply hfu; simp [h]
      rw [completeList_mono _ _ (fun p v h => ih p v h) path vs 0 h1]
    | list vs =>
      simp only [completeValue, bind, Except.bind, pure, Except.pure] at hfu ⊢
      cases h1 : completeList (completeValue s e nodes t) path 0 vs with
      | error er =>
        simp only [h1] at hfu
        rw [completeList_mono _ _ (fun p v h => ih p v h) path vs 0 (by rw [h1]; exact fcast hfu), h1]
      | ok p => rw [completeList_mono _ _ (fun p v h => ih p v h) path vs 0 (by rw [h1]; intro h; simp at h), h1]
  | nonNull t ih =>
    intro path v hfu
    simp only [completeValue, bind, Except.bind, pure, Except.pure] at hfu ⊢
    cases h1 : completeValue s e nodes t path v with
    | error er =>
      simp only [h1] at hfu
      rw [ih path v (by rw [h1]; exact fcast hfu), h1]
    | ok p => rw [ih path v (by rw [h1]; intro h; simp at h), h1]

private theorem executeGroups_mono (s : SchemaD) (w : World) (e e' : String → Path → List Sel → R (Data × List Err))
    (hx : Extends3 e e') (parent : String) (path : Path) :
    ∀ g : Grouped, Fueled (executeGroups s w e parent path g) →
      executeGroups s w e' parent path g = executeGroups s w e parent path g := by
  intro g
  induction g with
  | nil => intro _; simp [executeGroups]
  | cons kv rest ih =>
    intro hfu
    obtain ⟨key, nodes⟩ := kv
    cases nodes with
    | nil => simp [executeGroups]
    | cons node more =>
      simp only [executeGroups] at hfu ⊢
      split
      · rename_i hm
        simp only [hm, if_true] at hfu
        split
        · rename_i ht
          simp only [ht, if_true, bind, Except.bind, pure, Except.pure] at hfu ⊢
          cases hr : executeGroups s w e parent path rest with
          | error er => simp only [hr] at hfu; rw [ih (by rw [hr]; exact fcast hfu), hr]
          | ok p => rw [ih (by rw [hr]; intro h; simp at h), hr]
        · rfl
      · rename_i hm
        simp only [hm, Bool.false_eq_true, if_false] at hfu
        cases hf : fieldOf s parent node.name with
        | none => simp only [hf] at hfu ⊢; exact ih hfu
        | some fd =>
          simp only [hf, bind, Except.bind, pure, Except.pure] at hfu ⊢
          have hres : Fueled (resolveField s w e parent (path ++ [Seg.key key]) (node :: more) fd) →
              resolveField s w e' parent (path ++ [Seg.key key]) (node :: more) fd
                = resolveField s w e parent (path ++ [Seg.key key]) (node :: more) fd := by
            intro hfr
            simp only [resolveField] at hfr ⊢
            split
            · rfl
            · rfl
            · rename_i a heq
              simp only [heq] at hfr
              split
              · rfl
              · rfl
              · rename_i v hv
                simp only [hv] at hfr
                rw [completeValue_mono s e e' hx _ fd.type _ v (by intro h; apply hfr; simp [h])]
          cases hr1 : resolveField s w e parent (path ++ [Seg.key key]) (node :: more) fd with
          | error er =>
            simp only [hr1] at hfu
            rw [hres (by rw [hr1]; exact fcast hfu), hr1]
          | ok pd =>
            rw [hres (by rw [hr1]; intro h; simp at h), hr1]
            simp only [hr1] at hfu ⊢
            cases hr : executeGroups s w e parent path rest with
            | error er => simp only [hr] at hfu; rw [ih (by rw [hr]; exact fcast hfu), hr]
            | ok p => rw [ih (by rw [hr]; intro h; simp at h), hr]

/-- **exec_fuel_mono**: more fuel — for `collect_fields` and for the executor — does not change a result that did
    not run out of fuel. -/
theorem exec_fuel_mono (s : SchemaD) (doc : Doc) (vars : Vars) (w : World) :
    ∀ (n n' cf cf' : Nat), n ≤ n' → cf ≤ cf' →
      Extends3 (executeFields s doc vars w cf n) (executeFields s doc vars w cf' n') := by
  intro n
  induction n with
  | zero => intro n' cf cf' _ _ a b c h; exact absurd rfl h
  | succ n ih =>
    intro n' cf cf' hn hc parent path sels hfu
    cases n' with
    | zero => omega
    | succ m =>
      simp only [executeFields, bind, Except.bind, pure, Except.pure] at hfu ⊢
      have h1 : Fueled (collectFields s doc vars cf parent sels []) := by intro h; apply hfu; simp [h]
      rw [collect_fuel_mono_le s doc vars cf cf' hc parent sels [] h1]
      cases hc1 : catchDirective (collectFields s doc vars cf parent sels []) with
      | error er => rfl
      | ok p1 =>
        simp only [hc1] at hfu ⊢
        have hx : Extends3 (executeFields s doc vars w cf n) (executeFields s doc vars w cf' m) := ih m cf cf' (by omega) hc
        have h2 : Fueled (executeGroups s w (executeFields s doc vars w cf n) parent path p1.1) := by intro h; apply hfu; simp [h]
        rw [executeGroups_mono s w _ _ hx parent path p1.1 h2]

/-- a request RESPONDS with `r`: some amounts of fuel produce `r` and `r` is not the out-of-fuel artefact -/
def RespondsWith (s : SchemaD) (doc : Doc) (vars : Vars) (w : World) (op : Option String) (r : Response) : Prop :=
  ∃ fuel cf, execute s doc vars w op fuel cf = r ∧ r ≠ .failed .outOfFuel

/-- **response_unique**: the response of a request does not depend on the fuel — it is a function of
    (schema, document, variables, world, operation name). Theorems stated "for every fuel" therefore speak about
    THE response of the document. -/
theorem response_unique (s : SchemaD) (doc : Doc) (vars : Vars) (w : World) (op : Option String) (r r' : Response)
    (h : RespondsWith s doc vars w op r) (h' : RespondsWith s doc vars w op r') : r = r' := by
  obtain ⟨f1, c1, e1, n1⟩ := h
  obtain ⟨f2, c2, e2, n2⟩ := h'
  unfold execute at e1 e2
  cases hgo : getOperation doc op with
  | none => simp [hgo] at e1 e2; rw [← e1, ← e2]
  | some o =>
    simp only [hgo] at e1 e2
    cases hroot : rootType s o.kind with
    | none => simp [hroot] at e1 e2; rw [← e1, ← e2]
    | some root =>
      simp only [hroot] at e1 e2
      split at e1
      · simp_all
      · rename_i hsub
        simp only [hsub, if_false, Bool.false_eq_true] at e2
        have key : ∀ f c (r : Response), (match executeFields s doc vars w c f root [] o.sels with
            | .ok (d, es) => Response.result d es
            | .error (.raised k l inner) => Response.result .null (inner ++ [{ path := [], locs := l.getD [], kind := k }])
            | .error f => Response.failed f) = r → r ≠ .failed .outOfFuel →
            Fueled (executeFields s doc vars w c f root [] o.sels) := by
          intro f c r he hn hfu
          rw [hfu] at he
          exact hn he.symm
        have a1 := exec_fuel_mono s doc vars w f1 (max f1 f2) c1 (max c1 c2) (by omega) (by omega) root [] o.sels (key _ _ _ e1 n1)
        have a2 := exec_fuel_mono s doc vars w f2 (max f1 f2) c2 (max c1 c2) (by omega) (by omega) root [] o.sels (key _ _ _ e2 n2)
        rw [← e1, ← e2, ← a1, ← a2]

end PyGql.Props.C04

/-
  C06 - property theorems, part 11: `ValuesOfCorrectTypeChecker` (5.6.1). The rule reads the INPUT side of
  `TypeInfoVisitor` and raises `SkipNode` at an object literal that does not stand at an input-object position -
  without any error when the position's type is unknown. Proved through the context walk `Q.defsC`
  (`Lemmas/ValidateValuesCtx.lean`) against the static input contexts of `Spec/ValidSpecValues.lean`.
  Next to it: the clause of the SPECIFICATION (every literal is coercible to the expected type) is refuted for
  the code as it is (ledger V8: list literals are never checked).
-/
import PyGqlModel.Props.C06_names
import PyGqlModel.Props.C06_witness
import PyGqlModel.Lemmas.ValidateValues3
namespace PyGql.Props.C06
open PyGql PyGql.Validate PyGql.Validate.Spec

/-- **5.6.1 Values of correct type, as implemented**: `ValuesOfCorrectTypeChecker` run alone reports nothing ⇔
    every literal of the document is acceptable in its static input context (`Spec.valueNodeOk`): scalar literals
    are accepted by the expected scalar, `null` does not stand at a non-null position, enum literals are values
    of the expected enum, object literals stand at input-object positions and give all required fields, every
    field of such a literal is defined; LIST literals are not checked and their items are checked against the
    NAMED type of the position (ledger V8) -/
theorem rule_values_of_correct_type_iff (s : SchemaD) (fx : Fixes) (d : Doc) :
    Silent s fx .valuesOfCorrectType d ↔ Spec.valuesOfCorrectType s fx d := by
  unfold Silent alone
  have he : enter ⟨s, fx, [.valuesOfCorrectType]⟩ (.document d) {} = (({} : St), false) := by
    simp only [enter, enterRules_one, enterRule, tiEnter]
  rw [visitDocument, visitNode_noskip _ _ _ _ _ he]
  have hl : ∀ st, E (leave ⟨s, fx, [.valuesOfCorrectType]⟩ (.document d) st) = E st := by
    intro st
    simp only [leave, E, List.reverse_cons, List.reverse_nil, List.nil_append, List.foldl_cons, List.foldl_nil,
      voc_leave]
  rw [hl]
  have hw := (Q.defsC (ctxValues s fx) d.defs ({} : St) trivial rfl).1
  have h0 : E ({} : St) = 0 := rfl
  rw [h0] at hw
  rw [hw]
  unfold Spec.valuesOfCorrectType inputNodes
  have hmap := forall_gnDoc_map TI.iview (tiEnter s) (IView.enter s) (iview_enter s) d ({} : TI)
    (fun q => valueNodeOk s fx q.1 q.2)
  rw [iview_empty] at hmap
  rw [hmap]
  show (∀ p ∈ gnDoc (tiEnter s) ({} : TI) d, Q.okP (ctxValues s fx) p) ↔ _
  refine forall_congr' fun p => forall_congr' fun _ => ?_
  rw [okP_ctxValues]
  exact okT_iff s fx p.1 p.2

/-! non-vacuity (string literals only: `Int` literals go through `String.toInt?`, which the kernel cannot evaluate) -/

/-- `type Query { s(f: String, l: [String!]): String }` -/
def vSchema : SchemaD :=
  { types := [
      { kind := .scalar, name := "Int" }, { kind := .scalar, name := "String" }, { kind := .scalar, name := "Boolean" },
      { kind := .object, name := "Query", fields := [
          { name := "s", type := .named "String",
            args := [{ name := "f", type := .named "String" }, { name := "l", type := .list (.nonNull (.named "String")) }] }] }],
    query := some "Query",
    directives := [] }

/-- `{ s(f: "x") }` -/
example : Spec.valuesOfCorrectType vSchema Fixes.all ⟨[opV [] 1 [fld none "s" [⟨"f", .str "x"⟩]]]⟩ :=
  (rule_values_of_correct_type_iff vSchema Fixes.all _).mp (by unfold Silent; decide +kernel)
/-- `{ s(f: true) }` is reported -/
example : ¬ Spec.valuesOfCorrectType vSchema Fixes.all ⟨[opV [] 1 [fld none "s" [⟨"f", .bool true⟩]]]⟩ := fun h =>
  absurd ((rule_values_of_correct_type_iff vSchema Fixes.all _).mpr h) (by unfold Silent; decide +kernel)
/-- `{ s(unknown: {k: "x"}) }`: the position of the object literal has no known type; the rule is silent (and, since
    fix C06-H5, no longer raises `SkipNode` there: `skip_reports`), and the clause holds -/
example : Spec.valuesOfCorrectType vSchema Fixes.all
    ⟨[opV [] 1 [fld none "s" [⟨"unknown", .obj [.mk "k" (.str "x")]⟩]]]⟩ :=
  (rule_values_of_correct_type_iff vSchema Fixes.all _).mp (by unfold Silent; decide +kernel)

/-! ### the clause of the specification is NOT what the code decides (ledger V8) -/

/-- computable form of `Spec.valuesCoercible` -/
def valuesCoercibleB (s : SchemaD) (d : Doc) : Bool :=
  (typedNodes s d).all fun p =>
    match p.1 with
    | .argument a =>
      match (argPos s p.2 a.name).inputType with
      | some t => coercible s t a.value
      | none => true
    | _ => true

theorem valuesCoercibleB_iff (s : SchemaD) (d : Doc) : valuesCoercibleB s d = true ↔ Spec.valuesCoercible s d := by
  unfold valuesCoercibleB Spec.valuesCoercible
  rw [List.all_eq_true]
  refine forall_congr' fun p => forall_congr' fun _ => ?_
  obtain ⟨n, w⟩ := p
  cases n with
  | argument a =>
    simp only [Node.argument.injEq, forall_eq']
    cases (argPos s w a.name).inputType <;> simp
  | _ => simp

/-- "silent ⇒ every literal argument value is coercible to the argument's type" - the soundness half of the
    specification's 5.6.1 for this rule -/
def ValuesSpecClauseStatement : Prop :=
  ∀ (s : SchemaD) (d : Doc), Silent s Fixes.all .valuesOfCorrectType d → Spec.valuesCoercible s d

/-- `{ s(f: ["x"]) }` with `f: String`: a list literal at a non-list position is accepted (known finding V8, whose
    replay on the real code is `{ a(x: [1]) }` with `x: Int`) -/
def v8doc : Doc := ⟨[opV [] 1 [fld none "s" [⟨"f", .list [.str "x"]⟩]]]⟩
/-- `{ s(l: [null]) }` with `l: [String!]`: a null item WAS accepted (second form of V8) until
    proposed_fixes/C06-enter-list-value.patch; the items are now checked against the item type `String!` -/
def v8doc2 : Doc := ⟨[opV [] 1 [fld none "s" [⟨"l", .list [.null]⟩]]]⟩

/-- **the specification's clause is FALSE of the code** (known finding V8), witness `{ s(f: ["x"]) }` -/
theorem values_spec_clause_refuted : ¬ ValuesSpecClauseStatement := fun h =>
  absurd ((valuesCoercibleB_iff vSchema v8doc).mpr (h vSchema v8doc (by unfold Silent; decide +kernel)))
    (by decide +kernel)

/-- on the same witness the clause the code implements holds: the two clauses differ exactly there -/
example : Spec.valuesOfCorrectType vSchema Fixes.all v8doc ∧ ¬ Spec.valuesCoercible vSchema v8doc :=
  ⟨(rule_values_of_correct_type_iff vSchema Fixes.all _).mp (by unfold Silent; decide +kernel),
   fun h => absurd ((valuesCoercibleB_iff vSchema v8doc).mpr h) (by decide +kernel)⟩
/-- the second form of V8 is gone: the null item of a `[String!]` literal is reported -/
example : ¬ Silent vSchema Fixes.all .valuesOfCorrectType v8doc2 ∧ ¬ Spec.valuesCoercible vSchema v8doc2 :=
  ⟨by unfold Silent; decide +kernel, fun h => absurd ((valuesCoercibleB_iff vSchema v8doc2).mpr h) (by decide +kernel)⟩

end PyGql.Props.C06

/-
<<<<<<< HEAD
  C06 - property theorems, part 11: `ValuesOfCorrectTypeChecker` (5.6.1). The rule reads the INPUT side of
  `TypeInfoVisitor` and raises `SkipNode` at an object literal that does not stand at an input-object position -
  without any error when the position's type is unknown. Proved through the context walk `Q.defsC`
  (`Lemmas/ValidateValuesCtx.lean`) against the static input contexts of `Spec/ValidSpecValues.lean`.
  Next to it: the clause of the SPECIFICATION (every literal is coercible to the expected type) is refuted for
  the code as it is (ledger V8: list literals are never checked).
-/
import PyGqlModel.Props.C06_names
import PyGqlModel.Props.C06_witness
import PyGqlModel.Lemmas.ValidateValues3
namespace PyGql.Props.C06
open PyGql PyGql.Validate PyGql.Validate.Spec

/-- **5.6.1 Values of correct type, as implemented**: `ValuesOfCorrectTypeChecker` run alone reports nothing ⇔
    every literal of the document is acceptable in its static input context (`Spec.valueNodeOk`): scalar literals
    are accepted by the expected scalar, `null` does not stand at a non-null position, enum literals are values
    of the expected enum, object literals stand at input-object positions and give all required fields, every
    field of such a literal is defined; LIST literals are not checked and their items are checked against the
    NAMED type of the position (ledger V8) -/
theorem rule_values_of_correct_type_iff (s : SchemaD) (fx : Fixes) (d : Doc) :
    Silent s fx .valuesOfCorrectType d ↔ Spec.valuesOfCorrectType s fx d := by
  unfold Silent alone
  have he : enter ⟨s, fx, [.valuesOfCorrectType]⟩ (.document d) {} = (({} : St), false) := by
    simp only [enter, enterRules_one, enterRule, tiEnter]
  rw [visitDocument, visitNode_noskip _ _ _ _ _ he]
  have hl : ∀ st, E (leave ⟨s, fx, [.valuesOfCorrectType]⟩ (.document d) st) = E st := by
    intro st
    simp only [leave, E, List.reverse_cons, List.reverse_nil, List.nil_append, List.foldl_cons, List.foldl_nil,
      voc_leave]
  rw [hl]
  have hw := (Q.defsC (ctxValues s fx) d.defs ({} : St) trivial rfl).1
  have h0 : E ({} : St) = 0 := rfl
  rw [h0] at hw
  rw [hw]
  unfold Spec.valuesOfCorrectType inputNodes
  have hmap := forall_gnDoc_map TI.iview (tiEnter s) (IView.enter s) (iview_enter s) d ({} : TI)
    (fun q => valueNodeOk s fx q.1 q.2)
  rw [iview_empty] at hmap
  rw [hmap]
  show (∀ p ∈ gnDoc (tiEnter s) ({} : TI) d, Q.okP (ctxValues s fx) p) ↔ _
  refine forall_congr' fun p => forall_congr' fun _ => ?_
  rw [okP_ctxValues]
  exact okT_iff s fx p.1 p.2

/-! non-vacuity (string literals only: `Int` literals go through `String.toInt?`, which the kernel cannot evaluate) -/

/-- `type Query { s(f: String, l: [String!]): String }` -/
def vSchema : SchemaD :=
  { types := [
      { kind := .scalar, name := "Int" }, { kind := .scalar, name := "String" }, { kind := .scalar, name := "Boolean" },
      { kind := .object, name := "Query", fields := [
          { name := "s", type := .named "String",
            args := [{ name := "f", type := .named "String" }, { name := "l", type := .list (.nonNull (.named "String")) }] }] }],
    query := some "Query",
    directives := [] }

/-- `{ s(f: "x") }` -/
example : Spec.valuesOfCorrectType vSchema Fixes.all ⟨[opV [] 1 [fld none "s" [⟨"f", .str "x"⟩]]]⟩ :=
  (rule_values_of_correct_type_iff vSchema Fixes.all _).mp (by unfold Silent; decide +kernel)
/-- `{ s(f: true) }` is reported -/
example : ¬ Spec.valuesOfCorrectType vSchema Fixes.all ⟨[opV [] 1 [fld none "s" [⟨"f", .bool true⟩]]]⟩ := fun h =>
  absurd ((rule_values_of_correct_type_iff vSchema Fixes.all _).mpr h) (by unfold Silent; decide +kernel)
/-- `{ s(unknown: {k: "x"}) }`: the object literal raises SkipNode WITHOUT an error (its position has no known
    type); the rule is silent, and the clause holds -/
example : Spec.valuesOfCorrectType vSchema Fixes.all
    ⟨[opV [] 1 [fld none "s" [⟨"unknown", .obj [.mk "k" (.str "x")]⟩]]]⟩ :=
  (rule_values_of_correct_type_iff vSchema Fixes.all _).mp (by unfold Silent; decide +kernel)

/-! ### the clause of the specification is NOT what the code decides (ledger V8) -/

/-- computable form of `Spec.valuesCoercible` -/
def valuesCoercibleB (s : SchemaD) (d : Doc) : Bool :=
  (typedNodes s d).all fun p =>
    match p.1 with
    | .argument a =>
      match (argPos s p.2 a.name).inputType with
      | some t => coercible s t a.value
      | none => true
    | _ => true

theorem valuesCoercibleB_iff (s : SchemaD) (d : Doc) : valuesCoercibleB s d = true ↔ Spec.valuesCoercible s d := by
  unfold valuesCoercibleB Spec.valuesCoercible
  rw [List.all_eq_true]
  refine forall_congr' fun p => forall_congr' fun _ => ?_
  obtain ⟨n, w⟩ := p
  cases n with
  | argument a =>
    simp only [Node.argument.injEq, forall_eq']
    cases (argPos s w a.name).inputType <;> simp
  | _ => simp

/-- "silent ⇒ every literal argument value is coercible to the argument's type" - the soundness half of the
    specification's 5.6.1 for this rule -/
def ValuesSpecClauseStatement : Prop :=
  ∀ (s : SchemaD) (d : Doc), Silent s Fixes.all .valuesOfCorrectType d → Spec.valuesCoercible s d

/-- `{ s(f: ["x"]) }` with `f: String`: a list literal at a non-list position is accepted (known finding V8, whose
    replay on the real code is `{ a(x: [1]) }` with `x: Int`) -/
def v8doc : Doc := ⟨[opV [] 1 [fld none "s" [⟨"f", .list [.str "x"]⟩]]]⟩
/-- `{ s(l: [null]) }` with `l: [String!]`: a null item is accepted (second form of V8) -/
def v8doc2 : Doc := ⟨[opV [] 1 [fld none "s" [⟨"l", .list [.null]⟩]]]⟩

/-- **the specification's clause is FALSE of the code** (known finding V8), witnesses `{ s(f: ["x"]) }` and `{ s(l: [null]) }` -/
theorem values_spec_clause_refuted : ¬ ValuesSpecClauseStatement := fun h =>
  absurd ((valuesCoercibleB_iff vSchema v8doc).mpr (h vSchema v8doc (by unfold Silent; decide +kernel)))
    (by decide +kernel)

/-- on the same witness the clause the code implements holds: the two clauses differ exactly there -/
example : Spec.valuesOfCorrectType vSchema Fixes.all v8doc ∧ ¬ Spec.valuesCoercible vSchema v8doc :=
  ⟨(rule_values_of_correct_type_iff vSchema Fixes.all _).mp (by unfold Silent; decide +kernel),
   fun h => absurd ((valuesCoercibleB_iff vSchema v8doc).mpr h) (by decide +kernel)⟩
example : Silent vSchema Fixes.all .valuesOfCorrectType v8doc2 ∧ ¬ Spec.valuesCoercible vSchema v8doc2 :=
  ⟨by unfold Silent; decide +kernel, fun h => absurd ((valuesCoercibleB_iff vSchema v8doc2).mpr h) (by decide +kernel)⟩
=======
  C06 - property theorems, part 12: `ValuesOfCorrectTypeChecker` (5.6.1, 5.6.2, 5.6.4 as the code implements them;
  ledger V8 is the gap to the specification's 5.6.1 for list literals). Through the generic context walk with the
  stacks of `TypeInfoVisitor` as context, projected to the input-side static contexts `IView`.
  The rule raises SkipNode at an object literal that does not stand at an input object type - WITHOUT an error when
  the expected type is unknown ("quiet skip"): nothing below can report then (`dead*` lemmas).
-/
import PyGqlModel.Props.C06_spreads
namespace PyGql.Props.C06
open PyGql PyGql.Validate PyGql.Validate.Spec

/-- the input-side static context shown by the stacks of `TypeInfoVisitor` -/
def iview (t : TI) : IView := { view := t.view, inputs := t.inputStack }

theorem IView.ext2 {a b : IView} (h1 : a.view = b.view) (h2 : a.inputs = b.inputs) : a = b := by
  cases a; cases b; simp_all

theorem IView.enter_view (s : SchemaD) (n : Node) (v : IView) : (IView.enter s n v).view = View.enter s n v.view := by
  cases n with
  | value x => cases x <;> simp [IView.enter, IView.push]
  | argument a => simp only [IView.enter, IView.push]; split <;> rfl
  | objField name =>
    simp only [IView.enter, IView.push]
    split
    · split <;> rfl
    · rfl
  | _ => simp [IView.enter, IView.push]

theorem inputs_enter (s : SchemaD) (n : Node) (t : TI) : (tiEnter s n t).inputStack = (IView.enter s n (iview t)).inputs := by
  cases n with
  | value x => cases x <;> simp [iview, IView.enter, IView.push, tiEnter, TI.enterListValue, IView.inputType, TI.inputType]
  | argument a =>
    simp only [iview, IView.enter, IView.push, tiEnter, TI.enterArgument, TI.view]
    cases t.directive <;> cases hf : t.field <;> simp [hf]
  | objField name =>
    simp only [iview, IView.enter, IView.push, IView.inputType, tiEnter, TI.enterObjectField, TI.inputType]
    cases hi : (TI.peek t.inputStack).map (·.base) with
    | none => simp
    | some b => cases hb : isInputObject s b <;> simp [hb]
  | varDef vd => simp [iview, IView.enter, IView.push, tiEnter, TI.enterVarDef]
  | inline on dirs => cases on <;> simp [iview, IView.enter, tiEnter, TI.enterInline]
  | _ =>
    simp [iview, IView.enter, tiEnter, TI.enterSelectionSet, TI.enterField, TI.enterDirective, TI.enterOperation,
      TI.enterFragmentDef]

theorem iview_enter (s : SchemaD) (n : Node) (t : TI) : iview (tiEnter s n t) = IView.enter s n (iview t) :=
  IView.ext2 (by rw [IView.enter_view]; exact view_enter s n t) (inputs_enter s n t)

theorem parseLiteralFails_some (sc : String) (v : Value) : ∃ b, parseLiteralFails sc v = some b := by
  unfold parseLiteralFails
  split
  · exact ⟨_, rfl⟩
  · cases v <;> exact ⟨_, rfl⟩

/-- errors of `_check_scalar(node)` at an expected type -/
def scalarErr (s : SchemaD) (iv : IView) (v : Value) : Nat :=
  match iv.inputType with
  | none => 0
  | some it => if !isScalar s it.base then 1 else if parseLiteralFails it.base v = some true then 1 else 0

theorem checkScalar_eq (s : SchemaD) (ti : TI) (v : Value) : checkScalar s ti v = some (scalarErr s (iview ti) v) := by
  unfold checkScalar scalarErr
  show (match ti.inputType with | none => _ | some it => _) = some (match TI.peek ti.inputStack with | none => _ | some it => _)
  cases h : ti.inputType with
  | none => simp [TI.inputType] at h; simp [h]
  | some it =>
    have h' : TI.peek ti.inputStack = some it := h
    simp only [h']
    cases hs : isScalar s it.base
    · simp
    · obtain ⟨b, hb⟩ := parseLiteralFails_some it.base v
      cases b <;> simp [hb]


/-!
## HANDOVER (val1 -> val2): what is here, what remains

Done in this file / elsewhere:
* `Spec/CtxNodes.lean`: `IView` (view + chain of expected input types), `IView.enter`, `Spec.inputNodes`,
  `Spec.literalOk`, `Spec.valuesOfCorrectType s fx d` (the clause the code implements, V8 stays a refutation).
* `Lemmas/ValidateCtx.lean`: `CTX` now has QUIET SKIPS (`qskip`, `qskipE`, `qskip_fine`, `qskip_ctx`, `qskip_only`,
  `qskip_sub`): SkipNode without an error at an object literal, allowed when nothing below can report.
* here: `iview`, `iview_enter` (projection commutes with `tiEnter`), `parseLiteralFails_some`, `scalarErr`, `checkScalar_eq`.

Plan for the rest (all on contexts `iview t`):
1. `fVal s fx : Node → IView → Nat` = errors added on entering (scalars: `scalarErr`; null at non-null: 1; enum; object
   literal: missing required fields at an input object type, else `scalarErr`; object field: 1 iff
   `inputType = none ∧ parentInputType = some _`), `isObjSkip s : Node → IView → Bool` (object literal not at an input
   object type), and the uniform equation
   `enterRule s fx .valuesOfCorrectType n ti rs = (rs.errN _ (fVal s fx n (iview ti)), isObjSkip s n (iview ti))` for `n.isDoc = false`
   (uses `checkScalar_eq`; `RS.addOpt r (some k) = errN r k`).
2. CTX instance with `X := TI` (as `ctxSpreads`): `bad n t := isObjSkip .. && fVal .. > 0`, `qskip n t := isObjSkip .. && fVal .. == 0`,
   `F n t := fVal s fx n (iview t)`, `G := 0`. A quiet skip implies `inputType = none` (object literal at a known non
   input-object type always errs: `parseLiteralFails sc (.obj fs) = some true`).
3. `qskip_sub`: "dead zone" - mutual induction over `Value`: if `TI.peek t.inputStack = none` then every pair of
   `gnValue (tiEnter s) t v` / `gnObjFields (tiEnter s) t fs` is fine (below an unknown type all expected types are unknown,
   and `parentInputType` is `none` because the position one level up is unknown too).
4. `rule_values_of_correct_type_iff`: `silent_iff_ctx`, then `forall_gnDoc_map iview (tiEnter s) (IView.enter s) (iview_enter s)`,
   then pointwise `okP ↔ Spec.literalOk` by cases on the node kind.
-/
>>>>>>> 88e7473a30999ae2e6becbc06ed6783959597d96

end PyGql.Props.C06

/-
  C06 - property theorems, part 12: `ValuesOfCorrectTypeChecker` (5.6.1, 5.6.2, 5.6.4 as the code implements them;
  ledger V8 is the gap to the specification's 5.6.1 for list literals). Through the generic context walk with the
  stacks of `TypeInfoVisitor` as context, projected to the input-side static contexts `IView`.
  The rule raises SkipNode at an object literal that does not stand at an input object type - WITHOUT an error when
  the expected type is unknown ("quiet skip"): nothing below can report then (`dead*` lemmas).
-/
import PyGqlModel.Props.C06_spreads
namespace PyGql.Props.C06
open PyGql PyGql.Validate PyGql.Validate.Spec

/-- the input-side static context shown by the stacks of `TypeInfoVisitor` -/
def iview (t : TI) : IView := { view := t.view, inputs := t.inputStack }

theorem IView.ext2 {a b : IView} (h1 : a.view = b.view) (h2 : a.inputs = b.inputs) : a = b := by
  cases a; cases b; simp_all

theorem IView.enter_view (s : SchemaD) (n : Node) (v : IView) : (IView.enter s n v).view = View.enter s n v.view := by
  cases n with
  | value x => cases x <;> simp [IView.enter, IView.push]
  | argument a => simp only [IView.enter, IView.push]; split <;> rfl
  | objField name =>
    simp only [IView.enter, IView.push]
    split
    · split <;> rfl
    · rfl
  | _ => simp [IView.enter, IView.push]

theorem inputs_enter (s : SchemaD) (n : Node) (t : TI) : (tiEnter s n t).inputStack = (IView.enter s n (iview t)).inputs := by
  cases n with
  | value x => cases x <;> simp [iview, IView.enter, IView.push, tiEnter, TI.enterListValue, IView.inputType, TI.inputType]
  | argument a =>
    simp only [iview, IView.enter, IView.push, tiEnter, TI.enterArgument, TI.view]
    cases t.directive <;> cases hf : t.field <;> simp [hf]
  | objField name =>
    simp only [iview, IView.enter, IView.push, IView.inputType, tiEnter, TI.enterObjectField, TI.inputType]
    cases hi : (TI.peek t.inputStack).map (·.base) with
    | none => simp
    | some b => cases hb : isInputObject s b <;> simp [hb]
  | varDef vd => simp [iview, IView.enter, IView.push, tiEnter, TI.enterVarDef]
  | inline on dirs => cases on <;> simp [iview, IView.enter, tiEnter, TI.enterInline]
  | _ =>
    simp [iview, IView.enter, tiEnter, TI.enterSelectionSet, TI.enterField, TI.enterDirective, TI.enterOperation,
      TI.enterFragmentDef]

theorem iview_enter (s : SchemaD) (n : Node) (t : TI) : iview (tiEnter s n t) = IView.enter s n (iview t) :=
  IView.ext2 (by rw [IView.enter_view]; exact view_enter s n t) (inputs_enter s n t)

theorem parseLiteralFails_some (sc : String) (v : Value) : ∃ b, parseLiteralFails sc v = some b := by
  unfold parseLiteralFails
  split
  · exact ⟨_, rfl⟩
  · cases v <;> exact ⟨_, rfl⟩

/-- errors of `_check_scalar(node)` at an expected type -/
def scalarErr (s : SchemaD) (iv : IView) (v : Value) : Nat :=
  match iv.inputType with
  | none => 0
  | some it => if !isScalar s it.base then 1 else if parseLiteralFails it.base v = some true then 1 else 0

theorem checkScalar_eq (s : SchemaD) (ti : TI) (v : Value) : checkScalar s ti v = some (scalarErr s (iview ti) v) := by
  unfold checkScalar scalarErr
  show (match ti.inputType with | none => _ | some it => _) = some (match TI.peek ti.inputStack with | none => _ | some it => _)
  cases h : ti.inputType with
  | none => simp [TI.inputType] at h; simp [h]
  | some it =>
    have h' : TI.peek ti.inputStack = some it := h
    simp only [h']
    cases hs : isScalar s it.base
    · simp
    · obtain ⟨b, hb⟩ := parseLiteralFails_some it.base v
      cases b <;> simp [hb]


/-!
## HANDOVER (val1 -> val2): what is here, what remains

Done in this file / elsewhere:
* `Spec/CtxNodes.lean`: `IView` (view + chain of expected input types), `IView.enter`, `Spec.inputNodes`,
  `Spec.literalOk`, `Spec.valuesOfCorrectType s fx d` (the clause the code implements, V8 stays a refutation).
* `Lemmas/ValidateCtx.lean`: `CTX` now has QUIET SKIPS (`qskip`, `qskipE`, `qskip_fine`, `qskip_ctx`, `qskip_only`,
  `qskip_sub`): SkipNode without an error at an object literal, allowed when nothing below can report.
* here: `iview`, `iview_enter` (projection commutes with `tiEnter`), `parseLiteralFails_some`, `scalarErr`, `checkScalar_eq`.

Plan for the rest (all on contexts `iview t`):
1. `fVal s fx : Node → IView → Nat` = errors added on entering (scalars: `scalarErr`; null at non-null: 1; enum; object
   literal: missing required fields at an input object type, else `scalarErr`; object field: 1 iff
   `inputType = none ∧ parentInputType = some _`), `isObjSkip s : Node → IView → Bool` (object literal not at an input
   object type), and the uniform equation
   `enterRule s fx .valuesOfCorrectType n ti rs = (rs.errN _ (fVal s fx n (iview ti)), isObjSkip s n (iview ti))` for `n.isDoc = false`
   (uses `checkScalar_eq`; `RS.addOpt r (some k) = errN r k`).
2. CTX instance with `X := TI` (as `ctxSpreads`): `bad n t := isObjSkip .. && fVal .. > 0`, `qskip n t := isObjSkip .. && fVal .. == 0`,
   `F n t := fVal s fx n (iview t)`, `G := 0`. A quiet skip implies `inputType = none` (object literal at a known non
   input-object type always errs: `parseLiteralFails sc (.obj fs) = some true`).
3. `qskip_sub`: "dead zone" - mutual induction over `Value`: if `TI.peek t.inputStack = none` then every pair of
   `gnValue (tiEnter s) t v` / `gnObjFields (tiEnter s) t fs` is fine (below an unknown type all expected types are unknown,
   and `parentInputType` is `none` because the position one level up is unknown too).
4. `rule_values_of_correct_type_iff`: `silent_iff_ctx`, then `forall_gnDoc_map iview (tiEnter s) (IView.enter s) (iview_enter s)`,
   then pointwise `okP ↔ Spec.literalOk` by cases on the node kind.
-/

end PyGql.Props.C06

/-
  C06 - property theorems, part 24: **alpha_aliases** - renaming of aliases. Proved on the MODEL OF THE CODE, not through
  the specification clauses: 24 of the 26 rule visitors never read an alias, so the run of any chain made of them is the
  same, state by state, on the renamed document (no hypothesis on the document, the fixes or the renaming - it need not
  even be injective). `SingleFieldSubscriptions` reads the response keys of the root selection set: invariant when the
  renaming acts injectively on response keys (through `rule_single_field_subscriptions_iff`). Not covered:
  `OverlappingFieldsCanBeMerged` (builder `ov`); there the statement needs injectivity on response keys as well.
-/
import PyGqlModel.Props.C06_inv5
import PyGqlModel.Lemmas.ValidateAlias
namespace PyGql.Props.C06
open PyGql PyGql.Validate PyGql.Validate.Spec

/-- full statement (kept visible): a renaming of aliases that acts injectively on response keys never changes the
    verdict of the whole chain. Open: the case of OverlappingFieldsCanBeMerged. -/
def FullStatement_alpha_aliases : Prop :=
  ∀ (A : Al) (ρ : String → String), A.Renames ρ → (∀ a b, ρ a = ρ b → a = b) → ∀ (s : SchemaD) (d : Doc),
    verdict { schema := s } (A.doc d) = verdict { schema := s } d

/-- the 24 rules that never read an alias -/
def AliasBlindRules : List Rule := Rule.all.filter fun r => !r.readsAlias

example : AliasBlindRules.length = 24 := by decide

/-- **alpha_aliases for every chain of alias-blind rules** (in particular the 24 of `AliasBlindRules` together, in the
    order of `SPECIFIED_RULES`): same outcome - the same number of errors of every rule, or the same crash -, same
    verdict. ANY renaming of aliases, any document, any variant of the fixes. -/
theorem alpha_aliases_chain_partial (A : Al) (c : Cfg) (hc : ∀ r ∈ c.rules, r.readsAlias = false) (d : Doc) :
    visitDocument c (A.doc d) {} = visitDocument c d {} ∧ verdict c (A.doc d) = verdict c d := by
  have h := visitDocument_al A c hc d {}
  exact ⟨h, by simp only [verdict, run, h]⟩

theorem alpha_aliases_24_chain_partial (A : Al) (s : SchemaD) (fx : Fixes) (d : Doc) :
    verdict ⟨s, fx, AliasBlindRules⟩ (A.doc d) = verdict ⟨s, fx, AliasBlindRules⟩ d :=
  (alpha_aliases_chain_partial A ⟨s, fx, AliasBlindRules⟩ (show ∀ r ∈ AliasBlindRules, r.readsAlias = false by decide) d).2

/-- **alpha_aliases**, rule by rule (the form of the other invariance theorems) -/
theorem alpha_aliases_all_partial (A : Al) (s : SchemaD) (fx : Fixes) (d : Doc) (r : Rule) (hr : r.readsAlias = false) :
    Silent s fx r (A.doc d) ↔ Silent s fx r d := by
  unfold Silent alone
  rw [(alpha_aliases_chain_partial A ⟨s, fx, [r]⟩ (by simpa using hr) d).1]

/-! ### SingleFieldSubscriptions -/

def Node.isOperation : Node → Bool | .operation .. => true | _ => false

private theorem valueish_noop {n : Node} (h : n.isValueish = true) : Node.isOperation n = false := by
  cases n <;> simp_all [Node.isValueish, Node.isOperation]

private theorem argsNodes_noop (as : List Arg) : ∀ n ∈ argsNodes as, Node.isOperation n = false := by
  intro n hn
  simp only [argsNodes, List.mem_flatMap, argNodes, List.mem_cons] at hn
  obtain ⟨a, _, rfl | hn⟩ := hn
  · rfl
  · exact valueish_noop (valueNodes_kinds _ n hn)

private theorem dirsNodes_noop (ds : List Dir) : ∀ n ∈ dirsNodes ds, Node.isOperation n = false := by
  intro n hn
  simp only [dirsNodes, List.mem_flatMap, dirNodes, List.mem_cons] at hn
  obtain ⟨a, _, rfl | hn⟩ := hn
  · rfl
  · exact argsNodes_noop _ n hn

mutual
private theorem selNodes_noop : ∀ (x : Sel) (n : Node), n ∈ selNodes x → Node.isOperation n = false
  | .field _ name args dirs hs id sub, n, hn => by
    simp only [selNodes, List.mem_cons, List.mem_append] at hn
    rcases hn with rfl | (hn | hn) | hn
    · rfl
    · exact argsNodes_noop _ n hn
    · exact dirsNodes_noop _ n hn
    · cases hs with
      | false => simp at hn
      | true =>
        simp only [↓reduceIte, List.mem_cons] at hn
        rcases hn with rfl | hn
        · rfl
        · exact selsNodes_noop sub n hn
  | .spread name dirs, n, hn => by
    simp only [selNodes, List.mem_cons] at hn
    rcases hn with rfl | hn
    · rfl
    · exact dirsNodes_noop _ n hn
  | .inline on dirs id sub, n, hn => by
    simp only [selNodes, List.mem_cons, List.mem_append] at hn
    rcases hn with rfl | hn | rfl | hn
    · rfl
    · exact dirsNodes_noop _ n hn
    · rfl
    · exact selsNodes_noop sub n hn
private theorem selsNodes_noop : ∀ (xs : List Sel) (n : Node), n ∈ selsNodes xs → Node.isOperation n = false
  | [], n, hn => by simp [selsNodes] at hn
  | x :: xs, n, hn => by
    simp only [selsNodes, List.mem_append] at hn
    rcases hn with hn | hn
    · exact selNodes_noop x n hn
    · exact selsNodes_noop xs n hn
end

private theorem varDefsNodes_noop (vars : List VarDef) : ∀ n ∈ vars.flatMap varDefNodes, Node.isOperation n = false := by
  intro n hn
  simp only [List.mem_flatMap, varDefNodes, List.mem_cons, List.mem_append, List.not_mem_nil, or_false] at hn
  obtain ⟨v, _, rfl | hn | rfl | hn⟩ := hn
  · rfl
  · cases hd : v.default with
    | none => simp [hd] at hn
    | some dv => rw [hd] at hn; exact valueish_noop (valueNodes_kinds _ n hn)
  · rfl
  · exact dirsNodes_noop _ n hn

/-- the operation nodes of a document are its operation definitions -/
theorem mem_nodes_operation (d : Doc) (k : String) (nm : Option String) (vs : List VarDef) (ds : List Dir) (sels : List Sel) :
    Node.operation k nm vs ds sels ∈ nodes d ↔ ∃ id, Def.op k nm vs ds id sels ∈ d.defs := by
  simp only [nodes, List.mem_cons, reduceCtorEq, false_or, List.mem_flatMap]
  constructor
  · rintro ⟨x, hx, hn⟩
    cases x with
    | op k' nm' vs' ds' id sels' =>
      simp only [defNodes, List.mem_cons, List.mem_append] at hn
      rcases hn with e | (hn | hn) | e | hn
      · simp only [Node.operation.injEq] at e
        obtain ⟨rfl, rfl, rfl, rfl, rfl⟩ := e
        exact ⟨id, hx⟩
      · exact absurd (varDefsNodes_noop _ _ hn) (by simp [Node.isOperation])
      · exact absurd (dirsNodes_noop _ _ hn) (by simp [Node.isOperation])
      · exact absurd e (by simp)
      · exact absurd (selsNodes_noop _ _ hn) (by simp [Node.isOperation])
    | frag n on dirs id sels' =>
      simp only [defNodes, List.mem_cons, List.mem_append] at hn
      rcases hn with e | hn | e | hn
      · exact absurd e (by simp)
      · exact absurd (dirsNodes_noop _ _ hn) (by simp [Node.isOperation])
      · exact absurd e (by simp)
      · exact absurd (selsNodes_noop _ _ hn) (by simp [Node.isOperation])
    | ts a b => simp [defNodes] at hn
  · rintro ⟨id, h⟩
    exact ⟨_, h, by simp [defNodes]⟩

/-- the clause of 5.2.3.1 under a renaming of aliases that is injective on response keys -/
theorem single_field_subscriptions_spec_al (A : Al) (ρ : String → String) (hA : A.Renames ρ)
    (hρ : ∀ a b, ρ a = ρ b → a = b) (d : Doc) :
    Spec.singleFieldSubscriptions (A.doc d) ↔ Spec.singleFieldSubscriptions d := by
  have hkeys : ∀ sels, (rootKeys (sfsTable (A.doc d)) (sfsBound (A.doc d)) (A.selList sels)).length =
      (rootKeys (sfsTable d) (sfsBound d) sels).length := by
    intro sels
    have := rootKeysGo_al A ρ hA hρ (sfsTable d) (sfsBound d) sels [] []
    simp only [rootKeys, sfsTable_al, sfsBound_al]
    simp only [List.map_nil] at this
    rw [this, List.length_map]
  unfold Spec.singleFieldSubscriptions
  constructor
  · intro h n hn name vars dirs sels e
    subst e
    obtain ⟨id, hd⟩ := (mem_nodes_operation d _ _ _ _ _).mp hn
    have hd' : Def.op "subscription" name vars dirs id (A.selList sels) ∈ (A.doc d).defs :=
      List.mem_map.mpr ⟨_, hd, rfl⟩
    have := h _ ((mem_nodes_operation (A.doc d) _ _ _ _ _).mpr ⟨id, hd'⟩) _ _ _ _ rfl
    rwa [hkeys] at this
  · intro h n hn name vars dirs sels e
    subst e
    obtain ⟨id, hd⟩ := (mem_nodes_operation (A.doc d) _ _ _ _ _).mp hn
    obtain ⟨x, hx, ex⟩ := List.mem_map.mp hd
    cases x with
    | op k nm vs ds id' sels0 =>
      simp only [Al.defn, Def.op.injEq] at ex
      obtain ⟨rfl, rfl, rfl, rfl, rfl, rfl⟩ := ex
      rw [hkeys]
      exact h _ ((mem_nodes_operation d _ _ _ _ _).mpr ⟨_, hx⟩) _ _ _ _ rfl
    | frag => simp [Al.defn] at ex
    | ts => simp [Al.defn] at ex

/-- **alpha_aliases for `SingleFieldSubscriptionsChecker`**: `A` renames response keys by an injective `ρ` -/
theorem alpha_aliases_single_field_subscriptions (A : Al) (ρ : String → String) (hA : A.Renames ρ)
    (hρ : ∀ a b, ρ a = ρ b → a = b) (s : SchemaD) (fx : Fixes) (d : Doc) :
    Silent s fx .singleFieldSubscriptions (A.doc d) ↔ Silent s fx .singleFieldSubscriptions d := by
  rw [rule_single_field_subscriptions_iff, rule_single_field_subscriptions_iff]
  exact single_field_subscriptions_spec_al A ρ hA hρ d

/-- **alpha_aliases for 25 of the 26 rules** (all but OverlappingFieldsCanBeMerged) [ALONE-RUN statement, rule by rule: each rule visitor in a chain of its own; for the verdict of the chain `validate_ast` runs see `Props/C06_chain.lean: chainM_six_transformations`.] -/
theorem alpha_aliases_all25_partial (A : Al) (ρ : String → String) (hA : A.Renames ρ) (hρ : ∀ a b, ρ a = ρ b → a = b)
    (s : SchemaD) (fx : Fixes) (d : Doc) (r : Rule) (hr : r ≠ .overlappingFieldsCanBeMerged) :
    Silent s fx r (A.doc d) ↔ Silent s fx r d := by
  by_cases h : r = .singleFieldSubscriptions
  · subst h; exact alpha_aliases_single_field_subscriptions A ρ hA hρ s fx d
  · exact alpha_aliases_all_partial A s fx d r (by cases r <;> simp_all [Rule.readsAlias])

/-! ### non-vacuity -/

/-- every response key gets the suffix "_" as an explicit alias: a genuine renaming that satisfies the hypotheses -/
def suffixAl : Al := ⟨fun al n => some (okey al n ++ "_")⟩

theorem suffixAl_renames : suffixAl.Renames (· ++ "_") := fun _ _ => rfl
theorem suffix_inj : ∀ a b : String, a ++ "_" = b ++ "_" → a = b := fun a b h => by
  have := congrArg String.toList h
  simp only [String.toList_append] at this
  exact String.toList_inj.mp (List.append_cancel_right this)

example (s : SchemaD) (fx : Fixes) (d : Doc) (r : Rule) (hr : r ≠ .overlappingFieldsCanBeMerged) :
    Silent s fx r (suffixAl.doc d) ↔ Silent s fx r d :=
  alpha_aliases_all25_partial suffixAl _ suffixAl_renames suffix_inj s fx d r hr

/-- injectivity on response keys is needed for SingleFieldSubscriptions: mapping every key to "k" merges the two root
    fields of `subscription { a b }` -/
example : (rootKeys [] 10 ((⟨fun _ _ => some "k"⟩ : Al).selList
      [.field none "a" [] [] false 0 [], .field none "b" [] [] false 0 []])).length = 1 ∧
    (rootKeys [] 10 [.field none "a" [] [] false 0 [], .field none "b" [] [] false 0 []]).length = 2 := by decide

end PyGql.Props.C06

/-
  C11 — what `strict=False` "silently ignores", exactly.

  `lax_is_strict_on_kept`: the non-strict collection of a document `B` IS the strict collection of `laxKeep live B` — `B`
  without its `schema` blocks, without the definitions of types / directives the schema already has, and without the
  extension blocks whose target is neither a type of the schema nor a new definition.  Same result, or the same
  `ExtensionError` (a new name defined twice).  Hence (`extend_lax_is_strict_on_kept`) the non-strict `extend_schema` is the
  strict one on the kept part, and `extend_exact_strict` describes its result: the content declared by the base
  definitions and the KEPT part of `B`.
-/
import PyGqlModel.Props.C11_extend_general

set_option linter.unusedVariables false
set_option linter.unusedSimpArgs false

namespace PyGql.Props.C11
open PyGql PyGql.Sdl PyGql.SdlSpec

/-- first loop of `_collect_extensions`, non-strict: what is not skipped -/
def laxKeepDef (live : Live) : Def → Bool
  | .schema _ => false
  | .type t => !live.hasType t.name
  | .directive d => !live.hasDirective d.name
  | _ => true

/-- second loop: the target is a new definition or a type of the schema -/
def laxKnown (live : Live) (B1 : Doc) (n : String) : Bool := (typeDefs B1).any (·.name == n) || live.hasType n

def laxKeepExt (live : Live) (B1 : Doc) : Def → Bool
  | .ext e => laxKnown live B1 e.name
  | _ => true

/-- the part of `B` a non-strict `extend_schema` does not ignore -/
def laxKeep (live : Live) (B : Doc) : Doc :=
  (B.filter (laxKeepDef live)).filter (laxKeepExt live (B.filter (laxKeepDef live)))

/-! ### first loop: skipping = dropping -/

theorem step_kept (live : Live) (acc : ExtCollected) (d : Def) (hk : laxKeepDef live d = true) :
    collectExtStep live.hasType live.hasDirective false acc d = collectExtStep live.hasType live.hasDirective true acc d := by
  cases d <;> simp only [laxKeepDef, Bool.not_eq_true'] at hk <;> simp only [collectExtStep, hk, Bool.false_eq_true, if_false]

theorem step_dropped (live : Live) (acc : ExtCollected) (d : Def) (hk : laxKeepDef live d = false) :
    collectExtStep live.hasType live.hasDirective false acc d = .ok acc := by
  cases d <;> simp only [laxKeepDef, Bool.not_eq_false'] at hk <;> first
    | (simp only [collectExtStep, hk, if_true, Bool.false_eq_true, if_false]; rfl)
    | cases hk

theorem foldl_lax_drop (live : Live) : ∀ (B : Doc) (acc : ExtCollected),
    B.foldlM (collectExtStep live.hasType live.hasDirective false) acc
      = (B.filter (laxKeepDef live)).foldlM (collectExtStep live.hasType live.hasDirective true) acc := by
  intro B
  induction B with
  | nil => intro acc; rfl
  | cons d ds ih =>
    intro acc
    rw [List.foldlM_cons, List.filter_cons]
    cases hk : laxKeepDef live d with
    | false =>
      rw [step_dropped live acc d hk]
      simp only [bind, Except.bind, Bool.false_eq_true, if_false]
      exact ih acc
    | true =>
      simp only [if_true]
      rw [List.foldlM_cons, step_kept live acc d hk]
      cases collectExtStep live.hasType live.hasDirective true acc d with
      | error e => rfl
      | ok a => simp only [bind, Except.bind]; exact ih a

/-! ### dropping extension blocks does not disturb the rest of the first loop -/

/-- equal up to the list of extension blocks -/
def SameBut (a b : ExtCollected) : Prop := a.schemaExts = b.schemaExts ∧ a.typeDefs = b.typeDefs ∧ a.dirDefs = b.dirDefs

theorem step_congr (ht hd : String → Bool) (acc acc' : ExtCollected) (h : SameBut acc acc') (d : Def) :
    (∀ e, collectExtStep ht hd true acc d = .error e → collectExtStep ht hd true acc' d = .error e) ∧
    (∀ a, collectExtStep ht hd true acc d = .ok a → ∃ a', collectExtStep ht hd true acc' d = .ok a' ∧ SameBut a a') := by
  obtain ⟨h1, h2, h3⟩ := h
  cases d <;> simp only [collectExtStep, extErr, pure, Except.pure, h1, h2, h3]
  all_goals (repeat' split)
  all_goals first
    | (refine ⟨fun e he => he, fun a ha => ?_⟩; cases ha)
    | (refine ⟨fun e he => (by cases he), fun a ha => ?_⟩; cases ha; exact ⟨_, rfl, (by simp [SameBut, h1, h2, h3])⟩)

theorem foldl_drop_exts (ht hd : String → Bool) (keep : Def → Bool) (hkeep : ∀ d, keep d = false → ∃ e, d = .ext e) :
    ∀ (B : Doc) (acc acc' : ExtCollected), SameBut acc acc' →
      (∀ e, B.foldlM (collectExtStep ht hd true) acc = .error e → (B.filter keep).foldlM (collectExtStep ht hd true) acc' = .error e) ∧
      (∀ c, B.foldlM (collectExtStep ht hd true) acc = .ok c →
        ∃ c', (B.filter keep).foldlM (collectExtStep ht hd true) acc' = .ok c' ∧ SameBut c c') := by
  intro B
  induction B with
  | nil =>
    intro acc acc' h
    refine ⟨fun e he => (by cases he), fun c hc => ?_⟩
    cases hc
    exact ⟨acc', rfl, h⟩
  | cons d ds ih =>
    intro acc acc' h
    rw [List.foldlM_cons, List.filter_cons]
    cases hk : keep d with
    | false =>
      obtain ⟨e, rfl⟩ := hkeep d hk
      simp only [collectExtStep, pure, Except.pure, bind, Except.bind, Bool.false_eq_true, if_false]
      exact ih _ acc' ⟨h.1, h.2.1, h.2.2⟩
    | true =>
      simp only [if_true]
      rw [List.foldlM_cons]
      obtain ⟨herr, hok⟩ := step_congr ht hd acc acc' h d
      cases hs : collectExtStep ht hd true acc d with
      | error e =>
        rw [herr e hs]
        refine ⟨fun e' he' => ?_, fun c hc => ?_⟩
        · simpa [bind, Except.bind] using he'
        · simp [bind, Except.bind] at hc
      | ok a =>
        obtain ⟨a', ha', hsame⟩ := hok a hs
        rw [ha']
        simp only [bind, Except.bind]
        exact ih a a' hsame

/-! ### second loop -/

theorem filterTargets_lax (ht : String → Bool) (nd : List TypeDef) : ∀ (es : List TypeDef),
    filterTargets ht false nd es = .ok (es.filter fun e => nd.any (·.name == e.name) || ht e.name) := by
  intro es
  induction es with
  | nil => rfl
  | cons x xs ih =>
    simp only [filterTargets, List.filter_cons]
    cases (nd.any (·.name == x.name) || ht x.name) <;> simp [ih, bind, Except.bind, pure, Except.pure]

theorem filterTargets_strict_filtered (ht : String → Bool) (nd : List TypeDef) : ∀ (es : List TypeDef),
    filterTargets ht true nd (es.filter fun e => nd.any (·.name == e.name) || ht e.name)
      = .ok (es.filter fun e => nd.any (·.name == e.name) || ht e.name) := by
  intro es
  induction es with
  | nil => rfl
  | cons x xs ih =>
    rw [List.filter_cons]
    cases hx : (nd.any (·.name == x.name) || ht x.name) with
    | false => simp only [Bool.false_eq_true, if_false]; exact ih
    | true =>
      simp only [if_true, filterTargets, hx]
      rw [ih]; rfl

theorem typeExts_filter_keepDef (live : Live) (B : Doc) : typeExts (B.filter (laxKeepDef live)) = typeExts B := by
  induction B with
  | nil => rfl
  | cons d ds ih =>
    rw [List.filter_cons]
    cases hk : laxKeepDef live d with
    | true => simp only [if_true]; cases d <;> simp_all [typeExts]
    | false => simp only [Bool.false_eq_true, if_false]; cases d <;> simp_all [typeExts, laxKeepDef]

theorem typeExts_filter_keepExt (live : Live) (B0 B1 : Doc) :
    typeExts (B1.filter (laxKeepExt live B0)) = (typeExts B1).filter (fun e => laxKnown live B0 e.name) := by
  induction B1 with
  | nil => rfl
  | cons d ds ih =>
    rw [List.filter_cons]
    cases hk : laxKeepExt live B0 d with
    | true => simp only [if_true]; cases d <;> simp_all [typeExts, laxKeepExt, List.filter_cons]
    | false => simp only [Bool.false_eq_true, if_false]; cases d <;> simp_all [typeExts, laxKeepExt, List.filter_cons]

/-- **non-strict = strict on what is kept** (collection) -/
theorem lax_is_strict_on_kept (live : Live) (B : Doc) :
    collectExtensions live B false = collectExtensions live (laxKeep live B) true := by
  unfold collectExtensions
  rw [foldl_lax_drop live B {}]
  have hkeep : ∀ d, laxKeepExt live (B.filter (laxKeepDef live)) d = false → ∃ e, d = .ext e := by
    intro d hd; cases d <;> simp [laxKeepExt] at hd ⊢
  obtain ⟨herr, hok⟩ := foldl_drop_exts live.hasType live.hasDirective _ hkeep (B.filter (laxKeepDef live)) {} {} ⟨rfl, rfl, rfl⟩
  cases h1 : (B.filter (laxKeepDef live)).foldlM (collectExtStep live.hasType live.hasDirective true) {} with
  | error e =>
    have := herr e h1
    unfold laxKeep
    rw [this]
    rfl
  | ok c =>
    obtain ⟨c', hc', hs1, hs2, hs3⟩ := hok c h1
    unfold laxKeep
    rw [hc']
    simp only [bind, Except.bind]
    obtain ⟨e1, _, e3, _⟩ := foldl_strict_exact _ _ _ _ c h1
    obtain ⟨_, _, e3', _⟩ := foldl_strict_exact _ _ _ _ c' hc'
    simp only [List.nil_append] at e1 e3 e3'
    have hknown : (fun e : TypeDef => laxKnown live (B.filter (laxKeepDef live)) e.name)
        = fun e : TypeDef => c.typeDefs.any (·.name == e.name) || live.hasType e.name := by
      funext e; simp only [laxKnown, e1]
    rw [filterTargets_lax, e3, e3', typeExts_filter_keepExt, hknown, ← hs2, filterTargets_strict_filtered]
    simp only [pure, Except.pure, hs1, hs2, hs3]

/-- **non-strict `extend_schema` = strict `extend_schema` on what is kept** -/
theorem extend_lax_is_strict_on_kept (baseDefs : List TypeDef) (baseDirs : List DirDef) (live : Live) (B : Doc) :
    extendSchemaPublic baseDefs baseDirs live B false = extendSchemaPublic baseDefs baseDirs live (laxKeep live B) true := by
  unfold extendSchemaPublic
  rw [lax_is_strict_on_kept]

/-- **exactness of the non-strict call, for EVERY document `B`**: what `extend_schema(schema, B, strict=False)` returns is the
    content declared by the base definitions and the part of `B` it does not ignore (`laxKeep`) — provided that part is
    accepted by the strict collection (no new name defined twice) and valid together with the base. -/
theorem extend_exact_lax_general (base B : Doc) (hb : NoExt base) (env : Env) (live : Live)
    (hbuild : buildIgnoringExtensions base [] = .ok (env, live))
    (c : ExtCollected) (hc : collectExtensions live (laxKeep live B) true = .ok c)
    (d : SchemaD) (v : SdlOK (base ++ laxKeep live B) d)
    (hroot : schemaDefs base ≠ [] ∨ ∀ t ∈ typeDefs (laxKeep live B), t.name ≠ "Query" ∧ t.name ≠ "Mutation" ∧ t.name ≠ "Subscription") :
    ∃ r, extendSchemaPublic (typeDefs base) (directiveDefs base) live B false = .ok r ∧ toSchemaD r = d := by
  rw [extend_lax_is_strict_on_kept]
  exact extend_exact_strict base (laxKeep live B) hb env live hbuild c hc d v hroot

/-! ### the order of the definitions in the extension document does not matter -/

/-- **extend_perm**: two orderings of one extension document (the extension blocks of each target in the same relative
    order — an extension block may stand BEFORE the definition it extends) give schemas with the same content. -/
theorem extend_perm (base B₁ B₂ : Doc) (hb : NoExt base) (env : Env) (live : Live)
    (hbuild : buildIgnoringExtensions base [] = .ok (env, live))
    (c₁ c₂ : ExtCollected) (hc₁ : collectExtensions live B₁ true = .ok c₁) (hc₂ : collectExtensions live B₂ true = .ok c₂)
    (d₁ : SchemaD) (v : SdlOK (base ++ B₁) d₁) (hp : B₁.Perm B₂)
    (hx : SameExtOrder B₁ B₂) (hsx : schemaExtensions B₁ = schemaExtensions B₂)
    (hroot : schemaDefs base ≠ [] ∨ ∀ t ∈ typeDefs B₁, t.name ≠ "Query" ∧ t.name ≠ "Mutation" ∧ t.name ≠ "Subscription") :
    ∃ r₁ r₂, extendSchemaPublic (typeDefs base) (directiveDefs base) live B₁ true = .ok r₁ ∧
      extendSchemaPublic (typeDefs base) (directiveDefs base) live B₂ true = .ok r₂ ∧ SameContent (toSchemaD r₁) (toSchemaD r₂) := by
  have hp' : (base ++ B₁).Perm (base ++ B₂) := hp.append_left base
  have hx' : SameExtOrder (base ++ B₁) (base ++ B₂) := by
    intro n; rw [typeExts_append, typeExts_append, List.filter_append, List.filter_append, hx n]
  have hsx' : schemaExtensions (base ++ B₁) = schemaExtensions (base ++ B₂) := by
    rw [schemaExtensions_append, schemaExtensions_append, hsx]
  obtain ⟨d₂, v₂, hT, hD, hq, hm, hs⟩ := sdlOK_perm _ _ d₁ v hp' hx' hsx'
  have hroot₂ : schemaDefs base ≠ [] ∨ ∀ t ∈ typeDefs B₂, t.name ≠ "Query" ∧ t.name ≠ "Mutation" ∧ t.name ≠ "Subscription" := by
    rcases hroot with h | h
    · exact Or.inl h
    · exact Or.inr (fun t ht => h t ((typeDefs_perm hp).mem_iff.mpr ht))
  obtain ⟨r₁, hr₁, e₁⟩ := extend_exact_strict base B₁ hb env live hbuild c₁ hc₁ d₁ v hroot
  obtain ⟨r₂, hr₂, e₂⟩ := extend_exact_strict base B₂ hb env live hbuild c₂ hc₂ d₂ v₂ hroot₂
  refine ⟨r₁, r₂, hr₁, hr₂, ?_⟩
  rw [e₁, e₂]
  exact ⟨hq, hm, hs, fun t => hT.mem_iff, fun d => hD.mem_iff⟩

/-- when no type is extended twice, EVERY reordering keeps the per-target order of the extension blocks -/
theorem filter_name_le_one (l : List TypeDef) (h : (l.map (·.name)).Nodup) (n : String) : (l.filter (·.name == n)).length ≤ 1 := by
  induction l with
  | nil => simp
  | cons x xs ih =>
    simp only [List.map_cons, List.nodup_cons] at h
    rw [List.filter_cons]
    by_cases hx : (x.name == n) = true
    · simp only [hx, if_true, List.length_cons]
      have : xs.filter (·.name == n) = [] := by
        rw [List.filter_eq_nil_iff]
        intro y hy hyn
        have e1 : x.name = n := by simpa using hx
        have e2 : y.name = n := by simpa using hyn
        exact h.1 (by rw [e1, ← e2]; exact List.mem_map_of_mem hy)
      rw [this]; simp
    · simp only [hx, Bool.false_eq_true, if_false]; exact ih h.2

theorem sameExtOrder_of_nodup (B₁ B₂ : Doc) (hp : B₁.Perm B₂) (h : ((typeExts B₁).map (·.name)).Nodup) : SameExtOrder B₁ B₂ :=
  fun n => perm_short ((typeExts_perm hp).filter _) (filter_name_le_one _ h n)

/-- non-vacuity of `extend_perm`: `gB` (new type extended before its definition, new directive, extensions of three old
    types, new root) and its reversal -/
example : ∃ env live r₁ r₂, buildIgnoringExtensions gBase [] = .ok (env, live) ∧
    extendSchemaPublic (typeDefs gBase) (directiveDefs gBase) live gB true = .ok r₁ ∧
    extendSchemaPublic (typeDefs gBase) (directiveDefs gBase) live gB.reverse true = .ok r₂ ∧ SameContent (toSchemaD r₁) (toSchemaD r₂) := by
  cases h : buildIgnoringExtensions gBase [] with
  | error e => have : (buildIgnoringExtensions gBase []).toBool = true := by decide
               rw [h] at this; cases this
  | ok p =>
    obtain ⟨env, live⟩ := p
    have hcb : (match buildIgnoringExtensions gBase [] with
                | .ok (_, l) => (collectExtensions l gB true).toBool && (collectExtensions l gB.reverse true).toBool
                | .error _ => false) = true := by decide
    rw [h] at hcb
    simp only [Bool.and_eq_true] at hcb
    cases hc₁ : collectExtensions live gB true with
    | error e => rw [hc₁] at hcb; cases hcb.1
    | ok c₁ =>
      cases hc₂ : collectExtensions live gB.reverse true with
      | error e => rw [hc₂] at hcb; cases hcb.2
      | ok c₂ =>
        have hp : gB.Perm gB.reverse := (List.reverse_perm gB).symm
        obtain ⟨r₁, r₂, h1, h2, h3⟩ := extend_perm gBase gB gB.reverse ⟨rfl, rfl⟩ env live h c₁ c₂ hc₁ hc₂ _ gBoth_ok hp
          (sameExtOrder_of_nodup _ _ hp (by decide)) rfl (Or.inr (by decide))
        exact ⟨env, live, r₁, r₂, rfl, h1, h2, h3⟩

/-! ### an evaluated instance: a redefinition, a `schema` block, an extension of an unknown type and a redefined
specified directive are dropped; the new type, its extension and the extension of an old type are kept -/

def lxLive : Live := { types := [{ kind := .object, name := "Query", fields := [{ name := "a", type := .named "Int" }] }],
                       directives := [], roots := { query := some "Query" } }

def lxB : Doc := [
  .type exQuery,
  .schema { ops := [("query", "Query")] },
  .ext { kind := .object, name := "Nope", fields := [{ name := "x", type := .named "Int" }] },
  .directive { name := "skip", locations := ["FIELD"] },
  .ext { kind := .object, name := "A", fields := [{ name := "b", type := .named "Int" }] },
  .type { kind := .object, name := "A", fields := [{ name := "a", type := .named "Int" }] },
  .ext exExt]

def defTag : Def → String
  | .type t => "type " ++ t.name | .ext t => "extend " ++ t.name | .directive d => "@" ++ d.name
  | .schema _ => "schema" | .schemaExt _ => "extend schema" | .other => "other"

example : (laxKeep lxLive lxB).map defTag = ["extend A", "type A", "extend Query"] := by decide
example : (collectExtensions lxLive lxB true).toBool = false := by decide
example : ((collectExtensions lxLive lxB false).toOption.map fun c => (c.typeDefs.map (·.name), c.typeExts.map (·.name)))
    = some (["A"], ["A", "Query"]) := by decide

end PyGql.Props.C11

/-
  C11 — the eager reference graph of the definitions alone is a subgraph of the graph of the merged definitions
  (extension only appends members), hence `noEagerCycleBase` follows from `noEagerCycle`.
-/
import PyGqlModel.Props.C11_nos8
import PyGqlModel.Props.C11

set_option linter.unusedVariables false
set_option linter.unusedSimpArgs false

namespace PyGql.Props.C11
open PyGql PyGql.Sdl PyGql.SdlSpec

/-! ### extension only appends -/

theorem appendNew_prefix {α} (errE : Err) (name : α → String) (xs acc r : List α) (h : appendNew errE name acc xs = .ok r) :
    ∃ suf, r = acc ++ suf := ⟨xs, appendNew_ok errE name xs acc r h⟩

theorem foldlM_prefix {E β} (step : List β → E → R (List β)) (hstep : ∀ acc e r, step acc e = .ok r → ∃ suf, r = acc ++ suf) :
    ∀ (es : List E) (base r : List β), es.foldlM step base = .ok r → ∃ suf, r = base ++ suf := by
  intro es
  induction es with
  | nil => intro base r h; simp [pure, Except.pure] at h; exact ⟨[], by simp [h]⟩
  | cons e es ih =>
    intro base r h
    rw [List.foldlM_cons] at h
    obtain ⟨a, ha, h2⟩ := bind_ok _ _ _ h
    obtain ⟨s1, e1⟩ := hstep base e a ha
    obtain ⟨s2, e2⟩ := ih a r h2
    exact ⟨s1 ++ s2, by rw [e2, e1, List.append_assoc]⟩

private theorem mergeStep_prefix {α β} (bf : α → R β) (name : β → String) (sel : TypeDef → List α) (acc : List β) (e : TypeDef) (r : List β)
    (h : (do let new ← (sel e).mapM bf; appendNew (.lib .ext) name acc new) = .ok r) : ∃ suf, r = acc ++ suf := by
  obtain ⟨new, _, h2⟩ := bind_ok _ _ _ h
  exact appendNew_prefix _ name new acc r h2

private theorem namesStep_prefix (env : Env) (sel : TypeDef → List String) (acc : List String) (e : TypeDef) (r : List String)
    (h : (do checkNames env (sel e); appendNew (.lib .ext) id acc (sel e)) = .ok r) : ∃ suf, r = acc ++ suf := by
  obtain ⟨_, _, h2⟩ := bind_ok _ _ _ h
  exact appendNew_prefix _ id _ acc r h2

private theorem failIf_bind_ok {β} (c : Bool) (e : Err) (f : Unit → R β) (b : β) (h : (failIf c e >>= f) = .ok b) : f () = .ok b := by
  obtain ⟨u, _, h2⟩ := bind_ok _ _ _ h
  exact h2

/-! ### name, kind and eager references of a built definition are read off the definition -/

def fieldRefsDef (fs : List FieldDef) : List String := fs.flatMap fun f => f.args.map (·.type.base)

def eagerRefsDef (d : TypeDef) : List String :=
  match d.kind with
  | .object => d.interfaces ++ fieldRefsDef d.fields
  | .interface => fieldRefsDef d.fields
  | .union => d.members
  | _ => []

theorem buildArgument_type (env : Env) (a : InputValDef) (r : ArgD) (h : buildArgument env a = .ok r) : r.type.base = a.type.base := by
  unfold buildArgument at h
  obtain ⟨_, _, h2⟩ := bind_ok _ _ _ h
  cases hd : a.default with
  | none => simp only [hd] at h2; have := ok_inj h2; subst this; rfl
  | some l => simp only [hd] at h2; obtain ⟨_, _, h3⟩ := bind_ok _ _ _ h2; have := ok_inj h3; subst this; rfl

theorem buildArgumentX_type (eB eX : Env) (hide : Option String) (a : InputValDef) (r : ArgD) (h : buildArgumentX eB eX hide a = .ok r) : r.type.base = a.type.base := by
  unfold buildArgumentX at h
  obtain ⟨_, _, h2⟩ := bind_ok _ _ _ h
  cases hd : a.default with
  | none => simp only [hd] at h2; have := ok_inj h2; subst this; rfl
  | some l => simp only [hd] at h2; obtain ⟨_, _, h3⟩ := bind_ok _ _ _ h2; have := ok_inj h3; subst this; rfl

theorem buildField_refs (env : Env) (f : FieldDef) (r : FieldD) (h : buildField env f = .ok r) :
    r.args.map (·.type.base) = f.args.map (·.type.base) := by
  unfold buildField at h
  obtain ⟨_, _, h2⟩ := bind_ok _ _ _ h
  obtain ⟨as, has, h3⟩ := bind_ok _ _ _ h2
  obtain ⟨_, _, h4⟩ := bind_ok _ _ _ h3
  have := ok_inj h4; subst this
  exact mapM_names _ (·.type.base) (·.type.base) (buildArgument_type env) _ _ has

theorem buildFieldX_refs (eB eX : Env) (hide : Option String) (f : FieldDef) (r : FieldD) (h : buildFieldX eB eX hide f = .ok r) :
    r.args.map (·.type.base) = f.args.map (·.type.base) := by
  unfold buildFieldX at h
  obtain ⟨_, _, h2⟩ := bind_ok _ _ _ h
  obtain ⟨as, has, h3⟩ := bind_ok _ _ _ h2
  obtain ⟨_, _, h4⟩ := bind_ok _ _ _ h3
  have := ok_inj h4; subst this
  exact mapM_names _ (·.type.base) (·.type.base) (buildArgumentX_type eB eX hide) _ _ has

theorem fields_refs {bf : FieldDef → R FieldD} (hbf : ∀ f r, bf f = .ok r → r.args.map (·.type.base) = f.args.map (·.type.base))
    (fs : List FieldDef) (rs : List FieldD) (h : fs.mapM bf = .ok rs) :
    (rs.flatMap fun f => f.args.map (·.type.base)) = fieldRefsDef fs := by
  have := mapM_names bf (fun f => f.args.map (·.type.base)) (fun f => f.args.map (·.type.base)) hbf _ _ h
  simp only [fieldRefsDef, List.flatMap_def, this]

theorem buildTypeDef_shape (env : Env) (d : TypeDef) (r : TypeD) (h : buildTypeDef env d = .ok r) :
    r.name = d.name ∧ r.kind = d.kind ∧ eagerRefs r = eagerRefsDef d := by
  unfold buildTypeDef at h
  cases hk : d.kind <;> simp only [hk] at h
  · have := ok_inj h; subst this; exact ⟨rfl, rfl, by simp [eagerRefs, eagerRefsDef, hk]⟩
  · obtain ⟨fs, hfs, h1⟩ := bind_ok _ _ _ h
    obtain ⟨_, _, h2⟩ := bind_ok _ _ _ h1
    have := ok_inj h2; subst this
    exact ⟨rfl, rfl, by simp only [eagerRefs, eagerRefsDef, hk, fields_refs (buildField_refs env) _ _ hfs]⟩
  · obtain ⟨fs, hfs, h1⟩ := bind_ok _ _ _ h
    have := ok_inj h1; subst this
    exact ⟨rfl, rfl, by simp only [eagerRefs, eagerRefsDef, hk, fields_refs (buildField_refs env) _ _ hfs]⟩
  · obtain ⟨_, _, h1⟩ := bind_ok _ _ _ h
    have := ok_inj h1; subst this; exact ⟨rfl, rfl, by simp [eagerRefs, eagerRefsDef, hk]⟩
  · obtain ⟨_, _, h1⟩ := bind_ok _ _ _ h
    obtain ⟨_, _, h2⟩ := bind_ok _ _ _ h1
    have := ok_inj h2; subst this; exact ⟨rfl, rfl, by simp [eagerRefs, eagerRefsDef, hk]⟩
  · obtain ⟨_, _, h1⟩ := bind_ok _ _ _ h
    have := ok_inj h1; subst this; exact ⟨rfl, rfl, by simp [eagerRefs, eagerRefsDef, hk]⟩

theorem buildTypeDefX_shape (eB eX : Env) (hide : Option String) (d : TypeDef) (r : TypeD) (h : buildTypeDefX eB eX hide d = .ok r) :
    r.name = d.name ∧ r.kind = d.kind ∧ eagerRefs r = eagerRefsDef d := by
  unfold buildTypeDefX at h
  cases hk : d.kind <;> simp only [hk] at h
  · have := ok_inj h; subst this; exact ⟨rfl, rfl, by simp [eagerRefs, eagerRefsDef, hk]⟩
  · obtain ⟨fs, hfs, h1⟩ := bind_ok _ _ _ h
    obtain ⟨_, _, h2⟩ := bind_ok _ _ _ h1
    have := ok_inj h2; subst this
    exact ⟨rfl, rfl, by simp only [eagerRefs, eagerRefsDef, hk, fields_refs (buildFieldX_refs eB eX hide) _ _ hfs]⟩
  · obtain ⟨fs, hfs, h1⟩ := bind_ok _ _ _ h
    have := ok_inj h1; subst this
    exact ⟨rfl, rfl, by simp only [eagerRefs, eagerRefsDef, hk, fields_refs (buildFieldX_refs eB eX hide) _ _ hfs]⟩
  · obtain ⟨_, _, h1⟩ := bind_ok _ _ _ h
    have := ok_inj h1; subst this; exact ⟨rfl, rfl, by simp [eagerRefs, eagerRefsDef, hk]⟩
  · obtain ⟨_, _, h1⟩ := bind_ok _ _ _ h
    obtain ⟨_, _, h2⟩ := bind_ok _ _ _ h1
    have := ok_inj h2; subst this; exact ⟨rfl, rfl, by simp [eagerRefs, eagerRefsDef, hk]⟩
  · obtain ⟨_, _, h1⟩ := bind_ok _ _ _ h
    have := ok_inj h1; subst this; exact ⟨rfl, rfl, by simp [eagerRefs, eagerRefsDef, hk]⟩

/-- merging extensions keeps every eager reference of the definition -/
theorem eagerRefsDef_merge (X : List TypeDef) (t : TypeDef) : ∀ m ∈ eagerRefsDef t, m ∈ eagerRefsDef (mergeDef X t) := by
  obtain ⟨s1, s2, s3, s4, s5, s6, s7, s8⟩ := mergeDef_spec X t
  intro m hm
  unfold eagerRefsDef at hm ⊢
  rw [s1]
  cases hk : t.kind <;> simp only [hk] at hm ⊢
  · exact hm
  · rw [s4, s5]
    simp only [fieldRefsDef, List.flatMap_append, List.mem_append] at hm ⊢
    rcases hm with hm | hm
    · exact Or.inl (Or.inl hm)
    · exact Or.inr (Or.inl hm)
  · rw [s4]
    simp only [fieldRefsDef, List.flatMap_append, List.mem_append] at hm ⊢
    exact Or.inl hm
  · rw [s6]; exact List.mem_append_left _ hm
  · exact hm
  · exact hm

/-! ### a subgraph has no more cycles -/

/-- pointwise: same name, every eager reference kept -/
def RefSub (t r : TypeD) : Prop := r.name = t.name ∧ ∀ m ∈ eagerRefs t, m ∈ eagerRefs r

theorem find_all₂ (n : String) : ∀ (bts rs : List TypeD), All₂ RefSub bts rs → ∀ bt, bts.find? (·.name == n) = some bt →
    ∃ r, rs.find? (·.name == n) = some r ∧ RefSub bt r := by
  intro bts rs h
  induction h with
  | nil => intro bt hb; simp at hb
  | @cons a b as bs p _ ih =>
    intro bt hb
    simp only [List.find?_cons] at hb ⊢
    rw [p.1]
    cases hn : (a.name == n) with
    | true => rw [hn] at hb; simp at hb; subst hb; exact ⟨b, rfl, p⟩
    | false => rw [hn] at hb; exact ih bt hb

theorem eagerReach_mono (bts rs : List TypeD) (h : All₂ RefSub bts rs) (target : String) :
    ∀ (fuel : Nat) (n : String), eagerReach bts target fuel n = true → eagerReach rs target fuel n = true := by
  intro fuel
  induction fuel with
  | zero => intro n hn; simp [eagerReach] at hn
  | succ k ih =>
    intro n hn
    simp only [eagerReach] at hn ⊢
    cases hf : bts.find? (·.name == n) with
    | none => rw [hf] at hn; simp at hn
    | some bt =>
      rw [hf] at hn
      simp only [] at hn
      obtain ⟨r, hr, hsub⟩ := find_all₂ n bts rs h bt hf
      rw [hr]
      simp only []
      obtain ⟨m, hm, hc⟩ := List.any_eq_true.mp hn
      refine List.any_eq_true.mpr ⟨m, hsub.2 m hm, ?_⟩
      simp only [Bool.or_eq_true] at hc ⊢
      rcases hc with hc | hc
      · exact Or.inl hc
      · exact Or.inr (ih m hc)

theorem all₂_length {α β} (P : α → β → Prop) : ∀ (l : List α) (r : List β), All₂ P l r → l.length = r.length := by
  intro l r h
  induction h with
  | nil => rfl
  | cons _ _ ih => simp [ih]

theorem all₂_mem_left {α β} (P : α → β → Prop) : ∀ (l : List α) (rs : List β), All₂ P l rs → ∀ x ∈ l, ∃ r ∈ rs, P x r := by
  intro l rs h
  induction h with
  | nil => intro x hx; simp at hx
  | @cons a b as bs p _ ih =>
    intro x hx
    rcases List.mem_cons.mp hx with rfl | hmem
    · exact ⟨b, by simp, p⟩
    · obtain ⟨r, hr, hp⟩ := ih x hmem
      exact ⟨r, by simp [hr], hp⟩

/-- a cycle among the definitions alone is a cycle among the merged definitions -/
theorem hasEagerCycle_mono (bts rs : List TypeD) (h : All₂ RefSub bts rs) (hr : hasEagerCycle rs = false) : hasEagerCycle bts = false := by
  cases hb : hasEagerCycle bts with
  | false => rfl
  | true =>
    simp only [hasEagerCycle] at hb
    obtain ⟨t, ht, hreach⟩ := List.any_eq_true.mp hb
    obtain ⟨r, hrm, hsub⟩ := all₂_mem_left _ _ _ h t ht
    have := eagerReach_mono bts rs h t.name _ _ hreach
    rw [all₂_length _ _ _ h, ← hsub.1] at this
    have hc : hasEagerCycle rs = true := List.any_eq_true.mpr ⟨r, hrm, this⟩
    rw [hr] at hc
    cases hc

theorem all₂_imp {α β} (P Q : α → β → Prop) (hpq : ∀ a b, P a b → Q a b) : ∀ (l : List α) (r : List β), All₂ P l r → All₂ Q l r := by
  intro l r h
  induction h with
  | nil => exact All₂.nil
  | cons p _ ih => exact All₂.cons (hpq _ _ p) ih

theorem all₂_join {α β γ} (P : α → β → Prop) (Q : α → γ → Prop) (S : β → γ → Prop) (hs : ∀ a b c, P a b → Q a c → S b c) :
    ∀ (l : List α) (bs : List β) (cs : List γ), All₂ P l bs → All₂ Q l cs → All₂ S bs cs := by
  intro l bs cs h1
  induction h1 generalizing cs with
  | nil => intro h2; cases h2; exact All₂.nil
  | cons p _ ih => intro h2; cases h2 with | cons q t2 => exact All₂.cons (hs _ _ _ p q) (ih _ t2)

/-- the built definitions against the registered (extended) types: same name and kind, every eager reference kept -/
theorem built_vs_extended (eB eX : Env) (hide : Option String) (X : List TypeDef) (defs : List TypeDef) (bts rs : List TypeD)
    (hb : defs.mapM (buildTypeDef eB) = .ok bts) (hr : defs.mapM (fun t => buildTypeDefX eB eX hide (mergeDef X t)) = .ok rs) :
    All₂ (fun bt r => r.name = bt.name ∧ r.kind = bt.kind ∧ ∀ m ∈ eagerRefs bt, m ∈ eagerRefs r) bts rs := by
  refine all₂_join _ _ _ ?_ _ _ _ (mapM_forall₂ _ _ _ hb) (mapM_forall₂ _ _ _ hr)
  intro t bt r h1 h2
  obtain ⟨n1, k1, e1⟩ := buildTypeDef_shape eB t bt h1
  obtain ⟨n2, k2, e2⟩ := buildTypeDefX_shape eB eX hide _ r h2
  obtain ⟨s1, s2, _⟩ := mergeDef_spec X t
  refine ⟨by rw [n1, n2, s2], by rw [k1, k2, s1], ?_⟩
  intro m hm
  rw [e1] at hm
  rw [e2]
  exact eagerRefsDef_merge X t m hm

/-- **noEagerCycleBase is derived**: if the registered (extended) types have no eager cycle, the built definitions
    had none -/
theorem noEagerCycleBase_of_extended (bts rs : List TypeD)
    (h : All₂ (fun bt r => r.name = bt.name ∧ r.kind = bt.kind ∧ ∀ m ∈ eagerRefs bt, m ∈ eagerRefs r) bts rs)
    (hr : hasEagerCycle rs = false) : hasEagerCycle bts = false :=
  hasEagerCycle_mono bts rs (all₂_imp _ _ (fun a b hab => ⟨hab.1, hab.2.2⟩) _ _ h) hr

/-! ### root operation types: `rootsOk` is derived from syntactic conditions on the operations -/

theorem get_set_ne (r : Roots) (op op' ty : String) (h : op' ≠ op) : (r.set op ty).get op' = r.get op' := by
  unfold Roots.get
  split
  · unfold Roots.set; split <;> simp_all
  · unfold Roots.set; split <;> simp_all
  · unfold Roots.set; split <;> simp_all
  · rfl

theorem fold_get_notin (ops : List (String × String)) : ∀ (r : Roots) (op' : String), op' ∉ ops.map (·.1) →
    (ops.foldl (fun r (o : String × String) => r.set o.1 o.2) r).get op' = r.get op' := by
  induction ops with
  | nil => intro r op' _; rfl
  | cons o os ih =>
    intro r op' h
    simp only [List.map_cons, List.mem_cons, not_or] at h
    rw [List.foldl_cons, ih _ _ h.2, get_set_ne _ _ _ _ h.1]

/-- operations that are not set yet, pairwise distinct and naming known types are all accepted, and the result is the
    roots with each operation set -/
theorem addOps_ok (res : String → Bool) (errE : Err) : ∀ (ops : List (String × String)) (r : Roots),
    (∀ o ∈ ops, r.get o.1 = none ∧ res o.2 = true) → (ops.map (·.1)).Nodup →
    addOps res errE r ops = .ok (ops.foldl (fun r (o : String × String) => r.set o.1 o.2) r) := by
  intro ops
  induction ops with
  | nil => intro r _ _; rfl
  | cons o os ih =>
    intro r h hn
    obtain ⟨op, ty⟩ := o
    simp only [List.map_cons, List.nodup_cons] at hn
    have h0 := h (op, ty) (by simp)
    simp only [addOps, h0.1, Option.isSome_none, Bool.false_eq_true, if_false, h0.2, Bool.not_true, List.foldl_cons]
    apply ih
    · intro o' ho'
      have := h o' (by simp [ho'])
      refine ⟨?_, this.2⟩
      rw [get_set_ne _ _ _ _ (fun e => hn.1 (by rw [← e]; exact List.mem_map_of_mem ho'))]
      exact this.1
    · exact hn.2

/-- the same for a sequence of `extend schema` blocks -/
theorem addOps_blocks_ok (res : String → Bool) (errE : Err) : ∀ (blocks : List SchemaDef) (r : Roots),
    (∀ o ∈ blocks.flatMap (·.ops), r.get o.1 = none ∧ res o.2 = true) → ((blocks.flatMap (·.ops)).map (·.1)).Nodup →
    blocks.foldlM (fun r se => addOps res errE r se.ops) r
      = .ok (blocks.foldl (fun r se => se.ops.foldl (fun r (o : String × String) => r.set o.1 o.2) r) r) := by
  intro blocks
  induction blocks with
  | nil => intro r _ _; rfl
  | cons b bs ih =>
    intro r h hn
    simp only [List.flatMap_cons, List.map_append] at hn
    have hn' := List.nodup_append.mp hn
    rw [List.foldlM_cons, addOps_ok res errE b.ops r (fun o ho => h o (by simp [ho])) hn'.1]
    simp only [bind, Except.bind, List.foldl_cons]
    apply ih
    · intro o ho
      have := h o (by simp only [List.flatMap_cons, List.mem_append]; exact Or.inr ho)
      refine ⟨?_, this.2⟩
      rw [fold_get_notin]
      · exact this.1
      · intro hin
        exact hn'.2.2 _ hin _ (List.mem_map_of_mem ho) rfl
    · exact hn'.2.1

/-- default roots depend only on the names and kinds of the registered types -/
theorem defaultRoots_all₂ (bts rs : List TypeD) (h : All₂ (fun t r => r.name = t.name ∧ r.kind = t.kind) bts rs) :
    defaultRoots bts = defaultRoots rs := by
  have hany : ∀ n, bts.any (fun t => t.name == n && t.kind == .object) = rs.any (fun t => t.name == n && t.kind == .object) := by
    intro n
    induction h with
    | nil => rfl
    | cons p _ ih => simp only [List.any_cons, p.1, p.2, ih]
  simp only [defaultRoots, hany]

/-! ### the final statement: `DefaultsAgree` + syntactic validity -/

/-- the roots a document declares before its `extend schema` blocks -/
def baseRoots (doc : Doc) (types : List TypeD) : Roots :=
  match (schemaDefs doc).head? with
  | some sd => sd.ops.foldl (fun r (o : String × String) => r.set o.1 o.2) {}
  | none => defaultRoots types

/-- **Syntactic validity** of a type-system document (what the builder is responsible for; kind rules are C13's) plus
    **NoS8** (`baseDefaults`: what fix C14-T15 leaves of it). Nothing here mentions what the builder computes on the way. -/
structure SdlOK (doc : Doc) (d : SchemaD) : Prop where
  uniqueTypes : ((typeDefs doc).map (·.name)).Nodup
  uniqueDirectives : ((dirDefs doc).map (·.name)).Nodup
  oneSchema : (schemaDefs doc).length ≤ 1
  noBuiltinNames : ∀ t ∈ typeDefs doc, isDefaultName t.name = false
  extTargets : ∀ e ∈ typeExts doc, ∃ t ∈ typeDefs doc, t.name = e.name ∧ t.kind = e.kind
  /-- every member of the merged definitions builds (references resolve, default literals are constants of their
      declared types over the merged definitions, `@deprecated` is well-formed) and `d` is the declared content -/
  declares : Declared doc = some d
  /-- every default literal written in a DEFINITION is a value over the definitions alone -/
  baseDefaults : BaseDefaults doc
  /-- no default of an input type's own field needs the type again while it is extended -/
  selfDefaults : SelfDefaults doc
  membersUnique : ∀ r ∈ d.types, (r.fields.map (·.name)).Nodup ∧ (r.inputFields.map (·.name)).Nodup ∧ (r.values.map (·.name)).Nodup ∧
      r.members.Nodup ∧ r.interfaces.Nodup
  noThunkCycle : hasThunkCycle (Env.of (typeDefs doc)) (typeDefs doc) = false
  noEagerCycle : hasEagerCycle d.types = false
  noSpecified : d.directives.any (fun x => specifiedDirectives.contains x.name) = false
  /-- the operations of the `schema` block are pairwise distinct and name known types -/
  schemaOps : ∀ sd, (schemaDefs doc).head? = some sd →
      (sd.ops.map (·.1)).Nodup ∧ ∀ o ∈ sd.ops, (Env.of (typeDefs doc)).resolves o.2 = true
  /-- the operations of the `extend schema` blocks are new, pairwise distinct and name known types -/
  extOps : ((schemaExtensions doc).flatMap (·.ops)).map (·.1) |>.Nodup
  extOpsNew : ∀ o ∈ (schemaExtensions doc).flatMap (·.ops),
      (baseRoots doc d.types).get o.1 = none ∧ (isDefaultName o.2 || d.types.any (·.name == o.2)) = true

private theorem empty_get (op : String) : ({} : Roots).get op = none := by
  unfold Roots.get; split <;> rfl

private theorem declaredRoots_eq (doc : Doc) (types : List TypeD) :
    declaredRoots doc types = (schemaExtensions doc).foldl (fun r se => se.ops.foldl (fun r (o : String × String) => r.set o.1 o.2) r)
      (baseRoots doc types) := by
  unfold declaredRoots baseRoots
  cases schemaDefs doc with
  | nil => rfl
  | cons sd _ => rfl

/-- the registered types of a valid document, against its built definitions -/
theorem built_vs_declared (doc : Doc) (d : SchemaD) (hdecl : Declared doc = some d) (bts : List TypeD)
    (hb : (typeDefs doc).mapM (buildTypeDef (Env.of (typeDefs doc))) = .ok bts) :
    All₂ (fun bt r => r.name = bt.name ∧ r.kind = bt.kind ∧ ∀ m ∈ eagerRefs bt, m ∈ eagerRefs r) bts d.types := by
  obtain ⟨hts, _, _⟩ := declared_parts doc d hdecl
  have hX : (Env.of (typeDefs doc)).extended (typeExts doc) = Env.of (merged doc) := extended_eq _ _
  refine built_vs_extended (Env.of (typeDefs doc)) ((Env.of (typeDefs doc)).extended (typeExts doc)) none (typeExts doc) _ _ _ hb ?_
  rw [← mapM_map_eq]
  refine mapM_of_ok _ _ (buildTypeDefX_of_ok _ _ (extended_resolves _ _)) _ _ ?_
  rw [hX]; exact hts

theorem validDoc_of_sdlOK (doc : Doc) (d : SchemaD) (v : SdlOK doc d) : ValidDoc doc d := by
  exact
    { uniqueTypes := v.uniqueTypes, uniqueDirectives := v.uniqueDirectives, oneSchema := v.oneSchema,
      noBuiltinNames := v.noBuiltinNames, extTargets := v.extTargets, declares := v.declares,
      baseDefaults := v.baseDefaults, selfDefaults := v.selfDefaults, membersUnique := v.membersUnique, noThunkCycle := v.noThunkCycle,
      noEagerCycle := v.noEagerCycle,
      noEagerCycleBase := fun bts hb => noEagerCycleBase_of_extended bts d.types (built_vs_declared doc d v.declares bts hb) v.noEagerCycle,
      noSpecified := v.noSpecified,
      rootsOk := by
        intro bts hb
        have hall := all₂_imp _ _ (fun a b hab => (⟨hab.1, hab.2.1⟩ : b.name = a.name ∧ b.kind = a.kind))
          _ _ (built_vs_declared doc d v.declares bts hb)
        have hr := declared_roots doc d v.declares
        rw [declaredRoots_eq] at hr
        refine ⟨baseRoots doc d.types, ?_, ?_⟩
        · unfold buildRoots baseRoots
          cases hh : (schemaDefs doc).head? with
          | none => simp only [pure, Except.pure]; rw [defaultRoots_all₂ bts d.types hall]
          | some sd =>
            obtain ⟨hn, hres⟩ := v.schemaOps sd hh
            exact addOps_ok _ _ sd.ops {} (fun o ho => ⟨empty_get _, hres o ho⟩) hn
        · rw [addOps_blocks_ok _ _ _ _ v.extOpsNew v.extOps, ← hr] }

/-- **build_exact** (final form, documents with extensions): a syntactically valid document in which every default
    literal written in a DEFINITION is a value over the definitions alone (what is left of NoS8) builds exactly its
    declared content — every extension merged, every default evaluated in the extended types. The only premises are
    `SdlOK`'s: nothing about intermediate results of the builder. -/
theorem build_exact_final (doc : Doc) (d : SchemaD) (v : SdlOK doc d) : build doc = .ok d :=
  build_exact_of_baseDefaults doc d (validDoc_of_sdlOK doc d v)

/-! ### non-vacuity -/

/-- a document whose definitions have no default values trivially satisfies NoS8 -/
theorem baseDefaults_of_noDefaults (doc : Doc)
    (h1 : ∀ t ∈ typeDefs doc, ∀ a ∈ inputValsOf t, a.default.isNone = true)
    (h2 : ∀ d ∈ dirDefs doc, ∀ a ∈ d.args, a.default.isNone = true) : BaseDefaults doc := by
  refine ⟨?_, ?_⟩
  · intro t ht a ha l hl; have := h1 t ht a ha; rw [hl] at this; cases this
  · intro d hd a ha l hl; have := h2 d hd a ha; rw [hl] at this; cases this

def extDoc : Doc := [.ext exExt, .type exQuery, .type { kind := .enum, name := "E", values := [{ name := "A" }] },
  .ext { kind := .enum, name := "E", values := [{ name := "B" }] },
  .type { kind := .object, name := "M", fields := [{ name := "m", type := .named "E" }] },
  .schemaExt { ops := [("mutation", "M")] }]

theorem extDeclares : (Declared extDoc).isSome = true := by decide

/-- non-vacuity: a document with extensions of two kinds and an `extend schema` satisfies `SdlOK` -/
theorem extDoc_ok : SdlOK extDoc ((Declared extDoc).get extDeclares) :=
  { uniqueTypes := by decide, uniqueDirectives := by decide, oneSchema := by decide, noBuiltinNames := by decide,
    extTargets := by decide, declares := by simp,
    baseDefaults := baseDefaults_of_noDefaults extDoc (by decide) (by decide),
    selfDefaults := by
      intro t ht
      by_cases hk : t.kind = .input
      · exact selfDefaults_of_noDefaults _ _ _ _ _ (by rw [(mergeDef_spec _ t).1]; exact hk) (by
          revert t; decide)
      · exact selfDefaults_of_kind _ _ t _ hk,
    membersUnique := by decide, noThunkCycle := by decide, noEagerCycle := by decide, noSpecified := by decide,
    schemaOps := by decide, extOps := by decide, extOpsNew := by decide }

/-- … and therefore builds exactly its declared content -/
example : build extDoc = .ok ((Declared extDoc).get extDeclares) := build_exact_final _ _ extDoc_ok

end PyGql.Props.C11

/-
  C11 — what `ValidExt`'s NoS8 hypotheses mean: the builder's result on a definition depends on the environment
  only through (a) which names resolve and (b) the coercion of the default literals. (a) is the same over the
  definitions alone and over the merged definitions. After fix C14-T15 every default is evaluated in the EXTENDED
  types, and what is left of finding S8 is `BaseDefaults`: a default literal written in a DEFINITION must be a value
  over the definitions alone (the first pass of `build_schema` still refuses it otherwise). The older, stronger
  `DefaultsAgree` (the two coercions coincide) implies it.
-/
import PyGqlModel.Props.C11_merge
import PyGqlModel.Props.C11

set_option linter.unusedVariables false
set_option linter.unusedSimpArgs false

namespace PyGql.Props.C11
open PyGql PyGql.Sdl PyGql.SdlSpec

/-! ### the builder depends on the environment through `resolves` and `defaultValue` only -/

theorem buildArgument_congr (e₁ e₂ : Env) (a : InputValDef) (hr : e₁.resolves a.type.base = e₂.resolves a.type.base)
    (hd : ∀ l, a.default = some l → defaultValue e₁ l a.type = defaultValue e₂ l a.type) :
    buildArgument e₁ a = buildArgument e₂ a := by
  unfold buildArgument checkRef
  rw [hr]
  cases hdef : a.default with
  | none => rfl
  | some l => simp only [hd l hdef]

theorem buildField_congr (e₁ e₂ : Env) (f : FieldDef) (hr : e₁.resolves f.type.base = e₂.resolves f.type.base)
    (ha : ∀ a ∈ f.args, buildArgument e₁ a = buildArgument e₂ a) : buildField e₁ f = buildField e₂ f := by
  unfold buildField checkRef
  rw [hr, mapM_congr_mem _ _ _ ha]

theorem checkNames_congr (e₁ e₂ : Env) (ns : List String) (h : ∀ n ∈ ns, e₁.resolves n = e₂.resolves n) :
    checkNames e₁ ns = checkNames e₂ ns := by
  unfold checkNames
  have : ns.all e₁.resolves = ns.all e₂.resolves := by
    induction ns with
    | nil => rfl
    | cons x xs ih => simp only [List.all_cons, h x (by simp), ih (fun n hn => h n (by simp [hn]))]
  rw [this]

theorem buildTypeDef_congr (e₁ e₂ : Env) (d : TypeDef) (hr : ∀ n, e₁.resolves n = e₂.resolves n)
    (hf : ∀ f ∈ d.fields, ∀ a ∈ f.args, buildArgument e₁ a = buildArgument e₂ a)
    (hi : ∀ a ∈ d.inputFields, buildArgument e₁ a = buildArgument e₂ a) :
    buildTypeDef e₁ d = buildTypeDef e₂ d := by
  have hfs : d.fields.mapM (buildField e₁) = d.fields.mapM (buildField e₂) :=
    mapM_congr_mem _ _ _ (fun f hfm => buildField_congr e₁ e₂ f (hr _) (hf f hfm))
  have his : d.inputFields.mapM (buildArgument e₁) = d.inputFields.mapM (buildArgument e₂) := mapM_congr_mem _ _ _ hi
  unfold buildTypeDef
  rw [hfs, his, checkNames_congr e₁ e₂ d.interfaces (fun n _ => hr n), checkNames_congr e₁ e₂ d.members (fun n _ => hr n)]

theorem buildDirective_congr (e₁ e₂ : Env) (d : DirDef) (ha : ∀ a ∈ d.args, buildArgument e₁ a = buildArgument e₂ a) :
    buildDirective e₁ d = buildDirective e₂ d := by
  unfold buildDirective
  rw [mapM_congr_mem _ _ _ ha]

/-! ### the same names resolve over the definitions and over the merged definitions -/

theorem find_map_isSome (X : List TypeDef) (n : String) : ∀ (l : List TypeDef),
    ((l.map (mergeDef X)).find? (·.name == n)).isSome = (l.find? (·.name == n)).isSome := by
  intro l
  induction l with
  | nil => rfl
  | cons t ts ih =>
    simp only [List.map_cons, List.find?_cons, (mergeDef_spec X t).2.1]
    cases (t.name == n)
    · exact ih
    · rfl

theorem resolves_merged (doc : Doc) (n : String) : (Env.of (typeDefs doc)).resolves n = (Env.of (merged doc)).resolves n := by
  simp only [Env.resolves, Env.of, merged, find_map_isSome]

/-! ### NoS8 at the level of default literals -/

/-- all argument / input-field definitions of a type definition -/
def inputValsOf (d : TypeDef) : List InputValDef := d.inputFields ++ d.fields.flatMap (·.args)

/-- NoS8 BEFORE fix C14-T15 (kept for reference): every default literal of the document (in the merged type definitions
    and in the directive definitions) coerces to the same thing over the definitions alone — what the builder used —
    and over the merged definitions — what the specification says. The builder now evaluates every default in the
    extended types and only needs `BaseDefaults` below. -/
def DefaultsAgree (doc : Doc) : Prop :=
  (∀ t ∈ merged doc, ∀ a ∈ inputValsOf t, ∀ l, a.default = some l →
      defaultValue (Env.of (typeDefs doc)) l a.type = defaultValue (Env.of (merged doc)) l a.type) ∧
  (∀ d ∈ dirDefs doc, ∀ a ∈ d.args, ∀ l, a.default = some l →
      defaultValue (Env.of (typeDefs doc)) l a.type = defaultValue (Env.of (merged doc)) l a.type)

/-- at one argument the two formulations coincide: the builder gives the same argument over both environments IFF
    its default literal coerces to the same thing over both -/
theorem buildArgument_same_iff (e₁ e₂ : Env) (a : InputValDef) (l : Lit) (hd : a.default = some l)
    (h1 : e₁.resolves a.type.base = true) (h2 : e₂.resolves a.type.base = true) :
    buildArgument e₁ a = buildArgument e₂ a ↔ defaultValue e₁ l a.type = defaultValue e₂ l a.type := by
  constructor
  · intro h
    unfold buildArgument checkRef at h
    simp only [h1, h2, if_true, hd, bind, Except.bind, pure, Except.pure] at h
    cases hv1 : defaultValue e₁ l a.type with
    | error x =>
      cases hv2 : defaultValue e₂ l a.type with
      | error y => rw [hv1, hv2] at h; simp at h; rw [h]
      | ok y => rw [hv1, hv2] at h; simp at h
    | ok x =>
      cases hv2 : defaultValue e₂ l a.type with
      | error y => rw [hv1, hv2] at h; simp at h
      | ok y => rw [hv1, hv2] at h; simp at h; rw [h]
  · intro h
    exact buildArgument_congr e₁ e₂ a (by rw [h1, h2]) (fun l' hl' => by rw [hd] at hl'; cases hl'; exact h)

theorem mergedSame_of_defaultsAgree (doc : Doc) (h : DefaultsAgree doc) :
    ∀ t ∈ typeDefs doc, buildTypeDef (Env.of (typeDefs doc)) (mergeDef (typeExts doc) t)
                      = buildTypeDef (Env.of (merged doc)) (mergeDef (typeExts doc) t) := by
  intro t ht
  have hm : mergeDef (typeExts doc) t ∈ merged doc := List.mem_map_of_mem ht
  have harg : ∀ a ∈ inputValsOf (mergeDef (typeExts doc) t),
      buildArgument (Env.of (typeDefs doc)) a = buildArgument (Env.of (merged doc)) a := by
    intro a ha
    exact buildArgument_congr _ _ a (resolves_merged doc _) (fun l hl => h.1 _ hm a ha l hl)
  apply buildTypeDef_congr _ _ _ (resolves_merged doc)
  · intro f hf a ha
    exact harg a (List.mem_append_right _ (List.mem_flatMap.mpr ⟨f, hf, ha⟩))
  · intro a ha
    exact harg a (List.mem_append_left _ ha)

theorem directivesSame_of_defaultsAgree (doc : Doc) (h : DefaultsAgree doc) :
    ∀ dd ∈ dirDefs doc, buildDirective (Env.of (typeDefs doc)) dd = buildDirective (Env.of (merged doc)) dd := by
  intro dd hdd
  apply buildDirective_congr
  intro a ha
  exact buildArgument_congr _ _ a (resolves_merged doc _) (fun l hl => h.2 dd hdd a ha l hl)

/-! ### the definitions alone build whenever the merged definitions do (`baseBuilds` is not a hypothesis) -/

private theorem hasDup_iff_nodup (l : List String) : hasDup l = false ↔ l.Nodup := by
  induction l with
  | nil => simp [hasDup]
  | cons x xs ih =>
    simp only [hasDup, Bool.or_eq_false_iff, List.nodup_cons, ih]
    simp

private theorem failIf_ok (c : Bool) (e : Err) (h : failIf c e = .ok ()) : c = false := by
  unfold failIf at h
  cases c <;> simp_all

theorem build_base_of_merged (env : Env) (X : List TypeDef) (t : TypeDef) (r : TypeD)
    (hm : buildTypeDef env (mergeDef X t) = .ok r) : ∃ bt, buildTypeDef env t = .ok bt := by
  obtain ⟨s1, s2, s3, s4, s5, s6, s7, s8⟩ := mergeDef_spec X t
  unfold buildTypeDef at hm ⊢
  rw [s1] at hm
  cases hk : t.kind <;> simp only [hk] at hm ⊢
  · exact ⟨_, rfl⟩
  · obtain ⟨fs', hfs', hm1⟩ := bind_ok _ _ _ hm
    obtain ⟨_, hc, _⟩ := bind_ok _ _ _ hm1
    rw [s4] at hfs'
    obtain ⟨r₁, _, h1, _, _⟩ := mapM_append_inv _ _ _ _ hfs'
    rw [s5] at hc
    have hc1 := (checkNames_append_inv env _ _ hc).1
    exact ⟨_, by rw [h1, hc1]; rfl⟩
  · obtain ⟨fs', hfs', _⟩ := bind_ok _ _ _ hm
    rw [s4] at hfs'
    obtain ⟨r₁, _, h1, _, _⟩ := mapM_append_inv _ _ _ _ hfs'
    exact ⟨_, by rw [h1]; rfl⟩
  · obtain ⟨_, hc, _⟩ := bind_ok _ _ _ hm
    rw [s6] at hc
    have hc1 := (checkNames_append_inv env _ _ hc).1
    exact ⟨_, by rw [hc1]; rfl⟩
  · obtain ⟨_, hf, hm1⟩ := bind_ok _ _ _ hm
    obtain ⟨vs', hvs', _⟩ := bind_ok _ _ _ hm1
    have hd := failIf_ok _ _ hf
    rw [s7, List.map_append, hasDup_iff_nodup] at hd
    have hd1 : hasDup (t.values.map (·.name)) = false := (hasDup_iff_nodup _).mpr (List.nodup_append.mp hd).1
    rw [s7] at hvs'
    obtain ⟨r₁, _, h1, _, _⟩ := mapM_append_inv _ _ _ _ hvs'
    exact ⟨_, by rw [hd1, h1]; rfl⟩
  · obtain ⟨fs', hfs', _⟩ := bind_ok _ _ _ hm
    rw [s8] at hfs'
    obtain ⟨r₁, _, h1, _, _⟩ := mapM_append_inv _ _ _ _ hfs'
    exact ⟨_, by rw [h1]; rfl⟩

theorem mapM_ok_of_forall {α β} (f : α → R β) : ∀ (l : List α), (∀ x ∈ l, ∃ b, f x = .ok b) → ∃ bs, l.mapM f = .ok bs := by
  intro l
  induction l with
  | nil => intro _; exact ⟨[], rfl⟩
  | cons x xs ih =>
    intro h
    obtain ⟨b, hb⟩ := h x (by simp)
    obtain ⟨bs, hbs⟩ := ih (fun y hy => h y (by simp [hy]))
    exact ⟨b :: bs, by rw [List.mapM_cons, hb, hbs]; rfl⟩

/-! ### success transfers between environments in which the same names resolve -/

theorem all₂_left_ex {α β} (P : α → β → Prop) : ∀ (l : List α) (rs : List β), All₂ P l rs → ∀ x ∈ l, ∃ r, P x r := by
  intro l rs h
  induction h with
  | nil => intro x hx; simp at hx
  | cons p _ ih =>
    intro x hx
    rcases List.mem_cons.mp hx with rfl | hmem
    · exact ⟨_, p⟩
    · exact ih x hmem


theorem mapM_all_ok {α β} (f : α → R β) (l : List α) (rs : List β) (h : l.mapM f = .ok rs) : ∀ x ∈ l, ∃ r, f x = .ok r :=
  all₂_left_ex _ _ _ (mapM_forall₂ f l rs h)

theorem buildArgument_ok_transfer (e₁ e₂ : Env) (a : InputValDef) (hr : e₁.resolves a.type.base = e₂.resolves a.type.base)
    (hd : ∀ l, a.default = some l → ∃ v, defaultValue e₂ l a.type = .ok v) (h : ∃ r, buildArgument e₁ a = .ok r) :
    ∃ r, buildArgument e₂ a = .ok r := by
  obtain ⟨r, h⟩ := h
  unfold buildArgument checkRef at h ⊢
  rw [← hr]
  obtain ⟨u, hu, h2⟩ := bind_ok _ _ _ h
  rw [hu]
  cases hdef : a.default with
  | none => exact ⟨_, rfl⟩
  | some l =>
    obtain ⟨v, hv⟩ := hd l hdef
    simp only [hv, bind, Except.bind, pure, Except.pure]
    exact ⟨_, rfl⟩

theorem buildField_ok_transfer (e₁ e₂ : Env) (f : FieldDef) (hr : ∀ n, e₁.resolves n = e₂.resolves n)
    (hd : ∀ a ∈ f.args, ∀ l, a.default = some l → ∃ v, defaultValue e₂ l a.type = .ok v) (h : ∃ r, buildField e₁ f = .ok r) :
    ∃ r, buildField e₂ f = .ok r := by
  obtain ⟨r, h⟩ := h
  unfold buildField checkRef at h ⊢
  rw [← hr]
  obtain ⟨u, hu, h2⟩ := bind_ok _ _ _ h
  obtain ⟨as, has, h3⟩ := bind_ok _ _ _ h2
  obtain ⟨dr, hdr, h4⟩ := bind_ok _ _ _ h3
  obtain ⟨as', has'⟩ := mapM_ok_of_forall (buildArgument e₂) f.args
    (fun a ha => buildArgument_ok_transfer e₁ e₂ a (hr _) (hd a ha) (mapM_all_ok _ _ _ has a ha))
  rw [hu]
  simp only [has', hdr, bind, Except.bind, pure, Except.pure]
  exact ⟨_, rfl⟩

theorem buildTypeDef_ok_transfer (e₁ e₂ : Env) (d : TypeDef) (hr : ∀ n, e₁.resolves n = e₂.resolves n)
    (hd : ∀ a ∈ inputValsOf d, ∀ l, a.default = some l → ∃ v, defaultValue e₂ l a.type = .ok v)
    (h : ∃ r, buildTypeDef e₁ d = .ok r) : ∃ r, buildTypeDef e₂ d = .ok r := by
  obtain ⟨r, h⟩ := h
  have hfields : ∀ fs, d.fields.mapM (buildField e₁) = .ok fs → ∃ fs', d.fields.mapM (buildField e₂) = .ok fs' := by
    intro fs hfs
    exact mapM_ok_of_forall _ _ (fun f hf => buildField_ok_transfer e₁ e₂ f hr
      (fun a ha => hd a (List.mem_append_right _ (List.mem_flatMap.mpr ⟨f, hf, ha⟩))) (mapM_all_ok _ _ _ hfs f hf))
  unfold buildTypeDef at h ⊢
  cases hk : d.kind <;> simp only [hk] at h ⊢
  · exact ⟨_, rfl⟩
  · obtain ⟨fs, hfs, h1⟩ := bind_ok _ _ _ h
    obtain ⟨_, hc, _⟩ := bind_ok _ _ _ h1
    obtain ⟨fs', hfs'⟩ := hfields fs hfs
    rw [checkNames_congr e₁ e₂ d.interfaces (fun n _ => hr n)] at hc
    simp only [hfs', hc, bind, Except.bind, pure, Except.pure]
    exact ⟨_, rfl⟩
  · obtain ⟨fs, hfs, _⟩ := bind_ok _ _ _ h
    obtain ⟨fs', hfs'⟩ := hfields fs hfs
    simp only [hfs', bind, Except.bind, pure, Except.pure]
    exact ⟨_, rfl⟩
  · obtain ⟨_, hc, _⟩ := bind_ok _ _ _ h
    rw [checkNames_congr e₁ e₂ d.members (fun n _ => hr n)] at hc
    simp only [hc, bind, Except.bind, pure, Except.pure]
    exact ⟨_, rfl⟩
  · exact ⟨r, h⟩
  · obtain ⟨fs, hfs, _⟩ := bind_ok _ _ _ h
    obtain ⟨fs', hfs'⟩ := mapM_ok_of_forall (buildArgument e₂) d.inputFields
      (fun a ha => buildArgument_ok_transfer e₁ e₂ a (hr _) (hd a (List.mem_append_left _ ha)) (mapM_all_ok _ _ _ hfs a ha))
    simp only [hfs', bind, Except.bind, pure, Except.pure]
    exact ⟨_, rfl⟩

theorem buildDirective_ok_transfer (e₁ e₂ : Env) (d : DirDef) (hr : ∀ n, e₁.resolves n = e₂.resolves n)
    (hd : ∀ a ∈ d.args, ∀ l, a.default = some l → ∃ v, defaultValue e₂ l a.type = .ok v)
    (h : ∃ r, buildDirective e₁ d = .ok r) : ∃ r, buildDirective e₂ d = .ok r := by
  obtain ⟨r, h⟩ := h
  unfold buildDirective at h ⊢
  obtain ⟨as, has, _⟩ := bind_ok _ _ _ h
  obtain ⟨as', has'⟩ := mapM_ok_of_forall (buildArgument e₂) d.args
    (fun a ha => buildArgument_ok_transfer e₁ e₂ a (hr _) (hd a ha) (mapM_all_ok _ _ _ has a ha))
  simp only [has', bind, Except.bind, pure, Except.pure]
  exact ⟨_, rfl⟩

/-- **NoS8 after fix C14-T15**: every default literal written in a DEFINITION of the document (type definitions and
    directive definitions — not extension blocks) is a value of its type over the definitions alone. A literal for
    which this fails (`s8_not_baseDefaults`) is still refused by the first pass of `build_schema`. -/
def BaseDefaults (doc : Doc) : Prop :=
  (∀ t ∈ typeDefs doc, ∀ a ∈ inputValsOf t, ∀ l, a.default = some l → ∃ v, defaultValue (Env.of (typeDefs doc)) l a.type = .ok v) ∧
  (∀ d ∈ dirDefs doc, ∀ a ∈ d.args, ∀ l, a.default = some l → ∃ v, defaultValue (Env.of (typeDefs doc)) l a.type = .ok v)

/-- the second thing fix C14-T15 leaves: the fields of an input type are extended while the type itself is in progress,
    so a default of one of its own fields whose evaluation needs the type again (`needsHidden`) keeps its value over
    the un-extended types (or is refused, if it has none). `SelfDefaults`: that changes no default of its members. -/
def SelfDefaults (doc : Doc) : Prop :=
  ∀ t ∈ typeDefs doc,
    buildTypeDefX (Env.of (typeDefs doc)) ((Env.of (typeDefs doc)).extended (typeExts doc)) (hideFor t.kind t.name) (mergeDef (typeExts doc) t)
      = buildTypeDefX (Env.of (typeDefs doc)) ((Env.of (typeDefs doc)).extended (typeExts doc)) none (mergeDef (typeExts doc) t)

/-- only input types are concerned -/
theorem selfDefaults_of_kind (eB eX : Env) (t : TypeDef) (d : TypeDef) (h : t.kind ≠ .input) :
    buildTypeDefX eB eX (hideFor t.kind t.name) d = buildTypeDefX eB eX none d := by
  have : (t.kind == Kind.input) = false := by
    cases hk : t.kind <;> simp_all
  simp [hideFor, this]

/-- an input type none of whose fields has a default is not concerned either -/
theorem selfDefaults_of_noDefaults (eB eX : Env) (h₁ h₂ : Option String) (d : TypeDef) (hk : d.kind = .input)
    (h : ∀ a ∈ d.inputFields, a.default = none) : buildTypeDefX eB eX h₁ d = buildTypeDefX eB eX h₂ d := by
  unfold buildTypeDefX
  simp only [hk]
  have : d.inputFields.mapM (buildArgumentX eB eX h₁) = d.inputFields.mapM (buildArgumentX eB eX h₂) := by
    apply mapM_congr_mem
    intro a ha
    unfold buildArgumentX
    rw [h a ha]
  rw [this]

/-- with `BaseDefaults`, the definitions and the directive definitions build on their own whenever the document
    declares a schema -/
theorem base_builds_of_baseDefaults (doc : Doc) (d : SchemaD) (hdecl : Declared doc = some d) (h : BaseDefaults doc) :
    (∃ bts, (typeDefs doc).mapM (buildTypeDef (Env.of (typeDefs doc))) = .ok bts) ∧
    (∃ bds, (dirDefs doc).mapM (buildDirective (Env.of (typeDefs doc))) = .ok bds) := by
  obtain ⟨hts, hds, _⟩ := declared_parts doc d hdecl
  have hr : ∀ n, (Env.of (merged doc)).resolves n = (Env.of (typeDefs doc)).resolves n := fun n => (resolves_merged doc n).symm
  constructor
  · apply mapM_ok_of_forall
    intro t ht
    have hq := mapM_all_ok _ _ _ (by rw [← mapM_map_eq]; exact hts :
      (typeDefs doc).mapM (fun t => buildTypeDef (Env.of (merged doc)) (mergeDef (typeExts doc) t)) = .ok d.types) t ht
    obtain ⟨r, hr'⟩ := hq
    exact buildTypeDef_ok_transfer _ _ t hr (h.1 t ht) (build_base_of_merged _ _ t r hr')
  · apply mapM_ok_of_forall
    intro dd hdd
    exact buildDirective_ok_transfer _ _ dd hr (h.2 dd hdd) (mapM_all_ok _ _ _ hds dd hdd)

/-! ### the characterised statement -/

/-- the type-system rules the builder is responsible for, for a document WITH extensions, with NoS8 stated on the
    default literals (`baseDefaults`). Compared with `ValidExt`: `baseBuilds` / `baseDirectives` are derived, and the
    built definitions `bts` are no longer a parameter. -/
structure ValidDoc (doc : Doc) (d : SchemaD) : Prop where
  uniqueTypes : ((typeDefs doc).map (·.name)).Nodup
  uniqueDirectives : ((dirDefs doc).map (·.name)).Nodup
  oneSchema : (schemaDefs doc).length ≤ 1
  noBuiltinNames : ∀ t ∈ typeDefs doc, isDefaultName t.name = false
  extTargets : ∀ e ∈ typeExts doc, ∃ t ∈ typeDefs doc, t.name = e.name ∧ t.kind = e.kind
  /-- every member of the MERGED definitions builds — in particular every default literal is a valid constant of its
      declared type over the merged definitions — and `d` is the declared content -/
  declares : Declared doc = some d
  /-- **NoS8** (what fix C14-T15 leaves of it) -/
  baseDefaults : BaseDefaults doc
  /-- … and no default of an input type's own field needs the type again while it is extended (`ValidExt.selfDefaults`) -/
  selfDefaults : SelfDefaults doc
  membersUnique : ∀ r ∈ d.types, (r.fields.map (·.name)).Nodup ∧ (r.inputFields.map (·.name)).Nodup ∧ (r.values.map (·.name)).Nodup ∧
      r.members.Nodup ∧ r.interfaces.Nodup
  noThunkCycle : hasThunkCycle (Env.of (typeDefs doc)) (typeDefs doc) = false
  noEagerCycle : hasEagerCycle d.types = false
  /-- the same for the definitions alone (the builder checks them before it looks at the extensions) -/
  noEagerCycleBase : ∀ bts, (typeDefs doc).mapM (buildTypeDef (Env.of (typeDefs doc))) = .ok bts → hasEagerCycle bts = false
  noSpecified : d.directives.any (fun x => specifiedDirectives.contains x.name) = false
  rootsOk : ∀ bts, (typeDefs doc).mapM (buildTypeDef (Env.of (typeDefs doc))) = .ok bts →
    ∃ r0, buildRoots (Env.of (typeDefs doc)) (schemaDefs doc).head? bts = .ok r0 ∧
      (schemaExtensions doc).foldlM (fun r se => addOps (fun n => isDefaultName n || d.types.any (·.name == n)) (.lib .ext) r se.ops) r0
        = .ok ⟨d.query, d.mutation, d.subscription⟩

theorem validExt_of_validDoc (doc : Doc) (d : SchemaD) (v : ValidDoc doc d) : ∃ bts, ValidExt doc d bts := by
  obtain ⟨⟨bts, hb⟩, hbd⟩ := base_builds_of_baseDefaults doc d v.declares v.baseDefaults
  exact ⟨bts,
    { uniqueTypes := v.uniqueTypes, uniqueDirectives := v.uniqueDirectives, oneSchema := v.oneSchema,
      noBuiltinNames := v.noBuiltinNames, extTargets := v.extTargets, declares := v.declares, baseBuilds := hb,
      baseDirectives := hbd, selfDefaults := fun _ => v.selfDefaults,
      membersUnique := v.membersUnique, noThunkCycle := v.noThunkCycle, noEagerCycleBase := v.noEagerCycleBase bts hb,
      noEagerCycle := v.noEagerCycle, noSpecified := v.noSpecified, rootsOk := v.rootsOk bts hb }⟩

/-- **build_exact** (documents with extensions), with NoS8 as a statement about default literals: if every default
    literal written in a definition is a value over the definitions alone, a valid document builds exactly its
    declared content (every default evaluated in the extended types). -/
theorem build_exact_of_baseDefaults (doc : Doc) (d : SchemaD) (v : ValidDoc doc d) : build doc = .ok d := by
  obtain ⟨bts, hv⟩ := validExt_of_validDoc doc d v
  exact build_exact_partial doc d bts hv

/-! ### what is left of finding S8 is exactly a violation of `BaseDefaults` -/

/-- the S8 document of `Props/C11.lean` (`f(a: E = B)`, `enum E { A }`, `extend enum E { B }`) satisfies every other
    rule (`s8_valid`) but NOT `DefaultsAgree`: the literal `B` is no value of `E` over the definitions alone and is
    one over the merged definitions. -/
theorem s8_not_defaultsAgree : ¬ DefaultsAgree s8Doc := by
  intro h
  have hq : (TypeDef.mk .object "Query" none [] [{ name := "f", type := .named "Int", args := [{ name := "a", type := .named "E", default := some (.enum "B") }] }] [] [] [] [])
      ∈ typeDefs s8Doc := List.Mem.head _
  have hm := List.mem_map_of_mem (f := mergeDef (typeExts s8Doc)) hq
  have := h.1 _ hm { name := "a", type := .named "E", default := some (.enum "B") } (List.Mem.head _) (.enum "B") rfl
  have h1 : (defaultValue (Env.of (typeDefs s8Doc)) (.enum "B") (.named "E")).toBool = false := by decide
  have h2 : (defaultValue (Env.of (merged s8Doc)) (.enum "B") (.named "E")).toBool = true := by decide
  simp only [] at this
  rw [this, h2] at h1
  cases h1

/-- …and not `BaseDefaults` either: the literal `B` of the DEFINITION `f(a: E = B)` is no value of `E` over the
    definitions alone — this is the part of finding S8 that fix C14-T15 does not repair (`build_exact_refuted`). -/
theorem s8_not_baseDefaults : ¬ BaseDefaults s8Doc := by
  intro h
  have hq : (TypeDef.mk .object "Query" none [] [{ name := "f", type := .named "Int", args := [{ name := "a", type := .named "E", default := some (.enum "B") }] }] [] [] [] [])
      ∈ typeDefs s8Doc := List.Mem.head _
  obtain ⟨v, hv⟩ := h.1 _ hq { name := "a", type := .named "E", default := some (.enum "B") } (List.Mem.head _) (.enum "B") rfl
  have h1 : (defaultValue (Env.of (typeDefs s8Doc)) (.enum "B") (.named "E")).toBool = false := by decide
  simp only [] at hv
  rw [hv] at h1
  cases h1

/-! ### the part of S8 that IS repaired: every default is evaluated in the extended types -/

/-- `input I { a: Int }  type Query { f(x: I = {}): Int }  extend input I { b: String = "x" }` -/
def s8ValueDoc : Doc := [
  .type { kind := .input, name := "I", inputFields := [{ name := "a", type := .named "Int" }] },
  .type { kind := .object, name := "Query",
          fields := [{ name := "f", type := .named "Int", args := [{ name := "x", type := .named "I", default := some (.obj []) }] }] },
  .ext { kind := .input, name := "I", inputFields := [{ name := "b", type := .named "String", default := some (.str "x") }] }]

def firstArgDefault (s : SchemaD) (ty : String) : Option J :=
  match s.types.find? (·.name == ty) with
  | some q => match q.fields.head? with
    | some f => match f.args.head? with
      | some a => some a.default
      | none => none
    | none => none
  | none => none

def isObjBX : Option J → Bool
  | some (.obj [(k, .str v)]) => k == "b" && v == "x"
  | _ => false

/-- the default `{}` of `f(x: I = {})` is `{b: "x"}` in the built schema (it was `{}` before fix C14-T15), as declared -/
theorem s8_value_form_repaired :
    isObjBX ((build s8ValueDoc).toOption.bind (firstArgDefault · "Query")) = true ∧
    isObjBX ((Declared s8ValueDoc).bind (firstArgDefault · "Query")) = true := by
  constructor <;> decide

/-- `enum E { A }  type Query { q: Int }  extend enum E { B }  extend type Query { g(m: E = B): Int }` -/
def s8ExtDoc : Doc := [
  .type { kind := .enum, name := "E", values := [{ name := "A" }] },
  .type { kind := .object, name := "Query", fields := [{ name := "q", type := .named "Int" }] },
  .ext { kind := .enum, name := "E", values := [{ name := "B" }] },
  .ext { kind := .object, name := "Query",
         fields := [{ name := "g", type := .named "Int", args := [{ name := "m", type := .named "E", default := some (.enum "B") }] }] }]

/-- a default written in an EXTENSION block may use a member that another extension block adds (the retry of
    `_default_value`); it was refused before fix C14-T15 -/
theorem s8_extension_default_accepted : (build s8ExtDoc).toBool = true ∧ (Declared s8ExtDoc).isSome = true := by
  constructor <;> decide

/-- `input I { a: Int }  type Query { q(i: I): Int }  extend input I { b: String = "x" }  extend input I { c: I = {b: "y", c: null} }` -/
def s8SelfDoc : Doc := [
  .type { kind := .input, name := "I", inputFields := [{ name := "a", type := .named "Int" }] },
  .type { kind := .object, name := "Query", fields := [{ name := "q", type := .named "Int", args := [{ name := "i", type := .named "I" }] }] },
  .ext { kind := .input, name := "I", inputFields := [{ name := "b", type := .named "String", default := some (.str "x") }] },
  .ext { kind := .input, name := "I", inputFields := [{ name := "c", type := .named "I", default := some (.obj [("b", .str "y"), ("c", .null)]) }] }]

set_option maxRecDepth 4000 in
/-- the second residue (`SelfDefaults` excluded): a default of a field of `I` written in an extension of `I`, of type
    `I` itself, which needs a field that an extension adds — `I` is in progress when the literal is retried, and the
    document is refused although it declares a schema. Replay: corpus/C11 `S8-extension-default-of-self-typed-input-field`. -/
theorem s8_self_default_refused :
    (match build s8SelfDoc with | .error (.lib .sdl) => true | _ => false) = true ∧ (Declared s8SelfDoc).isSome = true := by
  constructor <;> decide

/-- `input I { a: String }  type Query { f(i: I = {a: "x"}): Int }  extend input I { b: String! }` -/
def staleDoc : Doc := [
  .type { kind := .input, name := "I", inputFields := [{ name := "a", type := .named "String" }] },
  .type { kind := .object, name := "Query",
          fields := [{ name := "f", type := .named "Int", args := [{ name := "i", type := .named "I", default := some (.obj [("a", .str "x")]) }] }] },
  .ext { kind := .input, name := "I", inputFields := [{ name := "b", type := .nonNull (.named "String") }] }]

/-- a default that an extension makes invalid (a new required field) is NOT kept (fix C11-H3-6): the document declares
    no schema and the builder refuses it with an SDL error -/
theorem stale_default_rejected :
    (match build staleDoc with | .error (.lib .sdl) => true | _ => false) = true ∧ (Declared staleDoc).isNone = true := by
  constructor <;> decide

end PyGql.Props.C11

/-
  C03 (document part): printing a parsed tree and parsing the text again is the identity.

  `print c t` is the MODEL of `ASTPrinter(indent, include_descriptions)(t)` (`Print.lean`, tied to the code by the
  correspondence of corr/C03_print.py: text → Lean lexer → Lean parser → Lean printer  vs  `print_ast(parse(text))`,
  exact strings); the lexer is `Lex.lexAll`, the parser `Parse.parseType / parseValue / parseDocument` with the
  theorems of C01.  "Up to positions" = on location-free trees (`no_location=True`, the flag the oracle also uses):
  the printer never reads `loc`, and a re-parsed text has other positions by construction.
-/
import PyGqlModel.Lemmas.PrintTokens
import PyGqlModel.Lemmas.PrintLexFloat
import PyGqlModel.Lemmas.PrintTokensDir
import PyGqlModel.Lemmas.PrintLayExec
import PyGqlModel.Lemmas.PrintMatchExec
import PyGqlModel.Lemmas.PrintBlockLay
import PyGqlModel.Lemmas.PrintStrip
import PyGqlModel.Lemmas.PrintDocMatch
import PyGqlModel.Lemmas.PrintBlockForms
import PyGqlModel.Lemmas.PrintBridgeDefs
import PyGqlModel.Lemmas.PrintBridgeNoLoc
import PyGqlModel.Props.C02_spans
import PyGqlModel.Props.C01_parse
namespace PyGql.Props.C03
open PyGql PyGql.Ast PyGql.Parse PyGql.Spec PyGql.Print PyGql.PrintLex PyGql.PrintMatch PyGql.PrintTokens PyGql.Lex

private theorem cls_sof : cls sofTok = (.sof, []) := by decide
private theorem cls_eof (n : Nat) : cls (eofTok n) = (.eof, []) := by simp [cls, eofTok, hasValue]

/-- `print_tokens_type`: the printed type lexes to SOF, exactly the canonical yield of the type, EOF — for every type
    whose names are `Name` lexemes (nothing else is needed: a type has no other content). -/
theorem print_tokens_type (t : TypeRef) (hl : lexOkType t = true) :
    ∃ toks, lexAll (printType t) = .ok (sofTok :: toks ++ [eofTok (printType t).length]) ∧ classes toks = yieldType t := by
  have := lexesTo_type t hl [] [] safe_nil lexesTo_nil
  simp only [List.append_nil] at this
  exact lexAll_of_lexesTo this

/-- `print_parse_type` (FULL): for every well-formed, location-free type whose names are `Name` lexemes,
    `parse_type(print(t), no_location=True) = t`, under every flag combination with `no_location`. -/
theorem print_parse_type (fl : Flags) (hnl : fl.noLocation = true) (t : TypeRef) (hl : lexOkType t = true)
    (hn : noLocType t = true) (hw : wfType t = true) :
    ∃ toks, lexAll (printType t) = .ok toks ∧ parseType fl toks = .ok t := by
  obtain ⟨toks, h1, h2⟩ := print_tokens_type t hl
  refine ⟨_, h1, ?_⟩
  apply C01.parseType_complete fl _ t hw
  show matchesAll fl _ _ = true
  apply matchesAll_of_yield fl hnl
  · simp [plainAll, plain, plain_typeV t hn]
  · simp [classes, Item.yieldAll, Item.yield, cls_sof, cls_eof, yieldType] at h2 ⊢
    exact h2

/-- non-vacuity: `[[A!]]!` -/
example : ∃ toks, lexAll (printType (.nonNull (.list (.list (.nonNull (.named ⟨⟨[65], none⟩, none⟩) none) none) none) none)) = .ok toks ∧
    parseType { noLocation := true } toks = .ok (.nonNull (.list (.list (.nonNull (.named ⟨⟨[65], none⟩, none⟩) none) none) none) none) :=
  print_parse_type _ rfl _ (by decide) (by decide) (by decide)


/-- `print_tokens_value`: for every value (all 9 kinds, nested lists and objects, variables) whose leaves are lexemes of
    their class (`lexOkValue`: names and enum values `Name` lexemes, integers `IntValue` lexemes — the recognisers of
    `Spec/Lexical.lean` —, quoted strings ARBITRARY code-point lists (`quoted_roundtrip` with a rest), floats and
    depth-0 block strings one token by the string-level statement) and every indent configuration, the printed text
    lexes to SOF, exactly the canonical yield of the value, EOF. -/
theorem print_tokens_value (c : Cfg) (v : Value) (hl : lexOkValue c.indent v) :
    ∃ toks, lexAll (printValue c v) = .ok (sofTok :: toks ++ [eofTok (printValue c v).length]) ∧
      classes toks = yieldValue v := by
  have := lexesTo_value c v hl [] [] safe_nil lexesTo_nil
  simp only [List.append_nil] at this
  exact lexAll_of_lexesTo this

/-- `print_parse_value`: `parse_value(print(v), no_location=True) = v` for every such well-formed value (variables
    allowed: `parse_value` parses `Value[~Const]`), under every flag combination with `no_location`. -/
theorem print_parse_value (fl : Flags) (hnl : fl.noLocation = true) (c : Cfg) (v : Value)
    (hl : lexOkValue c.indent v) (hn : noLocValue v = true) (hw : wfValue false v = true) :
    ∃ toks, lexAll (printValue c v) = .ok toks ∧ parseValue fl toks = .ok v := by
  obtain ⟨toks, h1, h2⟩ := print_tokens_value c v hl
  refine ⟨_, h1, ?_⟩
  apply C01.parseValue_complete fl _ v hw
  show matchesAll fl _ _ = true
  apply matchesAll_of_yield fl hnl
  · simp [plainAll, plain, plain_valueV v hn]
  · simp [classes, Item.yieldAll, Item.yield, cls_sof, cls_eof, yieldValue] at h2 ⊢
    exact h2


/-- non-vacuity: `[1, "a\"😀", true, null, E, $v, {k: [-2]}]` satisfies every hypothesis -/
private def exV : Value :=
  .list [.int [49] none, .string ⟨[97, 34, 0x1F600], false, none⟩, .boolean true none, .null none, .enum [69] none,
         .var ⟨⟨[118], none⟩, none⟩, .object [.mk ⟨[107], none⟩ (.list [.int [45, 50] none] none) none] none] none
example : ∃ toks, lexAll (printValue (mkCfg (.width 2)) exV) = .ok toks ∧ parseValue { noLocation := true } toks = .ok exV :=
  print_parse_value _ rfl _ exV
    (by simp only [exV, lexOkValue, lexOkValues, lexOkField, lexOkFields, Bool.false_eq_true, false_implies, true_and, and_true]; decide) (by decide) (by decide)
example : printValue (mkCfg (.width 2)) exV = textOfString "[1, \"a\\\"😀\", true, null, E, $v, {k: [-2]}]" := by decide

/-- `float_lexeme_spec`: the hypothesis `FloatLexeme` of `lexOkValue` holds for EVERY FloatValue lexeme of the
    specification (`Spec.Lexical.isFloatValue`: IntegerPart FractionalPart? ExponentPart?, not both absent): followed by
    a delimiter it is read by `_read_number` as one Float token with that value.  With it `print_parse_value` is
    unconditional for every value without block strings. -/
theorem float_lexeme_spec (w : Text) (h : Spec.Lexical.isFloatValue w = true) : FloatLexeme w :=
  floatLexeme_of_isFloatValue w h

/-- non-vacuity with floats: `{x: [-1.5e-3, 0.0, 2E+1]}` -/
private def exF : Value :=
  .object [.mk ⟨[120], none⟩ (.list [.float [45, 49, 46, 53, 101, 45, 51] none, .float [48, 46, 48] none,
    .float [50, 69, 43, 49] none] none) none] none
example : ∃ toks, lexAll (printValue (mkCfg (.str [9])) exF) = .ok toks ∧ parseValue { noLocation := true } toks = .ok exF :=
  print_parse_value _ rfl _ exF
    (by
      simp only [exF, lexOkValue, lexOkValues, lexOkField, lexOkFields, and_true]
      exact ⟨by decide, float_lexeme_spec _ (by decide), float_lexeme_spec _ (by decide), float_lexeme_spec _ (by decide)⟩)
    (by decide) (by decide)

/-- `print_tokens_directives`: one layer above values — a printed directive list `@a(x: 1, y: [$v]) @b` (arguments
    with arbitrary values, as in `print_tokens_value`) lexes to exactly the canonical yield of `Directives`
    (`@ Name ( Name : Value … )` per directive).  There is no parser entry point for directives alone, so this is the
    token-level half; it is the building block for fields, operations and type-system definitions. -/
theorem print_tokens_directives (c : Cfg) (ds : List Directive) (h : lexOkDirectives c.indent ds) :
    ∃ toks, lexAll (printDirectives c ds) = .ok (sofTok :: toks ++ [eofTok (printDirectives c ds).length]) ∧
      classes toks = Item.yieldAll (directivesV ds) := by
  have := lexesTo_directives c ds h [] [] safe_nil lexesTo_nil
  simp only [List.append_nil] at this
  exact lexAll_of_lexesTo this

/-- non-vacuity: `@a(x: 1, y: [$v]) @b` -/
example : ∃ toks, lexAll (printDirectives (mkCfg (.width 2))
      [⟨⟨[97], none⟩, [⟨⟨[120], none⟩, .int [49] none, none⟩, ⟨⟨[121], none⟩, .list [.var ⟨⟨[118], none⟩, none⟩] none, none⟩], none⟩,
       ⟨⟨[98], none⟩, [], none⟩]) = .ok toks :=
  let ⟨toks, h, _⟩ := print_tokens_directives (mkCfg (.width 2)) _
    (by simp only [lexOkDirectives, lexOkDirective, lexOkArguments, lexOkArgument, lexOkValue, lexOkValues, and_true]; decide)
  ⟨_, h⟩

/-- `print_stable` for types and values: printing the re-parsed tree reproduces the same text -/
theorem print_stable_type (fl : Flags) (hnl : fl.noLocation = true) (t : TypeRef) (hl : lexOkType t = true)
    (hn : noLocType t = true) (hw : wfType t = true) :
    ∃ toks t', lexAll (printType t) = .ok toks ∧ parseType fl toks = .ok t' ∧ printType t' = printType t := by
  obtain ⟨toks, h1, h2⟩ := print_parse_type fl hnl t hl hn hw
  exact ⟨toks, t, h1, h2, rfl⟩

theorem print_stable_value (fl : Flags) (hnl : fl.noLocation = true) (c : Cfg) (v : Value)
    (hl : lexOkValue c.indent v) (hn : noLocValue v = true) (hw : wfValue false v = true) :
    ∃ toks v', lexAll (printValue c v) = .ok toks ∧ parseValue fl toks = .ok v' ∧ printValue c v' = printValue c v := by
  obtain ⟨toks, h1, h2⟩ := print_parse_value fl hnl c v hl hn hw
  exact ⟨toks, v, h1, h2, rfl⟩

/-! ## documents -/

/-- `print_total`: the output of the model printer always ends with the final newline of `print_document`.
    NOTE (audit F8): the proof is `⟨_, rfl⟩` and carries no more content than that. "Printing never raises" is NOT a theorem
    of this development: the model printer (`Print.lean`) is a total Lean function WITHOUT an error branch, so totality holds
    by construction of the model and says nothing about the implementation; likewise "printing is deterministic" (a Lean
    function). That the real printer raises nothing and returns the same text on parser-produced trees is tied ONLY by the
    correspondence and the direct oracle (outcome `internal:<Class>`, repeated calls), with the known exception R7
    (RecursionError on trees nested a few hundred levels deep; `print_deep_list` shows what the model prints there). -/
theorem print_total (c : Cfg) (d : Document) : ∃ s, printDocument c d = s ++ [10] := ⟨_, rfl⟩

/-- an indentation setting of the statement: spaces and tabs only -/
def IndentOK (c : Cfg) : Prop := ∀ ch ∈ c.indent, ch = 32 ∨ ch = 9

/-- THE FULL STATEMENT `print_parse` (C03): for every text the parser accepts (any flags with `no_location`), every
    indentation setting, descriptions on — the printed tree is accepted and parses to the SAME tree. -/
def PrintParseStatement : Prop :=
  ∀ (fl : Flags) (c : Cfg) (x : Text) (toks : List Tok) (d : Document),
    fl.noLocation = true → c.includeDescriptions = true → IndentOK c →
    lexAll x = .ok toks → parseDocument fl toks = .ok d →
    ∃ toks', lexAll (printDocument c d) = .ok toks' ∧ parseDocument fl toks' = .ok d

/-- THE STATEMENT MODULO MEMBER DESCRIPTIONS (what holds on today's code according to the correspondence and the direct
    oracle: every difference the oracle sees is a dropped member description) -/
def PrintParseModuloMembersStatement : Prop :=
  ∀ (fl : Flags) (c : Cfg) (x : Text) (toks : List Tok) (d : Document),
    fl.noLocation = true → c.includeDescriptions = true → IndentOK c →
    lexAll x = .ok toks → parseDocument fl toks = .ok d →
    ∃ toks', lexAll (printDocument c d) = .ok toks' ∧ parseDocument fl toks' = .ok (stripMemberDescriptions d)

/-- THE FULL STATEMENT `print_stable` for documents -/
def PrintStableStatement : Prop :=
  ∀ (fl : Flags) (c : Cfg) (x : Text) (toks : List Tok) (d : Document),
    fl.noLocation = true → IndentOK c → lexAll x = .ok toks → parseDocument fl toks = .ok d →
    ∃ toks' d', lexAll (printDocument c d) = .ok toks' ∧ parseDocument fl toks' = .ok d' ∧
      printDocument c d' = printDocument c d

/-! ### block strings under every enclosing indentation -/

/-- `block_lay_multiline` — the hypothesis `BlockLay` (the printed block string is ONE BlockString token with the same
    value under EVERY enclosing `_indent`, i.e. at every nesting depth) is DISCHARGED for every value that the printer
    lays out in the multi-line form `"""⏎ … ⏎"""` (every value that does not start with a blank, and every value with
    a line break) and that has the shape `BlockStringValue` produces: lines without CR/LF made of block-string
    characters, first and last line not blank, smallest indentation of the non-blank lines 0.
    Ingredients: the lexer's scan inverts the escaping (`block_roundtrip_partial` of the string part), the escaping
    commutes with `_indent` (`escape_replaceLF`), and the three layout lemmas of the string part compose
    (`parseBlockString_layout`).  NOT covered: the one-line form (`"""  x"""`, values starting with a blank and without a
    line break) and the empty value — both stay with the correspondence / direct oracle. -/
theorem block_lay_multiline (ind l : Text) (ls : List Text) (hind : ∀ ch ∈ ind, ch = 32 ∨ ch = 9)
    (hlines : ∀ x ∈ l :: ls, BlockString.IsLine x) (hchars : ∀ ch ∈ BlockString.joinLF (l :: ls), blockChar ch = true)
    (hfirst : Spec.onlyWhiteSpace l = false) (hlast : Spec.onlyWhiteSpace ((l :: ls).getLast (by simp)) = false)
    (hmin : (l :: ls).foldl BlockString.indentStep none = some 0)
    (hml : multiLineForm (BlockString.joinLF (l :: ls)) = true) :
    BlockLay ind (BlockString.joinLF (l :: ls)) :=
  blockLay_multiline ind l ls hind hlines hchars hfirst hlast hmin hml

/-- `print_parse_value_spec`: `print_parse_value` with every leaf condition given by the SPECIFICATION recognisers
    (names, integers, floats) and block strings by `BlockLay` (discharged above for the multi-line form). -/
theorem print_parse_value_spec (fl : Flags) (hnl : fl.noLocation = true) (c : Cfg) (v : Value)
    (hl : okValue c.indent v) (hn : noLocValue v = true) (hw : wfValue false v = true) :
    ∃ toks, lexAll (printValue c v) = .ok toks ∧ parseValue fl toks = .ok v := by
  have hlx := lexesTo_of_lay (lay_value c v hl) [] [] safe_nil lexesTo_nil
  simp only [List.append_nil] at hlx
  obtain ⟨toks, h1, h2⟩ := lexAll_of_lexesTo hlx
  refine ⟨_, h1, ?_⟩
  apply C01.parseValue_complete fl _ v hw
  show matchesAll fl _ _ = true
  apply matchesAll_of_yield fl hnl
  · simp [plainAll, plain, plain_valueV v hn]
  · simp [classes, Item.yieldAll, Item.yield, cls_sof, cls_eof, yieldValue] at h2 ⊢
    exact h2

/-! ### executable documents IN FULL -/

/-- `print_tokens_executable`: for every executable document (operations in long and short form, variable definitions
    with defaults and directives, fields with aliases / arguments / directives, fragment spreads, inline fragments,
    selection sets nested to ANY depth through `_block` / `_indent`, fragment definitions with fragment variables) whose
    leaves are lexemes of their class by the specification recognisers (`okExecDefinitions`), and every indentation
    string over {space, tab}: the printed document lexes to SOF, exactly the canonical yield of its definitions, EOF.
    Block strings (any depth) enter through the string-level hypothesis `BlockLay`. -/
theorem print_tokens_executable (c : Cfg) (hind : IndentOK c) (d : Document)
    (hok : okExecDefinitions c.indent d.definitions) :
    ∃ toks, lexAll (printDocument c d) = .ok (sofTok :: toks ++ [eofTok (printDocument c d).length]) ∧
      classes toks = Item.yieldAll (d.definitions.map definitionV) :=
  lexAll_of_lexesTo (lexesTo_execDocument c hind d hok)

/-- `print_parse_executable`: `parse(print(d), no_location=True) = d` for every such well-formed, location-free
    executable document, every indentation setting and every flag combination with `no_location`
    (uses `parse_complete_document` of C01). -/
theorem print_parse_executable (fl : Flags) (hnl : fl.noLocation = true) (c : Cfg) (hind : IndentOK c) (d : Document)
    (hok : okExecDefinitions c.indent d.definitions) (hn : noLocExecDocument d = true) (hw : wfDocument fl d = true) :
    ∃ toks, lexAll (printDocument c d) = .ok toks ∧ parseDocument fl toks = .ok d := by
  obtain ⟨toks, h1, h2⟩ := print_tokens_executable c hind d hok
  refine ⟨_, h1, ?_⟩
  apply C01.parse_complete_document fl _ d hw
  exact matches_execDocument fl hnl d hn sofTok (eofTok _) cls_sof (cls_eof _) toks h2

/-- `print_stable_executable` -/
theorem print_stable_executable (fl : Flags) (hnl : fl.noLocation = true) (c : Cfg) (hind : IndentOK c) (d : Document)
    (hok : okExecDefinitions c.indent d.definitions) (hn : noLocExecDocument d = true) (hw : wfDocument fl d = true) :
    ∃ toks d', lexAll (printDocument c d) = .ok toks ∧ parseDocument fl toks = .ok d' ∧
      printDocument c d' = printDocument c d := by
  obtain ⟨toks, h1, h2⟩ := print_parse_executable fl hnl c hind d hok hn hw
  exact ⟨toks, d, h1, h2, rfl⟩

/-- non-vacuity: `query Q($v: Int = 1 @d) @live { a: b(x: "s") { ...F ... on T @e { c } } }  fragment F on T { d }  { e }` -/
private def nm (s : String) : Name := ⟨textOfString s, none⟩
private def exDoc : Document :=
  ⟨[.operation ⟨K.query, some (nm "Q"),
      [⟨⟨nm "v", none⟩, .named ⟨nm "Int", none⟩, some (.int [49] none), [⟨nm "d", [], none⟩], none⟩],
      [⟨nm "live", [], none⟩],
      .mk [.field (some (nm "a")) (nm "b") [⟨nm "x", .string ⟨[115], false, none⟩, none⟩] []
            (some (.mk [.fragmentSpread (nm "F") [] none,
                        .inlineFragment (some ⟨nm "T", none⟩) [⟨nm "e", [], none⟩] (.mk [.field none (nm "c") [] [] none none] none) none] none)) none] none,
      none⟩,
    .fragment ⟨nm "F", [], ⟨nm "T", none⟩, [], .mk [.field none (nm "d") [] [] none none] none, none⟩,
    .operation ⟨K.query, none, [], [], .mk [.field none (nm "e") [] [] none none] none, none⟩], none⟩

example : ∃ toks, lexAll (printDocument (mkCfg (.str [32, 9])) exDoc) = .ok toks ∧
    parseDocument { noLocation := true } toks = .ok exDoc :=
  print_parse_executable _ rfl _ (by intro ch hc; simp [mkCfg] at hc; omega) exDoc
    (by
      simp only [exDoc, okExecDefinitions, okExecDefinition, okOperation, okFragment, okVarDefs, okVarDef, okDirectives,
        okDirective, okArguments, okArgument, okSelectionSet, okSelections, okSelection, okOptSelectionSet, okValue,
        lexOkType, nm]
      repeat' apply And.intro
      all_goals first | decide | simp)
    (by decide) (by decide)

/-- non-vacuity: the block string `a"""⏎  b\` (embedded triple quote, an indented second line, trailing backslash)
    as an argument two selection sets deep, TAB indentation: `{ f { g(x: """…""") } }` -/
private def exBlockLines : List Text := [[97, 34, 34, 34], [32, 32, 98, 92]]
private def exBlockDoc : Document :=
  ⟨[.operation ⟨K.query, none, [], [],
      .mk [.field none ⟨[102], none⟩ [] [] (some (.mk [.field none ⟨[103], none⟩
        [⟨⟨[120], none⟩, .string ⟨BlockString.joinLF exBlockLines, true, none⟩, none⟩] [] none none] none)) none] none,
      none⟩], none⟩

example : ∃ toks, lexAll (printDocument (mkCfg (.str [9])) exBlockDoc) = .ok toks ∧
    parseDocument { noLocation := true } toks = .ok exBlockDoc := by
  have hb : BlockLay [9] (BlockString.joinLF exBlockLines) :=
    block_lay_multiline [9] _ _ (by decide)
      (by intro x hx; simp at hx; rcases hx with rfl | rfl <;> (intro ch hc; simp at hc; omega))
      (by decide) (by decide) (by decide) (by decide) (by decide)
  refine print_parse_executable _ rfl _ (by intro ch hc; simp [mkCfg] at hc; omega) exBlockDoc ?_ (by decide) (by decide)
  simp only [exBlockDoc, okExecDefinitions, okExecDefinition, okOperation, okVarDefs, okDirectives, okArguments, okArgument,
    okSelectionSet, okSelections, okSelection, okOptSelectionSet, okValue, mkCfg]
  repeat' apply And.intro
  all_goals first | decide | (intro _; exact hb) | simp

/-! ### R4: the refutation witness of `PrintParseStatement` (also the replay on the implementation) -/

/-- `enum E {"" A}` -/
def r4Text : Text := [101, 110, 117, 109, 32, 69, 32, 123, 34, 34, 32, 65, 125]
def r4Flags : Flags := { noLocation := true, allowTypeSystem := true }
def r4Doc (desc : Option StringValue) : Document :=
  ⟨[.enumTypeDefinition none ⟨[69], none⟩ [] [⟨desc, ⟨[65], none⟩, [], none⟩] none], none⟩

/-- the parser accepts the text: the enum value carries the (empty, quoted) description -/
theorem r4_parse : ∃ toks, lexAll r4Text = .ok toks ∧ parseDocument r4Flags toks = .ok (r4Doc (some ⟨[], false, none⟩)) :=
  ⟨_, rfl, rfl⟩

/-- the printer drops it: `enum E {⏎  A⏎}⏎` -/
theorem r4_print : printDocument (mkCfg (.width 2)) (r4Doc (some ⟨[], false, none⟩)) =
    [101, 110, 117, 109, 32, 69, 32, 123, 10, 32, 32, 65, 10, 125, 10] := by decide

/-- … and the printed text parses to the tree WITHOUT the description -/
theorem r4_reparse : ∃ toks, lexAll (printDocument (mkCfg (.width 2)) (r4Doc (some ⟨[], false, none⟩))) = .ok toks ∧
    parseDocument r4Flags toks = .ok (r4Doc none) := by
  rw [r4_print]; exact ⟨_, rfl, rfl⟩

/-- `print_parse_refuted` (R4, KNOWN FINDING — pinned by test_schema_kitchen_sink): the full statement is false on
    today's code; descriptions of fields, arguments, input fields and enum values are lost. -/
theorem print_parse_refuted : ¬ PrintParseStatement := by
  intro h
  obtain ⟨toks, hl, hp⟩ := r4_parse
  obtain ⟨toks', h1, h2⟩ := h r4Flags (mkCfg (.width 2)) r4Text toks _ rfl rfl (by intro ch hc; simp [mkCfg] at hc; exact Or.inl hc) hl hp
  obtain ⟨toks'', h3, h4⟩ := r4_reparse
  rw [h1] at h3
  cases h3
  rw [h2] at h4
  simp [r4Doc] at h4

/-- the loss is exactly a member description: the witness satisfies the statement modulo member descriptions -/
example : stripMemberDescriptions (r4Doc (some ⟨[], false, none⟩)) = r4Doc none := rfl


/-! ### the printer does not read member descriptions: stability is compatible with the R4 loss -/

private theorem printIV_strip (c : Cfg) : printInputValueDefinition c ∘ stripIV = printInputValueDefinition c := rfl
private theorem printFD_strip (c : Cfg) : printFieldDefinition c ∘ stripFD = printFieldDefinition c := by
  funext d
  simp [printFieldDefinition, stripFD, printArgumentDefinitions, List.map_map, printIV_strip]
private theorem printEV_strip (c : Cfg) : printEnumValueDefinition c ∘ stripEV = printEnumValueDefinition c := rfl

private theorem printDefinition_strip (c : Cfg) (d : Definition) : printDefinition c (stripDef d) = printDefinition c d := by
  cases d <;> simp [stripDef, printDefinition, List.map_map, printFD_strip, printEV_strip, printIV_strip,
    printArgumentDefinitions]

private theorem documentEntries_strip (c : Cfg) (ds : List Definition) (acc : List Text) :
    documentEntries c acc (ds.map stripDef) = documentEntries c acc ds := by
  induction ds generalizing acc with
  | nil => rfl
  | cons d ds ih => simp only [List.map_cons, documentEntries, printDefinition_strip, ih]

/-- `print_ignores_member_descriptions`: the printed text does not depend on the descriptions of fields, arguments,
    input fields and enum values (finding R4 stated positively) — hence `print(parse(print t)) = print t` is not
    disturbed by their loss. -/
theorem print_ignores_member_descriptions (c : Cfg) (d : Document) :
    printDocument c (stripMemberDescriptions d) = printDocument c d := by
  simp [printDocument, stripMemberDescriptions, documentEntries_strip]

/-- `print_stable` follows from the statement modulo member descriptions -/
theorem print_stable_of_modulo (h : PrintParseModuloMembersStatement) :
    ∀ (fl : Flags) (c : Cfg) (x : Text) (toks : List Tok) (d : Document),
      fl.noLocation = true → c.includeDescriptions = true → IndentOK c → lexAll x = .ok toks → parseDocument fl toks = .ok d →
      ∃ toks' d', lexAll (printDocument c d) = .ok toks' ∧ parseDocument fl toks' = .ok d' ∧
        printDocument c d' = printDocument c d := by
  intro fl c x toks d h1 h2 h3 h4 h5
  obtain ⟨toks', a, b⟩ := h fl c x toks d h1 h2 h3 h4 h5
  exact ⟨toks', _, a, b, print_ignores_member_descriptions c d⟩

/-! ### ALL documents, modulo member descriptions -/

/-- `print_tokens_document`: for EVERY document — executable definitions, type-system definitions and extensions, mixed
    — whose leaves are lexemes of their class (`okDefinition`), every indentation string over {space, tab}, descriptions
    on: the printed document lexes to SOF, the token classes of its entries, EOF.  The classes of an entry are the
    canonical yield of the definition WITHOUT member descriptions (finding R4: the printer does not print them), preceded by
    the keyword `query` exactly where the R6 guard of `print_document` adds it. -/
theorem print_tokens_document (c : Cfg) (hdesc : c.includeDescriptions = true) (hind : IndentOK c) (d : Document)
    (hok : ∀ x ∈ d.definitions, okDefinition c.indent x) :
    ∃ toks, lexAll (printDocument c d) = .ok (sofTok :: toks ++ [eofTok (printDocument c d).length]) ∧
      classes toks = (entryPairs c none d.definitions).flatMap Prod.snd :=
  lexAll_of_lexesTo (lexesTo_document c d (fun x hx => gfacts c hdesc hind x (hok x hx)))

/-- `print_parse_document_modulo_members` (the statement of C03 modulo finding R4, for ALL documents):
    `parse(print(d), no_location=True)` is `d` without the descriptions of fields, arguments, input fields and enum values
    — for every well-formed, location-free document (operations, fragments, all 15 kinds of type-system definitions and
    extensions, mixed documents including the query shorthand after a block-less definition: R6), every indentation
    setting over {space, tab}, every flag combination with `no_location`.  Top-level descriptions, default values,
    directives and every string content are preserved (block strings through `BlockLay` / `DescLay`). -/
theorem print_parse_document_modulo_members (fl : Flags) (hnl : fl.noLocation = true) (c : Cfg)
    (hdesc : c.includeDescriptions = true) (hind : IndentOK c) (d : Document)
    (hok : ∀ x ∈ d.definitions, okDefinition c.indent x) (hn : noLocDocument d = true) (hw : wfDocument fl d = true) :
    ∃ toks, lexAll (printDocument c d) = .ok toks ∧ parseDocument fl toks = .ok (stripMemberDescriptions d) := by
  obtain ⟨toks, h1, h2⟩ := print_tokens_document c hdesc hind d hok
  refine ⟨_, h1, ?_⟩
  apply C01.parse_complete_document fl _ _ (by rw [wfDocument_strip]; exact hw)
  exact matches_document fl hnl c d (fun x hx => gfacts c hdesc hind x (hok x hx)) hn sofTok (eofTok _) cls_sof (cls_eof _) toks h2

/-- `print_stable_document` (all documents): printing the re-parsed tree reproduces the same text — the loss of member
    descriptions (R4) is invisible to the printer (`print_ignores_member_descriptions`). -/
theorem print_stable_document (fl : Flags) (hnl : fl.noLocation = true) (c : Cfg)
    (hdesc : c.includeDescriptions = true) (hind : IndentOK c) (d : Document)
    (hok : ∀ x ∈ d.definitions, okDefinition c.indent x) (hn : noLocDocument d = true) (hw : wfDocument fl d = true) :
    ∃ toks d', lexAll (printDocument c d) = .ok toks ∧ parseDocument fl toks = .ok d' ∧
      printDocument c d' = printDocument c d := by
  obtain ⟨toks, h1, h2⟩ := print_parse_document_modulo_members fl hnl c hdesc hind d hok hn hw
  exact ⟨toks, _, h1, h2, print_ignores_member_descriptions c d⟩

/-- a document without member descriptions round-trips EXACTLY -/
theorem print_parse_document_exact (fl : Flags) (hnl : fl.noLocation = true) (c : Cfg)
    (hdesc : c.includeDescriptions = true) (hind : IndentOK c) (d : Document)
    (hok : ∀ x ∈ d.definitions, okDefinition c.indent x) (hn : noLocDocument d = true) (hw : wfDocument fl d = true)
    (hm : stripMemberDescriptions d = d) :
    ∃ toks, lexAll (printDocument c d) = .ok toks ∧ parseDocument fl toks = .ok d := by
  have := print_parse_document_modulo_members fl hnl c hdesc hind d hok hn hw
  rwa [hm] at this

/-! ### block strings: no hypothesis left -/

/-- `block_lay_canon`: the hypotheses `BlockLay` (block-string values at any depth) and `DescLay` (block descriptions)
    hold for EVERY canonical value (`CanonBlock`: empty, or lines of block-string characters without CR/LF, first and last
    line not blank, smallest indentation 0 unless printed in the one-line form) — the multi-line form, the one-line form
    `"""  x"""` (with the extra line feed after a trailing `"` or `\`: defect R3) and the empty string `"""⏎⏎"""`
    (defect R1), under every indentation string over {space, tab} and every enclosing `_indent`. -/
theorem block_lay_canon (ind : Text) (hind : ∀ ch ∈ ind, ch = 32 ∨ ch = 9) (v : Text) (h : CanonBlock v) :
    BlockLay ind v ∧ DescLay ind v :=
  ⟨blockLay_canon ind hind v h, descLay_canon ind v h⟩

/-- `print_parse_value_full`: `parse_value(print(v), no_location=True) = v` for EVERY value whose leaves satisfy the
    specification (`specValue`: names / integers / floats by the lexical recognisers, quoted strings arbitrary, block
    strings canonical) — no hypothesis about the lexer or the printer is left. -/
theorem print_parse_value_full (fl : Flags) (hnl : fl.noLocation = true) (c : Cfg) (hind : IndentOK c) (v : Value)
    (hs : specValue v) (hn : noLocValue v = true) (hw : wfValue false v = true) :
    ∃ toks, lexAll (printValue c v) = .ok toks ∧ parseValue fl toks = .ok v :=
  print_parse_value_spec fl hnl c v (okValue_of_spec c.indent hind v hs) hn hw

/-- non-vacuity: `[""" x"""", """""", """a⏎ b"""]` — one-line form ending in a quote, empty, multi-line -/
example : ∃ toks, lexAll (printValue (mkCfg (.width 2))
      (.list [.string ⟨[32, 120, 34], true, none⟩, .string ⟨[], true, none⟩, .string ⟨[97, 10, 32, 98], true, none⟩] none)) = .ok toks ∧
    parseValue { noLocation := true } toks =
      .ok (.list [.string ⟨[32, 120, 34], true, none⟩, .string ⟨[], true, none⟩, .string ⟨[97, 10, 32, 98], true, none⟩] none) := by
  refine print_parse_value_full _ rfl _ (by intro ch hc; simp [mkCfg] at hc; exact Or.inl hc) _ ?_ (by decide) (by decide)
  simp only [specValue, specValues, and_true]
  refine ⟨fun _ => Or.inr ⟨[32, 120, 34], [], rfl, ?_, by decide, by decide, by decide, by decide⟩, fun _ => Or.inl rfl,
    fun _ => Or.inr ⟨[97], [[32, 98]], rfl, ?_, by decide, by decide, by decide, fun _ => by decide⟩⟩
  · intro x hx; simp at hx; subst hx; intro ch hc; simp at hc; omega
  · intro x hx; simp at hx; rcases hx with rfl | rfl <;> (intro ch hc; simp at hc; omega)

/-- non-vacuity of `print_parse_document_modulo_members`: a MIXED document with a quoted top-level description, a
    member description that is lost (R4), `implements A & B`, a union, an argument default, and the query shorthand
    after a block-less type definition (R6 guard):
    `"d" type T implements A & B @x  { q }  enum E { "m" V }  union U = A | B  extend type T { f(a: Int = 1): [T!] }` -/
private def nm' (s : String) : Name := ⟨textOfString s, none⟩
private def exMixed : Document :=
  ⟨[.objectTypeDefinition (some ⟨[100], false, none⟩) (nm' "T") [⟨nm' "A", none⟩, ⟨nm' "B", none⟩] [⟨nm' "x", [], none⟩] [] none,
    .operation ⟨K.query, none, [], [], .mk [.field none (nm' "q") [] [] none none] none, none⟩,
    .enumTypeDefinition none (nm' "E") [] [⟨some ⟨[109], false, none⟩, nm' "V", [], none⟩] none,
    .unionTypeDefinition none (nm' "U") [] [⟨nm' "A", none⟩, ⟨nm' "B", none⟩] none,
    .objectTypeExtension (nm' "T") [] []
      [⟨none, nm' "f", [⟨none, nm' "a", .named ⟨nm' "Int", none⟩, some (.int [49] none), [], none⟩],
        .list (.nonNull (.named ⟨nm' "T", none⟩) none) none, [], none⟩] none], none⟩

example : ∃ toks, lexAll (printDocument (mkCfg (.width 2)) exMixed) = .ok toks ∧
    parseDocument { noLocation := true, allowTypeSystem := true } toks = .ok (stripMemberDescriptions exMixed) := by
  refine print_parse_document_modulo_members _ rfl _ rfl (by intro ch hc; simp [mkCfg] at hc; exact Or.inl hc) exMixed ?_
    (by decide) (by decide)
  intro x hx
  simp only [exMixed, List.mem_cons, List.not_mem_nil, or_false] at hx
  rcases hx with rfl | rfl | rfl | rfl | rfl <;>
    simp only [okDefinition, isExecDef, ↓reduceIte, Bool.false_eq_true, okTSDefinition, okExecDefinition, okOperation, okDesc,
      okNamedTypes, okDirectives, okDirective, okArguments, okMembers, okFieldDef, okEnumValue, okInputValues, okInputValue,
      okVarDefs, okSelectionSet, okSelections, okSelection, okOptSelectionSet, okValue, lexOkType, nm',
      List.mem_cons, forall_eq_or_imp, List.not_mem_nil, false_imp_iff, implies_true, and_true] <;>
    (repeat' apply And.intro) <;> first | decide | simp
set_option maxRecDepth 8000 in
/-- the printed text of the mixed document: the description is kept in its quoted form (R5), `query` is added (R6),
    the enum value's description is gone (R4) -/
example : printDocument (mkCfg (.width 2)) exMixed = textOfString
    "\"d\"\ntype T implements A & B @x\n\nquery {\n  q\n}\n\nenum E {\n  V\n}\n\nunion U = A | B\n\nextend type T {\n  f(a: Int = 1): [T!]\n}\n" := by
  decide

/-- THE BRIDGE between trees and texts: every tree the parser returns for a lexed text (under `no_location`) has leaves
    that are lexemes of their class — names / numbers by `lex_sound`, block strings canonical (the range of
    `BlockStringValue`) — and carries no positions.  This is a statement about the LEXER and the PARSER only (C01/C02); it
    is exercised on every accepted document of the correspondence, and is the ONLY thing missing for the text-level
    statement. -/
def ParserOutputOK : Prop :=
  ∀ (fl : Flags) (c : Cfg) (x : Text) (toks : List Tok) (d : Document), fl.noLocation = true → IndentOK c →
    lexAll x = .ok toks → parseDocument fl toks = .ok d →
    (∀ y ∈ d.definitions, okDefinition c.indent y) ∧ noLocDocument d = true

/-- `print_parse_modulo_members_of_bridge`: `PrintParseModuloMembersStatement` (the text-level statement of C03 modulo
    finding R4) FOLLOWS from `print_parse_document_modulo_members` + `parse_sound_document` (C01) + the bridge. -/
theorem print_parse_modulo_members_of_bridge (hb : ParserOutputOK) : PrintParseModuloMembersStatement := by
  intro fl c x toks d hnl hdesc hind hlex hparse
  obtain ⟨hok, hn⟩ := hb fl c x toks d hnl hind hlex hparse
  have hw := (C01.parse_sound_document fl toks d hparse).1
  exact print_parse_document_modulo_members fl hnl c hdesc hind d hok hn hw

/-- … and so does `PrintStableStatement` for descriptions on -/
theorem print_stable_of_bridge (hb : ParserOutputOK) :
    ∀ (fl : Flags) (c : Cfg) (x : Text) (toks : List Tok) (d : Document),
      fl.noLocation = true → c.includeDescriptions = true → IndentOK c → lexAll x = .ok toks → parseDocument fl toks = .ok d →
      ∃ toks' d', lexAll (printDocument c d) = .ok toks' ∧ parseDocument fl toks' = .ok d' ∧
        printDocument c d' = printDocument c d :=
  print_stable_of_modulo (print_parse_modulo_members_of_bridge hb)

/-- `parser_output_ok` — THE BRIDGE is proved: every tree the parser returns for a lexed text under `no_location` satisfies
    the leaf conditions of the printer theorems and carries no positions.  Ingredients: `lex_sound` (every token is a
    lexeme of the specification, C01), `block_string_spec` + `parseBlockString_range` (block-string values are canonical,
    C02), `parse_sound_document` (the tree's leaves are the matched tokens and the tree is well-formed, C01) and
    `noloc_erasure` (C02). -/
theorem parser_output_ok : ParserOutputOK := by
  intro fl c x toks d hnl hind hlex hparse
  obtain ⟨hw, hm⟩ := C01.parse_sound_document fl toks d hparse
  have hleaf := yield_classOK fl [documentV d] toks hm (classOK_of_lexAll x toks hlex)
  constructor
  · intro y hy
    have hly : LeafOK (definitionV y).yield := by
      intro cl hcl
      apply hleaf
      simp only [Item.yieldAll, documentV, Item.yield, PrintMatch.yieldAll_append, List.append_nil, List.mem_append,
        List.mem_cons]
      right; left
      rw [yieldAll_map]
      exact List.mem_flatMap.2 ⟨y, hy, hcl⟩
    have hwy : wfDefinition fl y = true := by
      simp only [wfDocument, Bool.and_eq_true, List.all_eq_true] at hw
      exact (hw.2 y hy).1
    exact okDefinition_of_leaf c.indent hind fl y hly hwy
  · have he := C02.noloc_erasure fl toks
    have hfl : { fl with noLocation := true } = fl := by cases fl; simp at hnl; subst hnl; rfl
    rw [hfl, hparse] at he
    simp only [Except.map, Except.ok.injEq] at he
    rw [he]
    exact noLocDocument_erase d

/-- `print_parse_modulo_members` — `PrintParseModuloMembersStatement` IS PROVED (text level, the statement of C03 modulo
    finding R4): for every text the lexer and parser accept (any flags with `no_location`), every indentation setting over
    {space, tab}, descriptions on — the printed tree is accepted and parses to the same tree without the descriptions of
    fields, arguments, input fields and enum values. -/
theorem print_parse_modulo_members : PrintParseModuloMembersStatement :=
  print_parse_modulo_members_of_bridge parser_output_ok

/-- `print_stable` (text level, descriptions on): printing the re-parsed tree reproduces the same text -/
theorem print_stable :
    ∀ (fl : Flags) (c : Cfg) (x : Text) (toks : List Tok) (d : Document),
      fl.noLocation = true → c.includeDescriptions = true → IndentOK c → lexAll x = .ok toks → parseDocument fl toks = .ok d →
      ∃ toks' d', lexAll (printDocument c d) = .ok toks' ∧ parseDocument fl toks' = .ok d' ∧
        printDocument c d' = printDocument c d :=
  print_stable_of_bridge parser_output_ok

/-- text level, exact: a text whose tree has no member descriptions round-trips to the SAME tree -/
theorem print_parse_exact (fl : Flags) (c : Cfg) (x : Text) (toks : List Tok) (d : Document)
    (hnl : fl.noLocation = true) (hdesc : c.includeDescriptions = true) (hind : IndentOK c)
    (hlex : lexAll x = .ok toks) (hparse : parseDocument fl toks = .ok d) (hm : stripMemberDescriptions d = d) :
    ∃ toks', lexAll (printDocument c d) = .ok toks' ∧ parseDocument fl toks' = .ok d := by
  have := print_parse_modulo_members fl c x toks d hnl hdesc hind hlex hparse
  rwa [hm] at this

/-! ### depth (finding R7)

The model printer is a total function of the tree; the implementation is recursive Python and raises RecursionError on
trees nested a few hundred levels deep that the parser still produces (known finding R7, boundary measured on every run).
The two theorems below state what the model prints at EVERY depth, so that the finding is a divergence of the
implementation from the model and not a property of the specification. -/

/-- `[[[ … 1 … ]]]`, `n` levels -/
def nestList : Nat → Value
  | 0 => .int [49] none
  | n + 1 => .list [nestList n] none

/-- `[[[ … Int … ]]]`, `n` levels -/
def nestListType : Nat → TypeRef
  | 0 => .named ⟨⟨[73, 110, 116], none⟩, none⟩
  | n + 1 => .list (nestListType n) none

private theorem replicate_snoc (k a : Nat) : List.replicate k a ++ [a] = a :: List.replicate k a := by
  induction k with
  | zero => rfl
  | succ j ih => simp [List.replicate_succ, ih]

/-- `print_deep_list` — the printed text of a list value nested `n` levels deep, for every `n` -/
theorem print_deep_list (c : Cfg) (n : Nat) :
    printValue c (nestList n) = List.replicate n 91 ++ [49] ++ List.replicate n 93 := by
  induction n with
  | zero => simp [nestList, printValue]
  | succ k ih =>
    have hne : (printValue c (nestList k)).isEmpty = false := by rw [ih]; cases k <;> simp [List.replicate_succ]
    simp only [nestList, printValue, printValues, join, List.filter, hne, Bool.not_false, joinSep]
    rw [ih]
    simp [List.replicate_succ, List.append_assoc, replicate_snoc]

/-- `print_deep_list_type` — the same for list types -/
theorem print_deep_list_type (n : Nat) :
    printType (nestListType n) = List.replicate n 91 ++ [73, 110, 116] ++ List.replicate n 93 := by
  induction n with
  | zero => simp [nestListType, printType, printNamedType]
  | succ k ih =>
    simp only [nestListType, printType, ih]
    simp [List.replicate_succ, List.append_assoc, replicate_snoc]

/-- `print_parse_partial` — SUPERSEDED summary (kept because the name is registered).  At TREE level everything is now
    proved, for every indentation configuration over {space, tab} and every flag combination with `no_location`:
      types (`print_parse_type`), values without any block-string hypothesis (`print_parse_value_full`, `block_lay_canon`),
      executable documents (`print_parse_executable`), ALL documents modulo member descriptions
      (`print_parse_document_modulo_members`, exact when there are none: `print_parse_document_exact`), stability
      (`print_stable_document`), the refutation of the unrestricted statement (`print_parse_refuted`, R4).
    The bridge from texts to trees is proved too (`parser_output_ok`), hence the TEXT-level statements
    `print_parse_modulo_members : PrintParseModuloMembersStatement`, `print_stable`, `print_parse_exact`.
    NOT covered: documents printed with `include_descriptions=False` (not part of the statement).  The conjunction below is the original partial result. -/
theorem print_parse_partial (fl : Flags) (hnl : fl.noLocation = true) (c : Cfg) :
    (∀ t, lexOkType t = true → noLocType t = true → wfType t = true →
      ∃ toks, lexAll (printType t) = .ok toks ∧ parseType fl toks = .ok t) ∧
    (∀ v, lexOkValue c.indent v → noLocValue v = true → wfValue false v = true →
      ∃ toks, lexAll (printValue c v) = .ok toks ∧ parseValue fl toks = .ok v) :=
  ⟨fun t a b d => print_parse_type fl hnl t a b d, fun v a b d => print_parse_value fl hnl c v a b d⟩

end PyGql.Props.C03

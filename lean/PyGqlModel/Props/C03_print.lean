/-
  C03 (document part): printing a parsed tree and parsing the text again is the identity.

  `print c t` is the MODEL of `ASTPrinter(indent, include_descriptions)(t)` (`Print.lean`, tied to the code by the
  correspondence of corr/C03_print.py: text → Lean lexer → Lean parser → Lean printer  vs  `print_ast(parse(text))`,
  exact strings); the lexer is `Lex.lexAll`, the parser `Parse.parseType / parseValue / parseDocument` with the
  theorems of C01.  "Up to positions" = on location-free trees (`no_location=True`, the flag the oracle also uses):
  the printer never reads `loc`, and a re-parsed text has other positions by construction.
-/
import PyGqlModel.Lemmas.PrintTokens
import PyGqlModel.Props.C01_parse
namespace PyGql.Props.C03
open PyGql PyGql.Ast PyGql.Parse PyGql.Spec PyGql.Print PyGql.PrintLex PyGql.PrintMatch PyGql.PrintTokens PyGql.Lex

private theorem cls_sof : cls sofTok = (.sof, []) := by decide
private theorem cls_eof (n : Nat) : cls (eofTok n) = (.eof, []) := by simp [cls, eofTok, hasValue]

/-- `print_tokens_type`: the printed type lexes to SOF, exactly the canonical yield of the type, EOF — for every type
    whose names are `Name` lexemes (nothing else is needed: a type has no other content). -/
theorem print_tokens_type (t : TypeRef) (hl : lexOkType t = true) :
    ∃ toks, lexAll (printType t) = .ok (sofTok :: toks ++ [eofTok (printType t).length]) ∧ classes toks = yieldType t := by
  have := lexesTo_type t hl [] [] safe_nil lexesTo_nil
  simp only [List.append_nil] at this
  exact lexAll_of_lexesTo this

/-- `print_parse_type` (FULL): for every well-formed, location-free type whose names are `Name` lexemes,
    `parse_type(print(t), no_location=True) = t`, under every flag combination with `no_location`. -/
theorem print_parse_type (fl : Flags) (hnl : fl.noLocation = true) (t : TypeRef) (hl : lexOkType t = true)
    (hn : noLocType t = true) (hw : wfType t = true) :
    ∃ toks, lexAll (printType t) = .ok toks ∧ parseType fl toks = .ok t := by
  obtain ⟨toks, h1, h2⟩ := print_tokens_type t hl
  refine ⟨_, h1, ?_⟩
  apply C01.parseType_complete fl _ t hw
  show matchesAll fl _ _ = true
  apply matchesAll_of_yield fl hnl
  · simp [plainAll, plain, plain_typeV t hn]
  · simp [classes, Item.yieldAll, Item.yield, cls_sof, cls_eof, yieldType] at h2 ⊢
    exact h2

/-- non-vacuity: `[[A!]]!` -/
example : ∃ toks, lexAll (printType (.nonNull (.list (.list (.nonNull (.named ⟨⟨[65], none⟩, none⟩) none) none) none) none)) = .ok toks ∧
    parseType { noLocation := true } toks = .ok (.nonNull (.list (.list (.nonNull (.named ⟨⟨[65], none⟩, none⟩) none) none) none) none) :=
  print_parse_type _ rfl _ (by decide) (by decide) (by decide)


/-- `print_tokens_value`: for every value (all 9 kinds, nested lists and objects, variables) whose leaves are lexemes of
    their class (`lexOkValue`: names and enum values `Name` lexemes, integers `IntValue` lexemes — the recognisers of
    `Spec/Lexical.lean` —, quoted strings ARBITRARY code-point lists (`quoted_roundtrip` with a rest), floats and
    depth-0 block strings one token by the string-level statement) and every indent configuration, the printed text
    lexes to SOF, exactly the canonical yield of the value, EOF. -/
theorem print_tokens_value (c : Cfg) (v : Value) (hl : lexOkValue c.indent v) :
    ∃ toks, lexAll (printValue c v) = .ok (sofTok :: toks ++ [eofTok (printValue c v).length]) ∧
      classes toks = yieldValue v := by
  have := lexesTo_value c v hl [] [] safe_nil lexesTo_nil
  simp only [List.append_nil] at this
  exact lexAll_of_lexesTo this

/-- `print_parse_value`: `parse_value(print(v), no_location=True) = v` for every such well-formed value (variables
    allowed: `parse_value` parses `Value[~Const]`), under every flag combination with `no_location`. -/
theorem print_parse_value (fl : Flags) (hnl : fl.noLocation = true) (c : Cfg) (v : Value)
    (hl : lexOkValue c.indent v) (hn : noLocValue v = true) (hw : wfValue false v = true) :
    ∃ toks, lexAll (printValue c v) = .ok toks ∧ parseValue fl toks = .ok v := by
  obtain ⟨toks, h1, h2⟩ := print_tokens_value c v hl
  refine ⟨_, h1, ?_⟩
  apply C01.parseValue_complete fl _ v hw
  show matchesAll fl _ _ = true
  apply matchesAll_of_yield fl hnl
  · simp [plainAll, plain, plain_valueV v hn]
  · simp [classes, Item.yieldAll, Item.yield, cls_sof, cls_eof, yieldValue] at h2 ⊢
    exact h2

end PyGql.Props.C03

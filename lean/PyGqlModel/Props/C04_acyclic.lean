/-
  C04 / C05 — the Boolean acyclicity check of `ValidDoc` (`fragsAcyclic`, what rule NoFragmentCycles enforces) IMPLIES the
  declarative ranking: with unique fragment names, every document with `fragsAcyclic = true` passes the rank certificate
  (`rankedB`), hence is `Ranked`; so `responds` and `exec_refines_spec` hold for every such document.
-/
import PyGqlModel.Props.C04_spreads

set_option linter.unusedSimpArgs false
set_option linter.unusedVariables false

namespace PyGql.Props.C04
open PyGql PyGql.Exec PyGql.Spec

/-! ### the measures only look at the ranks of the spread names inside -/

mutual
private theorem selNeed_congr (rk rk' : String → Nat) : ∀ x : Sel, (∀ g ∈ selSpreads x, rk g = rk' g) → selNeed rk x = selNeed rk' x
  | .field _ _ _ _ _ _ _, _ => by simp [selNeed]
  | .inline _ _ sub, h => by
    simp only [selNeed]
    rw [selsNeed_congr rk rk' sub (by simpa [selSpreads] using h)]
  | .spread n _, h => by simp [selNeed, h n (by simp [selSpreads])]
private theorem selsNeed_congr (rk rk' : String → Nat) : ∀ xs : List Sel, (∀ g ∈ selsSpreads xs, rk g = rk' g) → selsNeed rk xs = selsNeed rk' xs
  | [], _ => rfl
  | x :: xs, h => by
    simp only [selsNeed]
    rw [selNeed_congr rk rk' x (fun g hg => h g (by simp [selsSpreads, hg])),
        selsNeed_congr rk rk' xs (fun g hg => h g (by simp [selsSpreads, hg]))]
end

mutual
private theorem selDepth_congr (ek ek' : String → Nat) : ∀ x : Sel, (∀ g ∈ selSpreads x, ek g = ek' g) → selDepth ek x = selDepth ek' x
  | .field _ _ _ _ _ _ sub, h => by
    simp only [selDepth]
    rw [selsDepth_congr ek ek' sub (by simpa [selSpreads] using h)]
  | .inline _ _ sub, h => by
    simp only [selDepth]
    rw [selsDepth_congr ek ek' sub (by simpa [selSpreads] using h)]
  | .spread n _, h => by simp [selDepth, h n (by simp [selSpreads])]
private theorem selsDepth_congr (ek ek' : String → Nat) : ∀ xs : List Sel, (∀ g ∈ selsSpreads xs, ek g = ek' g) → selsDepth ek xs = selsDepth ek' xs
  | [], _ => rfl
  | x :: xs, h => by
    simp only [selsDepth]
    rw [selDepth_congr ek ek' x (fun g hg => h g (by simp [selsSpreads, hg])),
        selsDepth_congr ek ek' xs (fun g hg => h g (by simp [selsSpreads, hg]))]
end

/-! ### every selection list is bounded by the largest need found in the document -/

mutual
private theorem selBounded_of_max (rk : String → Nat) (B : Nat) : ∀ x : Sel, selMaxNeed rk x ≤ B → selBounded rk B x = true
  | .field _ _ _ _ _ _ sub, h => by
    simp only [selMaxNeed] at h
    simp only [selBounded, Bool.and_eq_true, decide_eq_true_eq]
    exact ⟨by omega, selsBoundedIn_of_max rk B sub (by omega)⟩
  | .inline _ _ sub, h => by
    simp only [selMaxNeed] at h
    simp only [selBounded, Bool.and_eq_true, decide_eq_true_eq]
    exact ⟨by omega, selsBoundedIn_of_max rk B sub (by omega)⟩
  | .spread _ _, _ => by simp [selBounded]
private theorem selsBoundedIn_of_max (rk : String → Nat) (B : Nat) : ∀ xs : List Sel, selsMaxNeedIn rk xs ≤ B → selsBoundedIn rk B xs = true
  | [], _ => by simp [selsBoundedIn]
  | x :: xs, h => by
    simp only [selsMaxNeedIn] at h
    simp only [selsBoundedIn, Bool.and_eq_true]
    exact ⟨selBounded_of_max rk B x (by omega), selsBoundedIn_of_max rk B xs (by omega)⟩
end

private theorem selsBounded_of_max (rk : String → Nat) (B : Nat) (xs : List Sel) (h : selsMaxNeed rk xs ≤ B) : selsBounded rk B xs = true := by
  simp only [selsMaxNeed] at h
  simp only [selsBounded, Bool.and_eq_true, decide_eq_true_eq]
  exact ⟨by omega, selsBoundedIn_of_max rk B xs (by omega)⟩

private theorem le_foldl_max (l : List Nat) (init x : Nat) (h : x ∈ l ∨ x ≤ init) : x ≤ l.foldl max init := by
  induction l generalizing init with
  | nil =>
    rcases h with h | h
    · simp at h
    · simpa using h
  | cons a as ih =>
    simp only [List.foldl_cons]
    apply ih
    rcases h with h | h
    · simp at h
      rcases h with rfl | h
      · exact Or.inr (Nat.le_max_right _ _)
      · exact Or.inl h
    · exact Or.inr (Nat.le_trans h (Nat.le_max_left _ _))

/-! ### unique names: the fragment table returns the definition itself -/

private theorem fragment_of_mem (doc : Doc) (hu : (doc.frags.map (·.name)).Nodup) (f : Frag) (hf : f ∈ doc.frags) :
    doc.fragment? f.name = some f := by
  unfold Doc.fragment?
  cases h : doc.frags.reverse.find? (·.name == f.name) with
  | none =>
    have := List.find?_eq_none.mp h f (by simpa using hf)
    simp at this
  | some g =>
    have hg : g ∈ doc.frags := by simpa using List.mem_of_find?_eq_some h
    have hn : g.name = f.name := by simpa using List.find?_some h
    -- two members with the same name in a list with distinct names are equal
    have key : ∀ (l : List Frag), (l.map (·.name)).Nodup → g ∈ l → f ∈ l → g = f := by
      intro l
      induction l with
      | nil => intro _ h1; simp at h1
      | cons a as ih =>
        intro hnd h1 h2
        simp only [List.map_cons, List.nodup_cons] at hnd
        simp at h1 h2
        rcases h1 with rfl | h1
        · rcases h2 with rfl | h2
          · rfl
          · exact absurd (List.mem_map.mpr ⟨f, h2, hn.symm⟩) hnd.1
        · rcases h2 with rfl | h2
          · exact absurd (List.mem_map.mpr ⟨g, h1, hn⟩) hnd.1
          · exact ih hnd.2 h1 h2
    rw [key doc.frags hu hg hf]

/-! ### ranks stabilise on the names ranked by `rankFrags` -/

/-- on the names of `acc`, the fuel-indexed ranks no longer change from fuel `k` on -/
def Stable (doc : Doc) (acc : List String) (k : Nat) : Prop :=
  ∀ name ∈ acc, ∀ n, k ≤ n → rkOf doc n name = rkOf doc k name ∧ ekOf doc n name = ekOf doc k name

private theorem stable_step (doc : Doc) (hu : (doc.frags.map (·.name)).Nodup) (acc : List String) (k : Nat) (h : Stable doc acc k) :
    Stable doc (acc ++ (doc.frags.filter fun f => !acc.contains f.name && (selsSpreads f.sels).all acc.contains).map (·.name)) (k + 1) := by
  intro name hname n hn
  simp only [List.mem_append, List.mem_map, List.mem_filter] at hname
  rcases hname with hold | ⟨f, ⟨hf, hcond⟩, rfl⟩
  · obtain ⟨a1, a2⟩ := h name hold n (by omega)
    obtain ⟨b1, b2⟩ := h name hold (k + 1) (by omega)
    exact ⟨by rw [a1, b1], by rw [a2, b2]⟩
  · simp only [Bool.and_eq_true, List.all_eq_true] at hcond
    have hsp : ∀ g ∈ selsSpreads f.sels, g ∈ acc := fun g hg => by simpa using hcond.2 g hg
    have hfr := fragment_of_mem doc hu f hf
    obtain ⟨m, rfl⟩ : ∃ m, n = m + 1 := ⟨n - 1, by omega⟩
    have hm : k ≤ m := by omega
    simp only [rkOf, ekOf, hfr]
    exact ⟨selsNeed_congr _ _ f.sels (fun g hg => (h g (hsp g hg) m hm).1),
           selsDepth_congr _ _ f.sels (fun g hg => (h g (hsp g hg) m hm).2)⟩

private theorem stable_rankFrags (doc : Doc) (hu : (doc.frags.map (·.name)).Nodup) :
    ∀ (m : Nat) (acc : List String) (k : Nat), Stable doc acc k → Stable doc (rankFrags doc m acc) (k + m) := by
  intro m
  induction m with
  | zero => intro acc k h; simpa [rankFrags] using h
  | succ m ih =>
    intro acc k h
    simp only [rankFrags]
    have := ih _ (k + 1) (stable_step doc hu acc k h)
    rwa [show k + 1 + m = k + (m + 1) by omega] at this

/-- **acyclic_ranked**: the Boolean acyclicity check (with unique fragment names) implies the rank certificate -/
theorem acyclic_rankedB (doc : Doc) (hu : (doc.frags.map (·.name)).Nodup) (ha : fragsAcyclic doc = true) : rankedB doc = true := by
  have hst := stable_rankFrags doc hu (doc.frags.length + 1) [] 0 (by intro name h; simp at h)
  simp only [Nat.zero_add] at hst
  unfold fragsAcyclic at ha
  simp only [List.all_eq_true] at ha
  have hbound : ∀ xs, selsMaxNeed (docRk doc) xs ≤ docBound doc →
      selsBounded (docRk doc) (docBound doc) xs = true := fun xs h => selsBounded_of_max _ _ xs h
  unfold rankedB
  simp only [Bool.and_eq_true, List.all_eq_true, decide_eq_true_eq]
  refine ⟨?_, ?_⟩
  · intro fr hfr
    have hmem : fr.name ∈ rankFrags doc (doc.frags.length + 1) [] := by simpa using ha fr hfr
    obtain ⟨h1, h2⟩ := hst fr.name hmem (doc.frags.length + 1 + 1) (by omega)
    have hf := fragment_of_mem doc hu fr hfr
    refine ⟨⟨?_, ?_⟩, ?_⟩
    · have : rkOf doc (doc.frags.length + 1 + 1) fr.name = selsNeed (rkOf doc (doc.frags.length + 1)) fr.sels := by
        simp [rkOf, hf]
      unfold docRk
      rw [← this, h1]; exact Nat.le_refl _
    · have : ekOf doc (doc.frags.length + 1 + 1) fr.name = selsDepth (ekOf doc (doc.frags.length + 1)) fr.sels := by
        simp [ekOf, hf]
      unfold docEk
      rw [← this, h2]; exact Nat.le_refl _
    · apply hbound
      unfold docBound
      exact le_foldl_max _ 0 _ (Or.inl (by
        simp only [List.mem_append, List.mem_map]
        exact Or.inr ⟨fr, hfr, rfl⟩))
  · intro o ho
    apply hbound
    unfold docBound
    exact le_foldl_max _ 0 _ (Or.inl (by
      simp only [List.mem_append, List.mem_map]
      exact Or.inl ⟨o, ho, rfl⟩))

/-- **acyclic_ranked**: declarative form -/
theorem acyclic_ranked (doc : Doc) (hu : (doc.frags.map (·.name)).Nodup) (ha : fragsAcyclic doc = true) :
    Ranked doc (docRk doc) (docEk doc) (docBound doc) := (ranked_of_rankedB doc (acyclic_rankedB doc hu ha)).1

/-- every request on a document without fragment cycles (and with unique fragment names) RESPONDS -/
theorem responds_acyclic (s : SchemaD) (doc : Doc) (vars : Vars) (w : World) (hu : (doc.frags.map (·.name)).Nodup)
    (ha : fragsAcyclic doc = true) (op : Option String) : ∃ r, RespondsWith s doc vars w op r :=
  responds_certified s doc vars w (acyclic_rankedB doc hu ha) op

/-- the executor model refines the specification on every document without fragment cycles -/
theorem exec_refines_spec_acyclic (s : SchemaD) (doc : Doc) (vars : Vars) (w : World) (hu : (doc.frags.map (·.name)).Nodup)
    (ha : fragsAcyclic doc = true) (cf fuel : Nat) (root : String) (path : Path) (sels : List Sel) :
    ExecRefinesSpecUpToLocations s doc vars w cf fuel root path sels :=
  exec_refines_spec_certified s doc vars w (acyclic_rankedB doc hu ha) cf fuel root path sels

/-- without unique names the implication is FALSE: the second definition of `A` is the one the fragment table returns -/
theorem acyclic_needs_unique_names :
    let d : Doc := { ops := [], frags := [{ name := "A", on := "T", sels := [] }, { name := "A", on := "T", sels := [.spread "A" []] }] }
    fragsAcyclic d = true ∧ rankedB d = false := by decide


/-- every `ValidDoc` document is ranked: the totality and refinement theorems apply to everything the validator model accepts -/
theorem validDoc_ranked (s : SchemaD) (doc : Doc) (vars : Vars) (h : ValidDoc s doc vars) :
    Ranked doc (docRk doc) (docEk doc) (docBound doc) := by
  unfold ValidDoc validDocB at h
  simp only [Bool.and_eq_true] at h
  obtain ⟨⟨_, ha⟩, hu⟩ := h
  exact acyclic_ranked doc (by simpa [fragsUnique] using hu) ha

theorem validDoc_responds (s : SchemaD) (doc : Doc) (vars : Vars) (w : World) (h : ValidDoc s doc vars) (op : Option String) :
    ∃ r, RespondsWith s doc vars w op r := by
  unfold ValidDoc validDocB at h
  simp only [Bool.and_eq_true] at h
  obtain ⟨⟨_, ha⟩, hu⟩ := h
  exact responds_acyclic s doc vars w (by simpa [fragsUnique] using hu) ha op

end PyGql.Props.C04

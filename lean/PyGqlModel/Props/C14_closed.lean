/-
  C14 — closedness theorems (accumulated-flag variant of `_replace_types_and_directives`, the one /repo has):

  * `heal_closed`        FULL: `fix_type_references` on ANY well-formed schema terminates within two rounds (fuel
                         sufficiency: every amount of fuel ≥ 2 gives the same answer) and returns a CLOSED, well-formed schema;
  * `visitor_closed`     FULL: `visitor.on_schema(schema)` for every modelled visitor (heal, visibility with arbitrary
                         predicates, camel-case with an arbitrary renaming, drop/wrap directive visitor) on a closed,
                         well-formed schema terminates and returns a closed, well-formed schema;
  * `visitors_closed`    FULL: the same for any list of visitors applied one after the other (what `transform_schema`
                         does after cloning);
  * `clone_closed`       FULL: `Schema.clone()` of a closed well-formed schema is closed and well-formed;
  * `transform_closed`   FULL: `transform_schema(source, *visitors)` of a closed well-formed source is closed and well-formed.
-/
import PyGqlModel.Lemmas.HeapFuel
import PyGqlModel.Lemmas.HeapCloneClosed
import PyGqlModel.Lemmas.HeapExtMembers
import PyGqlModel.Props.C14_frames

set_option linter.unusedSimpArgs false
set_option linter.unusedVariables false

namespace PyGql.Props.C14
open PyGql.Heap PyGql.Heap.Own

theorem wfs_of_wfB {h : Heap} {s : Schema} (hw : wfB h s = true) : WFs (fun _ => true) h s := by
  simp only [wfB, shapeB, namesNodup, Bool.and_eq_true, List.all_eq_true, decide_eq_true_eq] at hw
  exact ⟨hw.1.1.1.1.1.1.1, hw.1.1.1.1.1.1.2, hw.1.1.2, hw.1.2, hw.2⟩

theorem wfs_of_closedB {h : Heap} {s : Schema} (hc : closedB h s = true) (hw : wfB h s = true) : WFs (refOK s.types) h s := by
  have w := wfs_of_wfB hw
  simp only [closedB, shapeB, Bool.and_eq_true, List.all_eq_true] at hc
  exact ⟨hc.1.1.1.1.1, hc.1.1.1.1.2, w.names, w.prot, w.nodup⟩

theorem wfB_of_wfs {chk : Ref → Bool} {h : Heap} {s : Schema} (w : WFs chk h s) : wfB h s = true := by
  have w' := w.mono (chk' := fun _ => true) (fun _ _ => rfl)
  simp only [wfB, shapeB, namesNodup, Bool.and_eq_true, List.all_eq_true, decide_eq_true_eq]
  refine ⟨⟨⟨⟨⟨⟨⟨w'.types, w'.dirs⟩, ?_⟩, ?_⟩, ?_⟩, w'.names⟩, w'.prot⟩, w'.nodup⟩ <;>
    (cases s.query <;> cases s.mutation <;> cases s.subscription <;> simp [rootOK])

theorem healLoop_fuel_ge (cfg : Cfg) (k : Nat) (s : Schema) (h : Heap) (r : Heap × Schema) (e : healLoop cfg k s h = some r) :
    ∀ n, healLoop cfg (k + n) s h = some r := by
  intro n
  induction n with
  | zero => exact e
  | succ n ih => exact healLoop_fuel_mono cfg (k + n) s h r ih

/-- the witness is well-formed (non-vacuity of the hypotheses below) -/
example : wfB h0 s0 = true ∧ closedB h0 s0 = true := by decide

/-- FULL `heal_closed` with FUEL SUFFICIENCY: for every well-formed schema (references may point anywhere),
    `fix_type_references` terminates — fuel 2 is enough, more fuel changes nothing — in a closed, well-formed schema -/
theorem heal_closed (cfg : Cfg) (hacc : cfg.accumulateBusted = true) (s : Schema) (h : Heap) (hw : wfB h s = true) (fuel : Nat) :
    ∃ h' s', healLoop cfg (2 + fuel) s h = some (h', s') ∧ closedB h' s' = true ∧ wfB h' s' = true := by
  have w := wfs_of_wfB hw
  have h2 := healLoop_two cfg s h w
  cases e : healLoop cfg 2 s h with
  | none => simp [e] at h2
  | some r =>
    obtain ⟨h', s'⟩ := r
    obtain ⟨c, w'⟩ := healLoop_closed cfg hacc 2 s h h' s' w e
    exact ⟨h', s', healLoop_fuel_ge cfg 2 s h _ e fuel, c, wfB_of_wfs w'⟩

/-- FULL: an in-place `visitor.on_schema(schema)` (heal / visibility / camel-case / drop-wrap, arbitrary predicates and
    renamings) on a closed well-formed schema terminates and gives a closed well-formed schema -/
theorem visitor_closed (cfg : Cfg) (hacc : cfg.accumulateBusted = true) (v : Visitor) (s : Schema) (h : Heap)
    (hc : closedB h s = true) (hw : wfB h s = true) (fuel : Nat) :
    ∃ h' s', onSchema cfg (2 + fuel) v s h = some (h', s') ∧ closedB h' s' = true ∧ wfB h' s' = true := by
  have w := wfs_of_closedB hc hw
  have hex : ∃ r, onSchema cfg (2 + fuel) v s h = some r := by
    simp only [onSchema, replaceTD]
    split
    · obtain ⟨h', s', e, _, _⟩ := heal_closed cfg hacc _ _ (wfB_of_wfs (round_wf cfg v s h _ (compat_refOK v s.types) w)) fuel
      exact ⟨_, e⟩
    · exact ⟨_, rfl⟩
  obtain ⟨⟨h', s'⟩, e⟩ := hex
  obtain ⟨c, w'⟩ := onSchema_closed cfg hacc (2 + fuel) v s h h' s' w e
  exact ⟨h', s', e, c, wfB_of_wfs w'⟩

/-- FULL: any list of visitors applied one after the other (`for t in transforms: updated = t.on_schema(updated)`) -/
theorem visitors_closed (cfg : Cfg) (hacc : cfg.accumulateBusted = true) (fuel : Nat) : ∀ (vs : List Visitor) (s : Schema) (h : Heap),
    closedB h s = true → wfB h s = true →
      ∃ h' s', transformFrom cfg (2 + fuel) vs (h, s) = some (h', s') ∧ closedB h' s' = true ∧ wfB h' s' = true := by
  intro vs
  induction vs with
  | nil => intro s h hc hw; exact ⟨h, s, rfl, hc, hw⟩
  | cons v vs ih =>
    intro s h hc hw
    obtain ⟨h1, s1, e1, c1, w1⟩ := visitor_closed cfg hacc v s h hc hw fuel
    obtain ⟨h2, s2, e2, c2, w2⟩ := ih s1 h1 c1 w1
    exact ⟨h2, s2, by simp only [transformFrom, e1]; exact e2, c2, w2⟩

/-- the statement: the clone of a closed, well-formed schema is closed and well-formed -/
def CloneClosedWF (cfg : Cfg) : Prop :=
  ∀ fuel s h h' s', closedB h s = true → wfB h s = true → clone cfg fuel s h = some (h', s') → closedB h' s' = true ∧ wfB h' s' = true

/-- FULL `clone_closed`: for the variant /repo has (members copied, all types kept, accumulated flag), `Schema.clone()` of
    a closed well-formed schema is closed and well-formed — for every heap and schema, whatever is reachable or not -/
theorem clone_closed (cfg : Cfg) (hd : cfg.deepClone = true) (hk : cfg.keepAllTypes = true) (hacc : cfg.accumulateBusted = true) :
    CloneClosedWF cfg := by
  intro fuel s h h' s' hc hw e
  obtain ⟨c, w⟩ := clone_closed_wfs cfg hd hk hacc fuel s h h' s' hc (wfs_of_closedB hc hw) e
  exact ⟨c, wfB_of_wfs w⟩

/-- … and it exists as soon as there is fuel for two rounds -/
theorem clone_total (cfg : Cfg) (hd : cfg.deepClone = true) (s : Schema) (h : Heap) (hc : closedB h s = true) (hw : wfB h s = true)
    (fuel : Nat) : (clone cfg (2 + fuel) s h).isSome = true := by
  have w0 := clone_start_wfs cfg hd s h hc (wfs_of_closedB hc hw)
  have h2 := healLoop_two cfg _ _ w0
  have hex : ∃ r, replaceTD cfg (2 + fuel) { types := cloneRegistry cfg s h, dirs := [], query := s.query, mutation := s.mutation, subscription := s.subscription, dres := none } (cloneDirs cfg (cloneTypes cfg h s.types).1 s.dirs).1 (cloneTypes cfg h s.types).2 (cloneDirs cfg (cloneTypes cfg h s.types).1 s.dirs).2 = some r := by
    simp only [replaceTD]
    split
    · obtain ⟨r, e2⟩ := Option.isSome_iff_exists.mp h2
      exact ⟨r, healLoop_fuel_ge cfg 2 _ _ r e2 fuel⟩
    · exact ⟨_, rfl⟩
  obtain ⟨r, hr⟩ := hex
  simp only [clone, hr]
  rfl

/-- FULL `transform_closed`: `transform_schema(source, *visitors)` of a closed well-formed source — clone, then any list of
    heal / visibility / camel-case / drop-wrap visitors with arbitrary predicates and renamings — is closed and well-formed -/
theorem transform_closed (cfg : Cfg) (hd : cfg.deepClone = true) (hk : cfg.keepAllTypes = true) (hacc : cfg.accumulateBusted = true)
    (fuel : Nat) (vs : List Visitor) (s : Schema) (h h' : Heap) (s' : Schema) (hc : closedB h s = true) (hw : wfB h s = true)
    (e : transform cfg (2 + fuel) vs s h = some (h', s')) : closedB h' s' = true ∧ wfB h' s' = true := by
  simp only [transform] at e
  split at e
  · cases e
  · rename_i r hr
    obtain ⟨h1, s1⟩ := r
    obtain ⟨c1, w1⟩ := clone_closed cfg hd hk hacc (2 + fuel) s h h1 s1 hc hw hr
    obtain ⟨h2, s2, e2, c2, w2⟩ := visitors_closed cfg hacc fuel vs s1 h1 c1 w1
    rw [e2] at e; cases e
    exact ⟨c2, w2⟩

/-- FULL, with termination: fuel for two rounds is always enough for `transform_schema` on a closed well-formed source -/
theorem transform_closed_total (cfg : Cfg) (hd : cfg.deepClone = true) (hk : cfg.keepAllTypes = true) (hacc : cfg.accumulateBusted = true)
    (vs : List Visitor) (s : Schema) (h : Heap) (hc : closedB h s = true) (hw : wfB h s = true) (fuel : Nat) :
    ∃ h' s', transform cfg (2 + fuel) vs s h = some (h', s') ∧ closedB h' s' = true ∧ wfB h' s' = true := by
  obtain ⟨⟨h1, s1⟩, e1⟩ := Option.isSome_iff_exists.mp (clone_total cfg hd s h hc hw fuel)
  obtain ⟨c1, w1⟩ := clone_closed cfg hd hk hacc (2 + fuel) s h h1 s1 hc hw e1
  obtain ⟨h2, s2, e2, c2, w2⟩ := visitors_closed cfg hacc fuel vs s1 h1 c1 w1
  exact ⟨h2, s2, by simp only [transform, e1]; exact e2, c2, w2⟩

/-- the working tree's variant -/
theorem current_transform_closed
    (vs : List Visitor) (s : Schema) (h h' : Heap) (s' : Schema) (hc : closedB h s = true) (hw : wfB h s = true)
    (e : transform PyGql.Generated.HeapCfg.currentCfg 2 vs s h = some (h', s')) : closedB h' s' = true :=
  (transform_closed _ cur_deepClone cur_keepAllTypes cur_accumulateBusted 0 vs s h h' s' hc hw e).1

/-- the clone of the witness is closed and well-formed (instance of `CloneClosedWF` for the fixed variant) -/
theorem clone_closed_wf_witness_fixed :
    (clone Cfg.fixed 8 s0 h0).map (fun r => (closedB r.1 r.2, wfB r.1 r.2)) = some (true, true) := by decide

/-- T3 stays refuted for the overwritten flag: `heal_closed`'s conclusion fails for `_replace_types_and_directives` of `Cfg.legacy`
    (`replace_closed_refuted_legacy`); the hypothesis `accumulateBusted` is necessary. -/
theorem current_heal_closed (s : Schema) (h : Heap)
    (hw : wfB h s = true) : ∃ h' s', healLoop PyGql.Generated.HeapCfg.currentCfg 2 s h = some (h', s') ∧ closedB h' s' = true :=
  let ⟨h', s', e, c, _⟩ := heal_closed _ cur_accumulateBusted s h hw 0
  ⟨h', s', e, c⟩

/-! #### member level of `untouched_preserved` for `extend_schema` -/

/-- SUBSUMED (kept for name stability) by the full `untouched_preserved_extend` (Props/C14_extend.lean), which composes this with the frame part.
    PARTIAL (member level, at the rebuild functions): every field `_extend_field` builds is a copy of a source field that keeps
    name, description, deprecation reason, resolver, (re-pointed) type and — as far as the constructor passes them —
    subscription resolver and python name (`FieldKept cfg`); each of its arguments is a copy of a source argument keeping
    name, default, description, (re-pointed) type and python name (`ArgKept`). For all heaps, all member lists whose
    objects exist. Missing for the full statement: that the rest of `extend_schema` (other types' members, the writes to the
    placeholders) leaves these member objects alone — the `FrameX` argument of `extend_type_kept`, not yet carried to members. -/
theorem untouched_preserved_extend_members_partial (cfg : Cfg) (N : List (String × Addr)) (as : List Addr) (h : Heap)
    (hlt : ∀ a, a ∈ as → a < h.size) (hargs : ∀ a f, a ∈ as → h.readField a = some f → ∀ x, x ∈ f.args → x < h.size) :
    ∀ c, c ∈ (extendFields cfg N h as).2 → ∃ a f f', a ∈ as ∧ h.readField a = some f ∧
      (extendFields cfg N h as).1.readField c = some f' ∧ FieldKept cfg N f f' ∧
      ∀ x, x ∈ f'.args → ∃ y g g', y ∈ f.args ∧ h.readArg y = some g ∧
        (extendFields cfg N h as).1.readArg x = some g' ∧ ArgKept cfg.extArgPy N g g' :=
  extendFields_kept cfg N as h h (FrameX.refl _ h) hlt hargs

/-- SUBSUMED (kept for name stability) by the full `untouched_preserved_extend` / `untouched_preserved_extend_directives`.
    … and for input fields / directive arguments (`_extend_argument`, the `InputField(...)` rebuild) -/
theorem untouched_preserved_extend_args_partial (k : Bool) (N : List (String × Addr)) (as : List Addr) (h : Heap)
    (hlt : ∀ a, a ∈ as → a < h.size) :
    ∀ c, c ∈ (extendArgs k N h as).2 → ∃ a g g', a ∈ as ∧ h.readArg a = some g ∧
      (extendArgs k N h as).1.readArg c = some g' ∧ ArgKept k N g g' :=
  extendArgs_kept k N as h h (FrameX.refl _ h) hlt

/-- Used by (and subsumed in) the full `untouched_preserved_extend` (Props/C14_extend.lean).
    FRAME PART at member level (full, for all heaps / schemas / extension documents): whatever `extend_schema` still does after
    some point (`extendRest`: the remaining registered types `l`, the new types, all directives) writes placeholder addresses
    only — every object allocated after the placeholders, i.e. every rebuilt field, argument and input field, reads the same
    at the end of `extend_schema` (`extend_heap_eq`: `extend` = placeholders + `extendRest` over all registered types).
    Together with `untouched_preserved_extend_members_partial` (attributes at the rebuild) this is the member level of
    `untouched_preserved` for extension; the two halves are not yet composed into one statement about `extend`. -/
theorem untouched_preserved_extend_members_frame (cfg : Cfg) (ext : Ext) (s : Schema) (h : Heap) (N Nin : List (String × Addr))
    (l : List (String × Addr)) (hl : (l.map (·.1)).Nodup) (hmid : Heap)
    (hsz : (allocPlaceholders h ((s.types.filter fun e => !isProtected e.1).map (·.1) ++ ext.newTypes.map (·.1))).1.size ≤ hmid.size)
    (c : Addr) (hc1 : (allocPlaceholders h ((s.types.filter fun e => !isProtected e.1).map (·.1) ++ ext.newTypes.map (·.1))).1.size ≤ c)
    (hc2 : c < hmid.size) :
    (extendRest cfg ext N Nin (allocPlaceholders h ((s.types.filter fun e => !isProtected e.1).map (·.1) ++ ext.newTypes.map (·.1))).2
      h s l hmid).read c = hmid.read c :=
  extendRest_read cfg ext N Nin _ h s _
    (fun n x hx => (allocPlaceholders_lookup _ h n x hx).2) (allocPlaceholders_inj _ h) l hl hmid hsz c hc1 hc2

/-- with the fixes (`Cfg.fixed`) the kept attributes are plain equalities -/
theorem fieldKept_fixed (N : List (String × Addr)) (f f' : FieldO) (k : FieldKept Cfg.fixed N f f') :
    f'.name = f.name ∧ f'.desc = f.desc ∧ f'.depr = f.depr ∧ f'.res = f.res ∧ f'.sub = f.sub ∧ f'.py = f.py := by
  obtain ⟨h1, h2, h3, h4, _, h6, h7⟩ := k
  exact ⟨h1, h2, h3, h4, by simpa [Cfg.fixed] using h6, by simpa [Cfg.fixed] using h7⟩

end PyGql.Props.C14

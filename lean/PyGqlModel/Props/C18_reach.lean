/-
  C18 — coverage and sibling order WITHOUT the premise "the child is dispatched to the method of its own kind".

  `Entered` (Props/C18_cover.lean) asks, for every child, that the call target resolves to the method `visit` registers
  for the child's kind; `dispatchers_agree_with_visit` discharges that for dispatcher targets only. Here:

  * `Reached T t c m` — `c` is reached from the root and traversed by the body of method `m`, WHATEVER `m` is
    (no premise on kinds): `reached_visited` (every table, every tree): a reached node is entered and left; the walk of a
    reached node is a contiguous part of the trace (`reached_walk`);
  * `Covered T t c` — the purely structural relation "reached through attributes that the body of the PARENT'S kind
    traverses"; `covered_reached`: on a well-kinded tree (`wellKinded CK t`: every child's class is one that `lang/ast.py`
    / the parser admit at that attribute — table `childKinds`, re-extracted) and a table with `tableKinded T CK` (for
    every admitted child class the call target resolves to a method whose statements, as far as they apply to that class,
    are those of the class's own method), `Covered` implies `Reached` with a body equal to the child's own;
  * `table_kinded_today` — `tableKinded table childKinds`, by kernel evaluation: METHOD targets included
    (`_visit_object_field` calls `_visit_value` on a `Variable`: no statement of `_visit_value` applies to it, as in
    `_visit_variable`);
  * `all_covered_children_visited` — the closed form of coverage for today's table.
-/
import PyGqlModel.Props.C18_cover

namespace PyGql.Props.C18
open PyGql.Visit PyGql.Generated.VisitTable

/-! ### reached nodes, whatever method traverses them -/

/-- `c` is reached from the root `t` and traversed by the body of method `m` -/
inductive Reached (T : Table) (t : Node) : Node → String → Prop
  | root {m0 : String} : T.visit.lookup t.kind = some m0 → Reached T t t m0
  | child {p c : Node} {mp m' : String} {steps : List Step} {st : Step} : Reached T t p mp →
      T.methods.lookup mp = some steps → st ∈ steps → st.applies p.kind = true →
      Holds (p.getAttr st.attr) c → resolve T st.target c.kind = .ok m' → Reached T t c m'

theorem walkList_append_inv (g : Node → Res (List Ev)) : ∀ (a b : List Node) (tr : List Ev),
    Spec.walkList g (a ++ b) = .ok tr → ∃ ta tb, Spec.walkList g a = .ok ta ∧ Spec.walkList g b = .ok tb ∧ tr = ta ++ tb
  | [], b, tr, h => ⟨[], tr, rfl, by simpa using h, rfl⟩
  | x :: xs, b, tr, h => by
    simp only [List.cons_append, Spec.walkList] at h
    cases h1 : g x with
    | err e => simp [h1] at h
    | fuel => simp [h1] at h
    | ok t1 =>
      simp only [h1] at h
      cases h2 : Spec.walkList g (xs ++ b) with
      | err e => simp [h2] at h
      | fuel => simp [h2] at h
      | ok t2 =>
        simp only [h2, Res.ok.injEq] at h
        obtain ⟨ta, tb, ha, hb, e⟩ := walkList_append_inv g xs b t2 h2
        refine ⟨t1 ++ ta, tb, ?_, hb, ?_⟩
        · simp [Spec.walkList, h1, ha]
        · rw [← h, e, List.append_assoc]

/-- the walk of a list member, and what precedes / follows it -/
theorem walkList_split (g : Node → Res (List Ev)) (l1 : List Node) (c : Node) (r : List Node) (tr : List Ev)
    (h : Spec.walkList g (l1 ++ c :: r) = .ok tr) :
    ∃ ta t1 tb, g c = .ok t1 ∧ Spec.walkList g r = .ok tb ∧ tr = ta ++ t1 ++ tb := by
  obtain ⟨ta, tb, _, hb, e⟩ := walkList_append_inv g l1 (c :: r) tr h
  simp only [Spec.walkList] at hb
  cases h1 : g c with
  | err e => simp [h1] at hb
  | fuel => simp [h1] at hb
  | ok t1 =>
    simp only [h1] at hb
    cases h2 : Spec.walkList g r with
    | err e => simp [h2] at hb
    | fuel => simp [h2] at hb
    | ok t2 =>
      simp only [h2, Res.ok.injEq] at hb
      exact ⟨ta, t1, t2, rfl, rfl, by rw [e, ← hb, List.append_assoc]⟩

theorem walkList_infix (g : Node → Res (List Ev)) (cs : List Node) (tr : List Ev) (c : Node)
    (h : Spec.walkList g cs = .ok tr) (hm : c ∈ cs) : ∃ tc, g c = .ok tc ∧ tc <:+: tr := by
  obtain ⟨l1, r, rfl⟩ := List.append_of_mem hm
  obtain ⟨ta, t1, tb, h1, _, e⟩ := walkList_split g l1 c r tr h
  exact ⟨t1, h1, ⟨ta, tb, e.symm⟩⟩

theorem walkSteps_append_inv (call : Target → Node → Res (List Ev)) (n : Node) : ∀ (a b : List Step) (tr : List Ev),
    Spec.walkSteps call (a ++ b) n = .ok tr →
    ∃ ta tb, Spec.walkSteps call a n = .ok ta ∧ Spec.walkSteps call b n = .ok tb ∧ tr = ta ++ tb
  | [], b, tr, h => ⟨[], tr, rfl, by simpa using h, rfl⟩
  | x :: xs, b, tr, h => by
    simp only [List.cons_append, Spec.walkSteps] at h
    cases h1 : Spec.walkStep call x n with
    | err e => simp [h1] at h
    | fuel => simp [h1] at h
    | ok t1 =>
      simp only [h1] at h
      cases h2 : Spec.walkSteps call (xs ++ b) n with
      | err e => simp [h2] at h
      | fuel => simp [h2] at h
      | ok t2 =>
        simp only [h2, Res.ok.injEq] at h
        obtain ⟨ta, tb, ha, hb, e⟩ := walkSteps_append_inv call n xs b t2 h2
        refine ⟨t1 ++ ta, tb, ?_, hb, ?_⟩
        · simp [Spec.walkSteps, h1, ha]
        · rw [← h, e, List.append_assoc]

theorem walkSteps_split (call : Target → Node → Res (List Ev)) (n : Node) (pre : List Step) (st : Step) (r : List Step)
    (tr : List Ev) (h : Spec.walkSteps call (pre ++ st :: r) n = .ok tr) :
    ∃ ta t1 tb, Spec.walkStep call st n = .ok t1 ∧ Spec.walkSteps call r n = .ok tb ∧ tr = ta ++ t1 ++ tb := by
  obtain ⟨ta, tb, _, hb, e⟩ := walkSteps_append_inv call n pre (st :: r) tr h
  simp only [Spec.walkSteps] at hb
  cases h1 : Spec.walkStep call st n with
  | err e => simp [h1] at hb
  | fuel => simp [h1] at hb
  | ok t1 =>
    simp only [h1] at hb
    cases h2 : Spec.walkSteps call r n with
    | err e => simp [h2] at hb
    | fuel => simp [h2] at hb
    | ok t2 =>
      simp only [h2, Res.ok.injEq] at hb
      exact ⟨ta, t1, t2, rfl, rfl, by rw [e, ← hb, List.append_assoc]⟩

theorem walkSteps_infix (call : Target → Node → Res (List Ev)) (n : Node) (steps : List Step) (tr : List Ev) (st : Step)
    (h : Spec.walkSteps call steps n = .ok tr) (hm : st ∈ steps) :
    ∃ t1, Spec.walkStep call st n = .ok t1 ∧ t1 <:+: tr := by
  obtain ⟨pre, r, rfl⟩ := List.append_of_mem hm
  obtain ⟨ta, t1, tb, h1, _, e⟩ := walkSteps_split call n pre st r tr h
  exact ⟨t1, h1, ⟨ta, tb, e.symm⟩⟩

/-- the walk of a child held by the attribute of an applying statement is a contiguous part of the statement's walk -/
theorem walkStep_child_infix (call : Target → Node → Res (List Ev)) (st : Step) (n c : Node) (t1 : List Ev)
    (h : Spec.walkStep call st n = .ok t1) (ha : st.applies n.kind = true) (hh : Holds (n.getAttr st.attr) c) :
    ∃ tc, call st.target c = .ok tc ∧ tc <:+: t1 := by
  unfold Spec.walkStep at h
  simp only [ha, Bool.not_true, Bool.false_eq_true, if_false] at h
  cases hg : n.getAttr st.attr with
  | none => rw [hg] at hh; cases hh
  | some a =>
    rw [hg] at hh h
    cases a with
    | scalar v => cases hh
    | one oc =>
      cases oc with
      | none => cases hh
      | some c' =>
        simp only [Holds] at hh
        subst hh
        cases hs : st.shape with
        | one => simp only [hs] at h; exact ⟨t1, h, List.infix_refl _⟩
        | many => simp [hs] at h
    | many cs =>
      simp only [Holds] at hh
      cases hs : st.shape with
      | one => simp [hs] at h
      | many => simp only [hs] at h; exact walkList_infix _ cs t1 c h hh

/-- shape of a completed walk -/
theorem walk_shape (T : Table) (fuel : Nat) (m : String) (n : Node) (tr : List Ev) (h : Spec.walk T fuel m n = .ok tr) :
    ∃ f steps body, fuel = f + 1 ∧ T.methods.lookup m = some steps ∧
      Spec.walkSteps (Spec.walkTarget T (Spec.walk T f)) steps n = .ok body ∧ tr = ⟨true, n⟩ :: body ++ [⟨false, n⟩] := by
  cases fuel with
  | zero => simp [Spec.walk] at h
  | succ f =>
    simp only [Spec.walk] at h
    cases hm : T.methods.lookup m with
    | none => simp [hm] at h
    | some steps =>
      simp only [hm] at h
      cases hb : Spec.walkSteps (Spec.walkTarget T (Spec.walk T f)) steps n with
      | err e => simp [hb] at h
      | fuel => simp [hb] at h
      | ok body =>
        simp only [hb, Res.ok.injEq] at h
        exact ⟨f, steps, body, rfl, rfl, hb, h.symm⟩

/-- **reached_walk** — the walk of a reached node, by the method that traverses it, is a CONTIGUOUS part of the walk of
    the root -/
theorem reached_walk (T : Table) (fuel : Nat) (t : Node) (m0 : String) (tr : List Ev)
    (hv : T.visit.lookup t.kind = some m0) (h : Spec.walk T fuel m0 t = .ok tr) {c : Node} {m : String}
    (hc : Reached T t c m) : ∃ fuel' tc, Spec.walk T fuel' m c = .ok tc ∧ tc <:+: tr := by
  induction hc with
  | root h0 =>
    rw [hv] at h0
    cases h0
    exact ⟨fuel, tr, h, List.infix_refl _⟩
  | @child p c mp m' steps st _ hm hst ha hh hres ih =>
    obtain ⟨fp, tp, hwp, hsub⟩ := ih
    obtain ⟨f, steps', body, rfl, hm', hb, rfl⟩ := walk_shape T fp mp p tp hwp
    rw [hm] at hm'
    cases hm'
    obtain ⟨t1, h1, hs1⟩ := walkSteps_infix _ p steps body st hb hst
    obtain ⟨tc, hcall, hs2⟩ := walkStep_child_infix _ st p c t1 h1 ha hh
    simp only [Spec.walkTarget, hres] at hcall
    refine ⟨f, tc, hcall, (hs2.trans hs1).trans (List.IsInfix.trans ?_ hsub)⟩
    exact ⟨[⟨true, p⟩], [⟨false, p⟩], by simp⟩

/-- **reached_visited** — every table, every tree, every visitor that changes nothing: a node reached from the root
    (the call target of every statement on the way resolving to SOME method — not necessarily the one registered for
    the child's kind) is entered and left in a completed visit. -/
theorem reached_visited {σ : Type} (T : Table) (v : Visitor σ) (hv : Observer v) (fuel : Nat) (t : Node) (s : σ)
    (o : Out σ) (h : visit T v fuel t s = .ok o) (c : Node) (m : String) (hc : Reached T t c m) :
    (⟨true, c⟩ : Ev) ∈ o.tr ∧ (⟨false, c⟩ : Ev) ∈ o.tr := by
  have hcov := coverage_partial T v hv fuel t s o h
  unfold Spec.implEvents at hcov
  cases hl : T.visit.lookup t.kind with
  | none => simp [hl] at hcov
  | some m0 =>
    simp only [hl] at hcov
    obtain ⟨f', tc, hw, hsub⟩ := reached_walk T fuel t m0 o.tr hl hcov hc
    obtain ⟨_, _, body, _, _, _, rfl⟩ := walk_shape T f' m c tc hw
    exact ⟨hsub.subset (by simp), hsub.subset (by simp)⟩

/-- `Entered` is the special case in which every child is traversed by the method of its own kind -/
theorem entered_reached (T : Table) (t c : Node) (hr : (T.visit.lookup t.kind).isSome) (h : Entered T t c) :
    ∃ m, T.visit.lookup c.kind = some m ∧ Reached T t c m := by
  induction h with
  | root =>
    cases h0 : T.visit.lookup t.kind with
    | none => simp [h0] at hr
    | some m0 => exact ⟨m0, rfl, .root h0⟩
  | @child p c st m' _ hst ha hh hres hvis ih =>
    obtain ⟨mp, hvp, hrp⟩ := ih
    simp only [stepsOf, hvp] at hst
    cases hm : T.methods.lookup mp with
    | none => simp [hm] at hst
    | some steps =>
      simp only [hm, Option.getD_some] at hst
      exact ⟨m', hvis, .child hrp hm hst ha hh hres⟩


/-! ### the structural relation, on well-kinded trees -/

/-- the statements of method `m` that apply to a node of kind `k` -/
def effSteps (T : Table) (m k : String) : List Step := ((T.methods.lookup m).getD []).filter (·.applies k)

/-- … of the method `visit` registers for `k` -/
def ownSteps (T : Table) (k : String) : List Step :=
  match T.visit.lookup k with
  | some mk => effSteps T mk k
  | none => []

/-- `c` is reached from the root through attributes that the body of the PARENT'S kind traverses (nothing else) -/
inductive Covered (T : Table) (t : Node) : Node → Prop
  | root : Covered T t t
  | child {p c : Node} {st : Step} : Covered T t p → st ∈ ownSteps T p.kind → Holds (p.getAttr st.attr) c → Covered T t c

abbrev ChildKinds := List ((String × String) × List String)

/-- the class of `c` is admitted under the attribute `a` of a node of kind `k` -/
def kindOk (CK : ChildKinds) (k a : String) (c : Node) : Bool :=
  match CK.lookup (k, a) with
  | some ks => ks.contains c.kind
  | none => false

mutual
/-- every child (at any depth) has a class admitted at its position -/
def wellKinded (CK : ChildKinds) : Node → Bool
  | .mk k _ a => wellKindedAttrs CK k a
def wellKindedAttrs (CK : ChildKinds) (k : String) : List (String × Attr) → Bool
  | [] => true
  | (name, a) :: r => wellKindedAttr CK k name a && wellKindedAttrs CK k r
def wellKindedAttr (CK : ChildKinds) (k name : String) : Attr → Bool
  | .scalar _ => true
  | .one none => true
  | .one (some c) => kindOk CK k name c && wellKinded CK c
  | .many cs => wellKindedList CK k name cs
def wellKindedList (CK : ChildKinds) (k name : String) : List Node → Bool
  | [] => true
  | c :: r => kindOk CK k name c && wellKinded CK c && wellKindedList CK k name r
end

/-- for every admitted child class the call target of every statement resolves to a method whose statements, as far as
    they apply to that class, are those of the class's own method -/
def tableKinded (T : Table) (CK : ChildKinds) : Bool :=
  CK.all fun row => (ownSteps T row.1.1).all fun st => st.attr != row.1.2 || row.2.all fun k' =>
    match resolve T st.target k' with
    | .ok m' => decide (effSteps T m' k' = ownSteps T k')
    | .error _ => false

private theorem wellKindedList_mem (CK : ChildKinds) (k name : String) : ∀ (cs : List Node) (c : Node),
    wellKindedList CK k name cs = true → c ∈ cs → kindOk CK k name c = true ∧ wellKinded CK c = true
  | [], _, _, hm => by cases hm
  | x :: xs, c, h, hm => by
    simp only [wellKindedList, Bool.and_eq_true] at h
    rcases List.mem_cons.1 hm with rfl | hm'
    · exact h.1
    · exact wellKindedList_mem CK k name xs c h.2 hm'

private theorem wellKindedAttrs_lookup (CK : ChildKinds) (k : String) : ∀ (attrs : List (String × Attr)) (a : String) (x : Attr),
    wellKindedAttrs CK k attrs = true → attrs.lookup a = some x → wellKindedAttr CK k a x = true
  | [], _, _, _, hl => by simp [List.lookup] at hl
  | (b, y) :: r, a, x, h, hl => by
    simp only [wellKindedAttrs, Bool.and_eq_true] at h
    simp only [List.lookup] at hl
    by_cases hab : a = b
    · subst hab
      simp at hl
      subst hl
      exact h.1
    · have : (a == b) = false := by simpa using hab
      simp only [this] at hl
      exact wellKindedAttrs_lookup CK k r a x h.2 hl

/-- a child held by an attribute of a well-kinded node has an admitted class and is well-kinded -/
theorem wellKinded_child (CK : ChildKinds) (p c : Node) (a : String) (h : wellKinded CK p = true)
    (hh : Holds (p.getAttr a) c) : kindOk CK p.kind a c = true ∧ wellKinded CK c = true := by
  obtain ⟨k, i, attrs⟩ := p
  simp only [wellKinded] at h
  simp only [Node.getAttr, Node.attrs] at hh
  cases hl : attrs.lookup a with
  | none => rw [hl] at hh; cases hh
  | some x =>
    have hx := wellKindedAttrs_lookup CK k attrs a x h hl
    rw [hl] at hh
    cases x with
    | scalar v => cases hh
    | one oc =>
      cases oc with
      | none => cases hh
      | some c' =>
        simp only [Holds] at hh
        subst hh
        simpa [wellKindedAttr, Node.kind] using hx
    | many cs =>
      simp only [Holds] at hh
      simp only [wellKindedAttr] at hx
      exact wellKindedList_mem CK k a cs c hx hh

theorem lookup_mem_of_some {α β : Type} [BEq α] [LawfulBEq α] : ∀ (l : List (α × β)) (a : α) (b : β), l.lookup a = some b → (a, b) ∈ l
  | [], _, _, h => by simp [List.lookup] at h
  | (a', b') :: r, a, b, h => by
    simp only [List.lookup] at h
    by_cases e : a = a'
    · subst e
      simp at h
      subst h
      exact List.mem_cons_self
    · have : (a == a') = false := by simpa using e
      simp only [this] at h
      exact List.mem_cons_of_mem _ (lookup_mem_of_some r a b h)

theorem mem_effSteps {T : Table} {m k : String} {st : Step} (h : st ∈ effSteps T m k) :
    ∃ steps, T.methods.lookup m = some steps ∧ st ∈ steps ∧ st.applies k = true := by
  unfold effSteps at h
  cases hm : T.methods.lookup m with
  | none => simp [hm] at h
  | some steps =>
    simp only [hm, Option.getD_some, List.mem_filter] at h
    exact ⟨steps, rfl, h.1, h.2⟩

/-- **covered_reached** — on a well-kinded tree, with a table that is `tableKinded`, every structurally covered node is
    reached, and the body that traverses it does on it exactly what the body of its own kind does -/
theorem covered_reached (T : Table) (CK : ChildKinds) (hT : tableKinded T CK = true) (t : Node) (m0 : String)
    (hroot : T.visit.lookup t.kind = some m0) (hk : wellKinded CK t = true) {c : Node} (hc : Covered T t c) :
    wellKinded CK c = true ∧ ∃ m, Reached T t c m ∧ effSteps T m c.kind = ownSteps T c.kind := by
  induction hc with
  | root => exact ⟨hk, m0, .root hroot, by simp [ownSteps, hroot]⟩
  | @child p c st _ hst hh ih =>
    obtain ⟨hkp, mp, hrp, hsame⟩ := ih
    obtain ⟨hko, hkc⟩ := wellKinded_child CK p c st.attr hkp hh
    refine ⟨hkc, ?_⟩
    unfold kindOk at hko
    cases hl : CK.lookup (p.kind, st.attr) with
    | none => simp [hl] at hko
    | some ks =>
      simp only [hl] at hko
      have hrow := lookup_mem_of_some CK _ _ hl
      unfold tableKinded at hT
      have h1 := List.all_eq_true.1 hT _ hrow
      have h2 := List.all_eq_true.1 h1 st hst
      simp only [bne_self_eq_false, Bool.false_or] at h2
      have h3 := List.all_eq_true.1 h2 c.kind (by simpa using hko)
      cases hres : resolve T st.target c.kind with
      | error e => simp [hres] at h3
      | ok m' =>
        simp only [hres, decide_eq_true_eq] at h3
        rw [← hsame] at hst
        obtain ⟨steps, hm, hmem, happ⟩ := mem_effSteps hst
        exact ⟨m', .child hrp hm hmem happ hh hres, h3⟩

/-! ### today's table -/

/-- **table_kinded_today** — with the child classes that `lang/ast.py` and the parser admit (`childKinds`, re-extracted on
    every run), every call target of every `_visit_*` statement — dispatchers AND directly called methods — runs on
    every admitted child class exactly the statements of that class's own method. -/
theorem table_kinded_today : tableKinded table childKinds = true := by decide +kernel

/-- the witness documents parsed by the real parser are well-kinded -/
theorem witnesses_well_kinded : wellKinded childKinds witnessExec = true ∧ wellKinded childKinds witnessSdl = true ∧
    wellKinded childKinds witnessSmall = true := by decide +kernel

/-- **all_covered_children_visited** — today's table, every well-kinded document, every visitor that changes nothing:
    every node reached from the root through attributes for which the `_visit_*` body of the PARENT'S kind has a
    statement is entered and left in a completed visit. No premise on how children are dispatched: with
    `missed_children_today` this is "all children except those below the 15 listed (kind, attribute) pairs". -/
theorem all_covered_children_visited {σ : Type} (v : Visitor σ) (hv : Observer v) (fuel : Nat) (t : Node) (s : σ)
    (o : Out σ) (h : visit table v fuel t s = .ok o) (hk : wellKinded childKinds t = true) (c : Node)
    (hc : Covered table t c) : (⟨true, c⟩ : Ev) ∈ o.tr ∧ (⟨false, c⟩ : Ev) ∈ o.tr := by
  cases hl : table.visit.lookup t.kind with
  | none => simp [visit, hl] at h
  | some m0 =>
    obtain ⟨_, m, hr, _⟩ := covered_reached table childKinds table_kinded_today t m0 hl hk hc
    exact reached_visited table v hv fuel t s o h c m hr

/-! non-vacuity: `{ f(a: {k: $v}) }` — the `Variable` below the object field is `Covered` (and visited), although
    `_visit_object_field` calls `_visit_value`, not the `_visit_variable` that `visit` registers for its kind -/
private def varN : Node := .mk "Variable" 9 [("name", .one (some (.mk "Name" 10 [("value", .scalar "v")])))]
private def ofN : Node := .mk "ObjectField" 7 [("name", .one (some (.mk "Name" 8 [("value", .scalar "k")]))), ("value", .one (some varN))]
private def ovN : Node := .mk "ObjectValue" 6 [("fields", .many [ofN])]
private def argN : Node := .mk "Argument" 4 [("name", .one (some (.mk "Name" 5 [("value", .scalar "a")]))), ("value", .one (some ovN))]
private def fN : Node := .mk "Field" 3 [("name", .one (some (.mk "Name" 31 [("value", .scalar "f")]))), ("alias", .one none),
  ("arguments", .many [argN]), ("directives", .many []), ("selection_set", .one none)]
private def ssV : Node := .mk "SelectionSet" 2 [("selections", .many [fN])]
private def opV : Node := .mk "OperationDefinition" 1 [("operation", .scalar "query"), ("name", .one none),
  ("variable_definitions", .many []), ("directives", .many []), ("selection_set", .one (some ssV))]
private def docV : Node := .mk "Document" 0 [("definitions", .many [opV])]

example : wellKinded childKinds docV = true := by decide +kernel

/-- one `Covered` step through the statement that the body of the parent's kind has for the attribute `a` (looked up in the
    table: the examples do not depend on how the statement is written) -/
theorem covered_attr {T : Table} {t p c : Node} (hp : Covered T t p) (a : String)
    (hsome : ((ownSteps T p.kind).find? (·.attr == a)).isSome = true) (hh : Holds (p.getAttr a) c) : Covered T t c := by
  cases hf : (ownSteps T p.kind).find? (·.attr == a) with
  | none => simp [hf] at hsome
  | some st =>
    have hm := List.mem_of_find?_eq_some hf
    have ha : st.attr = a := by simpa using List.find?_some hf
    exact .child hp hm (by rw [ha]; exact hh)

example : Covered table docV varN := by
  have h1 : Covered table docV opV := covered_attr .root "definitions" (by decide +kernel) (by simp [Holds, docV, Node.getAttr, Node.attrs, List.lookup])
  have h2 : Covered table docV ssV := covered_attr h1 "selection_set" (by decide +kernel) (by simp [Holds, opV, Node.getAttr, Node.attrs, List.lookup])
  have h3 : Covered table docV fN := covered_attr h2 "selections" (by decide +kernel) (by simp [Holds, ssV, Node.getAttr, Node.attrs, List.lookup])
  have h4 : Covered table docV argN := covered_attr h3 "arguments" (by decide +kernel) (by simp [Holds, fN, Node.getAttr, Node.attrs, List.lookup])
  have h5 : Covered table docV ovN := covered_attr h4 "value" (by decide +kernel) (by simp [Holds, argN, Node.getAttr, Node.attrs, List.lookup])
  have h6 : Covered table docV ofN := covered_attr h5 "fields" (by decide +kernel) (by simp [Holds, ovN, Node.getAttr, Node.attrs, List.lookup])
  exact covered_attr h6 "value" (by decide +kernel) (by simp [Holds, ofN, Node.getAttr, Node.attrs, List.lookup])

/-- … whatever method runs on it: `Entered` covers it only if that method is the one `visit` registers for `Variable`
    (today `_visit_object_field` calls `_visit_value`, `visit` registers `_visit_variable`); `Covered` does not care -/
example : (match resolve table ((ownSteps table "ObjectField").headD default).target "Variable" with
    | .ok _ => true | .error _ => false) = true := by decide +kernel

example : (match visit table observer 16 docV () with | .ok o => o.tr.length | _ => 0) = 16 := by decide +kernel

end PyGql.Props.C18

/-
  C14 — FULL frame theorems for the deep-clone variant (the one /repo has since the `fix:` commits):
  `Schema.clone` and every clone-based transform (any list of heal / visibility / camel-case /
  drop-wrap directive visitors, any predicates, any renaming) write NO object of the source heap, and the
  result owns every object it can write. By induction over operation sequences the source can be cloned /
  transformed again any number of times.

  Hypothesis `closedB h s = true`: the source is a closed schema ("all valid schemas"). It is needed: an
  object reachable from the roots but not registered would be adopted by the clone and healed in place.
-/
import PyGqlModel.Lemmas.HeapNames
import PyGqlModel.Lemmas.HeapExtAttrs
import PyGqlModel.Lemmas.HeapClosed
import PyGqlModel.Props.C14

set_option linter.unusedSimpArgs false
set_option linter.unusedVariables false

namespace PyGql.Props.C14
open PyGql.Heap PyGql.Heap.Own

/-- FULL statement (T2) for valid sources -/
def CloneFramesClosedSource (cfg : Cfg) : Prop :=
  ∀ fuel vs s h h' s', closedB h s = true → transform cfg fuel vs s h = some (h', s') → Frame h h'

theorem frame_of_pres {h h' : Heap} (p : Pres h.size h h') : Frame h h' := ⟨p.2.1, p.2.2⟩

/-- FULL: `transform_schema(source, *visitors)` (and `clone()` = no visitor) leaves every object of the source unwritten -/
theorem clone_frames_source (cfg : Cfg) (hd : cfg.deepClone = true) : CloneFramesClosedSource cfg := by
  intro fuel vs s h h' s' hcl e
  exact frame_of_pres (transform_ok cfg hd fuel vs s h h' s' (closed_covered cfg s h hcl) e).1

/-- … and the result owns all its non-protected type and directive objects and (transitively) their fields and arguments:
    every later in-place visitor on the result is confined to objects created after the source (`onSchema_ok`) -/
theorem transform_owns_result (cfg : Cfg) (hd : cfg.deepClone = true) (fuel : Nat) (vs : List Visitor) (s : Schema) (h h' : Heap)
    (s' : Schema) (hcl : closedB h s = true) (e : transform cfg fuel vs s h = some (h', s')) :
    Inv h.size h' ∧ RegFresh h.size s' :=
  let r := transform_ok cfg hd fuel vs s h h' s' (closed_covered cfg s h hcl) e
  ⟨r.1.1, r.2⟩

/-- in-place use of a result (`visitor.on_schema(result)`, `fix_type_references(result)`) never reaches back into the source -/
theorem inplace_on_result_frames_source (cfg : Cfg) (n fuel : Nat) (v : Visitor) (s : Schema) (h h' : Heap) (s' : Schema)
    (i : Inv n h) (hs : RegFresh n s) (e : onSchema cfg fuel v s h = some (h', s')) :
    (∀ x, x < n → h'.read x = h.read x) ∧ Inv n h' ∧ RegFresh n s' :=
  let r := onSchema_ok n cfg fuel v s h h' s' i hs e
  ⟨r.1.2.2, r.1.1, r.2⟩

/-! #### closedness only depends on the objects that exist -/

private theorem stepImp_of_frame {h h' : Heap} (f : Frame h h') (chk : Ref → Bool) : StepImp chk h h' := by
  intro a o hr
  exact ⟨o, by rw [f.2 a (read_lt h a o hr)]; exact hr, Evolves.refl chk o⟩

private theorem typeShape_frame {h h' : Heap} (f : Frame h h') (chk : Ref → Bool) (a : Addr) (hs : typeShape chk h a = true) :
    typeShape chk h' a = true := typeShape_keep (stepImp_of_frame f chk) a hs

private theorem dirShape_frame {h h' : Heap} (f : Frame h h') (chk : Ref → Bool) (a : Addr) (hs : dirShape chk h a = true) :
    dirShape chk h' a = true := dirShape_keep (stepImp_of_frame f chk) a hs

private theorem read_frame {h h' : Heap} (f : Frame h h') {a : Addr} {o : Obj} (hr : h.read a = some o) : h'.read a = some o := by
  rw [f.2 a (read_lt h a o hr)]; exact hr

/-- a closed schema stays closed whatever is allocated or written outside of it -/
theorem closedB_frame {h h' : Heap} (f : Frame h h') (s : Schema) (hc : closedB h s = true) : closedB h' s = true := by
  simp only [closedB, shapeB, Bool.and_eq_true, List.all_eq_true] at hc ⊢
  refine ⟨⟨⟨⟨⟨fun e he => typeShape_frame f _ _ (hc.1.1.1.1.1 e he), fun e he => dirShape_frame f _ _ (hc.1.1.1.1.2 e he)⟩,
    hc.1.1.1.2⟩, hc.1.1.2⟩, hc.1.2⟩, ?_⟩
  intro e he
  have := hc.2 e he
  simp only [nameOK] at this ⊢
  split at this
  · rename_i t ht
    have h2 : h'.readType e.2 = some t := by simp only [Heap.readType, read_frame f (readType_read ht)]
    simp [h2, this]
  · cases this

/-- the heap after applying, one after the other, the clone-based transforms `ops` to the SAME source `s` -/
def applyAll (cfg : Cfg) (fuel : Nat) (s : Schema) : List (List Visitor) → Heap → Option Heap
  | [], h => some h
  | vs :: rest, h =>
    match transform cfg fuel vs s h with
    | none => none
    | some r => applyAll cfg fuel s rest r.1

/-- FULL (induction over operation sequences): after ANY sequence of clone / transform operations applied to one closed
    source, the source's objects are untouched and the source is still closed — it can be queried, printed (both only read
    these objects) and transformed again any number of times -/
theorem transform_sequence_frames_source (cfg : Cfg) (hd : cfg.deepClone = true) (fuel : Nat) (s : Schema) :
    ∀ (ops : List (List Visitor)) (h hN : Heap), closedB h s = true → applyAll cfg fuel s ops h = some hN →
      Frame h hN ∧ closedB hN s = true := by
  intro ops
  induction ops with
  | nil => intro h hN hc e; simp only [applyAll] at e; cases e; exact ⟨Frame.refl h, hc⟩
  | cons vs rest ih =>
    intro h hN hc e
    simp only [applyAll] at e
    split at e
    · cases e
    · rename_i r hr
      obtain ⟨h1, s1⟩ := r
      have f1 := clone_frames_source cfg hd fuel vs s h h1 s1 hc hr
      obtain ⟨f2, c2⟩ := ih h1 hN (closedB_frame f1 s hc) e
      exact ⟨f1.trans f2, c2⟩

/-- the statement with the closedness hypothesis is still FALSE for the code before the fix (same witness: it is closed) -/
theorem clone_frames_closed_source_refuted_legacy : ¬ CloneFramesClosedSource Cfg.legacy := by
  intro hf
  have := (hf 8 [] s0 h0 _ _ (by decide) (by decide : transform Cfg.legacy 8 [] s0 h0 = some ((transform Cfg.legacy 8 [] s0 h0).get (by decide)))).2 6 (by decide)
  revert this
  decide

/-- non-vacuity: the witness is closed and the fixed clone of it succeeds -/
example : closedB h0 s0 = true ∧ (transform Cfg.fixed 8 [] s0 h0).isSome = true := by decide

/-! #### intactness (T1) -/

/-- FULL (T1, fixed variant): `clone()` registers every name its source registers — implementer-only objects,
    unreferenced types, types used only by directive arguments included; for every heap and schema -/
theorem clone_intact (cfg : Cfg) (hd : cfg.deepClone = true) (hk : cfg.keepAllTypes = true) (fuel : Nat) (s : Schema) (h h' : Heap)
    (s' : Schema) (e : clone cfg fuel s h = some (h', s')) : ∀ n, n ∈ names s → n ∈ names s' :=
  clone_names cfg hd hk fuel s h h' s' e

/-- FULL: clone-based transforms by visitors that never delete a type (camel-case, drop/wrap field directives, heal)
    keep every registered name -/
theorem transform_intact (cfg : Cfg) (hd : cfg.deepClone = true) (hk : cfg.keepAllTypes = true) (fuel : Nat) (vs : List Visitor)
    (hv : ∀ v, v ∈ vs → NoTypeDelete v) (s : Schema) (h h' : Heap) (s' : Schema)
    (e : transform cfg fuel vs s h = some (h', s')) : ∀ n, n ∈ names s → n ∈ names s' := by
  intro n hn
  simp only [transform] at e
  split at e
  · cases e
  · rename_i r hr
    obtain ⟨h1, s1⟩ := r
    exact transformFrom_names cfg fuel vs hv h1 s1 h' s' e n (clone_names cfg hd hk fuel s h h1 s1 hr n hn)

example : NoTypeDelete (.camel id) ∧ NoTypeDelete (.sdir (fun _ _ => false) (fun _ _ => none)) := ⟨trivial, trivial⟩

/-! #### untouched attributes survive an extension (S2) -/

/-- SUBSUMED (kept for name stability): the type-level part of the full `untouched_preserved_extend` (Props/C14_extend.lean).
    PARTIAL form of `untouched_preserved` for `extend_schema` — proved for ALL heaps, schemas with distinct registered
    names (a Python dict) and extension documents that do not redefine a registered name: the object registered under
    the name of every source type is a rebuilt copy that keeps name, kind, description, default resolver, type resolver
    and (a prefix of) the enum values exactly as far as the `_extend_*` constructors pass them on (`TypeKept cfg`).
    What is missing for the full statement: the same for the member objects (fields: resolver, subscription resolver,
    python name, description, deprecation; arguments / input fields: default, python name, description) — their
    rebuild functions are `extendFields` / `extendArgs`, tied by the correspondence and by `extend_preserves_witness_fixed`. -/
theorem untouched_preserved_extend_partial (cfg : Cfg) (hk : cfg.extKeepAll = true) (ext : Ext) (s : Schema) (h : Heap)
    (hnd : (names s).Nodup) (hnew : ∀ e, e ∈ ext.newTypes → e.1 ∉ names s)
    (n : String) (a : Addr) (t : TypeO) (hm : (n, a) ∈ s.types) (hp : isProtected n = false) (ht : h.readType a = some t) :
    ∃ a' t', lookup (extend cfg ext s h).2.types n = some a' ∧ (extend cfg ext s h).1.readType a' = some t' ∧ TypeKept cfg t t' :=
  extend_type_kept cfg hk ext s h hnd hnew n a t hm hp ht

/-- with every `_extend_*` fix in place (`Cfg.fixed`, the variant of /repo HEAD) `TypeKept` is plain equality of the attributes -/
theorem typeKept_fixed (t t' : TypeO) (k : TypeKept Cfg.fixed t t') :
    t'.name = t.name ∧ t'.kind = t.kind ∧ t'.desc = t.desc ∧ t'.dres = t.dres ∧ t'.rtype = t.rtype ∧ (∃ added, t'.values = t.values ++ added) ∧
    ((t.kind = Kind.scalar ∨ t.kind = Kind.enum) → t'.cls = t.cls) := by
  obtain ⟨h1, h2, _, h4, h5, h6, h7, h8⟩ := k
  refine ⟨h1, h2, by simpa [Cfg.fixed] using h4, by simpa [Cfg.fixed] using h5, ?_, h7, ?_⟩
  · cases hk : t.kind <;> simp [hk, Cfg.fixed] at h6 <;> exact h6
  · intro hl
    rcases hl with hl | hl <;> simpa [hl, Cfg.fixed] using h8

/-- the type-resolver clause of S2 at full strength for the fixed variant (the statement refuted for `Cfg.legacy` by
    `extend_keeps_type_resolvers_refuted_legacy`), for schemas with distinct names -/
theorem extend_keeps_type_resolvers_fixed (ext : Ext) (s : Schema) (h : Heap)
    (hnd : (names s).Nodup) (hnew : ∀ e, e ∈ ext.newTypes → e.1 ∉ names s)
    (n : String) (a : Addr) (t : TypeO) (hm : (n, a) ∈ s.types) (hp : isProtected n = false) (ht : h.readType a = some t) :
    ∃ a' t', lookup (extend Cfg.fixed ext s h).2.types n = some a' ∧ (extend Cfg.fixed ext s h).1.readType a' = some t' ∧
      t'.rtype = t.rtype ∧ t'.dres = t.dres ∧ t'.desc = t.desc := by
  obtain ⟨a', t', h1, h2, k⟩ := extend_type_kept Cfg.fixed rfl ext s h hnd hnew n a t hm hp ht
  obtain ⟨_, _, k3, k4, k5, _⟩ := typeKept_fixed t t' k
  exact ⟨a', t', h1, h2, k5, k4, k3⟩

example : (names s0).Nodup ∧ (∀ e, e ∈ zed.newTypes → e.1 ∉ names s0) ∧ (("Pet", 1) ∈ s0.types) := by decide

/-! #### heal: what is established at each hook, and fuel -/

/-- SUBSUMED (kept for name stability): a hook-level corollary of the full `heal_closed` (Props/C14_closed.lean).
    PARTIAL form of `heal_closed` (argument / input-field level): whatever `_HealSchemaVisitor.on_argument` returns is an
    argument whose type reference IS the registered object. -/
theorem heal_argument_closed_partial (reg : List (String × Addr)) (h : Heap) (a a' : Addr) (g : ArgO)
    (hr : h.readArg a = some g) (e : (onArgument .heal reg h a).2 = some a') :
    argClosed (onArgument .heal reg h a).1 reg a' = true := by
  simp only [onArgument, hr] at e ⊢
  split at e
  · cases e
  · rename_i t ht
    simp only [Option.some.injEq] at e
    subst e
    have hlt := read_lt h a _ (readArg_read hr)
    simp only [argClosed, argShape, Heap.readArg, read_write_same h a _ hlt]
    exact (healed_registered reg g.ty t ht).1

/-- SUBSUMED (kept for name stability): a hook-level corollary of the full `heal_closed` (Props/C14_closed.lean); the assembly and the fuel sufficiency announced as missing below are `heal_closed` / `healLoop_two`.
    PARTIAL form of `heal_closed` (field level): the type reference of whatever `on_field`'s heal step returns IS the
    registered object. Missing for the full `heal_closed` (closedB of the result of `healLoop` for every well-formed
    schema): that later steps of the same round keep these facts (every heal write only re-points references to
    registered objects, so they do — the planned proof is a `StepImp` relation preserved by all hooks), the assembly
    over `visitTypes`, and fuel sufficiency (a second round never drops anything because the registered NAMES do not
    change: `healLoop_names`). Tied meanwhile by the correspondence (`closedB` of the model = identity check on the
    live objects after every step) and by the `decide` instances. -/
theorem heal_field_type_closed_partial (reg : List (String × Addr)) (h : Heap) (a a' : Addr) (f : FieldO)
    (hr : h.readField a = some f) (e : (healFieldType reg h a).2 = some a') :
    ∃ f', (healFieldType reg h a).1.readField a' = some f' ∧ refOK reg f'.ty.base = true ∧ f'.args = f.args ∧ f'.name = f.name := by
  simp only [healFieldType, hr] at e ⊢
  split at e
  · cases e
  · rename_i t ht
    simp only [Option.some.injEq] at e
    subst e
    have hlt := read_lt h a _ (readField_read hr)
    exact ⟨{ f with ty := t }, by simp only [Heap.readField, read_write_same h a _ hlt], (healed_registered reg f.ty t ht).1, rfl, rfl⟩

/-- fuel only has to be large enough: more fuel never changes the result of `fix_type_references` -/
theorem healLoop_fuel_mono (cfg : Cfg) : ∀ (fuel : Nat) (s : Schema) (h : Heap) (r : Heap × Schema),
    healLoop cfg fuel s h = some r → healLoop cfg (fuel + 1) s h = some r := by
  intro fuel
  induction fuel with
  | zero => intro s h r e; simp [healLoop] at e
  | succ fuel ih =>
    intro s h r e
    rw [healLoop] at e
    rw [healLoop]
    split at e
    · rename_i hb
      rw [if_pos hb]
      exact ih _ _ r e
    · rename_i hb
      rw [if_neg hb]
      exact e

/-- the working tree's variant (re-extracted on every run) is the deep-clone one: the theorem applies to it -/
theorem current_clone_frames_source :
    CloneFramesClosedSource PyGql.Generated.HeapCfg.currentCfg := clone_frames_source _ cur_deepClone

end PyGql.Props.C14

/-
  C08 — a first REFINEMENT step between the two deferred runtimes (audit round 2, item 1): for the same per-entry results,
  asyncio's `gather_values` (collect the awaitables, `asyncio.gather`, patch the results in at `pending_idx`) and the thread
  pool's `gather_futures` (slot list, `[v.result() if future else v for v in result]` at the last completion) deliver THE SAME
  LIST — `asyncio_gather_delivers_what_gather_futures_delivers`. So on the success path the `gather` node of the `Node` algebra
  (the executor theorems are about it) also describes what the asyncio combinator hands to `_collect` / `complete_list_value`.
  STILL OPEN (stated in DESIGN §11.1): there is no `runAsyncio` interpreter - coroutines are lazy (nothing runs before the loop
  steps the task), `map_value` / `unwrap_value` are `async def`, a failing member CANCELS its siblings - so `async_eq_blocking`,
  `always_terminates`, `serial_order` are theorems about the callback algebra of the thread pool, and the asyncio runtime is
  tied to them only by the controlled-schedule correspondence (per-field projection) and the pairwise equality oracle.
-/
import PyGqlModel.Props.C08

namespace PyGql.Props.C08
open PyGql.AsyncExec

/-- slot of one source entry once its awaitable (if it is one) has delivered `res a` -/
def slotOfEntry {α β γ : Type} (isAw : α → Option β) (plain : α → γ) (res : β → γ) (v : α) : Slot γ :=
  match isAw v with
  | some a => some (.ok (res a))
  | none => some (.ok (plain v))

private theorem collectSlots_all_ok {γ : Type} (l : List γ) :
    collectSlots (l.map fun x => (some (.ok x) : Slot γ)) = .setResult l := by
  induction l with
  | nil => rfl
  | cons x r ih => simp [collectSlots, ih]

/-- **asyncio_gather_delivers_what_gather_futures_delivers.** -/
theorem asyncio_gather_delivers_what_gather_futures_delivers {α β γ : Type} (isAw : α → Option β) (plain : α → γ)
    (res : β → γ) (values : List α) :
    collectSlots (values.map (slotOfEntry isAw plain res))
      = .setResult (gatherValuesPatched isAw plain values ((pendingOf isAw values).map res)) := by
  rw [gather_values_patch]
  have key : ∀ f : α → γ, (∀ v, slotOfEntry isAw plain res v = some (.ok (f v))) →
      collectSlots (values.map (slotOfEntry isAw plain res)) = .setResult (values.map f) := by
    intro f hf
    have : values.map (slotOfEntry isAw plain res) = (values.map f).map fun x => (some (.ok x) : Slot γ) := by
      simp only [List.map_map]
      exact List.map_congr_left (fun v _ => hf v)
    rw [this, collectSlots_all_ok]
  refine key _ ?_
  intro v
  simp only [slotOfEntry]
  cases isAw v <;> rfl

/-- non-vacuity: `[1, <aw 20>, 3, <aw 40>]` -/
example : gatherValuesPatched (fun v : Nat × Bool => if v.2 then some v.1 else none) (·.1)
    [(1, false), (20, true), (3, false), (40, true)] [120, 140] = [1, 120, 3, 140] := by decide

end PyGql.Props.C08

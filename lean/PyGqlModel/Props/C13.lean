/-
  C13 — property theorems: schema validation (`SchemaValidator`), covariance (`is_subtype`,
  TRANSLATED from the source on every run), the `_is_valid` cache machine.
-/
import PyGqlModel.SchemaValid
import PyGqlModel.Spec.SchemaValidSpec
import PyGqlModel.Props.C13_call

set_option linter.unusedSimpArgs false
set_option linter.unusedVariables false

namespace PyGql.Props.C13
open PyGql PyGql.SchemaValid PyGql.SchemaValidSpec PyGql.Generated.Subtype PyGql.Generated.SchemaValidTables

/-! #### the loop shape -/

private theorem forSeen_nil_iff {α} (key : α → String) (step : α → Bool → List Err × Bool) (P : α → Prop)
    (hstep : ∀ x dup, (step x dup).1 = [] ↔ (dup = false ∧ P x))
    (hadd : ∀ x, P x → (step x false).2 = true) :
    ∀ (xs : List α) (seen : List String),
      forSeen key step xs seen = [] ↔
        ((∀ x ∈ xs, P x) ∧ (xs.map key).Nodup ∧ ∀ x ∈ xs, key x ∉ seen) := by
  intro xs
  induction xs with
  | nil => intro seen; simp [forSeen]
  | cons x xs ih =>
    intro seen
    simp only [forSeen, List.append_eq_nil_iff, hstep]
    constructor
    · rintro ⟨⟨hd, hp⟩, hrest⟩
      have hd' : seen.contains (key x) = false := hd
      rw [hd', hadd x hp] at hrest
      simp only [if_true] at hrest
      obtain ⟨h1, h2, h3⟩ := (ih _).1 hrest
      have hx : key x ∉ seen := by simpa using hd'
      refine ⟨?_, ?_, ?_⟩
      · intro y hy
        rcases List.mem_cons.1 hy with rfl | hy
        · exact hp
        · exact h1 y hy
      · simp only [List.map_cons, List.nodup_cons]
        refine ⟨?_, h2⟩
        intro hmem
        obtain ⟨y, hy, hk⟩ := List.mem_map.1 hmem
        exact h3 y hy (by simp [hk])
      · intro y hy
        rcases List.mem_cons.1 hy with rfl | hy
        · exact hx
        · intro hm; exact h3 y hy (List.mem_cons_of_mem _ hm)
    · rintro ⟨h1, h2, h3⟩
      have hx : key x ∉ seen := h3 x (List.mem_cons_self ..)
      have hd' : seen.contains (key x) = false := by simpa using hx
      have hp : P x := h1 x (List.mem_cons_self ..)
      refine ⟨⟨hd', hp⟩, ?_⟩
      rw [hd', hadd x hp]
      simp only [if_true]
      simp only [List.map_cons, List.nodup_cons] at h2
      refine (ih _).2 ⟨fun y hy => h1 y (List.mem_cons_of_mem _ hy), h2.2, ?_⟩
      intro y hy hm
      rcases List.mem_cons.1 hm with hk | hm
      · exact h2.1 (List.mem_map.2 ⟨y, hy, hk⟩)
      · exact h3 y (List.mem_cons_of_mem _ hy) hm


/-! #### covariance -/

private theorem subIter_complete (s : SchemaD) {a b : Ty} (h : Subtype s a b) :
    ∀ k, a.size + b.size ≤ k → subIter s k a b = true := by
  induction h with
  | refl t =>
    intro k hk
    cases k with
    | zero => have := t.size_pos; omega
    | succ k => simp [subIter, isSubtypeStep]
  | @list a b h ih =>
    intro k hk
    cases k with
    | zero => have := a.size_pos; simp [Ty.size] at hk
    | succ k =>
      simp only [Ty.size] at hk
      simp [subIter, isSubtypeStep, Ty.isList, Ty.isNonNull, Ty.sameCtor, Ty.inner, ih k (by omega)]
  | @nonNull a b h ih =>
    intro k hk
    cases k with
    | zero => have := a.size_pos; simp [Ty.size] at hk
    | succ k =>
      simp only [Ty.size] at hk
      simp [subIter, isSubtypeStep, Ty.isList, Ty.isNonNull, Ty.sameCtor, Ty.inner, ih k (by omega)]
  | @dropNonNull a b hb h ih =>
    intro k hk
    cases k with
    | zero => have := a.size_pos; simp [Ty.size] at hk
    | succ k =>
      simp only [Ty.size] at hk
      have := ih k (by omega)
      cases b with
      | nonNull b' => simp [Ty.isNonNull] at hb
      | named n => simp [subIter, isSubtypeStep, Ty.isList, Ty.isNonNull, Ty.sameCtor, Ty.inner, this]
      | list b' => simp [subIter, isSubtypeStep, Ty.isList, Ty.isNonNull, Ty.sameCtor, Ty.inner, this]
  | @possible o a ho ha hp =>
    intro k hk
    cases k with
    | zero => simp [Ty.size] at hk
    | succ k => simp [subIter, isSubtypeStep, Ty.isList, Ty.isNonNull, ho, ha, hp]

private theorem subIter_sound (s : SchemaD) : ∀ k a b, subIter s k a b = true → Subtype s a b := by
  intro k
  induction k with
  | zero => intro a b h; simp [subIter] at h
  | succ k ih =>
    intro a b h
    by_cases hab : a = b
    · subst hab; exact .refl _
    · simp only [subIter, isSubtypeStep] at h
      have hne : (a == b) = false := by simpa using hab
      rw [hne] at h
      simp only [Bool.false_eq_true, if_false] at h
      cases a with
      | named o =>
        cases b with
        | named n =>
          simp [Ty.isList, Ty.isNonNull] at h
          exact .possible h.1.2 h.1.1 h.2
        | list b' => simp [Ty.isList, Ty.isNonNull, Ty.sameCtor, isAbstractTy] at h
        | nonNull b' => simp [Ty.isList, Ty.isNonNull, Ty.sameCtor, isAbstractTy] at h
      | list a' =>
        cases b with
        | named n => simp [Ty.isList, Ty.isNonNull, Ty.sameCtor] at h
        | list b' =>
          simp [Ty.isList, Ty.isNonNull, Ty.sameCtor, Ty.inner] at h
          exact .list (ih _ _ h)
        | nonNull b' => simp [Ty.isList, Ty.isNonNull, Ty.sameCtor] at h
      | nonNull a' =>
        cases b with
        | named n =>
          simp [Ty.isList, Ty.isNonNull, Ty.sameCtor, Ty.inner] at h
          exact .dropNonNull rfl (ih _ _ h)
        | list b' =>
          simp [Ty.isList, Ty.isNonNull, Ty.sameCtor, Ty.inner] at h
          exact .dropNonNull rfl (ih _ _ h)
        | nonNull b' =>
          simp [Ty.isList, Ty.isNonNull, Ty.sameCtor, Ty.inner] at h
          exact .nonNull (ih _ _ h)

/-! ## Property theorems -/

/-- **Covariance.** `Schema.is_subtype` (translated from the source, recursion closed with fuel) decides
    exactly the specification's subtype relation: equal types, through list and non-null wrappers,
    non-null to nullable, object type to an interface it implements / a union that lists it. -/
theorem subtype_iff (s : SchemaD) (a b : Ty) : isSubtype s a b = true ↔ Subtype s a b :=
  ⟨subIter_sound s _ a b, fun h => subIter_complete s h _ (Nat.le_refl _)⟩

/-- the fuel is irrelevant once it covers the two sizes -/
theorem subtype_fuel (s : SchemaD) (a b : Ty) (k : Nat) (hk : a.size + b.size ≤ k) :
    subIter s k a b = isSubtype s a b := by
  cases h : isSubtype s a b with
  | true => exact subIter_complete s ((subtype_iff s a b).1 h) k hk
  | false =>
    cases h' : subIter s k a b with
    | false => rfl
    | true =>
      have := (subtype_iff s a b).2 (subIter_sound s k a b h')
      rw [h] at this; exact absurd this (by simp)

instance (s : SchemaD) (a b : Ty) : Decidable (Subtype s a b) := decidable_of_iff _ (subtype_iff s a b)

/-! #### method-by-method: "no error" ⇔ the rule's predicate -/

private theorem checkValidName_nil (n : String) : checkValidName n = [] ↔ ValidName n := by
  unfold checkValidName ValidName
  split <;> simp_all

/-- every proposed fix is in the tree the theorems are checked against (each flag re-extracted on every run) -/
theorem config_fixed : currentConfig = Config.fixed := by decide

private theorem validate_eq (s : SchemaD) (rv : Bool) : validate s rv = validateFixed s rv := by
  unfold validate; rw [config_fixed]

private theorem fx1 : Config.fixed.maskTypeName = false := rfl
private theorem fx2 : Config.fixed.maskDuplicate = false := rfl
private theorem fx3 : Config.fixed.maskImplType = false := rfl
private theorem fx4 : Config.fixed.preciseResolver = true := rfl
private theorem fx5 : Config.fixed.extraArgRequired = true := rfl
private theorem fx6 : Config.fixed.subscriptionChecked = true := rfl
private theorem fx7 : Config.fixed.ifaceResolverChecked = false := rfl
private theorem fx8 : Config.fixed.notCallableReported = true := rfl
private theorem fx9 : Config.fixed.defaultsChecked = true := rfl
private theorem fx10 : Config.fixed.enumNoneReported = true := rfl

private theorem notInputErr_nil (s : SchemaD) (r d : Rule) (o : String) (a : ArgD) :
    notInputErr Config.fixed s r d o a = [] ↔ (isInputType s a.type = true ∧ DefaultOK s a) := by
  unfold notInputErr defaultErr DefaultOK
  cases isInputType s a.type <;> cases a.hasDefault <;> cases defaultBad s defaultFuel a.type a.default <;> simp [fx9]

private theorem validateArguments_nil (s : SchemaD) (r1 r2 r3 : Rule) (owner : String) (args : List ArgD) :
    validateArguments s r1 r2 r3 owner args = [] ↔ ArgsOK s args := by
  unfold validateArguments validateArgumentsWith ArgsOK
  refine (forSeen_nil_iff _ _ (fun a => ValidName a.name ∧ isInputType s a.type = true ∧ DefaultOK s a) ?_ ?_ args []).trans ?_
  rotate_left 2
  · simp
  · intro a dup
    simp only [List.append_eq_nil_iff, checkValidName_nil, fx2, Bool.and_false, Bool.false_eq_true, if_false,
      notInputErr_nil]
    cases dup <;> simp
  · intro a _; rfl

private theorem resolverArgErr_nil (path : String) (ps : List ParamD) (varKw : Bool) (a : ArgD) :
    resolverArgErr path ps varKw a = [] ↔
      (match keywordParam ps a.pythonName with
       | some p => p.hasDefault = true ∨ a.hasDefault = true ∨ argRequired a = true
       | none => varKw = true ∧ ∀ cl, findParam ps a.pythonName = some cl →
           ¬ ((leadingNames ps).contains cl.name = true ∧ cl.kind = .posOrKw)) := by
  unfold resolverArgErr
  cases keywordParam ps a.pythonName with
  | some p =>
    cases h1 : p.hasDefault <;> cases h2 : a.hasDefault <;> cases h3 : argRequired a <;> simp
  | none =>
    cases hf : findParam ps a.pythonName with
    | none => cases varKw <;> simp
    | some cl =>
      simp only []
      cases h1 : (leadingNames ps).contains cl.name <;> cases hk : cl.kind <;> cases varKw <;> simp [h1, hk] <;> simp_all

private theorem validateResolverArguments_nil (path : String) (args : List ArgD) (r : ResolverD) :
    validateResolverArguments path args r = [] ↔
      (r.callable = true ∧ (r.inspectable = true → ResolverCompatible args r)) := by
  unfold validateResolverArguments validateResolverArgumentsWith ResolverCompatible
  cases hc : r.callable with
  | false => simp [fx8]
  | true =>
    cases hi : r.inspectable with
    | false => simp
    | true =>
      simp only [Bool.not_true, Bool.false_eq_true, if_false, fx4, if_true, resolverErrs, List.append_eq_nil_iff,
        List.flatMap_eq_nil_iff, resolverArgErr_nil, forall_const, true_and]
      rw [and_assoc]
      refine and_congr ?_ (and_congr Iff.rfl ?_)
      · cases hv : r.params.any (·.kind == .varPos) <;> simp [Nat.not_lt]
      · constructor
        · intro h p hp
          have := h p hp
          cases hd : p.hasDefault <;> simp_all
        · intro h p hp
          simp [h p hp]

/-- **The resolver-signature rule, semantically**: for an inspectable callable (distinct parameter names, as Python
    enforces; distinct python names of the arguments, the keys of one `**arguments` dict) `_validate_resolver_arguments`
    reports nothing exactly when EVERY call the executor can make, `resolver(root, ctx, info, **arguments)` with the
    required and the defaulted arguments and any subset of the others, binds under Python's call-binding rules
    (`bindOk`; compared with CPython by correspondence stream N). -/
theorem resolver_rule_iff_binds (path : String) (args : List ArgD) (r : ResolverD) (hcal : r.callable = true)
    (hins : r.inspectable = true) (hd : ParamsDistinct r.params) (ha : ArgsDistinct args) :
    validateResolverArguments path args r = [] ↔ ∀ K, Admissible args K → bindOk r.params K = true := by
  rw [validateResolverArguments_nil]
  constructor
  · intro h; exact (compatible_iff_binds args r hd ha).mp (h.2 hins)
  · intro h; exact ⟨hcal, fun _ => (compatible_iff_binds args r hd ha).mpr h⟩

private theorem resolverPart_nil (rv : Bool) (path : String) (args : List ArgD) (o : Option ResolverD) :
    resolverPart Config.fixed rv path args o = [] ↔
      ∀ r, o = some r → rv = true → (r.callable = true ∧ (r.inspectable = true → ResolverCompatible args r)) := by
  unfold resolverPart
  cases o with
  | none => simp
  | some r =>
    cases rv with
    | false => simp
    | true =>
      have := validateResolverArguments_nil path args r
      unfold validateResolverArguments at this
      simp [this]

private theorem resolversOfField_nil (s : SchemaD) (rv : Bool) (t : TypeD) (f : FieldD) :
    resolversOfField Config.fixed s rv t f = [] ↔
      ∀ r, (pickResolver s t f = some r ∨ f.subscriptionResolver = some r) → rv = true →
        (r.callable = true ∧ (r.inspectable = true → ResolverCompatible f.args r)) := by
  unfold resolversOfField
  simp only [List.append_eq_nil_iff, fx6, if_true, resolverPart_nil]
  constructor
  · rintro ⟨h3, h4⟩ r hr hrv
    rcases hr with hr | hr
    · exact h3 r hr hrv
    · exact h4 r hr hrv
  · intro h
    exact ⟨fun r hr hrv => h r (Or.inl hr) hrv, fun r hr hrv => h r (Or.inr hr) hrv⟩

private theorem fieldBody_nil (s : SchemaD) (rv : Bool) (t : TypeD) (f : FieldD) :
    fieldBody s rv t f = [] ↔ (isOutputType s f.type = true ∧ ArgsOK s f.args ∧ ResolverOK s rv t f) := by
  have ha := validateArguments_nil s .dupArg .argNotInput .argDefault (t.name ++ "." ++ f.name) f.args
  unfold validateArguments at ha
  unfold fieldBody fieldBodyWith ResolverOK
  simp only [List.append_eq_nil_iff, ha, fx7, Bool.or_false]
  by_cases hk : t.kind = .object
  · have hk' : (t.kind == Kind.object) = true := by simp [hk]
    simp only [hk', if_true, resolversOfField_nil]
    constructor
    · rintro ⟨⟨h1, h2⟩, h3⟩
      refine ⟨?_, h2, fun r hr hrv _ => h3 r hr hrv⟩
      cases ho : isOutputType s f.type <;> simp_all
    · rintro ⟨h1, h2, h3⟩
      exact ⟨⟨by simp [h1], h2⟩, fun r hr hrv => h3 r hr hrv hk⟩
  · have hk' : (t.kind == Kind.object) = false := by simpa using hk
    simp only [hk', Bool.false_eq_true, if_false, and_true]
    constructor
    · rintro ⟨h1, h2⟩
      refine ⟨?_, h2, fun r _ _ hko => absurd hko hk⟩
      cases ho : isOutputType s f.type <;> simp_all
    · rintro ⟨h1, h2, _⟩
      exact ⟨by simp [h1], h2⟩

private theorem validateFields_nil (s : SchemaD) (rv : Bool) (t : TypeD) :
    validateFields s rv t = [] ↔ FieldsOK s rv t := by
  have hb := fieldBody_nil s rv t
  unfold fieldBody at hb
  unfold validateFields validateFieldsWith FieldsOK
  simp only [List.append_eq_nil_iff]
  refine (and_congr Iff.rfl (forSeen_nil_iff _ _ (fun f => ValidName f.name ∧ isOutputType s f.type = true ∧ ArgsOK s f.args ∧ ResolverOK s rv t f) ?_ ?_ t.fields [])).trans ?_
  rotate_left 2
  · refine and_congr ?_ ?_
    · cases h : t.fields <;> simp
    · simp
  · intro f dup
    simp only [List.append_eq_nil_iff, checkValidName_nil, fx1, fx2, fx3, fx4, fx5, fx6, Bool.and_false, Bool.false_eq_true, if_false, hb]
    cases dup <;> simp
  · intro f _; rfl

private theorem ifaceArgErr_nil (ip op : String) (objField : FieldD) (a : ArgD) :
    ifaceArgErr ip op objField a = [] ↔ ∃ oa, argMap objField a.name = some oa ∧ a.type = oa.type := by
  unfold ifaceArgErr
  cases argMap objField a.name with
  | none => simp
  | some oa => by_cases h : a.type = oa.type <;> simp [h]

private theorem extraArgErr_nil (ip op : String) (f : FieldD) (a : ArgD) :
    extraArgErr ip op f a = [] ↔ (argMap f a.name = none → argRequired a = false) := by
  unfold extraArgErr extraArgErrWith extraArgBlocks
  cases argMap f a.name with
  | none => cases argRequired a <;> simp [fx5]
  | some _ => simp

private theorem implFieldErr_nil (s : SchemaD) (t it : TypeD) (f : FieldD) :
    implFieldErr s t it f = [] ↔
      ∃ objField, fieldMap t f.name = some objField ∧ Subtype s objField.type f.type ∧
        (∀ a ∈ f.args, ∃ oa, argMap objField a.name = some oa ∧ a.type = oa.type) ∧
        (∀ a ∈ objField.args, argMap f a.name = none → argRequired a = false) := by
  have he := extraArgErr_nil
  unfold extraArgErr at he
  unfold implFieldErr implFieldErrWith
  cases fieldMap t f.name with
  | none => simp
  | some objField =>
    cases h : isSubtype s objField.type f.type with
    | false =>
      have : ¬ Subtype s objField.type f.type := fun hs => by
        rw [(subtype_iff s _ _).2 hs] at h; exact absurd h (by simp)
      simp [this, h]
    | true =>
      have hs : Subtype s objField.type f.type := (subtype_iff s _ _).1 h
      simp [hs, h, implArgErrsWith, List.flatMap_eq_nil_iff, ifaceArgErr_nil, he]

private theorem validateImplementation_nil (s : SchemaD) (t it : TypeD) :
    validateImplementation s t it = [] ↔ Implements s t it := by
  have h := implFieldErr_nil s t it
  unfold implFieldErr at h
  unfold validateImplementation validateImplementationWith Implements
  simp only [List.flatMap_eq_nil_iff, h]

private theorem validateInterfaces_nil (s : SchemaD) (t : TypeD) :
    validateInterfaces s t = [] ↔ InterfacesOK s t := by
  have hv := validateImplementation_nil s t
  unfold validateImplementation at hv
  unfold validateInterfaces validateInterfacesWith InterfacesOK
  refine (forSeen_nil_iff _ _ (fun i => ∃ it, s.findType i = some it ∧ it.kind = .interface ∧ Implements s t it) ?_ ?_ t.interfaces []).trans ?_
  rotate_left 2
  · simp
  · intro i dup
    unfold interfaceStepWith
    cases s.findType i with
    | none => simp
    | some it =>
      by_cases hk : it.kind = .interface
      · cases dup <;> simp [hk, hv]
      · simp [hk]
  · intro i hi
    obtain ⟨it, h1, h2, h3⟩ := hi
    simp [interfaceStepWith, h1, h2]

private theorem validateUnionMembers_nil (s : SchemaD) (t : TypeD) :
    validateUnionMembers s t = [] ↔ UnionOK s t := by
  unfold validateUnionMembers UnionOK
  simp only [List.append_eq_nil_iff]
  refine (and_congr Iff.rfl (forSeen_nil_iff _ _ (fun m => kindOf s m = some .object) ?_ ?_ t.members [])).trans ?_
  rotate_left 2
  · refine and_congr ?_ ?_
    · cases h : t.members <;> simp
    · simp
  · intro m dup
    unfold memberStep
    by_cases hk : kindOf s m = some .object
    · cases dup <;> simp [hk]
    · simp [hk]
  · intro m hm
    simp [memberStep, hm]

private theorem validateEnumValues_nil (t : TypeD) : validateEnumValues t = [] ↔ EnumOK t := by
  unfold validateEnumValues validateEnumValuesWith EnumOK
  simp only [List.append_eq_nil_iff, List.flatMap_eq_nil_iff, checkValidName_nil, fx10, Bool.true_and]
  refine and_congr ?_ ?_
  · cases h : t.values <;> simp
  · constructor
    · intro h v hv
      refine ⟨(h v hv).1, ?_⟩
      have := (h v hv).2
      cases hb : isNone v.value <;> simp_all
    · intro h v hv
      exact ⟨(h v hv).1, by simp [(h v hv).2]⟩

private theorem validateInputFields_nil (s : SchemaD) (t : TypeD) :
    validateInputFields s t = [] ↔ InputOK s t := by
  unfold validateInputFields validateInputFieldsWith InputOK
  simp only [List.append_eq_nil_iff]
  refine (and_congr Iff.rfl (forSeen_nil_iff _ _ (fun f => ValidName f.name ∧ isInputType s f.type = true ∧ DefaultOK s f) ?_ ?_ t.inputFields [])).trans ?_
  rotate_left 2
  · refine and_congr ?_ ?_
    · cases h : t.inputFields <;> simp
    · simp
  · intro a dup
    simp only [List.append_eq_nil_iff, checkValidName_nil, fx2, Bool.and_false, Bool.false_eq_true, if_false,
      notInputErr_nil]
    cases dup <;> simp
  · intro a _; rfl

private theorem validateType_nil (s : SchemaD) (rv : Bool) (t : TypeD) :
    validateType s rv t = [] ↔ TypeOK s rv t := by
  have h1 := validateFields_nil s rv t
  have h2 := validateInterfaces_nil s t
  have h3 := validateInputFields_nil s t
  have h4 := validateEnumValues_nil t
  unfold validateFields at h1; unfold validateInterfaces at h2; unfold validateInputFields at h3; unfold validateEnumValues at h4
  unfold validateType validateTypeWith typeNameErr typeBodyWith TypeOK ValidName
  cases hb : t.builtin <;> cases hn : isValidName t.name <;>
    cases hk : t.kind <;>
    simp [fx1, h1, h2, h3, h4, validateUnionMembers_nil]

private theorem rootErr_nil (s : SchemaD) (r : Rule) (o : Option String) : rootErr s r o = [] ↔ RootOK s o := by
  unfold rootErr RootOK
  cases o with
  | none => simp
  | some n => by_cases h : kindOf s n = some .object <;> simp [h]

private theorem validateRootTypes_nil (s : SchemaD) : validateRootTypes s = [] ↔ RootsOK s := by
  unfold validateRootTypes RootsOK
  simp only [List.append_eq_nil_iff, rootErr_nil, and_assoc]
  refine and_congr ?_ Iff.rfl
  cases s.query <;> simp

private theorem validateDirectives_nil (s : SchemaD) : validateDirectives s = [] ↔ DirectivesOK s := by
  have h := validateArguments_nil s .dirDupArg .dirArgNotInput .dirArgDefault
  unfold validateArguments at h
  unfold validateDirectives validateDirectivesWith DirectivesOK
  simp only [List.flatMap_eq_nil_iff, List.append_eq_nil_iff, checkValidName_nil, h]

/-- **Verdict.** The validator reports no error exactly on the schemas that satisfy every implemented
    type-system rule (`ValidSchema`: names, non-empty types, unique members, input/output positions,
    interface implementation with covariant field types and compatible arguments, union members and
    root types being object types, resolver signatures compatible with the field arguments). -/
theorem validate_iff (s : SchemaD) (rv : Bool) : validate s rv = [] ↔ ValidSchema s rv := by
  have h1 := validateType_nil s rv
  have h2 := validateDirectives_nil s
  unfold validateType at h1; unfold validateDirectives at h2
  rw [validate_eq]
  unfold validateFixed validateWith ValidSchema
  simp only [List.append_eq_nil_iff, List.flatMap_eq_nil_iff, validateRootTypes_nil, h1, h2, and_assoc]

/-- `validate_schema(schema)` returns (does not raise) iff the schema is valid -/
theorem accepts_iff (s : SchemaD) : accepts s = true ↔ ValidSchema s true := by
  unfold accepts
  rw [List.isEmpty_iff]
  exact validate_iff s true

instance (s : SchemaD) (rv : Bool) : Decidable (ValidSchema s rv) := decidable_of_iff _ (validate_iff s rv)

/-! ### the `_is_valid` cache -/

/-- cached-valid ⇒ the current schema is valid -/
def CacheInv (st : CacheState) : Prop := st.isValid = true → ValidSchema st.schema true

def isResolverOp : Op → Bool
  | .replaceTypes _ _ _ => false
  | .assignStructure _ _ => false
  | _ => true

private theorem registerDefault_inv (st : CacheState) (tn : String) (r : ResolverD) (allow : Bool)
    (h : CacheInv st) : CacheInv (registerDefault st tn r allow).1 := by
  unfold registerDefault
  split
  · exact h
  · cases st.schema.findType tn with
    | none => exact h
    | some t =>
      simp only []
      split
      · exact h
      · split
        · exact h
        · intro hv; simp at hv

private theorem step_inv_resolver (st : CacheState) (op : Op) (hop : isResolverOp op = true)
    (h : CacheInv st) : CacheInv (step st op).1 := by
  cases op with
  | validate =>
    simp only [step]
    split
    · exact h
    · split
      · rename_i hv
        intro _
        exact (validate_iff _ _).1 (List.isEmpty_iff.1 hv)
      · exact h
  | registerDefaultResolver tn r allow => exact registerDefault_inv st tn r allow h
  | registerResolver tn fn r allow same =>
    simp only [step]
    split
    · have := registerDefault_inv st tn r false h
      cases hrd : registerDefault st tn r false with
      | mk st1 o =>
        rw [hrd] at this
        simp only []
        split <;> exact this
    · split
      · exact h
      · cases st.schema.findType tn with
        | none => exact h
        | some t =>
          simp only []
          split
          · exact h
          · cases fieldMap t fn with
            | none => exact h
            | some f =>
              simp only []
              split
              · exact h
              · intro hv; simp at hv
  | registerSubscription tn fn r allow same =>
    simp only [step]
    split
    · exact h
    · cases st.schema.findType tn with
      | none => exact h
      | some t =>
        simp only []
        split
        · exact h
        · cases fieldMap t fn with
          | none => exact h
          | some f =>
            simp only []
            split
            · exact h
            · intro hv; simp at hv
  | assignResolver lvl tn fn r same =>
    simp only [step]
    split
    · exact h
    · intro hv
      have : cfgCacheTracksAssignments = true := by decide
      simp [this] at hv
  | assignArguments tn fn args =>
    simp only [step]
    intro hv
    have : cfgCacheTracksArguments = true := by decide
    simp [this] at hv
  | replaceTypes es ds hl => simp [isResolverOp] at hop
  | assignStructure s' seen => simp [isResolverOp] at hop

/-- **Cache soundness (the statement: the verdict is recomputed after resolvers are reassigned).**
    In every state reachable by `validate()`, `register_resolver`, `register_default_resolver`,
    `register_subscription` calls (successful or raising), in any order and number, a cached
    verdict `_is_valid = True` implies that the CURRENT schema is valid. -/
theorem cache_sound (st : CacheState) (h : CacheInv st) (ops : List Op)
    (hops : ∀ op ∈ ops, isResolverOp op = true) : CacheInv (run st ops) := by
  induction ops generalizing st with
  | nil => exact h
  | cons op ops ih =>
    simp only [run]
    exact ih _ (step_inv_resolver st op (hops op (List.mem_cons_self ..)) h)
      (fun o ho => hops o (List.mem_cons_of_mem _ ho))

/-- consequence: whenever `validate()` returns normally after such a history, the schema is valid -/
theorem validate_ok_means_valid (st : CacheState) (h : CacheInv st) (ops : List Op)
    (hops : ∀ op ∈ ops, isResolverOp op = true)
    (hok : (step (run st ops) .validate).2 = .ok) : ValidSchema (run st ops).schema true := by
  have hinv := cache_sound st h ops hops
  simp only [step] at hok
  split at hok
  · rename_i hv; exact hinv hv
  · split at hok
    · rename_i hv; exact (validate_iff _ _).1 (List.isEmpty_iff.1 hv)
    · simp at hok

/-- a fresh schema object (`_is_valid = None`) satisfies the invariant -/
theorem cacheInv_init (s : SchemaD) : CacheInv { schema := s } := by
  intro h; simp at h

/-! #### `_replace_types_and_directives` -/

/-- the T3 fix is in the tree: `busted_cache = busted_cache or …` -/
private theorem replace_accumulates : replaceAccumulates = true := by decide
/-- fix C13-T3b is in the tree: refusals happen before the first mutation -/
private theorem replace_atomic : replaceAtomic = true := by decide
/-- fix C13-T3b is in the tree: replaced directives bust the caches (flag checks like this one are `private`: they are
    not property theorems; a tree without the fix makes the `decide` fail and the module is reported as not building) -/
private theorem replace_directives_bust : replaceDirectivesBust = true := by decide

/-- well-formed request (a Python dict keyed by the name of the new object) with honest identity flags:
    `same = true` means the new object IS what is registered under that name. -/
def HonestTypeEntries (types : List TypeD) (es : List (String × Option TypeD × Bool)) : Prop :=
  (es.map (·.1)).Nodup ∧
  ∀ e ∈ es, (∀ new, e.2.1 = some new → new.name = e.1) ∧
    (e.2.2 = true → ∀ t ∈ types, (t.name == e.1) = true → e.2.1 = some t)

def HonestDirEntries (dirs : List DirectiveD) (es : List (String × Option DirectiveD × Bool)) : Prop :=
  (es.map (·.1)).Nodup ∧
  ∀ e ∈ es, (∀ new, e.2.1 = some new → new.name = e.1) ∧
    (e.2.2 = true →
      match e.2.1 with
      | none => ∀ d ∈ dirs, (d.name == e.1) = false
      | some new => dirs.any (·.name == e.1) = true ∧ ∀ d ∈ dirs, (d.name == e.1) = true → d = new)

def HonestOp (st : CacheState) : Op → Prop
  | .replaceTypes es ds _ => HonestTypeEntries st.schema.types es ∧ HonestDirEntries st.schema.directives ds
  /- a structural plain assignment keeps the invariant when `validate()` can see it (`seen`), or when it is made
     before any verdict was cached; the other case is `cache_unsound_unseen_structural_setter` -/
  | .assignStructure _ seen => cfgCacheTracksStructure = true ∨ seen = true ∨ st.isValid = false
  | _ => True

private theorem map_replace_id {α} (name : α → String) (xs : List α) (n : String) (new : α)
    (h : ∀ t ∈ xs, (name t == n) = true → t = new) :
    xs.map (fun t => if name t == n then new else t) = xs := by
  induction xs with
  | nil => rfl
  | cons t ts ih =>
    simp only [List.map_cons]
    rw [ih (fun u hu => h u (List.mem_cons_of_mem _ hu))]
    by_cases hn : (name t == n) = true
    · rw [if_pos hn, h t (List.mem_cons_self ..) hn]
    · rw [if_neg hn]

private theorem find_filter_ne {α} (name : α → String) (xs : List α) (n m : String) (hne : m ≠ n) :
    (xs.filter fun t => !(name t == n)).find? (fun t => name t == m) = xs.find? (fun t => name t == m) := by
  induction xs with
  | nil => rfl
  | cons t ts ih =>
    by_cases hn : (name t == n) = true
    · have htm : (name t == m) = false := by
        have : name t = n := by simpa using hn
        simp [this, Ne.symm hne]
      simp [List.filter_cons, hn, List.find?_cons, htm, ih]
    · have hn' : (name t == n) = false := by simpa using hn
      simp [List.filter_cons, hn', List.find?_cons, ih]

private theorem find_map_ne {α} (name : α → String) (xs : List α) (n m : String) (new : α)
    (hnew : name new = n) (hne : m ≠ n) :
    (xs.map fun t => if name t == n then new else t).find? (fun t => name t == m)
      = xs.find? (fun t => name t == m) := by
  induction xs with
  | nil => rfl
  | cons t ts ih =>
    by_cases hn : (name t == n) = true
    · have htn : name t = n := by simpa using hn
      have h1 : (name t == m) = false := by simp [htn, Ne.symm hne]
      have h2 : (name new == m) = false := by simp [hnew, Ne.symm hne]
      simp only [List.map_cons, List.find?_cons, hn, if_true, h1, h2]
      exact ih
    · have hn' : (name t == n) = false := by simpa using hn
      simp only [List.map_cons, List.find?_cons, hn', Bool.false_eq_true, if_false, ih]

private theorem honestTypes_tail {types types' : List TypeD} {e : String × Option TypeD × Bool}
    {es : List (String × Option TypeD × Bool)} (h : HonestTypeEntries types (e :: es))
    (hsub : ∀ t ∈ types', ∀ e' ∈ es, (t.name == e'.1) = true → t ∈ types) :
    HonestTypeEntries types' es := by
  obtain ⟨hnd, hall⟩ := h
  simp only [List.map_cons, List.nodup_cons] at hnd
  refine ⟨hnd.2, fun e' he' => ⟨(hall e' (List.mem_cons_of_mem _ he')).1, fun hs t ht hn => ?_⟩⟩
  exact (hall e' (List.mem_cons_of_mem _ he')).2 hs t (hsub t ht e' he' hn) hn

private theorem precheckTypes_congr (types types' : List TypeD) (es : List (String × Option TypeD × Bool))
    (h : ∀ e ∈ es, types'.find? (·.name == e.1) = types.find? (·.name == e.1)) :
    precheckTypes types' es = precheckTypes types es := by
  unfold precheckTypes
  induction es with
  | nil => rfl
  | cons e es ih =>
    simp only [List.any_cons]
    rw [h e (List.mem_cons_self ..), ih (fun e' he' => h e' (List.mem_cons_of_mem _ he'))]

/-- with the pre-check passed and accumulation, the type loop never raises, and a final
    `busted_cache = False` means nothing was replaced -/
private theorem applyReplace_spec : ∀ (es : List (String × Option TypeD × Bool)) (types : List TypeD) (b : Bool),
    HonestTypeEntries types es → precheckTypes types es = false →
    (applyReplace true types b es).2.2 = false ∧
      ((applyReplace true types b es).2.1 = false → b = false ∧ (applyReplace true types b es).1 = types) := by
  intro es
  induction es with
  | nil => intro types b _ _; simp [applyReplace]
  | cons e es ih =>
    intro types b hh hp
    obtain ⟨n, new?, same⟩ := e
    have hp' : precheckTypes types es = false := by
      unfold precheckTypes at hp ⊢; simp only [List.any_cons, Bool.or_eq_false_iff] at hp; exact hp.2
    have hp0 := hp
    unfold precheckTypes at hp0
    simp only [List.any_cons, Bool.or_eq_false_iff] at hp0
    have hhead := hp0.1
    have hnd := hh.1
    simp only [List.map_cons, List.nodup_cons] at hnd
    have hne : ∀ e' ∈ es, e'.1 ≠ n := fun e' he' heq => hnd.1 (List.mem_map.2 ⟨e', he', heq⟩)
    simp only [applyReplace]
    cases hf : types.find? (·.name == n) with
    | none =>
      simp only []
      exact ih types b (honestTypes_tail hh (fun t ht _ _ _ => ht)) hp'
    | some orig =>
      rw [hf] at hhead
      simp only [Bool.or_eq_false_iff] at hhead
      simp only [hhead.1, Bool.false_eq_true, if_false, Bool.true_and]
      have horig : orig ∈ types ∧ (orig.name == n) = true := by
        have := List.find?_some hf
        exact ⟨List.mem_of_find?_eq_some hf, this⟩
      cases new? with
      | none =>
        simp only []
        have hh' : HonestTypeEntries (types.filter fun t => !(t.name == n)) es :=
          honestTypes_tail hh (fun t ht _ _ _ => (List.mem_filter.1 ht).1)
        have hp'' : precheckTypes (types.filter fun t => !(t.name == n)) es = false := by
          rw [precheckTypes_congr _ _ _ (fun e' he' => find_filter_ne (·.name) types n e'.1 (hne e' he'))]; exact hp'
        obtain ⟨h1, h2⟩ := ih _ (b || !same) hh' hp''
        refine ⟨h1, fun hb => ?_⟩
        obtain ⟨hb', _⟩ := h2 hb
        simp only [Bool.or_eq_false_iff, Bool.not_eq_false'] at hb'
        have := (hh.2 (n, none, same) (List.mem_cons_self ..)).2 hb'.2 orig horig.1 horig.2
        simp at this
      | some new =>
        simp only [] at hhead ⊢
        have hk : (orig.kind != new.kind) = false := hhead.2
        simp only [hk, Bool.false_eq_true, if_false]
        have hnn : new.name = n := (hh.2 (n, some new, same) (List.mem_cons_self ..)).1 new rfl
        have hh' : HonestTypeEntries (types.map fun t => if t.name == n then new else t) es := by
          refine honestTypes_tail hh (fun t ht e' he' hn => ?_)
          obtain ⟨u, hu, rfl⟩ := List.mem_map.1 ht
          by_cases hun : (u.name == n) = true
          · simp only [hun, if_true] at hn
            have : e'.1 = n := by rw [← hnn]; exact (by simpa using hn : new.name = e'.1).symm
            exact absurd this (hne e' he')
          · simp only [hun, if_false]; exact hu
        have hp'' : precheckTypes (types.map fun t => if t.name == n then new else t) es = false := by
          rw [precheckTypes_congr _ _ _ (fun e' he' => find_map_ne (·.name) types n e'.1 new hnn (hne e' he'))]; exact hp'
        obtain ⟨h1, h2⟩ := ih _ (b || !same) hh' hp''
        refine ⟨h1, fun hb => ?_⟩
        obtain ⟨hb', ht⟩ := h2 hb
        simp only [Bool.or_eq_false_iff, Bool.not_eq_false'] at hb'
        refine ⟨hb'.1, ?_⟩
        rw [ht]
        refine map_replace_id (·.name) types n new (fun t htm hn => ?_)
        have := (hh.2 (n, some new, same) (List.mem_cons_self ..)).2 hb'.2 t htm hn
        exact (Option.some.inj this).symm

private theorem any_filter_ne (xs : List DirectiveD) (n m : String) (hne : m ≠ n) :
    (xs.filter fun d => !(d.name == n)).any (·.name == m) = xs.any (·.name == m) := by
  induction xs with
  | nil => rfl
  | cons d ds ih =>
    by_cases hn : (d.name == n) = true
    · have hdm : (d.name == m) = false := by
        have : d.name = n := by simpa using hn
        simp [this, Ne.symm hne]
      simp [List.filter_cons, hn, hdm, ih]
    · have hn' : (d.name == n) = false := by simpa using hn
      simp [List.filter_cons, hn', ih]

private theorem any_map_ne (xs : List DirectiveD) (n m : String) (new : DirectiveD) (hnew : new.name = n)
    (hne : m ≠ n) :
    (xs.map fun d => if d.name == n then new else d).any (·.name == m) = xs.any (·.name == m) := by
  induction xs with
  | nil => rfl
  | cons d ds ih =>
    by_cases hn : (d.name == n) = true
    · have hdn : d.name = n := by simpa using hn
      have h1 : (d.name == m) = false := by simp [hdn, Ne.symm hne]
      have h2 : (new.name == m) = false := by simp [hnew, Ne.symm hne]
      simp only [List.map_cons, List.any_cons, hn, if_true, h1, h2, ih]
    · have hn' : (d.name == n) = false := by simpa using hn
      simp only [List.map_cons, List.any_cons, hn', Bool.false_eq_true, if_false, ih]

private theorem honestDirs_tail {dirs dirs' : List DirectiveD} {e : String × Option DirectiveD × Bool}
    {es : List (String × Option DirectiveD × Bool)} (h : HonestDirEntries dirs (e :: es))
    (hsub : ∀ d ∈ dirs', ∀ e' ∈ es, (d.name == e'.1) = true → d ∈ dirs)
    (hany : ∀ e' ∈ es, dirs'.any (·.name == e'.1) = dirs.any (·.name == e'.1)) :
    HonestDirEntries dirs' es := by
  obtain ⟨hnd, hall⟩ := h
  simp only [List.map_cons, List.nodup_cons] at hnd
  refine ⟨hnd.2, fun e' he' => ⟨(hall e' (List.mem_cons_of_mem _ he')).1, fun hs => ?_⟩⟩
  have := (hall e' (List.mem_cons_of_mem _ he')).2 hs
  obtain ⟨m, new?, sm⟩ := e'
  cases new? with
  | none =>
    simp only [] at this ⊢
    intro d hd
    cases hdn : (d.name == m) with
    | false => rfl
    | true => exact absurd (this d (hsub d hd _ he' hdn)) (by simp [hdn])
  | some new =>
    simp only [] at this ⊢
    refine ⟨by rw [hany _ he']; exact this.1, fun d hd hn => this.2 d (hsub d hd _ he' hn) hn⟩

private theorem precheckDirs_congr (dirs dirs' : List DirectiveD) (es : List (String × Option DirectiveD × Bool))
    (h : ∀ e ∈ es, dirs'.any (·.name == e.1) = dirs.any (·.name == e.1)) :
    precheckDirectives dirs' es = precheckDirectives dirs es := by
  unfold precheckDirectives
  induction es with
  | nil => rfl
  | cons e es ih =>
    simp only [List.any_cons]
    rw [h e (List.mem_cons_self ..), ih (fun e' he' => h e' (List.mem_cons_of_mem _ he'))]

private theorem applyDirReplace_spec : ∀ (es : List (String × Option DirectiveD × Bool)) (dirs : List DirectiveD) (b : Bool),
    HonestDirEntries dirs es → precheckDirectives dirs es = false →
    (applyDirReplace true dirs b es).2.2 = false ∧
      ((applyDirReplace true dirs b es).2.1 = false → b = false ∧ (applyDirReplace true dirs b es).1 = dirs) := by
  intro es
  induction es with
  | nil => intro dirs b _ _; simp [applyDirReplace]
  | cons e es ih =>
    intro dirs b hh hp
    obtain ⟨n, new?, same⟩ := e
    have hp0 := hp
    unfold precheckDirectives at hp0
    simp only [List.any_cons, Bool.or_eq_false_iff] at hp0
    have hp' : precheckDirectives dirs es = false := by unfold precheckDirectives; exact hp0.2
    have hhead := hp0.1
    have hnd := hh.1
    simp only [List.map_cons, List.nodup_cons] at hnd
    have hne : ∀ e' ∈ es, e'.1 ≠ n := fun e' he' heq => hnd.1 (List.mem_map.2 ⟨e', he', heq⟩)
    simp only [applyDirReplace, hhead, Bool.false_eq_true, if_false, Bool.true_and]
    cases new? with
    | none =>
      simp only []
      have hany : ∀ e' ∈ es, (dirs.filter fun d => !(d.name == n)).any (·.name == e'.1) = dirs.any (·.name == e'.1) :=
        fun e' he' => any_filter_ne dirs n e'.1 (hne e' he')
      have hh' := honestDirs_tail hh (dirs' := dirs.filter fun d => !(d.name == n))
        (fun d hd _ _ _ => (List.mem_filter.1 hd).1) hany
      obtain ⟨h1, h2⟩ := ih _ (b || !same) hh' (by rw [precheckDirs_congr _ _ _ hany]; exact hp')
      refine ⟨h1, fun hb => ?_⟩
      obtain ⟨hb', hd⟩ := h2 hb
      simp only [Bool.or_eq_false_iff, Bool.not_eq_false'] at hb'
      refine ⟨hb'.1, ?_⟩
      rw [hd]
      have := (hh.2 (n, none, same) (List.mem_cons_self ..)).2 hb'.2
      simp only [] at this
      exact List.filter_eq_self.2 (fun d hd => by simp [this d hd])
    | some new =>
      simp only []
      have hnn : new.name = n := (hh.2 (n, some new, same) (List.mem_cons_self ..)).1 new rfl
      have hnm : ∀ e' ∈ es, (new.name == e'.1) = false := fun e' he' => by
        simp [hnn, Ne.symm (hne e' he')]
      have hany : ∀ e' ∈ es,
          (if dirs.any (·.name == n) then dirs.map (fun d => if d.name == n then new else d) else dirs ++ [new]).any
            (·.name == e'.1) = dirs.any (·.name == e'.1) := by
        intro e' he'
        split
        · exact any_map_ne dirs n e'.1 new hnn (hne e' he')
        · simp [List.any_append, hnm e' he']
      have hsub : ∀ d ∈ (if dirs.any (·.name == n) then dirs.map (fun d => if d.name == n then new else d) else dirs ++ [new]),
          ∀ e' ∈ es, (d.name == e'.1) = true → d ∈ dirs := by
        intro d hd e' he' hn
        split at hd
        · obtain ⟨u, hu, rfl⟩ := List.mem_map.1 hd
          by_cases hun : (u.name == n) = true
          · simp only [hun, if_true] at hn; rw [hnm e' he'] at hn; exact absurd hn (by simp)
          · simp only [hun, if_false]; exact hu
        · rcases List.mem_append.1 hd with hd | hd
          · exact hd
          · have : d = new := by simpa using hd
            subst this; rw [hnm e' he'] at hn; exact absurd hn (by simp)
      have hh' := honestDirs_tail hh hsub hany
      obtain ⟨h1, h2⟩ := ih _ (b || !same) hh' (by rw [precheckDirs_congr _ _ _ hany]; exact hp')
      refine ⟨h1, fun hb => ?_⟩
      obtain ⟨hb', hd⟩ := h2 hb
      simp only [Bool.or_eq_false_iff, Bool.not_eq_false'] at hb'
      refine ⟨hb'.1, ?_⟩
      rw [hd]
      have := (hh.2 (n, some new, same) (List.mem_cons_self ..)).2 hb'.2
      simp only [] at this
      rw [if_pos this.1]
      exact map_replace_id (·.name) dirs n new this.2

private theorem relook_id (s : SchemaD) (r : Option String) (h : RootOK s r) : relookRoot s.types r = r := by
  cases r with
  | none => rfl
  | some n =>
    have hk := h n rfl
    unfold kindOf SchemaD.findType at hk
    cases hf : s.types.find? (·.name == n) with
    | none => rw [hf] at hk; simp at hk
    | some t =>
      have hm := List.mem_of_find?_eq_some hf
      have hn := List.find?_some hf
      have : s.types.any (·.name == n) = true := List.any_eq_true.2 ⟨t, hm, hn⟩
      simp only [relookRoot, Option.bind, this, if_true]

private theorem replaced_id (s : SchemaD) (h : ValidSchema s true) : replaced s s.types s.directives = s := by
  obtain ⟨⟨_, hq, hm, hs⟩, _, _⟩ := h
  unfold replaced
  rw [relook_id s _ hq, relook_id s _ hm, relook_id s _ hs]

/-- one `_replace_types_and_directives` call (any number of type and directive entries, deletions
    included, refused or not) keeps the invariant -/
private theorem replace_inv (st : CacheState) (es : List (String × Option TypeD × Bool))
    (ds : List (String × Option DirectiveD × Bool)) (hl : Option SchemaD)
    (hh : HonestTypeEntries st.schema.types es ∧ HonestDirEntries st.schema.directives ds)
    (h : CacheInv st) : CacheInv (replaceStep true true true st es ds hl).1 := by
  unfold replaceStep
  simp only [Bool.true_and]
  cases hpt : precheckTypes st.schema.types es with
  | true => simpa using h
  | false =>
    cases hpd : precheckDirectives st.schema.directives ds with
    | true => simpa using h
    | false =>
      simp only [Bool.or_self, Bool.false_eq_true, if_false]
      obtain ⟨t1, t2⟩ := applyReplace_spec es st.schema.types false hh.1 hpt
      generalize applyReplace true st.schema.types false es = r at t1 t2
      obtain ⟨types, busted, raised⟩ := r
      simp only at t1 t2
      subst t1
      simp only []
      have hhd : HonestDirEntries st.schema.directives ds := hh.2
      obtain ⟨d1, d2⟩ := applyDirReplace_spec ds st.schema.directives busted hhd hpd
      generalize applyDirReplace true st.schema.directives busted ds = r2 at d1 d2
      obtain ⟨dirs, busted2, raised2⟩ := r2
      simp only at d1 d2
      subst d1
      simp only []
      cases busted2 with
      | true => intro hv; simp at hv
      | false =>
        obtain ⟨hb, hdirs⟩ := d2 rfl
        obtain ⟨_, htypes⟩ := t2 hb
        subst hdirs htypes
        simp only [Bool.false_eq_true, if_false]
        intro hv
        have hvs := h hv
        show ValidSchema (replaced st.schema st.schema.types st.schema.directives) true
        rw [replaced_id _ hvs]; exact hvs

/-- every operation of the machine keeps the invariant (the replace requests being honest about identity) -/
theorem step_inv (st : CacheState) (op : Op) (hh : HonestOp st op) (h : CacheInv st) : CacheInv (step st op).1 := by
  cases op with
  | replaceTypes es ds hl =>
    simp only [step, replace_accumulates, replace_atomic, replace_directives_bust]
    exact replace_inv st es ds hl hh h
  | validate => exact step_inv_resolver st _ rfl h
  | registerDefaultResolver tn r a => exact step_inv_resolver st _ rfl h
  | registerResolver tn fn r a sm => exact step_inv_resolver st _ rfl h
  | registerSubscription tn fn r a sm => exact step_inv_resolver st _ rfl h
  | assignResolver lvl tn fn r sm => exact step_inv_resolver st _ rfl h
  | assignArguments tn fn args => exact step_inv_resolver st _ rfl h
  | assignStructure s' seen =>
    simp only [step, assignStructureStep]
    intro hv
    rcases hh with hs | hs | hs
    · rw [hs] at hv; simp at hv
    · rw [hs] at hv; simp at hv
    · rw [hs] at hv; simp at hv

/-- every replace request met along the history is honest about object identity -/
def HonestRun : CacheState → List Op → Prop
  | _, [] => True
  | st, op :: ops => HonestOp st op ∧ HonestRun (step st op).1 ops

/-- **Cache soundness, all operations** (FULL: `validate`, the three `register_*`, and
    `_replace_types_and_directives` with any number of type / directive entries, replacements and
    deletions, successful or refused): in every reachable state a cached verdict implies that the
    CURRENT schema is valid. Rests on `replace_accumulates`, `replace_atomic`,
    `replace_directives_bust` — the shape of the function as extracted from the source on this run. -/
theorem cache_sound_all (st : CacheState) (h : CacheInv st) (ops : List Op) (hh : HonestRun st ops) :
    CacheInv (run st ops) := by
  induction ops generalizing st with
  | nil => exact h
  | cons op ops ih => exact ih _ (step_inv st op hh.1 h) hh.2

/-- fix C13-HH1 is in the tree: the cached verdict stands only for the resolver callables it was computed with
    (so `cache_sound` / `cache_sound_all` cover PLAIN ASSIGNMENT of resolvers at the schema, type and field level) -/
private theorem cache_tracks_assignments : cfgCacheTracksAssignments = true := by decide
/-- fix C13-HH2 is in the tree: the signature that is validated is the one of the callable the executor calls -/
private theorem signature_of_the_callable : cfgOuterSignature = true := by decide
/-- fix C13-HHH3 is in the tree: the cached verdict also stands for the arguments of every field (plain assignment
    `field.arguments = [...]` makes `validate()` recompute). Types, names and members edited in place are NOT tracked:
    the statement speaks of registering / reassigning resolvers (see ASSUMPTIONS). -/
private theorem cache_tracks_arguments : cfgCacheTracksArguments = true := by decide

/-! #### the legacy variants of `_replace_types_and_directives` (code that no longer exists) -/

private def wQuery : TypeD := { kind := .object, name := "Query", fields := [{ name := "a", type := .named "Int" }] }
private def wA : TypeD := { kind := .object, name := "A", fields := [{ name := "a", type := .named "Int" }] }
private def wI : TypeD := { kind := .interface, name := "A", fields := [{ name := "a", type := .named "Int" }] }
private def wInt : TypeD := { kind := .scalar, name := "Int", builtin := true }
private def wSchema : SchemaD := { types := [wInt, wQuery, wA] }
private def wState : CacheState := { schema := wSchema, isValid := true }

private theorem wState_inv : CacheInv wState := fun _ => (validate_iff _ _).1 (by decide)

/-- LEGACY (before the T3 fix, `busted_cache` overwritten by every entry): `{A: <A without fields>,
    Query: <same object>}` kept `_is_valid = True` on an invalid schema. -/
theorem legacy_overwrite_unsound :
    ¬ CacheInv (replaceStep false false false wState
        [("A", some { wA with fields := [] }, false), ("Query", some wQuery, true)] [] none).1 := by
  intro h
  have := h (by decide)
  rw [← validate_iff] at this
  exact absurd this (by decide)

/-- LEGACY (before fix C13-T3b, refusals raised half way): `{A: <A without fields>, Query: <an interface>}`
    raised `SchemaError` after `A` had been replaced, keeping `_is_valid = True`. -/
theorem legacy_nonatomic_unsound :
    ¬ CacheInv (replaceStep true false false wState
        [("A", some { wA with fields := [] }, false), ("Query", some { wQuery with kind := .interface }, false)] [] none).1 := by
  intro h
  have := h (by decide)
  rw [← validate_iff] at this
  exact absurd this (by decide)

/-- LEGACY (before fix C13-T3b): a replaced directive never reset the verdict. -/
theorem legacy_directive_unsound :
    ¬ CacheInv (replaceStep true true false { wState with schema := { wSchema with directives := [{ name := "d", locations := ["FIELD"] }] } }
        [] [("d", some { name := "d", locations := ["FIELD"], args := [{ name := "__x", type := .named "Int" }] }, false)] none).1 := by
  intro h
  have := h (by decide)
  rw [← validate_iff] at this
  exact absurd this (by decide)

/-! #### the complete set of public mutators: structural setters -/

/-- a structural plain assignment that `validate()` can see (it changes `_current_resolvers()`) resets the verdict,
    whatever it does to the schema -/
theorem structural_setter_seen_sound (st : CacheState) (s' : SchemaD) :
    CacheInv (step st (.assignStructure s' true)).1 := by
  simp only [step, assignStructureStep]; intro hv; simp at hv

/-- **cache soundness over EVERY public mutator**: replace requests honest about identity, everything else
    unrestricted - structural plain assignments included, seen by the probe or not -/
def CacheSoundAllMutators : Prop :=
  ∀ (st : CacheState), CacheInv st → ∀ op : Op,
    (∀ es ds hl, op = .replaceTypes es ds hl → HonestOp st op) → CacheInv (step st op).1

/- `cache_sound_all_mutators` (FULL since fix C13-S12) is in Props/C13_s12.lean: it needs the flag
   `cfgCacheTracksStructure` to be `true`, i.e. proposed_fixes/C13-S12.patch in the tree. -/

private def wSchemaBad : SchemaD := { types := [wInt, wQuery, { wA with interfaces := ["Query"] }] }

/-- the machine of the tree BEFORE fix C13-S12: the verdict is reset only by the assignments the comparison sees -/
def stepBeforeS12 (st : CacheState) : Op → CacheState × Outcome
  | .assignStructure s' seen => assignStructureStep false st s' seen
  | op => step st op

def CacheSoundAllMutatorsBeforeS12 : Prop :=
  ∀ (st : CacheState), CacheInv st → ∀ op : Op,
    (∀ es ds hl, op = .replaceTypes es ds hl → HonestOp st op) → CacheInv (stepBeforeS12 st op).1

/-- **Refutation, LEGACY (the tree before fix C13-S12).** After `validate()`, `schema.types["A"].interfaces = [Query]`
    (an object type "implementing" an object type; equally `field.type = <input type>`, `union.types = []`,
    `input_type.fields = []`, `input_field.type = <object type>`, `type.name = "__T"`,
    `schema.query_type = <interface>`): no resolver, no argument object and no count changed, `_current_resolvers()`
    was the same tuple, and `validate()` kept returning although the schema was invalid. Outside the property's
    statement ("recomputed after resolvers are reassigned"); repaired by proposed_fixes/C13-S12.patch. -/
theorem cache_unsound_unseen_structural_setter :
    CacheInv wState ∧ wState.isValid = true ∧
      ¬ CacheInv (stepBeforeS12 wState (.assignStructure wSchemaBad false)).1 := by
  refine ⟨wState_inv, rfl, ?_⟩
  intro h
  have := h (by decide)
  rw [← validate_iff] at this
  exact absurd this (by decide)

/-- (name kept: "today" was the tree before fix C13-S12) the statement over every mutator failed there -/
theorem cache_sound_all_mutators_fails_today : ¬ CacheSoundAllMutatorsBeforeS12 := by
  intro h
  exact cache_unsound_unseen_structural_setter.2.2
    (h wState wState_inv (.assignStructure wSchemaBad false) (fun es ds hl e => by cases e))

example : HonestRun wState [.assignStructure wSchemaBad true, .validate]
    ∧ runTrace wState [.assignStructure wSchemaBad true, .validate] = [.ok, .validationError] := by
  refine ⟨⟨Or.inr (Or.inl rfl), trivial, trivial⟩, by decide⟩

/-! ### independence of the order of types -/

private theorem find_iff (l : List TypeD) (hnd : (l.map (·.name)).Nodup) (n : String) (t : TypeD) :
    l.find? (·.name == n) = some t ↔ t ∈ l ∧ t.name = n := by
  induction l with
  | nil => simp
  | cons x xs ih =>
    simp only [List.map_cons, List.nodup_cons] at hnd
    simp only [List.find?_cons]
    by_cases hx : (x.name == n) = true
    · simp only [hx]
      have hxn : x.name = n := by simpa using hx
      constructor
      · intro h; cases h; exact ⟨List.mem_cons_self .., hxn⟩
      · rintro ⟨hm, hn⟩
        rcases List.mem_cons.1 hm with rfl | hm
        · rfl
        · exact absurd (List.mem_map.2 ⟨t, hm, hn.trans hxn.symm⟩) hnd.1
    · have hx' : (x.name == n) = false := by simpa using hx
      simp only [hx']
      rw [ih hnd.2]
      constructor
      · rintro ⟨hm, hn⟩; exact ⟨List.mem_cons_of_mem _ hm, hn⟩
      · rintro ⟨hm, hn⟩
        rcases List.mem_cons.1 hm with rfl | hm
        · exact absurd (by simpa using hn) hx
        · exact ⟨hm, hn⟩

private theorem findType_perm (s s' : SchemaD) (hp : s'.types.Perm s.types)
    (hnd : (s.types.map (·.name)).Nodup) : s'.findType = s.findType := by
  funext n
  have hnd' : (s'.types.map (·.name)).Nodup := (hp.map _).nodup_iff.2 hnd
  apply Option.ext
  intro t
  simp only [SchemaD.findType]
  rw [find_iff _ hnd', find_iff _ hnd, hp.mem_iff]

private theorem typeOK_congr (s s' : SchemaD) (rv : Bool) (hl : s'.findType = s.findType)
    (hd : s'.defaultResolver = s.defaultResolver) :
    (∀ t, TypeOK s' rv t ↔ TypeOK s rv t) ∧ (kindOf s' = kindOf s) ∧
      (∀ args, ArgsOK s' args ↔ ArgsOK s args) := by
  have hk : kindOf s' = kindOf s := by funext n; simp [kindOf, hl]
  have hi : isInputType s' = isInputType s := by funext t; simp [isInputType, hk]
  have ho : isOutputType s' = isOutputType s := by funext t; simp [isOutputType, hk]
  have hab : isAbstractTy s' = isAbstractTy s := by funext t; cases t <;> simp [isAbstractTy, hk]
  have hob : isObjectTy s' = isObjectTy s := by funext t; cases t <;> simp [isObjectTy, hk]
  have hpo : isPossibleType s' = isPossibleType s := by
    funext a b; cases a <;> cases b <;> simp [isPossibleType, hl]
  have hit : ∀ k, subIter s' k = subIter s k := by
    intro k; induction k with
    | zero => rfl
    | succ k ih => simp [subIter, hab, hob, hpo, ih]
  have hS : ∀ a b, Subtype s' a b ↔ Subtype s a b := by
    intro a b; rw [← subtype_iff, ← subtype_iff]; simp [isSubtype, hit]
  have hp : pickResolver s' = pickResolver s := by funext t f; simp [pickResolver, hd]
  have hdb : ∀ n, defaultBad s' n = defaultBad s n := by
    intro n
    induction n with
    | zero => funext ty v; simp [defaultBad]
    | succ n ih =>
      funext ty v
      cases ty <;> cases v <;> simp [defaultBad, hl, ih]
  have hdo : ∀ a, DefaultOK s' a ↔ DefaultOK s a := by intro a; unfold DefaultOK; rw [hdb]
  refine ⟨?_, ?_, ?_⟩
  · intro t
    unfold TypeOK FieldsOK InterfacesOK UnionOK InputOK ArgsOK ResolverOK Implements
    simp only [hk, hi, ho, hS, hp, hl, hdo]
  · exact hk
  · intro args; unfold ArgsOK; simp only [hi, hdo]

/-- **Order of types.** Two descriptions that list the same types in a different order (names unique,
    as in `schema.types`) and agree on everything else get the same verdict. -/
theorem perm_types (s s' : SchemaD) (rv : Bool) (hp : s'.types.Perm s.types)
    (hnd : (s.types.map (·.name)).Nodup)
    (hdir : s'.directives = s.directives) (hq : s'.query = s.query) (hm : s'.mutation = s.mutation)
    (hsub : s'.subscription = s.subscription) (hd : s'.defaultResolver = s.defaultResolver) :
    validate s' rv = [] ↔ validate s rv = [] := by
  rw [validate_iff, validate_iff]
  obtain ⟨ht, hr, ha⟩ := typeOK_congr s s' rv (findType_perm s s' hp hnd) hd
  unfold ValidSchema DirectivesOK
  have hr' : RootsOK s' ↔ RootsOK s := by
    unfold RootsOK RootOK; rw [hq, hm, hsub, hr]
  rw [hr', hdir]
  simp only [ht, ha, hp.mem_iff]

/-! ### all violations are reported together -/

/-- **Never stops at the first error (top level).** Every error of the root-type check, of EVERY type of
    the schema and of the directive check is part of the report, whatever else is wrong.
    (The element-level statement is `violation_iff` in `Props/C13_report.lean`.) -/
theorem reports_all (s : SchemaD) (rv : Bool) :
    (∀ e ∈ validateRootTypes s, e ∈ validate s rv) ∧
    (∀ t ∈ s.types, ∀ e ∈ validateType s rv t, e ∈ validate s rv) ∧
    (∀ e ∈ validateDirectives s, e ∈ validate s rv) := by
  rw [validate_eq]
  unfold validateFixed validateWith
  refine ⟨?_, ?_, ?_⟩
  · intro e he; simp [he]
  · intro t ht e he
    simp only [List.mem_append, List.mem_flatMap]
    exact Or.inl (Or.inr ⟨t, ht, he⟩)
  · intro e he; simp only [List.mem_append]; exact Or.inr he

/-! ### names -/

/-- the pattern is anchored with `\Z` (fix S7): no trailing-newline loophole -/
private theorem name_anchor_strict : nameDollarQuirk = false := by decide

private theorem nameStart_spec (c : Nat) : nameStart c = true ↔ (c = 95 ∨ isLetter c = true) := by
  simp [nameStart, isLetter]; omega

private theorem nameCont_spec (c : Nat) : nameCont c = true ↔ (c = 95 ∨ isLetter c = true ∨ isDigit c = true) := by
  simp [nameCont, isLetter, isDigit]; omega

/-- **Names.** `VALID_NAME_RE` (character classes extracted from the source) accepts exactly the
    grammar's `Name`s that do not start with two underscores. -/
theorem name_iff (cs : List Nat) : matchName cs = true ↔ NameOK cs := by
  unfold matchName NameOK
  have hq : nameForbiddenPrefix = [95, 95] := by decide
  rw [hq]
  cases cs with
  | nil => simp
  | cons c rest =>
    simp only [name_anchor_strict, Bool.false_and, Bool.false_eq_true, if_false, Bool.and_eq_true,
      Bool.not_eq_true', List.all_eq_true, nameStart_spec, nameCont_spec]
    constructor
    · rintro ⟨hp, hs, hc⟩
      refine ⟨⟨c, rest, rfl, hs, hc⟩, ?_⟩
      intro hpre
      have : List.isPrefixOf [95, 95] (c :: rest) = true := List.isPrefixOf_iff_prefix.2 hpre
      rw [this] at hp; exact absurd hp (by simp)
    · rintro ⟨⟨c', rest', heq, hs, hc⟩, hp⟩
      cases heq
      refine ⟨?_, hs, hc⟩
      cases hpre : List.isPrefixOf [95, 95] (c :: rest) with
      | false => rfl
      | true => exact absurd (List.isPrefixOf_iff_prefix.1 hpre) hp

/-! ### extracted tables -/

/-- every call site the model can produce is an `add_error` call site found in the source today -/
theorem model_rules_extracted :
    (Rule.all.all fun r => (ruleFormats.map (·.1)).contains r.id) = true := by decide

/-- the proposed fix C13-S4-S6 is in the tree the theorems were checked against -/
private theorem fix_present : fixS4S6 = true := by decide

/-! ### defect S4 (before the fix) and non-vacuity -/

private def exInt : TypeD := { kind := .scalar, name := "Int", builtin := true }
/-- `type A{a:Int} type Query implements A{a:Int}` -/
private def exS4 : SchemaD :=
  { types := [exInt,
      { kind := .object, name := "A", fields := [{ name := "a", type := .named "Int" }] },
      { kind := .object, name := "Query", interfaces := ["A"], fields := [{ name := "a", type := .named "Int" }] }] }

/-- S4 (fixed behaviour): implementing a non-interface is rejected, with its own rule -/
theorem s4_rejected : validate exS4 true = [⟨.notInterface, ["Query", "A"]⟩] := by decide

private def exRes : ResolverD :=
  { params := [{ name := "root" }, { name := "ctx" }, { name := "info" }, { name := "x", hasDefault := true },
               { name := "kw", kind := .varKw }] }
private def exRes2 : ResolverD :=
  { params := [{ name := "root" }, { name := "ctx" }, { name := "kw", kind := .varKw }] }

private def exIfaceF : FieldD := { name := "f", type := .list (.named "I"), args := [{ name := "x", type := .named "Int" }] }
private def exObjF : FieldD := { name := "f", type := .nonNull (.list (.nonNull (.named "Query"))), args := [{ name := "x", type := .named "Int" }, { name := "y", type := .named "Int" }], resolver := some exRes }
private def exGood : SchemaD :=
  { types := [exInt, { kind := .interface, name := "I", fields := [exIfaceF] },
              { kind := .object, name := "Query", interfaces := ["I"], fields := [exObjF] }] }

example : ValidSchema exGood true := (validate_iff _ _).1 (by decide)
example : Subtype exGood (.nonNull (.list (.nonNull (.named "Query")))) (.list (.named "I")) :=
  (subtype_iff _ _ _).1 (by decide)
example : ¬ Subtype exGood (.list (.named "Query")) (.list (.nonNull (.named "I"))) := by
  rw [← subtype_iff]; decide
/-- two violations in two different types are both reported -/
example : (validate { exGood with types := exGood.types ++
    [{ kind := .union, name := "U" }, { kind := .enum, name := "__E", values := [{ name := "V", value := .str "V" }] }] } true).map (·.rule)
    = [.unionEmpty, .invalidTypeName] := by decide
/-- a cache history: validate, register a resolver with 2 positional parameters, validate again -/
example : runTrace { schema := exGood } [.validate,
    .registerResolver "Query" "f" exRes2 true false,
    .validate] = [.ok, .ok, .validationError] := by decide
example : CacheInv { schema := exGood, isValid := false } := cacheInv_init _
example : matchName [95, 97] = true ∧ matchName [95, 95, 97] = false ∧ matchName [97, 10] = false := by decide

end PyGql.Props.C13

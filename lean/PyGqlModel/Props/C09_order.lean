/-
  C09 — document order at TRACE level, for EVERY schedule, and the `args` queue of
  `execute_fields_serially` as an invariant over the steps of the run.
-/
import PyGqlModel.Lemmas.ExecSerialOrder
import PyGqlModel.Props.C09

set_option linter.unusedVariables false
set_option linter.unusedSimpArgs false

namespace PyGql.Props.C09
open PyGql.AsyncExec

/-- **serial_queue_invariant.** The queue state machine tied to the trace, over all steps: after `execute` and
    after ANY number of completions in ANY order, as long as the overall result waits on the serial callback
    holding the queue `args` (`tArgs top = some args`), the top-level resolvers invoked so far followed by the
    queue are exactly the top-level fields in document order — nothing was skipped, repeated or reordered, and
    nothing in the queue has been invoked; once no queue is left (finished or failed) the invoked ones are a
    prefix of the document order. -/
theorem serial_queue_invariant (fields : Flds) (schedule : List Nat) :
    match execute ⟨.mutation, fields⟩ {} with
    | (.exc _, s) => topKeys s.trace <+: fields.keys
    | (.ok top, s) =>
      match tArgs (runSched top s [] schedule).top with
      | some args => topKeys (runSched top s [] schedule).st.trace ++ args.keys = fields.keys
      | none => topKeys (runSched top s [] schedule).st.trace <+: fields.keys := by
  have hq := execute_q fields
  have hx := execute_serial fields
  cases hr : execute ⟨.mutation, fields⟩ {} with
  | mk r s =>
    rw [hr] at hq hx
    cases r with
    | exc e => exact hq
    | ok top =>
      simp only at hq hx ⊢
      have := runSched_q fields.keys schedule top s [] hx hq
      unfold OrdInv QOk at this
      exact this

/-- **top_calls_in_document_order.** In the trace of every mutation under every schedule (all resolver modes,
    all outcomes) the top-level resolver invocations, in the order they happen, are a PREFIX of the top-level
    response keys in document order. -/
theorem top_calls_in_document_order (fields : Flds) (schedule : List Nat) :
    topKeys (runAsync ⟨.mutation, fields⟩ schedule).trace <+: fields.keys := by
  have h := serial_queue_invariant fields schedule
  unfold runAsync
  cases hr : execute ⟨.mutation, fields⟩ {} with
  | mk r s =>
    rw [hr] at h
    cases r with
    | exc e => exact h
    | ok top =>
      simp only at h ⊢
      cases ha : tArgs (runSched top s [] schedule).top with
      | none => rw [ha] at h; exact h
      | some args => rw [ha] at h; exact ⟨args.keys, h⟩

/-- the `j`-th top-level invocation is the `j`-th top-level field -/
theorem jth_call_is_jth_field (fields : Flds) (schedule : List Nat) (j : Nat) (k : String)
    (h : (topKeys (runAsync ⟨.mutation, fields⟩ schedule).trace)[j]? = some k) : fields.keys[j]? = some k := by
  obtain ⟨t, ht⟩ := top_calls_in_document_order fields schedule
  rw [← ht]
  have hj : j < (topKeys (runAsync ⟨.mutation, fields⟩ schedule).trace).length := by
    rcases Nat.lt_or_ge j (topKeys (runAsync ⟨.mutation, fields⟩ schedule).trace).length with hl | hl
    · exact hl
    · rw [List.getElem?_eq_none hl] at h; cases h
  rw [List.getElem?_append_left hj]
  exact h

/-- **no_later_call_before_earlier_done.** Trace level, EVERY schedule: at each top-level invocation
    `call [k]` in the trace (1) every resolver invoked before it — all of them belong to earlier top-level fields
    and their sub-selections — has finished, and (2) `k` is exactly the next top-level field in document order
    after those invoked before: the invocations before it are the fields in front of `k`, so no field written
    later than `k` has been invoked yet. -/
theorem no_later_call_before_earlier_done (fields : Flds) (schedule : List Nat) (pre post : List Ev) (k : String)
    (htrace : (runAsync ⟨.mutation, fields⟩ schedule).trace = pre ++ Ev.call [.key k] :: post) :
    ncalls pre = ndones pre ∧ topKeys pre ++ [k] <+: fields.keys := by
  refine ⟨serial_order fields schedule pre post k htrace, ?_⟩
  obtain ⟨t, ht⟩ := top_calls_in_document_order fields schedule
  rw [htrace] at ht
  exact ⟨topKeys post ++ t, by simpa using ht⟩

/-- non-vacuity: `mutation { m1 { c d } m2 m3 }` with `m1`, `c`, `d`, `m3` deferred; whatever the schedule
    prefix, the top-level invocations are `m1`, then `m1 m2 m3`. -/
example :
    let sub := Comp.obj (.cons "c" .deferred (.ok (.leaf 1)) (.cons "d" .deferred (.ok (.leaf 2)) .nil))
    let op : Op := ⟨.mutation, .cons "m1" .deferred (.ok sub) (.cons "m2" .sync (.ok (.leaf 5)) (.cons "m3" .deferred .rerr .nil))⟩
    topKeys (runAsync op [0]).trace = ["m1"] ∧ topKeys (runAsync op [0, 1]).trace = ["m1"]
      ∧ topKeys (runAsync op [0, 1, 0]).trace = ["m1", "m2", "m3"] ∧ op.fields.keys = ["m1", "m2", "m3"] := by
  decide

end PyGql.Props.C09

/-
  C12 — the builder ignores the applied custom directives of the document the printer denotes:
  `build (schemaToDocA s c apps) = .ok s` (no erasure), by congruence of every environment-reading function of the builder
  model under "same definitions up to custom applications".
-/
import PyGqlModel.Props.C12_custom
import PyGqlModel.Props.C12_erase
namespace PyGql.Props.C12
open PyGql PyGql.Sdl PyGql.SdlSpec PyGql.SdlPrint PyGql.SdlText PyGql.SdlPrintTA PyGql.Props.C11

section
variable (s : SchemaD) (c : OptsA) (apps : Apps)

/-- what the builder sees when it reads the document WITH applied directives -/
def docEnvA : Env := Env.of (s.types.map (typeToDefA s c apps))

theorem docEnvA_findAdditional (n : String) : (docEnvA s c apps).findAdditional n = none := rfl

theorem docEnvA_findDef (n : String) : (docEnvA s c apps).findDef n = (s.findType n).map (typeToDefA s c apps) := by
  simp only [docEnvA, Env.of, SchemaD.findType]
  induction s.types with
  | nil => rfl
  | cons t ts ih =>
    simp only [List.map_cons, List.find?_cons]
    have : (typeToDefA s c apps t).name = t.name := rfl
    rw [this]
    cases (t.name == n) <;> simp [ih]

theorem resolvesA (n : String) : (docEnvA s c apps).resolves n = (docEnv s).resolves n := by
  simp only [Env.resolves, docEnvA_findDef, docEnv_findDef, docEnvA_findAdditional, docEnv_findAdditional, Option.isSome_map]

theorem names_valuesA (t : TypeD) (v : String) :
    (t.values.map (enumValToDefA c apps t.name)).any (·.name == v) = (t.values.map enumValToDef).any (·.name == v) := by
  simp [List.any_map, Function.comp_def, enumValToDefA, enumValToDef]

theorem names_inputsA (path : String) (l : List ArgD) :
    (l.map (argToDefA s c apps path)).map (·.name) = (l.map (argToDef s)).map (·.name) := by
  simp [List.map_map, Function.comp_def, argToDefA, argToDef]

/-- `value_from_ast` over the two environments agrees -/
theorem valueFromAst_congrA : ∀ fuel : Nat,
    (∀ lit ty, valueFromAst (docEnvA s c apps) fuel lit ty = valueFromAst (docEnv s) fuel lit ty) ∧
    (∀ items t, coerceItems (docEnvA s c apps) fuel items t = coerceItems (docEnv s) fuel items t) ∧
    (∀ given path (l : List ArgD), coerceDefFields (docEnvA s c apps) fuel given (l.map (argToDefA s c apps path)) =
      coerceDefFields (docEnv s) fuel given (l.map (argToDef s))) ∧
    (∀ given l, coerceLiveFields (docEnvA s c apps) fuel given l = coerceLiveFields (docEnv s) fuel given l) := by
  intro fuel
  induction fuel with
  | zero => exact ⟨fun _ _ => rfl, fun _ _ => rfl, fun _ _ _ => rfl, fun _ _ => rfl⟩
  | succ k ih =>
    obtain ⟨i1, i2, i3, i4⟩ := ih
    refine ⟨?_, ?_, ?_, ?_⟩
    · intro lit ty
      cases ty with
      | nonNull t => cases lit <;> simp only [valueFromAst, i1]
      | list t => cases lit <;> simp only [valueFromAst, i1, i2]
      | named n =>
        cases lit <;> simp only [valueFromAst, docEnvA_findAdditional, docEnv_findAdditional, docEnvA_findDef, docEnv_findDef]
        all_goals (
          cases hft : s.findType n with
          | none => rfl
          | some t =>
            simp only [Option.map_some]
            have hk : (typeToDefA s c apps t).kind = (typeToDef s t).kind := rfl
            first
              | (rw [hk]; done)
              | (rw [hk]
                 cases hk2 : (typeToDef s t).kind
                 all_goals first
                   | rfl
                   | (simp only [typeToDefA, typeToDef, names_valuesA, i3, names_inputsA]; done)
                   | (simp only [typeToDefA, typeToDef, names_valuesA, i3, names_inputsA]; rfl)))
    · intro items t
      cases items with
      | nil => rfl
      | cons x xs => simp only [coerceItems, i1, i2]
    · intro given path l
      cases l with
      | nil => rfl
      | cons f fs =>
        simp only [List.map_cons, coerceDefFields, i3, i1]
        rfl
    · intro given l
      cases l with
      | nil => rfl
      | cons f fs => simp only [coerceLiveFields, i1, i4]
theorem mapM_map_congr {α β γ} (f g : α → β) (F G : β → R γ) : ∀ (l : List α), (∀ a ∈ l, F (f a) = G (g a)) →
    (l.map f).mapM F = (l.map g).mapM G
  | [], _ => rfl
  | a :: as, h => by
    simp only [List.map_cons, List.mapM_cons, h a (by simp), mapM_map_congr f g F G as (fun x hx => h x (by simp [hx]))]

theorem defaultValueA (lit : Lit) (ty : Ty) : defaultValue (docEnvA s c apps) lit ty = defaultValue (docEnv s) lit ty := by
  simp only [defaultValue, (valueFromAst_congrA s c apps coerceFuel).1]

theorem resolvesA_fun : (docEnvA s c apps).resolves = (docEnv s).resolves := funext (resolvesA s c apps)

theorem checkRefA (t : Ty) : checkRef (docEnvA s c apps) t = checkRef (docEnv s) t := by
  simp only [checkRef, resolvesA]

theorem buildArgumentA (path : String) (a : ArgD) :
    buildArgument (docEnvA s c apps) (argToDefA s c apps path a) = buildArgument (docEnv s) (argToDef s a) := by
  unfold buildArgument
  simp only [checkRefA, defaultValueA]
  rfl

theorem deprecationReason_kept (r : Option String) (path : String) :
    deprecationReason (deprDirs r ++ keptAt c apps path) = deprecationReason (deprDirs r) := by
  rw [← deprecationReason_erase (deprDirs r ++ keptAt c apps path), List.filter_append, filter_kept, isSpec_depr, List.append_nil]

theorem buildFieldA (tname : String) (f : FieldD) :
    buildField (docEnvA s c apps) (fieldToDefA s c apps tname f) = buildField (docEnv s) (fieldToDef s f) := by
  have hargs := mapM_map_congr (argToDefA s c apps (tname ++ "." ++ f.name)) (argToDef s) (buildArgument (docEnvA s c apps))
    (buildArgument (docEnv s)) f.args (fun a _ => buildArgumentA s c apps _ a)
  simp only [buildField, fieldToDefA, fieldToDef, checkRefA, hargs, deprecationReason_kept]

theorem buildEnumValueA (tname : String) (v : EnumValD) : buildEnumValue (enumValToDefA c apps tname v) = buildEnumValue (enumValToDef v) := by
  simp only [buildEnumValue, enumValToDefA, enumValToDef, deprecationReason_kept]

theorem buildTypeDefA (t : TypeD) :
    buildTypeDef (docEnvA s c apps) (typeToDefA s c apps t) = buildTypeDef (docEnv s) (typeToDef s t) := by
  have hf := mapM_map_congr (fieldToDefA s c apps t.name) (fieldToDef s) (buildField (docEnvA s c apps)) (buildField (docEnv s)) t.fields
    (fun f _ => buildFieldA s c apps t.name f)
  have hv := mapM_map_congr (enumValToDefA c apps t.name) enumValToDef buildEnumValue buildEnumValue t.values
    (fun v _ => buildEnumValueA c apps t.name v)
  have hi := mapM_map_congr (argToDefA s c apps t.name) (argToDef s) (buildArgument (docEnvA s c apps)) (buildArgument (docEnv s))
    t.inputFields (fun a _ => buildArgumentA s c apps t.name a)
  have hn : (t.values.map (enumValToDefA c apps t.name)).map (·.name) = (t.values.map enumValToDef).map (·.name) := by
    simp [List.map_map, Function.comp_def, enumValToDefA, enumValToDef]
  unfold buildTypeDef
  cases hk : t.kind <;> simp only [typeToDefA, typeToDef, hk, checkNames, resolvesA_fun, hf, hv, hi, hn]

theorem buildDirectiveA (d : DirectiveD) :
    buildDirective (docEnvA s c apps) (directiveToDefA s c apps d) = buildDirective (docEnv s) (directiveToDef s d) := by
  have ha := mapM_map_congr (argToDefA s c apps ("@" ++ d.name)) (argToDef s) (buildArgument (docEnvA s c apps))
    (buildArgument (docEnv s)) d.args (fun a _ => buildArgumentA s c apps _ a)
  simp only [buildDirective, directiveToDefA, directiveToDef, ha]
/-! ### the re-entrant thunk guard -/

theorem thunkNeeds_congrA : ∀ fuel : Nat,
    (∀ lit ty, thunkNeeds (docEnvA s c apps) fuel lit ty = thunkNeeds (docEnv s) fuel lit ty) ∧
    (∀ items t, thunkNeedsList (docEnvA s c apps) fuel items t = thunkNeedsList (docEnv s) fuel items t) ∧
    (∀ given path (l : List ArgD), thunkNeedsFields (docEnvA s c apps) fuel given (l.map (argToDefA s c apps path)) =
      thunkNeedsFields (docEnv s) fuel given (l.map (argToDef s))) := by
  intro fuel
  induction fuel with
  | zero => exact ⟨fun _ _ => rfl, fun _ _ => rfl, fun _ _ _ => rfl⟩
  | succ k ih =>
    obtain ⟨i1, i2, i3⟩ := ih
    refine ⟨?_, ?_, ?_⟩
    · intro lit ty
      cases ty with
      | nonNull t => simp only [thunkNeeds, i1]
      | list t => cases lit <;> simp only [thunkNeeds, i1, i2]
      | named n =>
        cases lit <;> simp only [thunkNeeds, docEnvA_findAdditional, docEnv_findAdditional, docEnvA_findDef, docEnv_findDef]
        cases hft : s.findType n with
        | none => rfl
        | some t =>
          simp only [Option.map_some]
          have hk : (typeToDefA s c apps t).kind = (typeToDef s t).kind := rfl
          rw [hk]
          simp only [typeToDefA, typeToDef, i3]
          rfl
    · intro items t
      cases items with
      | nil => rfl
      | cons x xs => simp only [thunkNeedsList, i1, i2]
    · intro given path l
      cases l with
      | nil => rfl
      | cons f fs =>
        simp only [List.map_cons, thunkNeedsFields, i3, i1]
        rfl

theorem thunkEdgesA (t : TypeD) : thunkEdges (docEnvA s c apps) (typeToDefA s c apps t) = thunkEdges (docEnv s) (typeToDef s t) := by
  simp only [thunkEdges, typeToDefA, typeToDef, List.flatMap_map, (thunkNeeds_congrA s c apps coerceFuel).1]
  rfl

theorem thunkReachA (target : String) : ∀ (fuel : Nat) (n : String),
    thunkReach (docEnvA s c apps) target fuel n = thunkReach (docEnv s) target fuel n
  | 0, _ => rfl
  | k + 1, n => by
    simp only [thunkReach, docEnvA_findDef, docEnv_findDef]
    cases s.findType n with
    | none => rfl
    | some t =>
      simp only [Option.map_some, thunkEdgesA]
      congr 1
      funext m
      rw [thunkReachA target k m]

theorem hasThunkCycleA : hasThunkCycle (docEnvA s c apps) (s.types.map (typeToDefA s c apps)) =
    hasThunkCycle (docEnv s) (s.types.map (typeToDef s)) := by
  simp only [hasThunkCycle, List.any_map, List.length_map, Function.comp_def, docEnvA_findAdditional, docEnv_findAdditional]
  congr 1
  funext t
  have hk : (typeToDefA s c apps t).kind = (typeToDef s t).kind := rfl
  have hn : (typeToDefA s c apps t).name = (typeToDef s t).name := rfl
  rw [hk, hn, thunkReachA]

/-! ### the parts of the document -/

theorem typeDefs_A : typeDefs (schemaToDocA s c apps) = s.types.map (typeToDefA s c apps) := by
  unfold schemaToDocA typeDefs
  split <;> simp [List.filterMap_append, List.filterMap_map, Function.comp_def]

theorem dirDefs_A : dirDefs (schemaToDocA s c apps) = s.directives.map (directiveToDefA s c apps) := by
  unfold schemaToDocA dirDefs
  split <;> simp [List.filterMap_append, List.filterMap_map, Function.comp_def]

theorem typeExts_A : typeExts (schemaToDocA s c apps) = [] := by
  unfold schemaToDocA typeExts
  split <;> simp [List.filterMap_append, List.filterMap_map, Function.comp_def]

theorem schemaExtensions_A : schemaExtensions (schemaToDocA s c apps) = [] := by
  unfold schemaToDocA schemaExtensions
  split <;> simp [List.filterMap_append, List.filterMap_map, Function.comp_def]

theorem schemaDefs_A : schemaDefs (schemaToDocA s c apps) =
    if needsSchemaBlockA s c apps then [{ ops := rootOps s, dirs := keptAt c apps "" }] else [] := by
  unfold schemaToDocA schemaDefs
  split <;> simp [List.filterMap_append, List.filterMap_map, Function.comp_def]
/-! ### the round trip WITHOUT erasure -/

theorem declared_schemaToDocA (h : printBuildWF s = true) : Declared (schemaToDocA s c apps) = some s := by
  simp only [printBuildWF, Bool.and_eq_true, List.all_eq_true, Bool.not_eq_true'] at h
  obtain ⟨⟨⟨⟨⟨⟨⟨hty, hdi⟩, _⟩, _⟩, hro⟩, _⟩, _⟩, hres⟩ := h
  have hmerged : merged (schemaToDocA s c apps) = s.types.map (typeToDefA s c apps) := by
    rw [merged_noext _ (typeExts_A s c apps), typeDefs_A]
  have htypes : (s.types.map (typeToDefA s c apps)).mapM (buildTypeDef (docEnvA s c apps)) = .ok s.types := by
    rw [mapM_map_congr (typeToDefA s c apps) (typeToDef s) (buildTypeDef (docEnvA s c apps)) (buildTypeDef (docEnv s)) s.types
      (fun t _ => buildTypeDefA s c apps t)]
    exact mapM_to_doc _ _ _ (fun t ht => type_to_doc_build s t (hty t ht))
  have hdirs : (s.directives.map (directiveToDefA s c apps)).mapM (buildDirective (docEnvA s c apps)) = .ok s.directives := by
    rw [mapM_map_congr (directiveToDefA s c apps) (directiveToDef s) (buildDirective (docEnvA s c apps)) (buildDirective (docEnv s))
      s.directives (fun d _ => buildDirectiveA s c apps d)]
    exact mapM_to_doc _ _ _ (fun d hd => directive_to_doc_build s d (hdi d hd))
  have hroots : declaredRoots (schemaToDocA s c apps) s.types = ⟨s.query, s.mutation, s.subscription⟩ := by
    simp only [declaredRoots, schemaExtensions_A, schemaDefs_A, List.foldl_nil]
    by_cases hn : needsSchemaBlockA s c apps = true
    · simp only [hn, if_true]
      cases hq : s.query <;> cases hm : s.mutation <;> cases hs : s.subscription <;> simp [rootOps, hq, hm, hs, Roots.set]
    · simp only [hn, Bool.false_eq_true, if_false]
      have hn' : needsSchemaBlock s = false := by
        cases hh : needsSchemaBlock s with
        | false => rfl
        | true => simp [needsSchemaBlockA, hh] at hn
      exact defaultRoots_of_implied s hn' hro
  unfold Declared
  simp only [hmerged, dirDefs_A]
  have e : Env.of (s.types.map (typeToDefA s c apps)) = docEnvA s c apps := rfl
  rw [e, htypes, hdirs]
  simp only [hroots]
  have e1 : s.defaultResolver = none := by simpa using hres
  cases s
  simp only [] at e1
  subst e1
  rfl

/-- **print_build_roundtrip_custom** — building the document the printer denotes WITH its applied custom directives
    gives back exactly the schema: the builder ignores applications of non-specified directives on every element. -/
theorem print_build_roundtrip_custom (h : printBuildWF s = true) : build (schemaToDocA s c apps) = .ok s := by
  have hdecl := declared_schemaToDocA s c apps h
  simp only [printBuildWF, Bool.and_eq_true, List.all_eq_true, Bool.not_eq_true'] at h
  obtain ⟨⟨⟨⟨⟨⟨⟨hty, hdi⟩, hut⟩, hud⟩, hro⟩, hth⟩, hea⟩, hres⟩ := h
  have htd := typeDefs_A s c apps
  apply build_exact_noext
  exact
    { uniqueTypes := by
        rw [htd, List.map_map]; exact (hasDup_false_iff _).mp hut
      uniqueDirectives := by
        rw [dirDefs_A, List.map_map]; exact (hasDup_false_iff _).mp hud
      oneSchema := by rw [schemaDefs_A]; split <;> simp
      noBuiltinNames := by
        intro t ht
        rw [htd] at ht
        obtain ⟨t0, ht0, rfl⟩ := List.mem_map.mp ht
        have := hty t0 ht0
        simp only [typeOK, Bool.and_eq_true, Bool.not_eq_true'] at this
        exact this.2
      noTypeExt := typeExts_A s c apps
      noSchemaExt := schemaExtensions_A s c apps
      declares := hdecl
      noThunkCycle := by
        rw [htd]
        have e : Env.of (s.types.map (typeToDefA s c apps)) = docEnvA s c apps := rfl
        rw [e, hasThunkCycleA]; exact hth
      noEagerCycle := hea
      noSpecified := by
        rw [List.any_eq_false]
        intro d hd
        have := hdi d hd
        simp only [directiveOK, Bool.and_eq_true, Bool.not_eq_true'] at this
        rw [this.2]; simp
      rootsOk := by
        rw [htd, schemaDefs_A]
        have hro' := hro
        simp only [rootsOK, Bool.and_eq_true] at hro'
        have e : Env.of (s.types.map (typeToDefA s c apps)) = docEnvA s c apps := rfl
        by_cases hn : needsSchemaBlockA s c apps = true
        · simp only [hn, if_true, List.head?_cons, buildRoots]
          rw [e, resolvesA_fun]
          exact roots_addOps s _ (fun q e => by have := hro'.1.1; rw [e] at this; exact root_resolves s q this)
            (fun q e => by have := hro'.1.2; rw [e] at this; exact root_resolves s q this)
            (fun q e => by have := hro'.2; rw [e] at this; exact root_resolves s q this)
        · simp only [hn, Bool.false_eq_true, if_false, List.head?_nil, buildRoots, pure, Except.pure]
          have hn' : needsSchemaBlock s = false := by
            cases hh : needsSchemaBlock s with
            | false => rfl
            | true => simp [needsSchemaBlockA, hh] at hn
          rw [defaultRoots_of_implied s hn' hro] }
end

/-- THE TEXT-LEVEL ROUND TRIP WITH APPLIED DIRECTIVES, no erasure: for every option set, every schema and every assignment
    of directive nodes that satisfy the lexical predicate `printTextWFA` and the structural predicate `printBuildWF`, the
    text `to_string(include_custom_schema_directives=…)` prints is accepted by the lexer and the parser, and the document it
    parses to — applied directives included — builds the schema (lists in printing order). -/
theorem text_roundtrip_custom_build (c : OptsA) (s : SchemaD) (apps : Apps) (hwf : printTextWFA c s apps = true)
    (hb : printBuildWF s = true) :
    ∃ (d : Ast.Document) (doc : Doc), parseSdlTextT (printSchemaTA c s apps) = some d ∧ docToAst doc = some d ∧
      doc = printedDocA s c apps ∧ build doc = .ok (printOrder s) := by
  have hd := docToAst_schemaToDocA (printOrder s) c apps
  refine ⟨_, printedDocA s c apps, ?_, hd, rfl, ?_⟩
  · rw [print_schema_text_parses_custom c s apps hwf]; exact hd
  · exact print_build_roundtrip_custom (printOrder s) c apps (printBuildWF_printOrder s hb)

/-- non-vacuity -/
example : build (schemaToDocA plainShop {} shopApps) = .ok plainShop := print_build_roundtrip_custom plainShop {} shopApps (by decide)
example : ∃ d doc, parseSdlTextT (printSchemaTA { whitelist := some ["other"] } plainShop shopApps) = some d ∧ docToAst doc = some d ∧
    doc = printedDocA plainShop { whitelist := some ["other"] } shopApps ∧ build doc = .ok (printOrder plainShop) :=
  text_roundtrip_custom_build _ plainShop shopApps (by decide) (by decide)
example : build (schemaToDocA shop {} [("", [{ name := "tag" }]), ("Query", [{ name := "tag" }])]) = .ok shop :=
  print_build_roundtrip_custom shop {} _ shop_wf

/-- `text_roundtrip_custom_final` — the same with the rebuilt schema stated up to the order of its definitions (the printer
    sorts them), as `text_roundtrip_final` -/
theorem text_roundtrip_custom_final (c : OptsA) (s : SchemaD) (apps : Apps) (hwf : printTextWFA c s apps = true)
    (hb : printBuildWF s = true) :
    ∃ (d : Ast.Document) (doc : Doc) (s' : SchemaD), parseSdlTextT (printSchemaTA c s apps) = some d ∧ docToAst doc = some d ∧
      build doc = .ok s' ∧ SameUpToOrder s' s := by
  obtain ⟨d, doc, h1, h2, _, h4⟩ := text_roundtrip_custom_build c s apps hwf hb
  exact ⟨d, doc, printOrder s, h1, h2, h4, types_perm s, directives_perm s, rfl, rfl, rfl, rfl⟩

example : ∃ d doc s', parseSdlTextT (printSchemaTA {} shop [("Query", [{ name := "tag" }])]) = some d ∧ docToAst doc = some d ∧
    build doc = .ok s' ∧ SameUpToOrder s' shop := text_roundtrip_custom_final {} shop _ (by decide) shop_wf

end PyGql.Props.C12

/-
  C12 — finding H12, the two classes the check reports (`H12:description-rewrapped:changed` / `:not-a-fixpoint`), on the
  model.  The description read back from the printed text is `rewrapS` (the wrapped lines joined by line feeds,
  `wrapped_description_lexes`).  PROVED (`rewrapped_description_fixpoint`): when the wrapped lines FIT the width, printing
  the re-wrapped description gives exactly the text of the original — the printed text is a fixpoint from the first round
  although the description changed.  REFUTED without the premise (`h12_not_a_fixpoint`): an unbreakable word longer than the
  width (the replay of the known finding) is wrapped AGAIN — an empty line appears before it — and the second text differs.
-/
import PyGqlModel.Lemmas.SdlTextRewrap
import PyGqlModel.Props.C12_wrap
namespace PyGql.Props.C12
open PyGql PyGql.Sdl PyGql.SdlText PyGql.BlockString

/-- **rewrapped_description_fixpoint** — for every space/tab-or-not indent, depth and position: a description inside
    `descWrapOK` whose wrapped lines fit the width is printed exactly like its re-wrapped form -/
theorem rewrapped_description_fixpoint (o : SdlPrintT.OptsT) (hdesc : o.descriptions = true) (x : String) (depth : Nat) (first : Bool)
    (h : descWrapOK (depth * o.indent.length) x = true)
    (hfit : ∀ l ∈ wrappedOf (depth * o.indent.length) x, l.length ≤ 120 - depth * o.indent.length) :
    SdlPrintT.printDescription o (some (rewrapS (depth * o.indent.length) x)) depth first =
      SdlPrintT.printDescription o (some x) depth first :=
  printDescription_rewrap o hdesc x depth first h hfit

/-- `rewrapS` is the value of `wrapped_description_lexes` -/
theorem rewrapS_value (w : Nat) (d : String) : T (rewrapS w d) = joinLF (wrappedOf w d) := T_rewrapS w d

set_option maxRecDepth 1000000 in
/-- **h12_not_a_fixpoint** — the premise "the wrapped lines fit" is needed: the replay of the known finding has a
    125-character word; its re-wrapped form is printed differently (the word is wrapped again) -/
theorem h12_not_a_fixpoint :
    ¬ (∀ l ∈ wrappedOf 0 h12Replay, l.length ≤ 120) ∧
    SdlPrintT.printDescription {} (some (rewrapS 0 h12Replay)) 0 true ≠ SdlPrintT.printDescription {} (some h12Replay) 0 true := by
  decide

set_option maxRecDepth 1000000 in
/-- non-vacuity: the 121-character line with one space — changed (`h12_value_differs`), but a text fixpoint -/
example : SdlPrintT.printDescription {} (some (rewrapS 0 longLine)) 0 true = SdlPrintT.printDescription {} (some longLine) 0 true :=
  rewrapped_description_fixpoint {} rfl longLine 0 true h12_value_differs.2.1 (by decide)

end PyGql.Props.C12

/-
  C12 — finding H12, the two classes the check reports (`H12:description-rewrapped:changed` / `:not-a-fixpoint`), on the
  model.  The description read back from the printed text is `rewrapS` (the wrapped lines joined by line feeds,
  `wrapped_description_lexes`).  PROVED (`rewrapped_description_fixpoint`): when the wrapped lines FIT the width, printing
  the re-wrapped description gives exactly the text of the original — the printed text is a fixpoint from the first round
  although the description changed.  REFUTED without the premise (`h12_not_a_fixpoint`): an unbreakable word longer than the
  width (the replay of the known finding) is wrapped AGAIN — an empty line appears before it — and the second text differs.
-/
import PyGqlModel.Lemmas.SdlTextRewrapPrint
import PyGqlModel.Props.C12_wrap
import PyGqlModel.Props.C12_order
namespace PyGql.Props.C12
open PyGql PyGql.Sdl PyGql.SdlText PyGql.BlockString PyGql.SdlPrint

/-- **rewrapped_description_fixpoint** — for every space/tab-or-not indent, depth and position: a description inside
    `descWrapOK` whose wrapped lines fit the width is printed exactly like its re-wrapped form -/
theorem rewrapped_description_fixpoint (o : SdlPrintT.OptsT) (hdesc : o.descriptions = true) (x : String) (depth : Nat) (first : Bool)
    (h : descWrapOK (depth * o.indent.length) x = true)
    (hfit : ∀ l ∈ wrappedOf (depth * o.indent.length) x, l.length ≤ 120 - depth * o.indent.length) :
    SdlPrintT.printDescription o (some (rewrapS (depth * o.indent.length) x)) depth first =
      SdlPrintT.printDescription o (some x) depth first :=
  printDescription_rewrap o hdesc x depth first h hfit

/-- `rewrapS` is the value of `wrapped_description_lexes` -/
theorem rewrapS_value (w : Nat) (d : String) : T (rewrapS w d) = joinLF (wrappedOf w d) := T_rewrapS w d

set_option maxRecDepth 1000000 in
/-- **h12_not_a_fixpoint** — the premise "the wrapped lines fit" is needed: the replay of the known finding has a
    125-character word; its re-wrapped form is printed differently (the word is wrapped again) -/
theorem h12_not_a_fixpoint :
    ¬ (∀ l ∈ wrappedOf 0 h12Replay, l.length ≤ 120) ∧
    SdlPrintT.printDescription {} (some (rewrapS 0 h12Replay)) 0 true ≠ SdlPrintT.printDescription {} (some h12Replay) 0 true := by
  decide

set_option maxRecDepth 1000000 in
/-- non-vacuity: the 121-character line with one space — changed (`h12_value_differs`), but a text fixpoint -/
example : SdlPrintT.printDescription {} (some (rewrapS 0 longLine)) 0 true = SdlPrintT.printDescription {} (some longLine) 0 true :=
  rewrapped_description_fixpoint {} rfl longLine 0 true h12_value_differs.2.1 (by decide)

/-! ### the whole schema: the text theorems WITHOUT the width clause

`rewrapSchema i s` is `s` with every description replaced by what is read back from its printed form (type and directive
descriptions at width 0, field / enum value / input field / directive argument descriptions at one indent, field
argument descriptions at two).  `schemaRewrapOK` asks `descWrapOK` and "the wrapped lines fit" of every description. -/

/-- **printSchemaT_rewrap_invariant** — the printer cannot tell a schema from its re-wrapped form: same text -/
theorem printSchemaT_rewrap_invariant (o : SdlPrintT.OptsT) (s : SchemaD) (h : schemaRewrapOK o.indent.length s = true) :
    SdlPrintT.printSchemaT o (rewrapSchema o.indent.length s) = SdlPrintT.printSchemaT o s :=
  printSchemaT_rewrap o s h

/-- **print_schema_text_parses_rewrapped** — `print_schema_text_parses` beyond its width clause: the printed text of a schema
    with over-long description lines is accepted by lexer and parser and parses to the tree of the document of the
    RE-WRAPPED schema (the lexical predicate is asked of the re-wrapped schema, whose lines fit) -/
theorem print_schema_text_parses_rewrapped (o : SdlPrintT.OptsT) (s : SchemaD) (hr : schemaRewrapOK o.indent.length s = true)
    (hwf : printTextWF o (rewrapSchema o.indent.length s) = true) :
    parseSdlTextT (SdlPrintT.printSchemaT o s) = docToAst (printedDoc (rewrapSchema o.indent.length s)) := by
  rw [← printSchemaT_rewrap o s hr]
  exact print_schema_text_parses o _ hwf

/-- **text_roundtrip_rewrapped** — finding H12 at the level of the property: the printed text of `s` parses to a document
    that builds the RE-WRAPPED schema (up to the order of definitions) — and, by `printSchemaT_rewrap_invariant`, printing
    that schema gives the same text again -/
theorem text_roundtrip_rewrapped (o : SdlPrintT.OptsT) (s : SchemaD) (hr : schemaRewrapOK o.indent.length s = true)
    (hwf : printTextWF o (rewrapSchema o.indent.length s) = true) (hb : printBuildWF (rewrapSchema o.indent.length s) = true) :
    ∃ (d : Ast.Document) (doc : Doc) (s' : SchemaD), parseSdlTextT (SdlPrintT.printSchemaT o s) = some d ∧ docToAst doc = some d ∧
      build doc = .ok s' ∧ SameUpToOrder s' (rewrapSchema o.indent.length s) ∧
      SdlPrintT.printSchemaT o (rewrapSchema o.indent.length s) = SdlPrintT.printSchemaT o s := by
  obtain ⟨d, doc, s', h1, h2, h3, h4⟩ := text_roundtrip_final o (rewrapSchema o.indent.length s) hwf hb
  rw [printSchemaT_rewrap o s hr] at h1
  exact ⟨d, doc, s', h1, h2, h3, h4, printSchemaT_rewrap o s hr⟩

/-- a schema with the 121-character description on a type, a field and an argument -/
def longDescSchema : SchemaD :=
  { types := [{ kind := .object, name := "Query", desc := some longLine,
                fields := [{ name := "f", type := .named "Int", desc := some longLine,
                             args := [{ name := "a", type := .named "Int", desc := some longLine }] }] }],
    query := some "Query" }

set_option maxRecDepth 1000000 in
example : schemaRewrapOK 4 longDescSchema = true ∧ printTextWF {} longDescSchema = false ∧
    printTextWF {} (rewrapSchema 4 longDescSchema) = true ∧ printBuildWF (rewrapSchema 4 longDescSchema) = true := by decide

end PyGql.Props.C12

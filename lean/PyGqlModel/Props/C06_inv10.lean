/-
  C06 - property theorems, part 28: `SingleFieldSubscriptionsChecker` (5.2.3.1) under `Tr` - the last rule besides
  OverlappingFieldsCanBeMerged for which perm_selections / perm_arguments / alpha_fragments was open.
  The clause of the rule is an ALGORITHM (`CollectFields` restricted to response keys, with its visited set and the fuel
  the rule passes). Lemmas/ValidateRootKeys*.lean prove what it computes: exactly the response keys REACHABLE from the root
  selection set through inline fragments and fragment spreads (`KA`), each once - the fuel `sfsBound d` always suffices.
  Reachability does not depend on the order of selections and is transported by an injective renaming of fragments.
-/
import PyGqlModel.Props.C06_inv9
import PyGqlModel.Lemmas.ValidateRootKeysTr
namespace PyGql.Props.C06
open PyGql PyGql.Validate PyGql.Validate.Spec

/-- **5.2.3.1, declaratively**: the rule is silent ⇔ every subscription operation has exactly one reachable response key
    (no fuel, no visited set, no order) -/
theorem rule_single_field_subscriptions_declarative_iff (s : SchemaD) (fx : Fixes) (d : Doc) :
    Silent s fx .singleFieldSubscriptions d ↔
      ∀ nm vs dr i sels, Def.op "subscription" nm vs dr i sels ∈ d.defs →
        ∃ key, ∀ k, KA (sfsTable d) [] sels k ↔ k = key := by
  rw [rule_single_field_subscriptions_iff]
  unfold Spec.singleFieldSubscriptions
  have hlen : ∀ (l : List String), l.Nodup → (l.length = 1 ↔ ∃ key, ∀ k, k ∈ l ↔ k = key) := by
    intro l hnd
    constructor
    · intro h
      match l, h with
      | [a], _ => exact ⟨a, fun k => by simp⟩
    · rintro ⟨key, hk⟩
      match l, hnd, hk with
      | [], _, hk => exact absurd ((hk key).mpr rfl) (by simp)
      | [a], _, _ => rfl
      | a :: b :: t, hnd, hk =>
        have ha := (hk a).mp (by simp)
        have hb := (hk b).mp (by simp)
        simp only [List.nodup_cons, List.mem_cons, not_or] at hnd
        exact absurd (ha.trans hb.symm) hnd.1.1
  constructor
  · intro h nm vs dr i sels hd
    have h1 := h _ ((mem_nodes_operation d _ _ _ _ _).mpr ⟨i, hd⟩) _ _ _ _ rfl
    obtain ⟨key, hk⟩ := (hlen _ (rootKeys_nodup _ _)).mp h1
    exact ⟨key, fun k => by rw [← mem_rootKeys_iff _ _ _ (sfsBound_suffices d hd)]; exact hk k⟩
  · intro h n hn nm vs dr sels e
    subst e
    obtain ⟨i, hd⟩ := (mem_nodes_operation d _ _ _ _ _).mp hn
    obtain ⟨key, hk⟩ := h nm vs dr i sels hd
    exact (hlen _ (rootKeys_nodup _ _)).mpr
      ⟨key, fun k => by rw [mem_rootKeys_iff _ _ _ (sfsBound_suffices d hd)]; exact hk k⟩

/-- **perm_selections / perm_arguments / alpha_fragments for `SingleFieldSubscriptionsChecker`** -/
theorem tr_invariance_single_field_subscriptions (T : Tr) (hinj : ∀ a b, T.frag a = T.frag b → a = b) (s : SchemaD)
    (fx : Fixes) (d : Doc) :
    Silent s fx .singleFieldSubscriptions (T.doc d) ↔ Silent s fx .singleFieldSubscriptions d := by
  rw [rule_single_field_subscriptions_declarative_iff, rule_single_field_subscriptions_declarative_iff]
  constructor
  · intro h nm vs dr i sels hd
    have hd' : Def.op "subscription" nm (vs.map T.varDef) (dr.map T.dir) i (T.sels (T.selList sels)) ∈ (T.doc d).defs :=
      List.mem_map.mpr ⟨_, hd, rfl⟩
    obtain ⟨key, hk⟩ := h _ _ _ _ _ hd'
    exact ⟨key, fun k => by rw [← ka_tr_iff T hinj d sels k]; exact hk k⟩
  · intro h nm vs dr i sels hd
    obtain ⟨x, hx, ex⟩ := List.mem_map.mp hd
    cases x with
    | op k0 nm0 vs0 dr0 i0 sels0 =>
      simp only [Tr.defn, Def.op.injEq] at ex
      obtain ⟨rfl, rfl, rfl, rfl, rfl, rfl⟩ := ex
      obtain ⟨key, hk⟩ := h _ _ _ _ _ hx
      exact ⟨key, fun k => by rw [ka_tr_iff T hinj d sels0 k]; exact hk k⟩
    | frag => simp [Tr.defn] at ex
    | ts => simp [Tr.defn] at ex

/-- **perm_selections / perm_arguments / alpha_fragments for all 25 rules of `ProvedTrAll`** (all but
    OverlappingFieldsCanBeMerged; SingleFieldSubscriptions now included): code of /repo HEAD, documents with unique
    fragment names that are non-empty before and after the renaming (needed by NoFragmentCycles only) [ALONE-RUN statement, rule by rule: each rule visitor in a chain of its own; for the verdict of the chain `validate_ast` runs see `Props/C06_chain.lean: chainM_six_transformations`.] -/
theorem tr_invariance_25_partial (T : Tr) (hinj : ∀ a b, T.frag a = T.frag b → a = b) (s : SchemaD) (fx : Fixes)
    (hfx : HeadVars fx) (d : Doc) (hnd : Spec.uniqueFragmentNames d) (hne : NamesNonEmpty d)
    (hne' : NamesNonEmpty (T.doc d)) (r : Rule) (hr : r ≠ .overlappingFieldsCanBeMerged) :
    Silent s fx r (T.doc d) ↔ Silent s fx r d := by
  by_cases h : r = .singleFieldSubscriptions
  · subst h; exact tr_invariance_single_field_subscriptions T hinj s fx d
  · refine tr_invariance_all25_partial T hinj s fx hfx d hnd hne hne' r ?_ h
    have := (by decide : ∀ r ∈ Rule.all, r ∈ ProvedTrAll ∨ r = .overlappingFieldsCanBeMerged)
    rcases this r (by cases r <;> decide) with h1 | h1
    · exact h1
    · exact absurd h1 hr

/-- instance: reversing every selection list of a subscription document -/
example (s : SchemaD) (fx : Fixes) (d : Doc) :
    Silent s fx .singleFieldSubscriptions ((Tr.mk List.reverse id id (fun l => l.reverse_perm)
      (fun _ => List.Perm.refl _)).doc d) ↔ Silent s fx .singleFieldSubscriptions d :=
  tr_invariance_single_field_subscriptions _ (fun _ _ e => e) s fx d

end PyGql.Props.C06

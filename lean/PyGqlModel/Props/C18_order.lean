/-
  C18 — "siblings in source order" (W5), as a theorem with an explicit exclusion list.

  Source order of the children of a node = order of the attributes in `__slots__` (checked against `loc` on the probe
  documents at extraction, `child_kinds_table`) and, inside a list attribute, the order of the list.

  * `list_members_in_order`        — every table: two members of one traversed list are visited in list order (the whole
                                     enter…leave bracket of the first before the bracket of the second);
  * `siblings_in_statement_order`  — every table: children held by two different traversed attributes are visited in the
                                     order of the STATEMENTS of the body;
  * `sibling_order_inversions_today` — the (kind, attribute visited first, attribute visited second) triples for which the
                                     statement order contradicts the slot order: exactly the four of W5
                                     (default_value before type, type before arguments, operation types before directives
                                     for SchemaDefinition and SchemaExtension) — kernel evaluation on the generated table;
  * `siblings_in_source_order_today` — today's table, every well-kinded document: children of a covered node held by
                                     attributes `a` before `b` in `__slots__` are visited in that order, EXCEPT for the
                                     four listed triples.
-/
import PyGqlModel.Props.C18_reach

namespace PyGql.Props.C18
open PyGql.Visit PyGql.Generated.VisitTable

/-- the whole bracket of `c1` comes before the whole bracket of `c2` -/
def BracketBefore (c1 c2 : Node) (tr : List Ev) : Prop :=
  ∃ x b1 y b2 z, tr = x ++ (⟨true, c1⟩ :: b1 ++ [⟨false, c1⟩]) ++ y ++ (⟨true, c2⟩ :: b2 ++ [⟨false, c2⟩]) ++ z

/-- `t1` then (later) `t2`, both contiguous -/
def Seq2 (t1 t2 tr : List Ev) : Prop := ∃ x y z, tr = x ++ t1 ++ y ++ t2 ++ z

theorem Seq2.infix {t1 t2 tr tr' : List Ev} (h : Seq2 t1 t2 tr) (hi : tr <:+: tr') : Seq2 t1 t2 tr' := by
  obtain ⟨x, y, z, rfl⟩ := h
  obtain ⟨a, b, rfl⟩ := hi
  exact ⟨a ++ x, y, z ++ b, by simp [List.append_assoc]⟩

theorem Seq2.of_infix_infix {t1 t2 u1 u2 tr : List Ev} (h : Seq2 u1 u2 tr) (h1 : t1 <:+: u1) (h2 : t2 <:+: u2) :
    Seq2 t1 t2 tr := by
  obtain ⟨x, y, z, rfl⟩ := h
  obtain ⟨a1, b1, rfl⟩ := h1
  obtain ⟨a2, b2, rfl⟩ := h2
  exact ⟨x ++ a1, b1 ++ y ++ a2, b2 ++ z, by simp [List.append_assoc]⟩

/-- non-applying statements contribute nothing -/
theorem walkSteps_filter (call : Target → Node → Res (List Ev)) (n : Node) : ∀ (steps : List Step) (tr : List Ev),
    Spec.walkSteps call steps n = .ok tr → Spec.walkSteps call (steps.filter (·.applies n.kind)) n = .ok tr
  | [], tr, h => by simpa [Spec.walkSteps] using h
  | st :: r, tr, h => by
    simp only [Spec.walkSteps] at h
    cases h1 : Spec.walkStep call st n with
    | err e => simp [h1] at h
    | fuel => simp [h1] at h
    | ok t1 =>
      simp only [h1] at h
      cases h2 : Spec.walkSteps call r n with
      | err e => simp [h2] at h
      | fuel => simp [h2] at h
      | ok t2 =>
        simp only [h2, Res.ok.injEq] at h
        have ih := walkSteps_filter call n r t2 h2
        by_cases ha : st.applies n.kind = true
        · simp only [List.filter_cons, ha, if_true, Spec.walkSteps, h1, ih, h]
        · have hf : st.applies n.kind = false := by simpa using ha
          have : t1 = [] := by
            unfold Spec.walkStep at h1
            simp [hf] at h1
            exact h1
          subst this
          simp only [List.filter_cons, hf, Bool.false_eq_true, if_false, ih]
          simpa using h

/-- two members of one list: their walks come in list order -/
theorem walkList_two (g : Node → Res (List Ev)) (l1 : List Node) (c1 : Node) (l2 : List Node) (c2 : Node) (l3 : List Node)
    (tr : List Ev) (h : Spec.walkList g (l1 ++ c1 :: (l2 ++ c2 :: l3)) = .ok tr) :
    ∃ t1 t2, g c1 = .ok t1 ∧ g c2 = .ok t2 ∧ Seq2 t1 t2 tr := by
  obtain ⟨ta, t1, tb, h1, hb, e⟩ := walkList_split g l1 c1 _ tr h
  obtain ⟨tc, t2, td, h2, _, e2⟩ := walkList_split g l2 c2 l3 tb hb
  exact ⟨t1, t2, h1, h2, ⟨ta, tc, td, by rw [e, e2]; simp [List.append_assoc]⟩⟩

/-- the part of a completed walk of `p` (by method `mp`) that the statements produce -/
private theorem walk_body (T : Table) (fp : Nat) (mp : String) (p : Node) (tp : List Ev) (steps : List Step)
    (hw : Spec.walk T fp mp p = .ok tp) (hm : T.methods.lookup mp = some steps) :
    ∃ f body, Spec.walkSteps (Spec.walkTarget T (Spec.walk T f)) (steps.filter (·.applies p.kind)) p = .ok body ∧ body <:+: tp := by
  obtain ⟨f, steps', body, rfl, hm', hb, rfl⟩ := walk_shape T fp mp p tp hw
  rw [hm] at hm'
  cases hm'
  exact ⟨f, body, walkSteps_filter _ p steps body hb, ⟨[⟨true, p⟩], [⟨false, p⟩], by simp⟩⟩

private theorem bracket_of_walks (T : Table) (f1 f2 : Nat) (m1 m2 : String) (c1 c2 : Node) (t1 t2 tr : List Ev)
    (h1 : Spec.walk T f1 m1 c1 = .ok t1) (h2 : Spec.walk T f2 m2 c2 = .ok t2) (hs : Seq2 t1 t2 tr) :
    BracketBefore c1 c2 tr := by
  obtain ⟨_, _, b1, _, _, _, rfl⟩ := walk_shape T f1 m1 c1 t1 h1
  obtain ⟨_, _, b2, _, _, _, rfl⟩ := walk_shape T f2 m2 c2 t2 h2
  obtain ⟨x, y, z, rfl⟩ := hs
  exact ⟨x, b1, y, b2, z, rfl⟩

private theorem trace_is_walk {σ : Type} (T : Table) (v : Visitor σ) (hv : Observer v) (fuel : Nat) (t : Node) (s : σ)
    (o : Out σ) (h : visit T v fuel t s = .ok o) : ∃ m0, T.visit.lookup t.kind = some m0 ∧ Spec.walk T fuel m0 t = .ok o.tr := by
  have hcov := coverage_partial T v hv fuel t s o h
  unfold Spec.implEvents at hcov
  cases hl : T.visit.lookup t.kind with
  | none => simp [hl] at hcov
  | some m0 => simp only [hl] at hcov; exact ⟨m0, rfl, hcov⟩

/-- **list_members_in_order** — every table, every tree, every visitor that changes nothing: two members of a list held
    by a traversed attribute of a reached node are visited in the order of the list. -/
theorem list_members_in_order {σ : Type} (T : Table) (v : Visitor σ) (hv : Observer v) (fuel : Nat) (t : Node) (s : σ)
    (o : Out σ) (h : visit T v fuel t s = .ok o) (p : Node) (mp : String) (hp : Reached T t p mp)
    (steps : List Step) (hm : T.methods.lookup mp = some steps) (st : Step) (hst : st ∈ steps)
    (ha : st.applies p.kind = true) (l1 l2 l3 : List Node) (c1 c2 : Node)
    (hg : p.getAttr st.attr = some (.many (l1 ++ c1 :: (l2 ++ c2 :: l3)))) : BracketBefore c1 c2 o.tr := by
  obtain ⟨m0, hl, hw⟩ := trace_is_walk T v hv fuel t s o h
  obtain ⟨fp, tp, hwp, hsub⟩ := reached_walk T fuel t m0 o.tr hl hw hp
  obtain ⟨f, steps', body, rfl, hm', hb, rfl⟩ := walk_shape T fp mp p tp hwp
  rw [hm] at hm'
  cases hm'
  obtain ⟨ts, hs1, hs2⟩ := walkSteps_infix _ p steps body st hb hst
  unfold Spec.walkStep at hs1
  simp only [ha, Bool.not_true, Bool.false_eq_true, if_false, hg] at hs1
  cases hsh : st.shape with
  | one => simp [hsh] at hs1
  | many =>
    simp only [hsh] at hs1
    obtain ⟨t1, t2, hc1, hc2, hseq⟩ := walkList_two _ l1 c1 l2 c2 l3 ts hs1
    unfold Spec.walkTarget at hc1 hc2
    cases hr1 : resolve T st.target c1.kind with
    | error e => simp [hr1] at hc1
    | ok m1 =>
      cases hr2 : resolve T st.target c2.kind with
      | error e => simp [hr2] at hc2
      | ok m2 =>
        simp only [hr1] at hc1
        simp only [hr2] at hc2
        refine bracket_of_walks T f f m1 m2 c1 c2 t1 t2 o.tr hc1 hc2 ?_
        exact (hseq.infix hs2).infix (List.IsInfix.trans ⟨[⟨true, p⟩], [⟨false, p⟩], by simp⟩ hsub)

/-- **siblings_in_statement_order** — every table, every tree, every visitor that changes nothing: children of a reached
    node held by the attributes of two statements (that apply to the node's kind) are visited in the order of the
    statements: the whole bracket of the first child before the whole bracket of the second. -/
theorem siblings_in_statement_order {σ : Type} (T : Table) (v : Visitor σ) (hv : Observer v) (fuel : Nat) (t : Node)
    (s : σ) (o : Out σ) (h : visit T v fuel t s = .ok o) (p : Node) (mp : String) (hp : Reached T t p mp)
    (pre mid post : List Step) (s1 s2 : Step) (hm : effSteps T mp p.kind = pre ++ s1 :: (mid ++ s2 :: post))
    (c1 c2 : Node) (hh1 : Holds (p.getAttr s1.attr) c1) (hh2 : Holds (p.getAttr s2.attr) c2) :
    BracketBefore c1 c2 o.tr := by
  obtain ⟨m0, hl, hw⟩ := trace_is_walk T v hv fuel t s o h
  obtain ⟨fp, tp, hwp, hsub⟩ := reached_walk T fuel t m0 o.tr hl hw hp
  have hs1m : s1 ∈ effSteps T mp p.kind := by rw [hm]; simp
  have hs2m : s2 ∈ effSteps T mp p.kind := by rw [hm]; simp
  obtain ⟨steps, hms, _, ha1⟩ := mem_effSteps hs1m
  obtain ⟨_, _, _, ha2⟩ := mem_effSteps hs2m
  obtain ⟨f, body, hb, hbody⟩ := walk_body T fp mp p tp steps hwp hms
  have he : steps.filter (·.applies p.kind) = pre ++ s1 :: (mid ++ s2 :: post) := by
    rw [← hm]; simp [effSteps, hms]
  rw [he] at hb
  obtain ⟨ta, u1, tb, hu1, hrest, e1⟩ := walkSteps_split _ p pre s1 _ body hb
  obtain ⟨tc, u2, td, hu2, _, e2⟩ := walkSteps_split _ p mid s2 post tb hrest
  obtain ⟨t1, hc1, hi1⟩ := walkStep_child_infix _ s1 p c1 u1 hu1 ha1 hh1
  obtain ⟨t2, hc2, hi2⟩ := walkStep_child_infix _ s2 p c2 u2 hu2 ha2 hh2
  have hseq : Seq2 u1 u2 body := ⟨ta, tc, td, by rw [e1, e2]; simp [List.append_assoc]⟩
  unfold Spec.walkTarget at hc1 hc2
  cases hr1 : resolve T s1.target c1.kind with
  | error e => simp [hr1] at hc1
  | ok m1 =>
    cases hr2 : resolve T s2.target c2.kind with
    | error e => simp [hr2] at hc2
    | ok m2 =>
      simp only [hr1] at hc1
      simp only [hr2] at hc2
      exact bracket_of_walks T f f m1 m2 c1 c2 t1 t2 o.tr hc1 hc2
        (((hseq.of_infix_infix hi1 hi2).infix hbody).infix hsub)

/-! ### statement order against slot order, on the generated table -/

/-- `a` occurs before a later `b` -/
def attrBefore : List String → String → String → Bool
  | [], _, _ => false
  | x :: r, a, b => (x == a && r.contains b) || attrBefore r a b

/-- a statement for `a` occurs before a later statement for `b` -/
def stepsBefore : List Step → String → String → Bool
  | [], _, _ => false
  | s :: r, a, b => (s.attr == a && r.any (·.attr == b)) || stepsBefore r a b

theorem stepsBefore_split : ∀ (l : List Step) (a b : String), stepsBefore l a b = true →
    ∃ pre s1 mid s2 post, l = pre ++ s1 :: (mid ++ s2 :: post) ∧ s1.attr = a ∧ s2.attr = b
  | [], _, _, h => by simp [stepsBefore] at h
  | s :: r, a, b, h => by
    simp only [stepsBefore, Bool.or_eq_true, Bool.and_eq_true, beq_iff_eq, List.any_eq_true] at h
    rcases h with ⟨ha, s2, hs2, hb⟩ | h
    · obtain ⟨mid, post, rfl⟩ := List.append_of_mem hs2
      exact ⟨[], s, mid, s2, post, rfl, ha, hb⟩
    · obtain ⟨pre, s1, mid, s2, post, rfl, h1, h2⟩ := stepsBefore_split r a b h
      exact ⟨s :: pre, s1, mid, s2, post, rfl, h1, h2⟩

/-- (kind, attribute visited FIRST, attribute visited SECOND) with the second before the first in `__slots__` -/
def inversions (T : Table) : List (String × String × String) :=
  T.slots.flatMap fun p => p.2.flatMap fun a => (p.2.filter fun b =>
    stepsBefore (ownSteps T p.1) a b && attrBefore p.2 b a).map fun b => (p.1, a, b)

/-- the W5 list -/
def w5 : List (String × String × String) :=
  [("FieldDefinition", "type", "arguments"), ("SchemaDefinition", "operation_types", "directives"),
   ("SchemaExtension", "operation_types", "directives"), ("VariableDefinition", "default_value", "type")]

/-- **sibling_order_inversions_today** — the statement order of the `_visit_*` bodies contradicts the source order for
    exactly these four (kind, first, second) triples: the field type before the argument definitions, the operation types
    before the directives of a schema definition / extension, the default value before the type of a variable definition. -/
theorem sibling_order_inversions_today : inversions table = w5 := by decide +kernel

/-- everywhere else two traversed attributes in slot order have their statements in the same order -/
def orderAgrees (T : Table) (ex : List (String × String × String)) : Bool :=
  T.slots.all fun p => p.2.all fun a => p.2.all fun b =>
    !(attrBefore p.2 a b && coveredBy T p.1 a && coveredBy T p.1 b) || ex.contains (p.1, b, a) ||
      stepsBefore (ownSteps T p.1) a b

theorem order_agrees_today : orderAgrees table w5 = true := by decide +kernel

private theorem attrBefore_mem : ∀ (l : List String) (a b : String), attrBefore l a b = true → a ∈ l ∧ b ∈ l
  | [], _, _, h => by simp [attrBefore] at h
  | x :: r, a, b, h => by
    simp only [attrBefore, Bool.or_eq_true, Bool.and_eq_true, beq_iff_eq, List.contains_iff_mem] at h
    rcases h with ⟨rfl, hb⟩ | h
    · exact ⟨List.mem_cons_self, List.mem_cons_of_mem _ hb⟩
    · have := attrBefore_mem r a b h
      exact ⟨List.mem_cons_of_mem _ this.1, List.mem_cons_of_mem _ this.2⟩

/-- **siblings_in_source_order_today** — today's table, every well-kinded document, every visitor that changes nothing:
    let `p` be a node covered from the root, of a kind whose `__slots__` are `sl`, and `a` before `b` in `sl`, both
    traversed by the body of `p`'s kind. Then every child held by `a` is visited (whole bracket) before every child held
    by `b` — EXCEPT when (kind, `b`, `a`) is one of the four triples of `w5`. -/
theorem siblings_in_source_order_today {σ : Type} (v : Visitor σ) (hv : Observer v) (fuel : Nat) (t : Node) (s : σ)
    (o : Out σ) (h : visit table v fuel t s = .ok o) (hk : wellKinded childKinds t = true) (p : Node)
    (hp : Covered table t p) (sl : List String) (hsl : (p.kind, sl) ∈ table.slots) (a b : String)
    (hab : attrBefore sl a b = true) (hca : coveredBy table p.kind a = true) (hcb : coveredBy table p.kind b = true)
    (hex : (p.kind, b, a) ∉ w5) (c1 c2 : Node) (hh1 : Holds (p.getAttr a) c1) (hh2 : Holds (p.getAttr b) c2) :
    BracketBefore c1 c2 o.tr := by
  cases hl : table.visit.lookup t.kind with
  | none => simp [visit, hl] at h
  | some m0 =>
    obtain ⟨_, mp, hr, hsame⟩ := covered_reached table childKinds table_kinded_today t m0 hl hk hp
    have hag := order_agrees_today
    unfold orderAgrees at hag
    have h1 := List.all_eq_true.1 hag _ hsl
    obtain ⟨ham, hbm⟩ := attrBefore_mem sl a b hab
    have h2 := List.all_eq_true.1 (List.all_eq_true.1 h1 a ham) b hbm
    have hnc : w5.contains (p.kind, b, a) = false := by
      cases hc : w5.contains (p.kind, b, a) with
      | false => rfl
      | true => exact absurd (List.contains_iff_mem.1 hc) hex
    simp only [hab, hca, hcb, Bool.and_self, Bool.not_true, Bool.false_or, hnc] at h2
    obtain ⟨pre, s1, mid, s2, post, hdec, e1, e2⟩ := stepsBefore_split _ a b h2
    rw [← hsame] at hdec
    subst e1
    subst e2
    exact siblings_in_statement_order table v hv fuel t s o h p mp hr pre mid post s1 s2 hdec c1 c2 hh1 hh2

/-! non-vacuity on the witness parsed by the real parser: in `query Q($v: [Int!] = 1 @d, …)` the type (id 6) of the first
    variable definition is visited before its directive (id 11): `type` before `directives` is not in `w5` … -/
private def identityTrace (t : Node) : List (Bool × Nat) :=
  match visit table observer 64 t () with
  | .ok o => o.tr.map fun e => (e.enter, e.node.id)
  | _ => []

example : ((identityTrace witnessExec).filter fun e => e.2 == 6 || e.2 == 10 || e.2 == 11) =
    [(true, 10), (false, 10), (true, 6), (false, 6), (true, 11), (false, 11)] := by decide +kernel

/-- … while the default value (id 10) comes BEFORE the type (id 6): the excluded triple
    ("VariableDefinition", "default_value", "type") is a real inversion -/
example : ("VariableDefinition", "default_value", "type") ∈ w5 := by decide


/-! non-vacuity of `siblings_in_source_order_today`: `query @d { }`-shaped skeleton, directive before selection set -/
private def dirW : Node := .mk "Directive" 2 [("name", .one (some (.mk "Name" 3 [("value", .scalar "d")]))), ("arguments", .many [])]
private def ssW : Node := .mk "SelectionSet" 4 [("selections", .many [])]
private def opW : Node := .mk "OperationDefinition" 1 [("operation", .scalar "query"), ("name", .one none),
  ("variable_definitions", .many []), ("directives", .many [dirW]), ("selection_set", .one (some ssW))]
private def docW : Node := .mk "Document" 0 [("definitions", .many [opW])]

example (o : Out Unit) (h : visit table observer 8 docW () = .ok o) : BracketBefore dirW ssW o.tr :=
  siblings_in_source_order_today observer observer_is_observer 8 docW () o h (by decide +kernel) opW
    (covered_attr .root "definitions" (by decide +kernel) (by simp [Holds, docW, Node.getAttr, Node.attrs, List.lookup]))
    ((table.slots.lookup "OperationDefinition").getD []) (by decide +kernel)
    "directives" "selection_set" (by decide +kernel) (by decide +kernel) (by decide +kernel) (by decide) dirW ssW
    (by simp [Holds, opW, Node.getAttr, Node.attrs, List.lookup]) (by simp [Holds, opW, Node.getAttr, Node.attrs, List.lookup])

example : (match visit table observer 8 docW () with | .ok o => o.tr.map (fun e => (e.enter, e.node.id)) | _ => []) =
    [(true, 0), (true, 1), (true, 2), (false, 2), (true, 4), (false, 4), (false, 1), (false, 0)] := by decide +kernel

end PyGql.Props.C18

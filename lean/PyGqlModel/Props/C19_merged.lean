/-
  C19 — the level-merged `_nesting_levels` of proposed fix C19-H3 measures what the recursive measure does.

  `Depth.nestingLevelsM` / `nestingLevelsMG` (DepthMerged.lean) model the loop after C19-H3.patch: one list of selections
  per level. This file proves, for every document with consistent fragment weights (= acyclic):

  * `nestingLevelsM_ok`      — the loop returns `levels so far + canonical levels of the selections` (strict variables);
  * `merged_eq_recursive`    — … which is what the recursive model `nestingLevels` returns;
  * `nestingLevelsM_sim`     — the loop with the tolerant hook = the strict loop on the erased document;
  * `measuredM_eq_depthK`    — for unique, acyclic fragments and ANY request variables the merged loop measures `depthK`,
                               the measure of `flags_iff_final`;
  * `ruleM_eq_ruleB`, `flags_iff_final_merged` — the rule with the merged loop reports exactly what the rule of today's
                               tree reports: `flags_iff_final` carries over verbatim;
  * `ruleM_never_raises`     — no hypotheses: also on cyclic documents the only failure of the loop is the exhausted budget,
                               which the rule reports as "unbounded".
  Iteration (the code) against recursion (the model of today's tree) was only exercised by the correspondence before.
-/
import PyGqlModel.DepthMerged
import PyGqlModel.Props.C19_orig

set_option linter.unusedVariables false
set_option linter.unusedSimpArgs false

namespace PyGql.Props.C19
open PyGql.Depth PyGql.DepthSpec PyGql.Depth.Lemmas

section
variable (frags : List Frag) (vars : Vars) (w : String → Nat)

private theorem nextSelections_cons (k : String) (fs : List Fld) (G : Grouped) :
    nextSelections ((k, fs) :: G) = fs.flatMap (·.sub) ++ nextSelections G := by
  simp [nextSelections]

/-- the canonical levels of the next level's selections: one less than the maximum over the collected fields -/
theorem cL_nextSelections (P : Fld → Prop) : ∀ (G : Grouped), GInv P G → G ≠ [] →
    1 + cL frags vars w (nextSelections G) = gMax (fLv frags vars w) G
  | [], _, h => absurd rfl h
  | (k, fs) :: rest, hg, _ => by
    have hne := (hg (k, fs) (by simp)).1
    have h1 := cL_flatMap_sub frags vars w fs hne
    rw [nextSelections_cons, cL_append]
    simp only [gMax]
    cases rest with
    | nil => simp [nextSelections, cL_nil, gMax] at h1 ⊢; omega
    | cons kv' rest' =>
      have ih := cL_nextSelections P (kv' :: rest') (fun kv h => hg kv (by simp [h])) (by simp)
      omega

private theorem potL_nextSelections (K : Nat) : ∀ (G : Grouped), GInv (FldOk vars w (K + 1)) G →
    potL w (nextSelections G) ≤ K
  | [], _ => by simp [nextSelections, potL_nil]
  | (k, fs) :: rest, hg => by
    rw [nextSelections_cons, potL_append]
    have hh := hg (k, fs) (by simp)
    have ih := potL_nextSelections K rest (fun kv h => hg kv (by simp [h]))
    rcases potL_flatMap_sub vars w (K + 1) fs hh.2 with h | h
    · omega
    · exact absurd h hh.1

private theorem boundL_nextSelections (K : Nat) : ∀ (G : Grouped), GInv (FldOk vars w K) G →
    boundL vars (nextSelections G) = true
  | [], _ => by simp [nextSelections, boundL]
  | (k, fs) :: rest, hg => by
    rw [nextSelections_cons, boundL_append, Bool.and_eq_true]
    exact ⟨boundL_flatMap_sub vars w K fs (hg (k, fs) (by simp)).2,
      boundL_nextSelections K rest (fun kv h => hg kv (by simp [h]))⟩

/-- **nestingLevelsM_ok** — with consistent fragment weights and bound directive variables the merged loop, started with
    budget `K + 1 > potential of the selections`, returns `levels + canonical levels` -/
theorem nestingLevelsM_ok (hc : Consistent frags w) (hfb : ∀ f ∈ frags, boundL vars f.sels = true) :
    ∀ (K : Nat) (sels : List Sel) (lv : Nat), potL w sels ≤ K → boundL vars sels = true →
      nestingLevelsM frags vars (K + 1) lv sels = .ok (lv + cL frags vars w sels) := by
  intro K
  induction K with
  | zero =>
    intro sels lv hp hb
    cases sels with
    | nil => simp [nestingLevelsM, cL_nil]
    | cons s ss =>
      obtain ⟨G, S', e, c1, c2, c3, c4⟩ := collect_ok frags vars w hc hfb 0 (s :: ss) [] hp hb
      simp only [nestingLevelsM, e]
      cases G with
      | nil =>
        simp [FM, maxL, gMax] at c2
        simp [c2]
      | cons kv G' =>
        exfalso
        have hh := c4 kv (by simp)
        cases hf : kv.2 with
        | nil => exact hh.1 hf
        | cons f fs => have := (hh.2 f (by simp [hf])).1; omega
  | succ K ih =>
    intro sels lv hp hb
    cases sels with
    | nil => simp [nestingLevelsM, cL_nil]
    | cons s ss =>
      obtain ⟨G, S', e, c1, c2, c3, c4⟩ := collect_ok frags vars w hc hfb (K + 1) (s :: ss) [] hp hb
      simp only [nestingLevelsM, e]
      cases G with
      | nil =>
        simp [FM, maxL, gMax] at c2
        simp [c2]
      | cons kv G' =>
        simp only []
        rw [ih (nextSelections (kv :: G')) (lv + 1) (potL_nextSelections vars w K _ c4)
          (boundL_nextSelections vars w (K + 1) _ c4)]
        have h1 := cL_nextSelections frags vars w _ (kv :: G') c4 (by simp)
        simp [FM, maxL] at c2
        congr 1
        omega

/-- **merged_eq_recursive** — same value as the recursive measure (the model of the loop of today's tree) -/
theorem merged_eq_recursive (hc : Consistent frags w) (hfb : ∀ f ∈ frags, boundL vars f.sels = true)
    (K : Nat) (sels : List Sel) (hp : potL w sels ≤ K) (hb : boundL vars sels = true) :
    nestingLevelsM frags vars (K + 1) 0 sels = nestingLevels (K + 1) sels frags vars := by
  rw [nestingLevelsM_ok frags vars w hc hfb K sels 0 hp hb, nestingLevels_ok frags vars w hc hfb K sels hp hb]
  simp

end

/-! ### the tolerant hook -/

private theorem nextSelections_erase (v : Vars) (G : Grouped) :
    nextSelections (eraseG v G) = eraseL v (nextSelections G) := by
  induction G with
  | nil => simp [nextSelections, eraseG, eraseL]
  | cons kv rest ih =>
    have : eraseG v (kv :: rest) = (kv.1, kv.2.map (eraseFld v)) :: eraseG v rest := by simp [eraseG]
    rw [this]
    simp only [nextSelections, List.flatMap_cons] at ih ⊢
    rw [eraseL_append, flatMap_sub_erase, ih]

/-- **nestingLevelsM_sim** — the merged loop with the tolerant hook = the strict merged loop on the erased document -/
theorem nestingLevelsM_sim (v : Vars) (frags : List Frag) : ∀ (b lv : Nat) (sels : List Sel),
    nestingLevelsM (eraseFrags v frags) v b lv (eraseL v sels) = nestingLevelsMG skipSelectionT frags v b lv sels := by
  intro b
  induction b with
  | zero =>
    intro lv sels
    cases sels with
    | nil => simp [nestingLevelsM, nestingLevelsMG, eraseL]
    | cons s ss => simp [nestingLevelsM, nestingLevelsMG, eraseL_cons]
  | succ b ih =>
    intro lv sels
    cases sels with
    | nil => simp [nestingLevelsM, nestingLevelsMG, eraseL]
    | cons s ss =>
      have hc := collect_sim v frags (b + 1) (s :: ss) []
      rw [eraseL_cons] at hc ⊢
      simp only [nestingLevelsM, nestingLevelsMG, hc]
      cases collectFieldsUntypedG skipSelectionT (b + 1) (s :: ss) frags v [] with
      | error e => simp [eraseSt]
      | ok r =>
        obtain ⟨G, S'⟩ := r
        cases G with
        | nil => simp [eraseSt, eraseG]
        | cons kv G' =>
          have hg : eraseG v (kv :: G') = (kv.1, kv.2.map (eraseFld v)) :: eraseG v G' := by simp [eraseG]
          simp only [eraseSt, hg]
          rw [← hg, nextSelections_erase, ih]

/-- **measuredM_eq_depthK** — unique, acyclic fragments, ANY request variables, any budget ≥ the fuel of the document (the
    rule's budget is: `fuel_le_budget`): the merged loop measures `depthK` -/
theorem measuredM_eq_depthK (doc : Doc) (hu : UniqueNames doc.frags) (ha : Acyclic doc.frags) (v : Vars)
    (op : Op) (hop : op ∈ doc.ops) (fuel : Nat) (hfuel : doc.fuel ≤ fuel) :
    depthFixedMG skipSelectionT fuel op doc.frags v = .ok (depthK doc v op) := by
  have hG := measuredT_eq_depthK doc hu ha v op hop fuel hfuel
  have hac : acyclic (eraseFrags v doc.frags) = true := by
    rw [acyclic_erase]; exact acyclic_complete doc.frags hu ha
  have hc : Consistent (eraseFrags v doc.frags) (wOf (weights (eraseFrags v doc.frags))) := by
    intro f hf
    simp only [acyclic, List.all_eq_true, decide_eq_true_eq] at hac
    exact hac f hf
  have hfb : ∀ f ∈ eraseFrags v doc.frags, boundL v f.sels = true := by
    intro f hf
    simp only [eraseFrags, List.mem_map] at hf
    obtain ⟨g, _, rfl⟩ := hf
    exact boundL_erase v g.sels
  -- the fuel dominates the potential of the (erased) operation
  have hpot : potL (wOf (weights (eraseFrags v doc.frags))) (eraseL v op.sels) + 1 ≤ fuel := by
    rw [weights_erase, potL_erase]
    have : potL (wOf (weights doc.frags)) op.sels ∈ doc.ops.map (fun op => potL (wOf (weights doc.frags)) op.sels) :=
      List.mem_map_of_mem (f := fun op => potL (wOf (weights doc.frags)) op.sels) hop
    have h1 := le_maxList' this
    unfold Doc.fuel at hfuel
    omega
  obtain ⟨K, rfl⟩ : ∃ K, fuel = K + 1 := ⟨fuel - 1, by omega⟩
  have hM := merged_eq_recursive (eraseFrags v doc.frags) v _ hc hfb K (eraseL v op.sels) (by omega) (boundL_erase v _)
  rw [nestingLevelsM_sim, nestingLevels_sim] at hM
  unfold depthFixedMG
  unfold depthFixedG at hG
  rw [hM]
  exact hG

private theorem ruleLoopB_congr (f g : Nat → Op → Except Err (Option Nat)) (limit : Nat) (filter : Option String) :
    ∀ (ops : List Op) (i : Nat), (∀ j op, ops[j]? = some op → f (i + j) op = g (i + j) op) →
      ruleLoopB f limit filter i ops = ruleLoopB g limit filter i ops
  | [], _, _ => rfl
  | op :: rest, i, h => by
    have h0 := h 0 op (by simp)
    have ih := ruleLoopB_congr f g limit filter rest (i + 1) (fun j o hj => by
      have := h (j + 1) o (by simpa using hj)
      rw [show i + 1 + j = i + (j + 1) by omega]
      exact this)
    simp only [Nat.add_zero] at h0
    simp only [ruleLoopB, h0, ih]

/-- **ruleM_eq_ruleB** — on documents with unique, acyclic fragments the rule with the level-merged loop (C19-H3) returns
    exactly what the rule of today's tree returns, for every limit, filter and request variables -/
theorem ruleM_eq_ruleB (doc : Doc) (defs : List (List VarDefR)) (raw : RawVars)
    (hu : UniqueNames doc.frags) (ha : Acyclic doc.frags) (limit : Nat) (filter : Option String) :
    ruleM limit filter doc defs raw = ruleB limit filter doc defs raw := by
  unfold ruleM ruleB
  apply ruleLoopB_congr
  intro j op hj
  simp only [Nat.zero_add]
  have hop := List.mem_of_getElem? hj
  have h1 := measuredM_eq_depthK doc hu ha (effectiveVarsR (defs.getD j []) raw) op hop doc.budget (fuel_le_budget doc)
  have h2 := measuredT_eq_depthK doc hu ha (effectiveVarsR (defs.getD j []) raw) op hop doc.budget (fuel_le_budget doc)
  simp only [depthFixedMB, depthFixedB, h1, h2]

/-- **flags_iff_final_merged** — `flags_iff_final` for the rule after C19-H3 -/
theorem flags_iff_final_merged (doc : Doc) (defs : List (List VarDefR)) (raw : RawVars)
    (hu : UniqueNames doc.frags) (ha : Acyclic doc.frags) (limit : Nat) (filter : Option String) :
    ∃ errs, ruleM limit filter doc defs raw = .ok errs ∧
      ∀ (i : Nat) (op : Op), doc.ops[i]? = some op →
        ((∃ d, (i, d) ∈ errs) ↔ (opSelected filter op = true ∧ depthRK doc defs raw i op > limit)) ∧
        (∀ d, (i, d) ∈ errs → d = some (depthRK doc defs raw i op)) := by
  rw [ruleM_eq_ruleB doc defs raw hu ha limit filter]
  exact flags_iff_final doc defs raw hu ha limit filter

/-! ### totality, cyclic documents included -/

private theorem nestingMG_err (frags : List Frag) (vars : Vars) : ∀ (b lv : Nat) (sels : List Sel) (e : Err),
    nestingLevelsMG skipSelectionT frags vars b lv sels = .error e → e = .recursion := by
  intro b
  induction b with
  | zero =>
    intro lv sels e h
    cases sels with
    | nil => simp [nestingLevelsMG] at h
    | cons s ss => simp [nestingLevelsMG] at h; exact h.symm
  | succ b ih =>
    intro lv sels e h
    cases sels with
    | nil => simp [nestingLevelsMG] at h
    | cons s ss =>
      simp only [nestingLevelsMG] at h
      cases hc : collectFieldsUntypedG skipSelectionT (b + 1) (s :: ss) frags vars [] with
      | error e' =>
        simp only [hc] at h
        cases h
        exact collectG_err frags vars _ _ _ _ hc
      | ok r =>
        obtain ⟨G, S'⟩ := r
        simp only [hc] at h
        cases G with
        | nil => simp at h
        | cons kv G' => exact ih _ _ e h

theorem depthFixedMB_total (budget : Nat) (op : Op) (frags : List Frag) (vars : Vars) :
    ∃ r, depthFixedMB budget op frags vars = .ok r := by
  unfold depthFixedMB
  cases hd : depthFixedMG skipSelectionT budget op frags vars with
  | ok d => exact ⟨some d, rfl⟩
  | error e =>
    have : e = .recursion := by
      unfold depthFixedMG at hd
      cases hn : nestingLevelsMG skipSelectionT frags vars budget 0 op.sels with
      | error e' => simp [hn] at hd; subst hd; exact nestingMG_err frags vars _ _ _ _ hn
      | ok n => simp [hn] at hd
    subst this
    exact ⟨none, rfl⟩

/-- **ruleM_never_raises** — NO hypotheses (cyclic fragments, duplicate names, any JSON variables): the rule with the
    level-merged loop returns a list of errors -/
theorem ruleM_never_raises (doc : Doc) (defs : List (List VarDefR)) (raw : RawVars) (limit : Nat)
    (filter : Option String) : ∃ errs, ruleM limit filter doc defs raw = .ok errs := by
  unfold ruleM
  exact ruleLoopB_total _ (fun i op => depthFixedMB_total _ _ _ _) limit filter doc.ops 0

/-! ### witnesses -/

/-- the docstring example measures 4 with the merged loop too -/
example : depthFixedMG skipSelectionT docstringDoc.budget docstringOp docstringDoc.frags [] = .ok 4 := by decide

/-- key merging across levels (`p: a {…} q: a {…}`): same verdict as today's rule -/
private def mergeDoc : Doc :=
  ⟨[⟨none, [.spread "F01" {}]⟩],
   [⟨"F01", [.field (some "p") "a" {} [.spread "F12" {}], .field (some "q") "a" {} [.spread "F12" {}, .spread "F11" {}]]⟩,
    ⟨"F11", [.field none "c" {} []]⟩, ⟨"F12", [.field none "c" {} []]⟩]⟩

example : ruleM 0 none mergeDoc [[]] [] = .ok [(0, some 1)] ∧ ruleB 0 none mergeDoc [[]] [] = .ok [(0, some 1)] := by
  decide

/-- a selected fragment cycle is reported as unbounded, not raised -/
example : ruleM 3 none cycSelf [[]] [] = .ok [(0, none)] := by decide

/-- hypotheses of `flags_iff_final_merged` on `mergeDoc` -/
example : UniqueNames mergeDoc.frags ∧ Acyclic mergeDoc.frags :=
  ⟨by unfold UniqueNames; decide, acyclic_sound _ (by decide)⟩

end PyGql.Props.C19

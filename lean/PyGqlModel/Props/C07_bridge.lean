/-
  C07 — property theorems, part 6: the hypothesis `VarsFit` of `literal_sound` / `arguments_sound` is what
  `coerce_variable_values` (theorem `variables_sound`) and the validation rule VariablesInAllowedPosition establish.
-/
import PyGqlModel.Props.C07_args
import PyGqlModel.Props.C07_trace

set_option linter.unusedSimpArgs false
set_option linter.unusedVariables false

namespace PyGql.Props.C07
open PyGql PyGql.Coerce

private theorem conforms_none_iff {reg : Reg} {t : Ty} (h : Conforms reg (.nonNull t) .none) : False := by
  cases h with
  | null h0 => simp [Ty.isNonNull] at h0
  | nonNull hn _ => simp [PV.isNone] at hn

/-- **subtype lemma.** `is_subtype(a, b)` ⇒ every value that conforms to `a` conforms to `b`. -/
theorem isSubtype_conforms {reg : Reg} : ∀ (a b : Ty) (pv : PV), isSubtype a b = true → Conforms reg a pv → Conforms reg b pv := by
  intro a
  induction a with
  | named n =>
    intro b pv h hc
    simp [isSubtype] at h; subst h; exact hc
  | list a ih =>
    intro b pv h hc
    simp only [isSubtype, Bool.or_eq_true, beq_iff_eq] at h
    rcases h with h | h
    · subst h; exact hc
    · cases b with
      | list b' =>
        simp only at h
        cases hc with
        | null _ => exact .null rfl
        | list hall => exact .list (fun x hx => ih b' x h (hall x hx))
      | named _ => simp at h
      | nonNull _ => simp at h
  | nonNull a ih =>
    intro b pv h hc
    simp only [isSubtype, Bool.or_eq_true, beq_iff_eq] at h
    rcases h with h | h
    · subst h; exact hc
    · cases hc with
      | null h0 => simp [Ty.isNonNull] at h0
      | nonNull hn hc' =>
        cases b with
        | nonNull b' => simp only at h; exact .nonNull hn (ih b' pv h hc')
        | named m => simp only at h; exact ih _ pv h hc'
        | list b' => simp only at h; exact ih _ pv h hc'

private theorem strip_conforms {reg : Reg} {t : Ty} {pv : PV} (h : Conforms reg t pv) : Conforms reg (stripNN t) pv ∨ pv.isNone = true := by
  cases t with
  | nonNull t' =>
    cases h with
    | null h0 => simp [Ty.isNonNull] at h0
    | nonNull _ h' => exact .inl h'
  | named n => exact .inl h
  | list t' => exact .inl h

/-- one allowed usage: a non-None value of the variable's declared type fits the position -/
theorem allowed_conforms {reg : Reg} {vt lt : Ty} {b1 b2 : Bool} {pv : PV} (h : allowedUsage vt b1 lt b2 = true)
    (hc : Conforms reg vt pv) (hn : pv.isNone = false) : Conforms reg (stripNN lt) pv := by
  unfold allowedUsage at h
  split at h
  · simp only [Bool.and_eq_true] at h
    exact isSubtype_conforms _ _ _ h.2 hc
  · have := isSubtype_conforms _ _ _ h hc
    rcases strip_conforms this with h' | h'
    · exact h'
    · simp [hn] at h'

private theorem lookupLast_mem {α : Type} (k : String) : ∀ (l : List (String × α)) (v : α), lookupLast k l = some v → (k, v) ∈ l := by
  intro l
  induction l with
  | nil => intro v h; simp [lookupLast] at h
  | cons p rest ih =>
    intro v h
    obtain ⟨k', v'⟩ := p
    simp only [lookupLast] at h
    split at h
    · rename_i r hr; cases h; exact List.mem_cons_of_mem _ (ih _ hr)
    · split at h
      · rename_i hk; cases h; simp at hk; subst hk; exact List.mem_cons_self
      · cases h

/-- **varsFit_of_allowed.** If the environment is what `coerce_variable_values` produces (every bound variable conforms to
    the type of a definition of that name — `variables_sound`) and the validator has accepted every variable usage in the
    literal (`VarsAllowed`), then the literal's variables fit their positions (`VarsFit`). -/
theorem varsFit_of_allowed {reg : Reg} {defs : List VarDef} {env : List (String × PV)}
    (henv : ∀ p, p ∈ env → ∃ d, d ∈ defs ∧ d.name = p.1 ∧ Conforms reg d.type p.2) :
    ∀ {ty : Ty} {b : Bool} {l : Lit}, VarsAllowed reg defs ty b l → VarsFit reg (some env) ty l := by
  intro ty b l h
  induction h with
  | var hall =>
    rename_i ty' b' x
    refine .var (fun vs v hvs hv hn => ?_)
    cases hvs
    obtain ⟨d, hd, hname, hc⟩ := henv _ (lookupLast_mem x _ v hv)
    exact allowed_conforms (hall d hd hname) hc hn
  | leaf hl => exact .leaf hl
  | listItems hs _ ih => exact .listItems hs ih
  | listSingle hs _ ih => exact .listSingle hs ih
  | obj hs hk _ ih => exact .obj hs hk ih
  | scalarPos hs hk hnv => exact .scalarPos hs hk hnv

/-- **validated_arguments_sound.** Variables coerced by `coerce_variable_values`, usages accepted by the validator
    ⇒ the keyword arguments of every field conform. No assumption about the variable VALUES is left. -/
theorem validated_arguments_sound {reg : Reg} (hreg : RegOK reg) (fuel : Nat) (defs : List VarDef) (variables : List (String × JV))
    (hwf : ∀ d, d ∈ defs → d.type.wf = true) (env : List (String × PV))
    (henv : coerceVariableValues reg fuel variables defs = .ok env)
    (args : List (String × Lit)) (adefs : List InField) (hok : ArgsOK reg adefs)
    (hval : ∀ d, d ∈ adefs → ∀ l, lookupLast d.name args = some l → VarsAllowed reg defs d.type d.default.isSome l)
    (kw : List (String × PV)) (h : coerceArgumentValues reg fuel env args adefs = .ok kw) :
    ConformsFields reg adefs kw :=
  arguments_sound hreg fuel env args adefs kw hok
    (fun d hd l hl => varsFit_of_allowed (variables_sound hreg fuel variables defs env hwf henv) (hval d hd l hl)) h

/-- **every_validated_call_conforms.** The end-to-end statement over the executor trace with only checked hypotheses:
    well-formed registry and argument definitions, well-formed variable types, usages accepted by the validator. -/
theorem every_validated_call_conforms {reg : Reg} (hreg : RegOK reg) (fuel : Nat) (defs : List VarDef)
    (variables : List (String × JV)) (sels : List FieldSel)
    (hwf : ∀ d, d ∈ defs → d.type.wf = true)
    (hargs : ∀ sel, sel ∈ sels → ArgsOK reg sel.defs)
    (hval : ∀ sel, sel ∈ sels → ∀ d, d ∈ sel.defs → ∀ l, lookupLast d.name sel.args = some l →
        VarsAllowed reg defs d.type d.default.isSome l) :
    ∀ key kw, Ev.call key kw ∈ executeOp reg fuel defs variables sels →
      ∃ sel, sel ∈ sels ∧ sel.key = key ∧ ConformsFields reg sel.defs kw :=
  every_call_conforms hreg fuel defs variables sels hargs
    (fun env henv sel hs d hd l hl =>
      varsFit_of_allowed (variables_sound hreg fuel variables defs env hwf henv) (hval sel hs d hd l hl))

end PyGql.Props.C07

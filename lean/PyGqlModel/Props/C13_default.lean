/-
  C13 — what the default-value rule MEANS, independently of the model's function: `Conforms s ty v`, a declarative
  relation "the (coerced, Python-side) default value `v` is a legal value of type `ty`" written from the type system
  (non-null: not None; list: a list of conforming items; Int: a 32-bit integer; enum: one of the enum's own values;
  input object: a mapping whose entries conform to the fields they name; `None` conforms to every nullable type;
  custom scalars and unknown types are not examined).

  `default_error_sound`: whenever `_default_value_error` (`defaultBad`) reports a default, the default does NOT
  conform - at every fuel, so in particular for the `DefaultOK` clause of `validate_iff` / `violation_iff`
  (`reported_default_does_not_conform`); and a conforming default satisfies `DefaultOK` (`defaultOK_of_conforms`).
  The converse - every non-conforming default is reported - holds within the fuel of the model (`Fits`: 64 levels of
  wrappers / items / mapping entries): `default_error_complete`, `defaultOK_iff_conforms`. Without the bound it is
  `DefaultExact` below, which is NOT a theorem of the model (the real `_default_value_error` is bounded by Python's
  recursion limit instead).
-/
import PyGqlModel.SchemaValid
import PyGqlModel.Spec.SchemaValidSpec

set_option linter.unusedSimpArgs false
set_option linter.unusedVariables false

namespace PyGql.Props.C13
open PyGql PyGql.SchemaValid PyGql.SchemaValidSpec

/-- the default value conforms to the type of its position -/
inductive Conforms (s : SchemaD) : Ty → J → Prop
  | nonNull {t : Ty} {v : J} : isNone v = false → Conforms s t v → Conforms s (.nonNull t) v
  | nullList {t : Ty} : Conforms s (.list t) .null
  | nullNamed {n : String} : Conforms s (.named n) .null
  | list {t : Ty} {xs : List J} : (∀ x ∈ xs, Conforms s t x) → Conforms s (.list t) (.arr xs)
  | unknown {n : String} {v : J} : s.findType n = none → Conforms s (.named n) v
  | scalar {n : String} {td : TypeD} {v : J} : s.findType n = some td → td.kind = .scalar →
      (td.builtin && n == "Int") = false → Conforms s (.named n) v
  | int {n : String} {td : TypeD} {i : Int} : s.findType n = some td → td.kind = .scalar →
      -2147483648 ≤ i → i ≤ 2147483647 → Conforms s (.named n) (.num i)
  | enum {n : String} {td : TypeD} {v : J} : s.findType n = some td → td.kind = .enum →
      (∃ ev ∈ td.values, (ev.value == v) = true) → Conforms s (.named n) v
  | input {n : String} {td : TypeD} {kvs : List (String × J)} : s.findType n = some td → td.kind = .input →
      (∀ f ∈ td.inputFields, ∀ x, lookupKey kvs f.pythonName = some x → Conforms s f.type x) →
      Conforms s (.named n) (.obj kvs)
  | other {n : String} {td : TypeD} {v : J} : s.findType n = some td → td.kind ≠ .scalar → td.kind ≠ .enum →
      td.kind ≠ .input → Conforms s (.named n) v

/-- **a reported default does not conform**: `defaultBad` never flags a conforming value, whatever the fuel -/
theorem default_error_sound (s : SchemaD) {ty : Ty} {v : J} (h : Conforms s ty v) :
    ∀ n, defaultBad s n ty v = false := by
  induction h with
  | nonNull hn _ ih =>
    intro n; cases n with
    | zero => simp [defaultBad]
    | succ n => simp only [defaultBad, hn]; exact ih n
  | nullList => intro n; cases n <;> simp [defaultBad]
  | nullNamed => intro n; cases n <;> simp [defaultBad]
  | list _ ih =>
    intro n; cases n with
    | zero => simp [defaultBad]
    | succ n =>
      simp only [defaultBad]
      rw [List.any_eq_false]
      intro x hx; simp [ih x hx n]
  | unknown hf =>
    intro n; cases n with
    | zero => simp [defaultBad]
    | succ n => rename_i nm v; cases v <;> simp [defaultBad, hf]
  | scalar hf hk hb =>
    intro n; cases n with
    | zero => simp [defaultBad]
    | succ n => rename_i nm td v; cases v <;> simp [defaultBad, hf, hk, hb]
  | int hf hk h1 h2 =>
    intro n; cases n with
    | zero => simp [defaultBad]
    | succ n => simp [defaultBad, hf, hk, h1, h2]
  | enum hf hk hex =>
    intro n; cases n with
    | zero => simp [defaultBad]
    | succ n =>
      rename_i nm td v
      obtain ⟨ev, hev, he⟩ := hex
      have hany : td.values.any (fun x => x.value == v) = true := List.any_eq_true.mpr ⟨ev, hev, he⟩
      cases v <;> simp [defaultBad, hf, hk, hany]
  | input hf hk _ ih =>
    intro n; cases n with
    | zero => simp [defaultBad]
    | succ n =>
      simp only [defaultBad, hf, hk]
      simp only [show (Kind.input == Kind.scalar) = false from rfl, show (Kind.input == Kind.enum) = false from rfl,
        show (Kind.input == Kind.input) = true from rfl, Bool.false_eq_true, if_false, if_true]
      rw [List.any_eq_false]
      intro f hf'
      cases hl : lookupKey _ f.pythonName with
      | none => simp
      | some x => simp [ih f hf' x hl n]
  | other hf h1 h2 h3 =>
    intro n; cases n with
    | zero => simp [defaultBad]
    | succ n =>
      rename_i nm td v
      have e1 : (td.kind == Kind.scalar) = false := by simpa using h1
      have e2 : (td.kind == Kind.enum) = false := by simpa using h2
      have e3 : (td.kind == Kind.input) = false := by simpa using h3
      cases v <;> simp [defaultBad, hf, e1, e2, e3]

/-- a default reported by the rule (clause `DefaultOK` of `validate_iff`, errors `argDefault` / `dirArgDefault` /
    `inputFieldDefault` of `violation_iff`) is a default that does not conform to its type -/
theorem reported_default_does_not_conform (s : SchemaD) (a : ArgD)
    (h : defaultBad s defaultFuel a.type a.default = true) : ¬ Conforms s a.type a.default := fun hc => by
  rw [default_error_sound s hc defaultFuel] at h; cases h

/-- a conforming default passes the rule -/
theorem defaultOK_of_conforms (s : SchemaD) (a : ArgD) (h : a.hasDefault = true → Conforms s a.type a.default) :
    DefaultOK s a := fun hd => default_error_sound s (h hd) defaultFuel

/-- the converse WITHOUT the fuel bound (kept visible, not proved: beyond 64 levels the model stops looking; the real
    `_default_value_error` has no such bound other than Python's recursion limit). Within the bound:
    `defaultOK_iff_conforms`. -/
def DefaultExact : Prop :=
  ∀ (s : SchemaD) (a : ArgD), DefaultOK s a → a.hasDefault = true → Conforms s a.type a.default

/-- the fuel `n` suffices for `defaultBad` to look at every level of `v` against `ty` (structural in the fuel: type
    wrappers, list items and the entries of input object mappings each use one unit) -/
def Fits (s : SchemaD) : Nat → Ty → J → Prop
  | 0, _, _ => False
  | n+1, .nonNull t, v => Fits s n t v
  | n+1, .list t, .arr xs => ∀ x ∈ xs, Fits s n t x
  | n+1, .named nm, .obj kvs =>
    ∀ td, s.findType nm = some td → td.kind = .input →
      ∀ f ∈ td.inputFields, ∀ x, lookupKey kvs f.pythonName = some x → Fits s n f.type x
  | _+1, _, _ => True

/-- **the converse, within the fuel**: a default the rule does not report conforms to its type -/
theorem default_error_complete (s : SchemaD) : ∀ (n : Nat) (ty : Ty) (v : J), Fits s n ty v →
    defaultBad s n ty v = false → Conforms s ty v := by
  intro n
  induction n with
  | zero => intro ty v hf; simp [Fits] at hf
  | succ n ih =>
    intro ty v hf hb
    cases ty with
    | nonNull t =>
      simp only [defaultBad] at hb
      cases hn : isNone v with
      | true => rw [hn] at hb; simp at hb
      | false =>
        rw [hn] at hb; simp only [Bool.false_eq_true, if_false] at hb
        exact .nonNull hn (ih t v (by simpa [Fits] using hf) hb)
    | list t =>
      cases v with
      | null => exact .nullList
      | arr xs =>
        simp only [defaultBad] at hb
        rw [List.any_eq_false] at hb
        have hf' : ∀ x ∈ xs, Fits s n t x := by simpa [Fits] using hf
        exact .list fun x hx => ih t x (hf' x hx) (by simpa using hb x hx)
      | bool b => simp [defaultBad] at hb
      | num i => simp [defaultBad] at hb
      | str x => simp [defaultBad] at hb
      | obj kvs => simp [defaultBad] at hb
    | named nm =>
      cases hft : s.findType nm with
      | none => exact .unknown hft
      | some td =>
        cases hk : td.kind with
        | scalar =>
          cases hbi : (td.builtin && nm == "Int") with
          | false => exact .scalar hft hk hbi
          | true =>
            cases v with
            | null => exact .nullNamed
            | num i =>
              simp [defaultBad, hft, hk, hbi] at hb
              exact .int hft hk hb.1 hb.2
            | bool b => simp [defaultBad, hft, hk, hbi] at hb
            | str x => simp [defaultBad, hft, hk, hbi] at hb
            | arr xs => simp [defaultBad, hft, hk, hbi] at hb
            | obj kvs => simp [defaultBad, hft, hk, hbi] at hb
        | enum =>
          cases v with
          | null => exact .nullNamed
          | _ =>
            simp [defaultBad, hft, hk] at hb
            obtain ⟨ev, hev, he⟩ := hb
            exact .enum hft hk ⟨ev, hev, by simpa using he⟩
        | input =>
          cases v with
          | null => exact .nullNamed
          | obj kvs =>
            simp only [defaultBad, hft, hk] at hb
            simp only [show (Kind.input == Kind.scalar) = false from rfl, show (Kind.input == Kind.enum) = false from rfl,
              show (Kind.input == Kind.input) = true from rfl, Bool.false_eq_true, if_false, if_true] at hb
            rw [List.any_eq_false] at hb
            have hf' : ∀ td', s.findType nm = some td' → td'.kind = .input →
                ∀ f ∈ td'.inputFields, ∀ x, lookupKey kvs f.pythonName = some x → Fits s n f.type x := by
              simpa [Fits] using hf
            refine .input hft hk fun f hfm x hl => ih f.type x (hf' td hft hk f hfm x hl) ?_
            have := hb f hfm
            rw [hl] at this
            simpa using this
          | bool b => simp [defaultBad, hft, hk] at hb
          | num i => simp [defaultBad, hft, hk] at hb
          | str x => simp [defaultBad, hft, hk] at hb
          | arr xs => simp [defaultBad, hft, hk] at hb
        | object => exact .other hft (by rw [hk]; decide) (by rw [hk]; decide) (by rw [hk]; decide)
        | interface => exact .other hft (by rw [hk]; decide) (by rw [hk]; decide) (by rw [hk]; decide)
        | union => exact .other hft (by rw [hk]; decide) (by rw [hk]; decide) (by rw [hk]; decide)

/-- **the default rule is exact within the fuel**: for a default whose nesting the model's fuel covers, `DefaultOK`
    (what `validate_iff` says the validator checks) ⇔ the default conforms to its type -/
theorem defaultOK_iff_conforms (s : SchemaD) (a : ArgD) (hfit : Fits s defaultFuel a.type a.default) :
    DefaultOK s a ↔ (a.hasDefault = true → Conforms s a.type a.default) :=
  ⟨fun h hd => default_error_complete s defaultFuel a.type a.default hfit (h hd), defaultOK_of_conforms s a⟩

/-! non-vacuity: `[Int!]` takes `[1, 2]`, not `[1, null]`, and the rule says so -/
private def dS : SchemaD := { types := [{ kind := .scalar, name := "Int", builtin := true }] }

example : Conforms dS (.list (.nonNull (.named "Int"))) (.arr [.num 1, .num 2]) :=
  .list fun x hx => by
    simp only [List.mem_cons, List.mem_singleton, List.not_mem_nil, or_false] at hx
    rcases hx with rfl | rfl
    · exact .nonNull rfl (.int (td := { kind := .scalar, name := "Int", builtin := true }) rfl rfl (by decide) (by decide))
    · exact .nonNull rfl (.int (td := { kind := .scalar, name := "Int", builtin := true }) rfl rfl (by decide) (by decide))

example : ¬ Conforms dS (.list (.nonNull (.named "Int"))) (.arr [.num 1, .null]) :=
  reported_default_does_not_conform dS { name := "a", type := .list (.nonNull (.named "Int")), default := .arr [.num 1, .null] }
    (by decide)

/-- the fuel covers the example (hypothesis of `defaultOK_iff_conforms`) -/
example : Fits dS defaultFuel (.list (.nonNull (.named "Int"))) (.arr [.num 1, .null]) := by
  simp [Fits, defaultFuel]

end PyGql.Props.C13

/-
  C01, the error clause for the PARSER: "each syntax error reports a position inside the submitted text and can always
  be rendered as a message and as a response-error dictionary".

  Token level : every error of the three entry points is at a position ≤ n whenever the tokens lie in `[0, n]`
                (`parse_error_in_range`) — the position is always the start of a token of the input.
  Text level  : `lexAll` puts every token inside the text (`lexAll_in_range`, from LANG-1's `lex_sound`), hence
                every error RAISED BY THE PARSER is inside the text (`parse_text_parser_error_in_range`, no exception),
                and for the composed pipeline the ONLY excluded case is the lexer's L6
                (`parse_text_error_in_range_partial`, stated exactly as `error_in_range_partial`).
  Rendering   : `str()` / `.highlighted` / `.to_dict()` are total (LANG-1's `render_total`), and for parser errors
                `index_to_loc` is defined on the reported position itself, without clamping.
-/
import PyGqlModel.Props.C01_lex
import PyGqlModel.Lemmas.ParseRange2
import PyGqlModel.ParseText
namespace PyGql.Props.C01
open PyGql PyGql.Ast PyGql.Parse PyGql.StringUtils
open PyGql.Spec.Lexical (Tiles)

/-! ### token level -/

/-- `parse_error_in_range` (token level, all flags, all three entry points): if every token lies in `[0, n]`, a
    rejection reports a position in `[0, n]`. -/
theorem parse_error_in_range (fl : Flags) (n : Nat) (toks : List Tok) (hr : ∀ t ∈ toks, TokR n t) (e : SynErr) :
    (parseDocument fl toks = .error e → e.pos ≤ n) ∧
    (parseValue fl toks = .error e → e.pos ≤ n) ∧
    (parseType fl toks = .error e → e.pos ≤ n) :=
  ⟨runAll_in_range n _ (fun _ => SafeC.safe) toks hr e,
   runAll_in_range n _ (fun _ => SafeC.safe) toks hr e, runAll_in_range n _ (fun _ => SafeC.safe) toks hr e⟩

/-! ### the lexer's tokens lie inside the text -/

theorem tiles_in_range (n : Nat) (s : Text) (body : List Tok) (h : Tiles n s body) : ∀ t ∈ body, TokR n t := by
  induction h with
  | eof ign _ => intro t ht; simp at ht; subst ht; exact ⟨Nat.le_refl _, Nat.le_refl _⟩
  | tok ign lex rest k v toks _ _ _ _ ih =>
    intro t ht
    rcases List.mem_cons.1 ht with rfl | ht
    · exact ⟨Nat.sub_le _ _, Nat.sub_le _ _⟩
    · exact ih t ht

/-- every token of `lexAll s` lies inside `s` -/
theorem lexAll_in_range (s : Text) (toks : List Tok) (h : Lex.lexAll s = .ok toks) : ∀ t ∈ toks, TokR s.length t := by
  obtain ⟨body, rfl, ht⟩ := lex_sound s toks h
  intro t hm
  rcases List.mem_cons.1 hm with rfl | hm
  · exact ⟨Nat.zero_le _, Nat.zero_le _⟩
  · exact tiles_in_range _ _ _ ht t hm

/-! ### text level -/

private theorem withLexer_parse_error {α} (p : List Tok → Except SynErr α) (s : Text) (pe : SynErr)
    (h : withLexer p s = .error (.parse pe)) : ∃ toks, Lex.lexAll s = .ok toks ∧ p toks = .error pe := by
  unfold withLexer at h
  split at h
  · rename_i toks hl
    split at h
    · cases h
    · rename_i e hp; cases h; exact ⟨toks, hl, hp⟩
  · cases h

private theorem withLexer_lex_error {α} (p : List Tok → Except SynErr α) (s : Text) (le : Lex.SynErr)
    (h : withLexer p s = .error (.lex le)) : Lex.lexAll s = .error le := by
  unfold withLexer at h
  split at h
  · split at h <;> cases h
  · rename_i e hl; cases h; exact hl

/-- every error RAISED BY THE PARSER (any entry point, any flags) is inside the submitted text — no exception -/
theorem parse_text_parser_error_in_range (fl : Flags) (s : Text) (pe : SynErr) :
    (parseTextE fl s = .error (.parse pe) → pe.pos ≤ s.length) ∧
    (parseValueTextE fl s = .error (.parse pe) → pe.pos ≤ s.length) ∧
    (parseTypeTextE fl s = .error (.parse pe) → pe.pos ≤ s.length) := by
  refine ⟨fun h => ?_, fun h => ?_, fun h => ?_⟩
  · obtain ⟨toks, hl, hp⟩ := withLexer_parse_error _ s pe h
    exact (parse_error_in_range fl s.length toks (lexAll_in_range s toks hl) pe).1 hp
  · obtain ⟨toks, hl, hp⟩ := withLexer_parse_error _ s pe h
    exact (parse_error_in_range fl s.length toks (lexAll_in_range s toks hl) pe).2.1 hp
  · obtain ⟨toks, hl, hp⟩ := withLexer_parse_error _ s pe h
    exact (parse_error_in_range fl s.length toks (lexAll_in_range s toks hl) pe).2.2 hp

/-- FULL STATEMENT of the clause for the composed pipeline — false only because of the lexer's L6
    (`error_in_range_refuted`) -/
def ParseTextErrorInRangeStatement : Prop :=
  ∀ (fl : Flags) (s : Text) (e : TextErr), parseTextE fl s = .error e → e.pos ≤ s.length

/-- NOTE (audit F7c): `parseTextE` is the EAGER composition (lexer, then parser). The real `Parser` pulls tokens lazily and,
    for a text with a lexical error, may report an EARLIER grammatical error instead; that pipeline is `parseTextLazyE`
    (`ParseLazy.lean`), and the same statement is proved for it as `parse_text_lazy_error_in_range` (`Props/C01_lazy.lean`),
    together with `lazy_ok_iff` (acceptance and tree do not depend on the window).
    `parse_text_error_in_range_partial`: a rejected text reports a position `0 ≤ p ≤ len(text)`, the ONLY excluded
    case being L6 — the lexer's `NonTerminatedString` at `len + 1` when the text ends inside an escape sequence
    (exactly the exception of `error_in_range_partial`).  Holds for `parse`, `parse_value`, `parse_type`, all flags. -/
theorem parse_text_error_in_range_partial (fl : Flags) (s : Text) (e : TextErr)
    (h : parseTextE fl s = .error e ∨ parseValueTextE fl s = .error e ∨ parseTypeTextE fl s = .error e) :
    e.pos ≤ s.length ∨
      ∃ le, e = .lex le ∧ le.pos = s.length + 1 ∧ le.kind = .nonTerminatedString := by
  cases e with
  | parse pe =>
    left
    have := parse_text_parser_error_in_range fl s pe
    rcases h with h | h | h
    · exact this.1 h
    · exact this.2.1 h
    · exact this.2.2 h
  | lex le =>
    have hl : Lex.lexAll s = .error le := by
      rcases h with h | h | h <;> exact withLexer_lex_error _ s le h
    rcases error_in_range_partial s le hl with h' | ⟨h1, h2⟩
    · exact Or.inl h'
    · exact Or.inr ⟨le, rfl, h1, h2⟩

/-! ### rendering -/

/-- every rejection can be rendered: `str()` / `.highlighted` and `.to_dict()` succeed for the reported position of
    ANY error of the pipeline (LANG-1's `render_total`, which covers even the `len + 1` of L6 through the clamp) -/
theorem parse_text_render_total (fl : Flags) (s : Text) (e : TextErr) (_h : parseTextE fl s = .error e) :
    (highlighted s e.pos).isSome = true ∧ (toDict s e.pos).isSome = true :=
  render_total s e.pos

/-- for errors raised by the PARSER no clamping is involved: `index_to_loc(text, position)` itself is defined (it is
    defined exactly on `0 ≤ position ≤ len(text)`, `index_to_loc_total_iff`) -/
theorem parse_error_index_to_loc_total (fl : Flags) (s : Text) (pe : SynErr)
    (h : parseTextE fl s = .error (.parse pe) ∨ parseValueTextE fl s = .error (.parse pe) ∨
      parseTypeTextE fl s = .error (.parse pe)) :
    (indexToLoc s pe.pos).isSome = true := by
  rw [index_to_loc_total_iff]
  have := parse_text_parser_error_in_range fl s pe
  rcases h with h | h | h
  · exact this.1 h
  · exact this.2.1 h
  · exact this.2.2 h

/-! ### non-vacuity -/

/-- (position, is-UnexpectedEOF) of a parser-raised error -/
private def parserErr {α} : Except TextErr α → Option (Nat × Bool)
  | .error (.parse e) => some (e.pos, e.eof)
  | _ => none

/-- `{ 1 }`: UnexpectedToken at 2;  `{a`: UnexpectedToken (`expect(Name)` never raises UnexpectedEOF) at len = 2;
    `{a(x:`: UnexpectedEOF at len = 5 -/
example : parserErr (parseTextE {} [123, 32, 49, 32, 125]) = some (2, false) := by decide
example : parserErr (parseTextE {} [123, 97]) = some (2, false) := by decide
example : parserErr (parseTextE {} [123, 97, 40, 120, 58]) = some (5, true) := by decide
/-- the excluded case is real: `"\` is rejected by the LEXER at len + 1 (L6) -/
example : (match parseTextE {} [34, 92] with | .error (.lex e) => e.pos | _ => 0) = 3 := by decide

/-! ### (c) viable prefixes: the full statement is FALSE on today's code

  "The error position is the end of the longest token prefix that can still be extended to an accepted document."
  Five of the seven `parse_*_type_extension` methods raise at `self.peek()` (the offending token), but
  `parse_scalar_type_extension` raises at `start` (the `extend` keyword) and `parse_input_object_type_extension`
  at `start.start`: for `extend scalar A` the reported position is 0 although `extend scalar A` (up to offset 15)
  is a viable prefix (`extend scalar A @d` is accepted).  The position is still INSIDE the text
  (`parse_error_in_range`), so no clause of C01 is violated; the model follows the code (positions compared by the
  correspondence on every rejected input). -/

/-- FULL STATEMENT (one half): no token of a viable prefix lies at or after the reported error position -/
def ViablePrefixStatement : Prop :=
  ∀ (fl : Flags) (toks : List Tok) (e : SynErr), parseDocument fl toks = .error e →
    ∀ pre t post suf, toks = pre ++ t :: post → (parseDocument fl (pre ++ t :: suf)).toBool = true → t.start < e.pos

private def tk (k : TokKind) (s e : Nat) (v : Text := []) : Tok := { kind := k, start := s, stop := e, value := v }

/-- refutation witness (also the replay on the implementation: `parse("extend scalar A", allow_type_system=True)`
    raises at position 0): the token `scalar` at 7 belongs to the viable prefix `extend scalar` (completed by `A @d`),
    yet the error is reported at 0 -/
theorem viable_prefix_refuted : ¬ ViablePrefixStatement := by
  intro h
  have := h { allowTypeSystem := true }
    [tk .sof 0 0, tk .name 0 6 K.extend, tk .name 7 13 K.scalar, tk .name 14 15 [65], tk .eof 15 15]
    ⟨0, "Unexpected token", false⟩ (by rfl)
    [tk .sof 0 0, tk .name 0 6 K.extend] (tk .name 7 13 K.scalar) [tk .name 14 15 [65], tk .eof 15 15]
    [tk .name 14 15 [65], tk .atSign 16 17, tk .name 17 18 [100], tk .eof 18 18] rfl (by decide)
  simp [tk] at this

end PyGql.Props.C01

/-
  C13 — `perm_deep`: the verdict of schema validation does not depend on the order of ANY list of the schema
  description, at any level: the type definitions, the directive definitions, the fields of a type, the arguments of a
  field or directive, enum values, input fields, union members, implemented interfaces. All lists may be reordered
  independently (`SchemaEqvV`). `perm_types` (Props/C13.lean) is the special case where only `schema.types` moves.

  Hypothesis: type names are unique (as in `schema.types`, a dict). Nothing else: uniqueness of field / argument
  names is part of what is being decided (a duplicated name stays duplicated under a permutation).
-/
import PyGqlModel.Lemmas.SchemaValidPerm

set_option linter.unusedSimpArgs false
set_option linter.unusedVariables false
set_option linter.unusedSectionVars false

namespace PyGql.Props.C13
open PyGql PyGql.SchemaValid PyGql.SchemaValidSpec PyGql.ListEqv PyGql.Generated.Subtype

/-- **Order of every list, at every level.** Two descriptions that list the same types, directives, fields,
    arguments, enum values, input fields, union members and interfaces, each list in any order (type names unique, as
    in `schema.types`), get the same verdict. -/
theorem perm_deep (s s' : SchemaD) (rv : Bool) (E : SchemaEqvV s s') (ND : (s.types.map (·.name)).Nodup) :
    validate s' rv = [] ↔ validate s rv = [] := by
  have ND' : (s'.types.map (·.name)).Nodup :=
    (ListEqv.map_perm E.types _ _ (fun a b _ r => r.name)).nodup_iff.mp ND
  rw [validate_iff, validate_iff]
  exact ⟨valid_eqv E.symm ND', valid_eqv E ND⟩

/-- `perm_types` is the special case where only the list of types moves -/
theorem SchemaEqvV.of_perm_types (s s' : SchemaD) (hp : s.types.Perm s'.types)
    (hdir : s.directives = s'.directives) (hq : s.query = s'.query) (hm : s.mutation = s'.mutation)
    (hsub : s.subscription = s'.subscription) (hd : s.defaultResolver = s'.defaultResolver) : SchemaEqvV s s' := by
  have frefl : ∀ l : List FieldD, F2 FieldEqvV l l := by
    intro l; induction l with
    | nil => exact .nil
    | cons a l ih => exact .cons ⟨rfl, rfl, rfl, rfl, List.Perm.refl _⟩ ih
  have trefl : ∀ l : List TypeD, F2 TypeEqvV l l := by
    intro l; induction l with
    | nil => exact .nil
    | cons a l ih =>
      exact .cons ⟨rfl, rfl, rfl, rfl, List.Perm.refl _, List.Perm.refl _, List.Perm.refl _, List.Perm.refl _,
        ⟨a.fields, List.Perm.refl _, frefl _⟩⟩ ih
  have drefl : ∀ l : List DirectiveD, F2 DirEqvV l l := by
    intro l; induction l with
    | nil => exact .nil
    | cons a l ih => exact .cons ⟨rfl, List.Perm.refl _⟩ ih
  exact ⟨⟨s'.types, hp, trefl _⟩, ⟨s.directives, List.Perm.refl _, by rw [← hdir]; exact drefl _⟩, hq, hm, hsub, hd⟩

/-! non-vacuity: a schema whose lists are all reordered (an interface with an argument-carrying field, an implementing
    object, a union, an enum, an input object, a directive) -/

private def pInt : TypeD := { kind := .scalar, name := "Int", builtin := true }
private def pA1 : ArgD := { name := "a", type := .named "Int" }
private def pA2 : ArgD := { name := "b", type := .named "E" }
private def pI (rev : Bool) : TypeD :=
  { kind := .interface, name := "I", fields := [{ name := "f", type := .named "Int", args := if rev then [pA2, pA1] else [pA1, pA2] }] }
private def pO (rev : Bool) : TypeD :=
  { kind := .object, name := "Query", interfaces := ["I"],
    fields := if rev then [{ name := "u", type := .named "U" }, { name := "f", type := .named "Int", args := [pA1, pA2] }]
              else [{ name := "f", type := .named "Int", args := [pA2, pA1] }, { name := "u", type := .named "U" }] }
private def pB : TypeD := { kind := .object, name := "B", fields := [{ name := "x", type := .named "Int" }] }
private def pU (rev : Bool) : TypeD := { kind := .union, name := "U", members := if rev then ["B", "Query"] else ["Query", "B"] }
private def pE (rev : Bool) : TypeD :=
  { kind := .enum, name := "E", values := if rev then [{ name := "Q", value := .str "Q" }, { name := "P", value := .str "P" }]
                                          else [{ name := "P", value := .str "P" }, { name := "Q", value := .str "Q" }] }
private def pS : SchemaD := { query := some "Query", types := [pInt, pI false, pO false, pB, pU false, pE false] }
private def pS' : SchemaD := { query := some "Query", types := [pE true, pU true, pB, pO true, pI true, pInt] }

private theorem swap2 {α} (a b : α) : [a, b].Perm [b, a] := List.Perm.swap _ _ _

private theorem pS_eqv : SchemaEqvV pS pS' := by
  refine ⟨⟨[pE false, pU false, pB, pO false, pI false, pInt], (List.reverse_perm pS.types).symm, ?_⟩, ⟨[], List.Perm.refl _, .nil⟩, rfl, rfl, rfl, rfl⟩
  refine .cons ⟨rfl, rfl, rfl, rfl, List.Perm.refl _, List.Perm.refl _, swap2 _ _, List.Perm.refl _, ⟨[], List.Perm.refl _, .nil⟩⟩ ?_
  refine .cons ⟨rfl, rfl, rfl, rfl, swap2 _ _, List.Perm.refl _, List.Perm.refl _, List.Perm.refl _, ⟨[], List.Perm.refl _, .nil⟩⟩ ?_
  refine .cons ⟨rfl, rfl, rfl, rfl, List.Perm.refl _, List.Perm.refl _, List.Perm.refl _, List.Perm.refl _,
    ⟨_, List.Perm.refl _, .cons ⟨rfl, rfl, rfl, rfl, List.Perm.refl _⟩ .nil⟩⟩ ?_
  refine .cons ⟨rfl, rfl, rfl, rfl, List.Perm.refl _, List.Perm.refl _, List.Perm.refl _, List.Perm.refl _,
    ⟨_, swap2 _ _, .cons ⟨rfl, rfl, rfl, rfl, List.Perm.refl _⟩ (.cons ⟨rfl, rfl, rfl, rfl, swap2 _ _⟩ .nil)⟩⟩ ?_
  refine .cons ⟨rfl, rfl, rfl, rfl, List.Perm.refl _, List.Perm.refl _, List.Perm.refl _, List.Perm.refl _,
    ⟨_, List.Perm.refl _, .cons ⟨rfl, rfl, rfl, rfl, swap2 _ _⟩ .nil⟩⟩ ?_
  exact .cons ⟨rfl, rfl, rfl, rfl, List.Perm.refl _, List.Perm.refl _, List.Perm.refl _, List.Perm.refl _,
    ⟨[], List.Perm.refl _, .nil⟩⟩ .nil

example : validate pS true = [] ∧ (validate pS' true = [] ↔ validate pS true = []) :=
  ⟨by decide, perm_deep pS pS' true pS_eqv (by decide)⟩

end PyGql.Props.C13

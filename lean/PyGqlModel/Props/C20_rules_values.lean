/-
  C20 — "no breaking change reported ⇒ operations stay valid": the static INPUT contexts (`IView`: expected input type
  of a position and of the enclosing position, Spec/ValidSpecValues.lean) of every node stay compatible, and
  **ValuesOfCorrectType (5.6.1, as implemented)** is preserved: `nobreaking_valuesOfCorrectType`.

  The invariant (`IInv`): the output views are compatible (`VInv`, C20_rules_doc.lean), the arguments of the enclosing
  field / directive are kept with at-least-as-permissive types (`ArgsRelS`), and the expected input type is unknown
  on both sides or known on both sides with `sub old new` (`InRel`: input positions only get MORE permissive).

  Facts about the two schema descriptions used as hypotheses (beyond `OldWf` / `NewWf`); like those they follow from
  `Schema.validate()` having passed, which `diff_schema` runs on both schemas first:
  * `OldWfIn o`: the types of arguments and input fields are well-formed type expressions (no `T!!`) over defined
    types (the type map is closed);
  * `NewWfIn n`: input field names are unique per input object type.
  `fx.v9 = true`: the tree has fix V9 (`parent_input_type` looks through list / non-null). WITHOUT it the statement
  is false: `f(a: In!)` → `f(a: In)` is safe, yet `{ f(a: {unknown: 1}) }` (accepted: the unknown field of a WRAPPED
  input object was not looked at) is rejected afterwards.
-/
import PyGqlModel.Lemmas.C20InputViews

set_option linter.unusedSimpArgs false
set_option linter.unusedVariables false

namespace PyGql.Props.C20
open PyGql PyGql.Differ PyGql.Diff PyGql.Validate PyGql.Validate.Spec

/-- at every node of a document in order on the old schema, the old and the new INPUT view are compatible -/
theorem inputViews_compatible (o n : SchemaD) (h : diffSchema o n 2 = []) (wo : OldWf o) (wn : NewWf n)
    (woi : OldWfIn o) (fx : Fixes) (hv9 : fx.v9 = true) (d : Doc) (hR : OpsRooted o d) (hv : SchemaRules o d)
    (hval : valuesOfCorrectType o fx d) : ∀ p ∈ pairNodesI o n d, IInv o p.2 :=
  gnDoc_inv (pdI o n) (IInv o) (OldOkI o fx) (fun nd x hi hk => pdI_step o n h wo wn woi fx hv9 nd x hi hk) d
    ({}, {}) (iinv_root o) (oldOkI_all o n fx d hv hR hval)

/-! ### the rule -/

private theorem kind_eq_of_in (o n : SchemaD) (h : diffSchema o n 2 = []) {t t' : Ty} (hl : TyLoose t t')
    (hi : isInputTy o t = true) : kindOf n t'.base = kindOf o t.base := by
  have hk := kind_of_in hi
  cases hko : kindOf o t.base with
  | none => rw [hko] at hk; simp at hk
  | some k => rw [sub_base _ _ hl.1]; exact nobreaking_V_kindOf o n h _ k hko

private theorem scalarLiteral_kept (o n : SchemaD) (h : diffSchema o n 2 = []) (w w' : IView) (v : Value)
    (hin : InRel o w.input w'.input) (hold : scalarLiteralOk o w v) : scalarLiteralOk n w' v := by
  intro it' hi'
  rcases hin with ⟨_, hy⟩ | ⟨t, t', hx, hy, hl, hi⟩
  · rw [hy] at hi'; cases hi'
  · rw [hy] at hi'; cases hi'
    obtain ⟨h1, h2⟩ := hold t hx
    have hk := kind_eq_of_in o n h hl hi
    refine ⟨?_, ?_⟩
    · unfold isScalar at h1 ⊢; rw [hk]; exact h1
    · rw [sub_base _ _ hl.1]; exact h2

/-- **ValuesOfCorrectType (5.6.1, as implemented) is preserved**: with no BREAKING change reported, every literal of a
    document that satisfies the schema-dependent rules on the old schema is still of the type its position expects. -/
theorem nobreaking_valuesOfCorrectType (o n : SchemaD) (h : diffSchema o n 2 = []) (wo : OldWf o) (wn : NewWf n)
    (woi : OldWfIn o) (wni : NewWfIn n) (fx : Fixes) (hv9 : fx.v9 = true) (d : Doc) (hR : OpsRooted o d)
    (hv : SchemaRules o d) (hval : valuesOfCorrectType o fx d) : valuesOfCorrectType n fx d := by
  have hinv := inputViews_compatible o n h wo wn woi fx hv9 d hR hv hval
  intro q hq
  obtain ⟨p, hp, rfl⟩ := ofI_new (o := o) hq
  have iv := hinv p hp
  have hold := hval _ (memI_old hp)
  obtain ⟨nd, w, w'⟩ := p
  show valueNodeOk n fx nd w'
  have hold : valueNodeOk o fx nd w := hold
  have hin : InRel o w.input w'.input := iv.input
  cases nd with
  | value v =>
    cases v with
    | int x => exact scalarLiteral_kept o n h w w' _ hin hold
    | float x => exact scalarLiteral_kept o n h w w' _ hin hold
    | str x => exact scalarLiteral_kept o n h w w' _ hin hold
    | bool x => exact scalarLiteral_kept o n h w w' _ hin hold
    | var x => trivial
    | list vs => trivial
    | null =>
      intro c hc
      have hold : ∀ t, w.input ≠ some (.nonNull t) := hold
      rcases hin with ⟨_, hy⟩ | ⟨t, t', hx, hy, hl, hi⟩
      · rw [hy] at hc; cases hc
      · rw [hy] at hc; cases hc
        obtain ⟨a, ha, _⟩ := sub_nonNull_right hl.1
        exact hold a (by rw [hx, ha])
    | enum x =>
      intro it' hi'
      have hold : ∀ it, w.input = some it →
        (isEnum o it.base = true → enumHas o it.base x = true) ∧
        (isEnum o it.base = false → isScalar o it.base = true ∧ scalarAccepts it.base (.enum x) = true) := hold
      rcases hin with ⟨_, hy⟩ | ⟨t, t', hx, hy, hl, hi⟩
      · rw [hy] at hi'; cases hi'
      · rw [hy] at hi'; cases hi'
        obtain ⟨h1, h2⟩ := hold t hx
        have hk := kind_eq_of_in o n h hl hi
        have hb := sub_base _ _ hl.1
        have he : isEnum n it'.base = isEnum o t.base := by unfold isEnum; rw [hk]
        refine ⟨fun hen => ?_, fun hen => ?_⟩
        · rw [he] at hen; rw [hb]; exact nobreaking_V_enumHas o n h _ x hen (h1 hen)
        · rw [he] at hen
          obtain ⟨h3, h4⟩ := h2 hen
          exact ⟨by unfold isScalar at h3 ⊢; rw [hk]; exact h3, by rw [hb]; exact h4⟩
    | obj fs =>
      intro it' hi'
      have hold : ∀ it, w.input = some it →
        (isInputObject o it.base = true ∧
          ∀ fd ∈ inputFields o it.base, Validate.ArgD.required fd = true → fd.name ∈ fs.map (·.name)) ∨
        (isInputObject o it.base = false ∧ isScalar o it.base = true ∧ scalarAccepts it.base (.obj fs) = true) := hold
      rcases hin with ⟨_, hy⟩ | ⟨t, t', hx, hy, hl, hi⟩
      · rw [hy] at hi'; cases hi'
      · rw [hy] at hi'; cases hi'
        have hk := kind_eq_of_in o n h hl hi
        have hb := sub_base _ _ hl.1
        rcases hold t hx with ⟨hio, hreq⟩ | ⟨hio, hsc, hacc⟩
        · left
          obtain ⟨hin', hS, hnew⟩ := nobreaking_V_inputFields o n h t.base hio
          rw [hb]
          refine ⟨hin', ?_⟩
          intro g hg hgr
          cases hf : (inputFields o t.base).find? (·.name == g.name) with
          | none => have := hnew g hg hf; rw [hgr] at this; cases this
          | some f =>
            have hfm : f ∈ inputFields o t.base := List.mem_of_find?_eq_some hf
            have hfn : f.name = g.name := by simpa using List.find?_some hf
            obtain ⟨b, hb', _, hbr⟩ := hS f hfm
            -- names are unique in the new input object: the field found is `g`
            have hgu : (inputFields n t.base).find? (·.name == g.name) = some g := by
              unfold inputFields at hg ⊢
              cases hnt : n.findType t.base with
              | none => rw [hnt] at hg; simp at hg
              | some tn =>
                rw [hnt] at hg
                simp only at hg ⊢
                by_cases hkk : (tn.kind == Kind.input) = true
                · simp only [hkk, if_true] at hg ⊢
                  unfold SchemaD.findType at hnt
                  exact wni.inputFields tn (List.mem_of_find?_eq_some hnt) g hg
                · simp only [hkk] at hg; simp at hg
            rw [hfn, hgu] at hb'
            cases hb'
            have hfr : Validate.ArgD.required f = true := by
              unfold becameRequired at hbr
              have hgr' : Diff.ArgD.required g = true := hgr
              rw [hgr'] at hbr
              show Diff.ArgD.required f = true
              cases hfr : Diff.ArgD.required f with
              | true => rfl
              | false => rw [hfr] at hbr; simp at hbr
            rw [← hfn]; exact hreq f hfm hfr
        · right
          rw [hb]
          refine ⟨?_, ?_, hacc⟩
          · unfold isInputObject at hio ⊢; rw [← hb, hk]; exact hio
          · unfold isScalar at hsc ⊢; rw [← hb, hk]; exact hsc
  | objField nm =>
    intro hnone
    have hold : w.input = none → w.outerObject o fx = none := hold
    have hwn : w.input = none := by
      rcases hin with ⟨hx, _⟩ | ⟨t, t', _, hy, _, _⟩
      · exact hx
      · rw [hy] at hnone; cases hnone
    have hoo := hold hwn
    rw [outerObject_v9 o fx hv9] at hoo
    rw [outerObject_v9 n fx hv9]
    rcases iv.outer with ⟨_, hy⟩ | ⟨t, t', hx, hy, hl, hi⟩
    · rw [show w'.outer = none from hy]
    · rw [show w'.outer = some t' from hy]
      rw [show w.outer = some t from hx] at hoo
      have hk := kind_eq_of_in o n h hl hi
      have : isInputObject n t'.base = isInputObject o t.base := by unfold isInputObject; rw [hk]
      simp only [this]
      by_cases hio : isInputObject o t.base = true
      · simp [hio] at hoo
      · simp [hio]
  | document d => trivial
  | tsDef => trivial
  | typeNode t => trivial
  | spread nm ds => trivial
  | selectionSet i sels => trivial
  | operation kind name vars dirs sels => trivial
  | fragmentDef name on dirs => trivial
  | inline on dirs => trivial
  | directive dr => trivial
  | field name args dirs hs => trivial
  | varDef v => trivial
  | argument a => trivial

end PyGql.Props.C20

/-
  C10 — property theorems, part 9: the executor model is TOTAL on well-typed outcome trees. `executed_response_wellformed`
  and `response_wellformed_pipeline` assume `execute root = some …` ("the executor model completes the tree": `none` stands
  for a value that is not a value of the field's type — a programming error that propagates by design). Here that assumption
  is replaced by a decidable condition on the tree itself: `typedFields` (a leaf or an object under a named type, a list
  under a list type, a raised error only directly at a field), and the two are shown EQUIVALENT (`execute_some_iff_typed`).
-/
import PyGqlModel.Props.C10_stages

namespace PyGql.Props.C10
open PyGql PyGql.Response PyGql.Spec.Response PyGql.Spec.TreeOk PyGql.Generated.ResponseKeys

private theorem wrap_some (isNN : Bool) (nodes : List Nat) (p : Path) (r : J × List Err) :
    ∃ r', nonNullWrap isNN nodes p (some r) = some r' := by
  obtain ⟨v, es⟩ := r
  by_cases c : (isNN && v.isNull) = true
  · exact ⟨(v, es ++ [Err.resolver (nonNullMessage p) (nodes.map some) (some p) none]), by simp only [nonNullWrap, c, if_true]⟩
  · exact ⟨(v, es), by simp only [nonNullWrap, c]; rfl⟩

private theorem wrap_none (isNN : Bool) (nodes : List Nat) (p : Path) : nonNullWrap isNN nodes p none = none := rfl

mutual
private theorem inner_total (b : Bool) (t : Ty) (nodes : List Nat) (path : Path) :
    ∀ (o : Out), typedInner b t o = true → (completeInner b t nodes path o).isSome = true
  | .null, _ => by simp [completeInner]
  | .raised m ext, h => by
    simp only [typedInner] at h
    subst h
    simp [completeInner]
  | .leaf x, h => by
    cases t <;> simp [typedInner] at h
    simp [completeInner]
  | .list items, h => by
    cases t with
    | list it =>
      simp only [typedInner] at h
      have hr := list_total it nodes path 0 items h
      simpa [completeInner] using hr
    | named n => simp [typedInner] at h
    | nonNull u => simp [typedInner] at h
  | .obj fields, h => by
    cases t with
    | named n =>
      simp only [typedInner] at h
      have hr := fields_total path fields h
      simpa [completeInner] using hr
    | list it => simp [typedInner] at h
    | nonNull u => simp [typedInner] at h

private theorem list_total (it : Ty) (nodes : List Nat) (path : Path) :
    ∀ (i : Nat) (items : OutList), typedList it items = true → (completeList it nodes path i items).isSome = true
  | i, .nil, _ => by simp [completeList]
  | i, .cons o rest, h => by
    simp only [typedList, Bool.and_eq_true] at h
    obtain ⟨r1, h1⟩ := Option.isSome_iff_exists.mp (inner_total false (innerTy it) nodes (path ++ [.idx i]) o h.1)
    obtain ⟨r1', h1'⟩ := wrap_some it.isNonNull nodes (path ++ [.idx i]) r1
    obtain ⟨r2, h2⟩ := Option.isSome_iff_exists.mp (list_total it nodes path (i + 1) rest h.2)
    rw [completeList, h1, h1', h2]
    rfl

private theorem fields_total (path : Path) :
    ∀ (fs : FldList), typedFields fs = true → (executeFields path fs).isSome = true
  | .nil, _ => by simp [executeFields]
  | .cons key ty nodes o rest, h => by
    simp only [typedFields, Bool.and_eq_true] at h
    obtain ⟨r1, h1⟩ := Option.isSome_iff_exists.mp (inner_total true (innerTy ty) nodes (path ++ [.key key]) o h.1)
    obtain ⟨r1', h1'⟩ := wrap_some (ty.isNonNull && !o.isRaised) nodes (path ++ [.key key]) r1
    obtain ⟨r2, h2⟩ := Option.isSome_iff_exists.mp (fields_total path rest h.2)
    rw [executeFields, h1, h1', h2]
    rfl
end

mutual
private theorem inner_typed (b : Bool) (t : Ty) (nodes : List Nat) (path : Path) :
    ∀ (o : Out) (r : J × List Err), completeInner b t nodes path o = some r → typedInner b t o = true
  | .null, _, _ => rfl
  | .raised m ext, r, h => by
    cases b <;> simp [completeInner] at h
    rfl
  | .leaf x, r, h => by
    cases t <;> simp [completeInner] at h
    rfl
  | .list items, r, h => by
    cases t with
    | list it =>
      simp only [completeInner, Option.map_eq_some_iff] at h
      obtain ⟨r', hr, _⟩ := h
      simp only [typedInner]
      exact list_typed it nodes path 0 items r' hr
    | named n => simp [completeInner] at h
    | nonNull u => simp [completeInner] at h
  | .obj fields, r, h => by
    cases t with
    | named n =>
      simp only [completeInner, Option.map_eq_some_iff] at h
      obtain ⟨r', hr, _⟩ := h
      simp only [typedInner]
      exact fields_typed path fields r' hr
    | list it => simp [completeInner] at h
    | nonNull u => simp [completeInner] at h

private theorem list_typed (it : Ty) (nodes : List Nat) (path : Path) :
    ∀ (i : Nat) (items : OutList) (r : List J × List Err), completeList it nodes path i items = some r → typedList it items = true
  | i, .nil, _, _ => rfl
  | i, .cons o rest, r, h => by
    rw [completeList] at h
    cases hi : completeInner false (innerTy it) nodes (path ++ [.idx i]) o with
    | none => rw [hi, wrap_none] at h; simp at h
    | some r1 =>
      obtain ⟨r1', h1'⟩ := wrap_some it.isNonNull nodes (path ++ [.idx i]) r1
      rw [hi, h1'] at h
      cases hr : completeList it nodes path (i + 1) rest with
      | none => rw [hr] at h; simp at h
      | some r2 =>
        simp only [typedList, Bool.and_eq_true]
        exact ⟨inner_typed false (innerTy it) nodes _ o r1 hi, list_typed it nodes path (i + 1) rest r2 hr⟩

private theorem fields_typed (path : Path) :
    ∀ (fs : FldList) (r : List (String × J) × List Err), executeFields path fs = some r → typedFields fs = true
  | .nil, _, _ => rfl
  | .cons key ty nodes o rest, r, h => by
    rw [executeFields] at h
    cases hi : completeInner true (innerTy ty) nodes (path ++ [.key key]) o with
    | none => rw [hi, wrap_none] at h; simp at h
    | some r1 =>
      obtain ⟨r1', h1'⟩ := wrap_some (ty.isNonNull && !o.isRaised) nodes (path ++ [.key key]) r1
      rw [hi, h1'] at h
      cases hr : executeFields path rest with
      | none => rw [hr] at h; simp at h
      | some r2 =>
        simp only [typedFields, Bool.and_eq_true]
        exact ⟨inner_typed true (innerTy ty) nodes _ o r1 hi, fields_typed path rest r2 hr⟩
end

/-- **the executor model answers exactly on well-typed outcome trees**: `execute root` is defined iff every outcome is a
    value of the type of its position and errors are raised only directly at fields. -/
theorem execute_some_iff_typed (root : FldList) : (∃ ex, execute root = some ex) ↔ typedFields root = true := by
  unfold execute
  constructor
  · rintro ⟨ex, h⟩
    simp only [Option.map_eq_some_iff] at h
    obtain ⟨r, hr, _⟩ := h
    exact fields_typed [] root r hr
  · intro h
    obtain ⟨r, hr⟩ := Option.isSome_iff_exists.mp (fields_total [] root h)
    exact ⟨(J.obj r.1, r.2), by simp [hr]⟩

/-- the same for a whole request (a root-collection failure is always an answer) -/
theorem execute_request_total (rc : Option (String × List (Option Nat))) (root : FldList) (h : typedFields root = true) :
    ∃ ex, executeRequest rc root = some ex := by
  cases rc with
  | some mn => exact ⟨_, rfl⟩
  | none => exact (execute_some_iff_typed root).mpr h

/-- **response_wellformed_pipeline_total.** `response_wellformed_pipeline` without the assumption that the executor model
    completes the tree: for ANY request text, any later outcomes satisfying `LaterOk` and any WELL-TYPED outcome tree the
    response exists, is well-formed up to the extracted key of syntax-error locations, strict JSON, and satisfies section 7.1
    as written when the text parses. -/
theorem response_wellformed_pipeline_total (fl : Parse.Flags) (render : Parse.TextErr → String) (text : Text) (l : Later)
    (h : LaterOk text l) (ht : typedFields l.root = true) :
    ∃ ex, executeRequest l.rootCollect l.root = some ex ∧
      ∃ j, (processQuery (stagesOf fl render text l ex)).response text = some j ∧ WellFormedK syntaxColKey text j ∧
        ((∃ d, Parse.parseTextE fl text = .ok d) → WellFormed text j) := by
  obtain ⟨ex, hx⟩ := execute_request_total l.rootCollect l.root ht
  exact ⟨ex, hx, response_wellformed_pipeline fl render text l ex hx h⟩

/-- non-vacuity: the tree of `executed_response_wellformed`'s example is well-typed; a list under a named type is not -/
example : typedFields
    (.cons "os" (.list (.nonNull (.named "Obj"))) [2]
      (.list (.cons (.obj (.cons "w" (.named "Int") [7] (.raised "boom" (some [("code", .num 1)]))
                          (.cons "v" (.nonNull (.named "Float")) [9] (.leaf (.obj [("$float", .str "1.5")])) .nil)))
             (.cons (.obj (.cons "w" (.named "Int") [7] .null (.cons "v" (.nonNull (.named "Float")) [9] .null .nil))) .nil))) .nil) = true
    ∧ typedFields (.cons "a" (.named "Int") [2] (.list .nil) .nil) = false := by
  decide

end PyGql.Props.C10

/-
  C20 — "whenever no breaking change is reported, every operation valid against the old schema is valid against the
  new one": ALL schema-dependent rules of the C06 specification except OverlappingFieldsCanBeMerged (which is FALSE:
  finding G4), in one statement: `operations_stay_valid_rules_all`.

  25 of the 26 rules: the 14 that do not read the schema (their verdict cannot change), the 8 of
  `operations_stay_valid_rules`, PossibleFragmentSpreads (`nobreaking_possibleFragmentSpreads`), and - new -
  ValuesOfCorrectType (`nobreaking_valuesOfCorrectType`) and VariablesInAllowedPosition
  (`nobreaking_variablesInAllowedPosition`). Hypotheses: `OpsRooted` (necessary: finding G6), the well-formedness
  facts `OldWf` / `NewWf` / `OldWfIn` / `NewWfIn` that `Schema.validate()` guarantees, and the fixes V9 / V10 of
  /repo HEAD (`fx.v9`, `fx.v10`: both necessary, see C20_rules_values.lean).

  Non-vacuity: an evolution that relaxes an argument (`In!` → `In`), adds an optional input field and an enum value,
  relaxes a list item (`[Int!]` → `[Int]`), and a document that uses variables inside list and object literals.
-/
import PyGqlModel.Props.C20_rules_vars
import PyGqlModel.Props.C20_rules_ex
import PyGqlModel.Props.C06_values
import PyGqlModel.Props.C06_vars

set_option linter.unusedSimpArgs false
set_option linter.unusedVariables false

namespace PyGql.Props.C20
open PyGql PyGql.Differ PyGql.Diff PyGql.Validate PyGql.Validate.Spec

/-- every schema-dependent rule of the C06 specification except OverlappingFieldsCanBeMerged -/
structure SchemaRulesAll (s : SchemaD) (fx : Fixes) (d : Doc) : Prop where
  rules : SchemaRules s d
  possibleFragmentSpreads : possibleFragmentSpreads s fx d
  valuesOfCorrectType : valuesOfCorrectType s fx d
  variablesInAllowedPosition : variablesInAllowedPosition s d

/-- **Operations stay valid: 25 of the 26 rules** (specification predicates; PARTIAL with respect to the clause as worded,
    `OperationsStayValidFull` of Props/C20_full.lean: OverlappingFieldsCanBeMerged is omitted - it is false, G4 - and
    `OpsRooted` is assumed - necessary, G6; the same statement on the validator model is
    `operations_stay_valid_all_but_overlap_partial`). -/
theorem operations_stay_valid_rules_all (o n : SchemaD) (h : diffSchema o n 2 = []) (wo : OldWf o) (wn : NewWf n)
    (woi : OldWfIn o) (wni : NewWfIn n) (fx : Fixes) (hv9 : fx.v9 = true) (hv10 : fx.v10 = true) (d : Doc)
    (hR : OpsRooted o d) (hv : SchemaRulesAll o fx d) : SchemaRulesAll n fx d :=
  ⟨operations_stay_valid_rules o n h wo wn d hR hv.rules,
   nobreaking_possibleFragmentSpreads o n h wo wn d fx hv10 hR hv.rules hv.possibleFragmentSpreads,
   nobreaking_valuesOfCorrectType o n h wo wn woi wni fx hv9 d hR hv.rules hv.valuesOfCorrectType,
   nobreaking_variablesInAllowedPosition o n h wo wn woi fx hv9 d hR hv.rules hv.valuesOfCorrectType
     hv.variablesInAllowedPosition⟩

/-! ### a concrete compatible evolution of input positions -/

private def builtinsI : List TypeD :=
  [{ kind := .scalar, name := "Int" }, { kind := .scalar, name := "String" }, { kind := .scalar, name := "Boolean" },
   { kind := .object, name := "__Schema" }, { kind := .object, name := "__Type" }]

private def iO : SchemaD :=
  { query := some "Query",
    types := builtinsI ++
      [{ kind := .enum, name := "Color", values := [{ name := "RED" }] },
       { kind := .input, name := "In",
         inputFields := [{ name := "x", type := .nonNull (.named "Int") },
                         { name := "ys", type := .list (.nonNull (.named "Int")) },
                         { name := "sub", type := .named "In" }] },
       { kind := .object, name := "Query",
         fields := [{ name := "f", type := .named "Int",
                      args := [{ name := "a", type := .nonNull (.named "In") },
                               { name := "c", type := .named "Color" },
                               { name := "k", type := .nonNull (.named "String") }] }] }] }

/-- new schema: `a: In!` → `a: In`, `ys: [Int!]` → `[Int]`, `x: Int!` → `Int`, an optional input field and an enum value
    added -/
private def iN : SchemaD :=
  { query := some "Query",
    types := builtinsI ++
      [{ kind := .enum, name := "Color", values := [{ name := "RED" }, { name := "BLUE" }] },
       { kind := .input, name := "In",
         inputFields := [{ name := "x", type := .named "Int" },
                         { name := "ys", type := .list (.named "Int") },
                         { name := "sub", type := .named "In" },
                         { name := "extra", type := .named "String" }] },
       { kind := .object, name := "Query",
         fields := [{ name := "f", type := .named "Int",
                      args := [{ name := "a", type := .named "In" },
                               { name := "c", type := .named "Color" },
                               { name := "k", type := .nonNull (.named "String") }] }] }] }

/-- `query ($v: Int!, $w: String = "d", $i: In!) { f(a: {x: $v, ys: [$v, $v], sub: $i}, c: RED, k: $w) }`
    (`$w: String = "d"` at `k: String!`: allowed because the variable has a non-null default) -/
private def iDoc : Doc :=
  { defs := [.op "query" none
      [{ name := "v", type := .nonNull (.named "Int"), default := none },
       { name := "w", type := .named "String", default := some (.str "d") },
       { name := "i", type := .nonNull (.named "In"), default := none }] [] 0
      [.field none "f"
        [{ name := "a", value := .obj [.mk "x" (.var "v"), .mk "ys" (.list [.var "v", .var "v"]), .mk "sub" (.var "i")] },
         { name := "c", value := .enum "RED" },
         { name := "k", value := .var "w" }] [] false 0 []]] }

private theorem iO_wf : OldWf iO := by
  refine ⟨rfl, ?_, by decide, by decide, by decide⟩
  decide

private theorem iN_wf : NewWf iN := by
  constructor <;> simp [Uniq, iN, builtinsI]

private theorem iO_wfIn : OldWfIn iO := by
  refine ⟨?_, ?_, ?_⟩ <;> simp [ArgsWf, iO, builtinsI, Ty.wf, Ty.isNonNull, Ty.base] <;> decide

private theorem iN_wfIn : NewWfIn iN := by
  constructor; simp [Uniq, iN, builtinsI]

private theorem iDiff : diffSchema iO iN 2 = [] := by decide +kernel
example : (diffSchema iO iN 0).length = 5 := by decide +kernel

private theorem iDoc_all : SchemaRulesAll iO {} iDoc :=
  ⟨rules_of_rulesB iO iDoc (by decide), spreads_of_spreadsB iO {} iDoc (by decide),
   (PyGql.Props.C06.rule_values_of_correct_type_iff iO {} iDoc).mp (by unfold PyGql.Props.C06.Silent; decide +kernel),
   (PyGql.Props.C06.rule_variables_in_allowed_position_iff iO {} rfl rfl iDoc).mp (by unfold PyGql.Props.C06.Silent; decide +kernel)⟩

/-- the hypotheses of `operations_stay_valid_rules_all` are met by a non-trivial instance -/
example : SchemaRulesAll iN {} iDoc :=
  operations_stay_valid_rules_all iO iN iDiff iO_wf iN_wf iO_wfIn iN_wfIn {} rfl rfl iDoc
    (rooted_of_rootedB iO iDoc (by decide)) iDoc_all

/-- ...and the document really has usages inside list and object literals at relaxed positions -/
example : (defUsages iN (iDoc.defs.headD (.ts false ""))).length = 5 := by decide

end PyGql.Props.C20

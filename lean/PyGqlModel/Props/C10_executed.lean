/-
  C10 — property theorems, part 5: the executed stage INSIDE the model. `response_wellformed_partial`
  takes the execution outcome (data + field errors) as an admissible stage outcome; here that outcome
  is the one COMPUTED by the executor model from a typed outcome tree, so the hypotheses shrink to
  facts about the tree: node positions inside the text, serialised leaves and resolver-supplied
  extensions strict JSON.
-/
import PyGqlModel.Props.C10_wellformed
import PyGqlModel.Lemmas.ExecCapture
import PyGqlModel.Spec.TreeOk

namespace PyGql.Props.C10
open PyGql PyGql.Response PyGql.Spec.Response PyGql.Spec.NullSites PyGql.Spec.TreeOk PyGql.Generated.ResponseKeys PyGql.Lemmas.ExecCapture

private theorem strict_obj_of_kvs : ∀ (kvs : List (String × J)), strictKvs kvs = true →
    (∀ kv ∈ kvs, kv.1 ≠ "$float") → strict (.obj kvs) = true := by
  intro kvs hs hk
  simp only [strict, Bool.and_eq_true]
  refine ⟨?_, hs⟩
  split
  · rename_i s
    exact absurd rfl (hk ("$float", .str s) (by simp))
  · rfl

private theorem wrap_ok (text : Text) {isNN : Bool} {nodes : List Nat} {p : Path} {r : Option (J × List Err)} {v : J} {es : List Err}
    (h : nonNullWrap isNN nodes p r = some (v, es)) (hn : nodes.all (fun q => decide (q ≤ text.length)) = true)
    (es0ok : ∀ es0, r = some (v, es0) → ∀ e ∈ es0, ErrOk text e) : ∀ e ∈ es, ErrOk text e := by
  obtain ⟨es0, hr, rfl⟩ := wrap_inv h
  intro e he
  rw [List.mem_append] at he
  rcases he with he | he
  · exact es0ok es0 hr e he
  · by_cases c : (isNN && v.isNull) = true
    · simp only [c, if_true, List.mem_singleton] at he
      subst he
      refine ⟨?_, by simp⟩
      intro n hn'
      simp only [List.mem_filterMap, List.mem_map, id] at hn'
      obtain ⟨a, ⟨b, hb, rfl⟩, hab⟩ := hn'
      cases hab
      simp only [List.all_eq_true, decide_eq_true_eq] at hn
      exact hn n hb
    · simp [c] at he

mutual
private theorem inner_ok (text : Text) (b : Bool) (t : Ty) (nodes : List Nat) (path : Path)
    (hn : nodes.all (fun q => decide (q ≤ text.length)) = true) :
    ∀ (o : Out) (v : J) (es : List Err), completeInner b t nodes path o = some (v, es) → treeOk text.length o = true →
      (∀ e ∈ es, ErrOk text e) ∧ strict v = true
  | .null, v, es, h, _ => by
    simp [completeInner] at h; obtain ⟨rfl, rfl⟩ := h; simp [strict]
  | .raised m ext, v, es, h, hk => by
    cases b <;> simp [completeInner] at h
    obtain ⟨rfl, rfl⟩ := h
    refine ⟨?_, by simp [strict]⟩
    intro e he
    simp only [List.mem_singleton] at he
    subst he
    refine ⟨?_, ?_⟩
    · intro n hn'
      cases hh : nodes.head? with
      | none => simp [hh] at hn'
      | some a =>
        simp [hh] at hn'
        simp only [List.all_eq_true, decide_eq_true_eq] at hn
        rw [hn']
        exact hn a (List.mem_of_mem_head? hh)
    · intro kvs hkv
      subst hkv
      simpa [treeOk] using hk
  | .leaf x, v, es, h, hk => by
    cases t <;> simp [completeInner] at h
    obtain ⟨rfl, rfl⟩ := h
    exact ⟨by simp, by simpa [treeOk] using hk⟩
  | .list items, v, es, h, hk => by
    cases t with
    | list it =>
      simp [completeInner] at h
      obtain ⟨vs, h1, rfl⟩ := h
      have := list_ok text it nodes path hn 0 items vs es h1 (by simpa [treeOk] using hk)
      exact ⟨this.1, by simpa [strict] using this.2⟩
    | named n => simp [completeInner] at h
    | nonNull u => simp [completeInner] at h
  | .obj fields, v, es, h, hk => by
    cases t with
    | named n =>
      simp [completeInner] at h
      obtain ⟨kvs, h1, rfl⟩ := h
      have := fields_ok text path fields kvs es h1 (by simpa [treeOk] using hk)
      exact ⟨this.1, strict_obj_of_kvs kvs this.2.1 this.2.2⟩
    | list it => simp [completeInner] at h
    | nonNull u => simp [completeInner] at h

private theorem list_ok (text : Text) (it : Ty) (nodes : List Nat) (path : Path)
    (hn : nodes.all (fun q => decide (q ≤ text.length)) = true) :
    ∀ (i : Nat) (items : OutList) (vs : List J) (es : List Err), completeList it nodes path i items = some (vs, es) →
      treeOkList text.length items = true → (∀ e ∈ es, ErrOk text e) ∧ strictList vs = true
  | i, .nil, vs, es, h, _ => by
    simp [completeList] at h; obtain ⟨rfl, rfl⟩ := h; simp [strictList]
  | i, .cons o rest, vs, es, h, hk => by
    rw [completeList] at h
    split at h
    · simp at h
    · rename_i v e1 hw
      split at h
      · simp at h
      · rename_i vs' e2 hr
        simp only [Option.some.injEq, Prod.mk.injEq] at h
        obtain ⟨rfl, rfl⟩ := h
        simp only [treeOkList, Bool.and_eq_true] at hk
        obtain ⟨es0, hi, _⟩ := wrap_inv hw
        have h1 := inner_ok text false (innerTy it) nodes _ hn o v es0 hi hk.1
        have h2 := list_ok text it nodes path hn (i + 1) rest vs' e2 hr hk.2
        have hw' := wrap_ok text hw hn (fun es0' hr' => by
          rw [hi] at hr'; cases hr'; exact h1.1)
        refine ⟨?_, by simp [strictList, h1.2, h2.2]⟩
        intro e he
        rw [List.mem_append] at he
        rcases he with he | he
        · exact hw' e he
        · exact h2.1 e he

private theorem fields_ok (text : Text) (path : Path) :
    ∀ (fs : FldList) (kvs : List (String × J)) (es : List Err), executeFields path fs = some (kvs, es) →
      treeOkFields text.length fs = true →
      (∀ e ∈ es, ErrOk text e) ∧ strictKvs kvs = true ∧ (∀ kv ∈ kvs, kv.1 ≠ "$float")
  | .nil, kvs, es, h, _ => by
    simp [executeFields] at h; obtain ⟨rfl, rfl⟩ := h; simp [strictKvs]
  | .cons key ty nodes o rest, kvs, es, h, hk => by
    rw [executeFields] at h
    split at h
    · simp at h
    · rename_i v e1 hw
      split at h
      · simp at h
      · rename_i kvs' e2 hr
        simp only [Option.some.injEq, Prod.mk.injEq] at h
        obtain ⟨rfl, rfl⟩ := h
        simp only [treeOkFields, Bool.and_eq_true] at hk
        obtain ⟨⟨⟨hkey, hn⟩, ho⟩, hrest⟩ := hk
        obtain ⟨es0, hi, _⟩ := wrap_inv hw
        have h1 := inner_ok text true (innerTy ty) nodes _ hn o v es0 hi ho
        have h2 := fields_ok text path rest kvs' e2 hr hrest
        have hw' := wrap_ok text hw hn (fun es0' hr' => by
          rw [hi] at hr'; cases hr'; exact h1.1)
        refine ⟨?_, by simp [strictKvs, h1.2, h2.2.1], ?_⟩
        · intro e he
          rw [List.mem_append] at he
          rcases he with he | he
          · exact hw' e he
          · exact h2.1 e he
        · intro kv hkv
          simp only [List.mem_cons] at hkv
          rcases hkv with rfl | hkv
          · simpa using hkey
          · exact h2.2.2 kv hkv
end

/-- **the executed stage is an admissible stage outcome** (`StagesOk.execErrors` / `StagesOk.execData` DISCHARGED from the
    executor model): whatever an admissible outcome tree makes the executor model produce, every error it registers is
    located inside the text with strict-JSON extensions, and the data is strict JSON. -/
theorem executed_stage_ok (text : Text) (root : FldList) (data : J) (errs : List Err)
    (hx : execute root = some (data, errs)) (hok : treeOkFields text.length root = true) :
    (∀ e ∈ errs, ErrOk text e) ∧ strict data = true := by
  unfold execute at hx
  simp at hx
  obtain ⟨kvs, h1, rfl⟩ := hx
  have hf := fields_ok text [] root kvs errs h1 hok
  exact ⟨hf.1, strict_obj_of_kvs kvs hf.2.1 hf.2.2⟩

/-- **the executed stage, inside the model.** A request that parsed, validated, selected an operation
    and coerced its variables, and whose execution the executor model completes from an admissible
    outcome tree (whatever resolvers raised, whatever nulls sit at non-null positions, at any depth,
    in lists), yields a well-formed strict-JSON response with `data` present and every error location
    inside the submitted text. -/
theorem executed_response_wellformed (text : Text) (root : FldList) (data : J) (errs : List Err)
    (hx : execute root = some (data, errs)) (hok : treeOkFields text.length root = true) :
    ∃ j, (processQuery { parse := none, validate := [], getOp := none, coerce := [], exec := (data, errs) }).response text = some j ∧
      WellFormedK syntaxColKey text j ∧ (j.get? "data").isSome = true := by
  unfold execute at hx
  simp at hx
  obtain ⟨kvs, h1, rfl⟩ := hx
  have hf := fields_ok text [] root kvs errs h1 hok
  have hs : StagesOk text { parse := none, validate := [], getOp := none, coerce := [], exec := (J.obj kvs, errs) } :=
    ⟨by simp, by simp, by simp, hf.1, strict_obj_of_kvs kvs hf.2.1 hf.2.2⟩
  obtain ⟨j, hj, hw⟩ := response_wellformed_partial text _ hs
  refine ⟨j, hj, hw, ?_⟩
  cases hd : j.get? "data" with
  | some d => rfl
  | none =>
    have h2 := (response_data_key_iff text _ j hj).mp hd
    simp [Stages.documentRejected] at h2

/-- non-vacuity: a list of two objects, one field raising with extensions, one null at a non-null
    position, a float leaf; offsets inside a 40-character text -/
example : treeOkFields 40
    (.cons "os" (.list (.nonNull (.named "Obj"))) [2]
      (.list (.cons (.obj (.cons "w" (.named "Int") [7] (.raised "boom" (some [("code", .num 1)]))
                          (.cons "v" (.nonNull (.named "Float")) [9] (.leaf (.obj [("$float", .str "1.5")])) .nil)))
             (.cons (.obj (.cons "w" (.named "Int") [7] .null (.cons "v" (.nonNull (.named "Float")) [9] .null .nil))) .nil))) .nil) = true := by
  decide

end PyGql.Props.C10

/-
  C01 (grammar part) — the token-level parser accepts exactly the grammar.

  `Matches fl items toks`: the executable matcher of `Spec/Grammar.lean` consumes the WHOLE token list
  (`SOF … EOF`) along the concrete-syntax view, every `loc` being the span of the node's own tokens.
  `Item.SpansAll` is the declarative form of the same relation (derivation with spans).
  Soundness : `parse fl toks = ok t  →  WF fl t ∧ SpansAll fl [SOF, view t, EOF] toks`
  Completeness (exact): `WF fl t ∧ Matches fl [SOF, view t, EOF] toks → parse fl toks = ok t`
  for every flag combination; fuel does not appear (the entry points use `toks.length + 1`,
  `check_width` shows it is always enough).
-/
import PyGqlModel.Lemmas.ParseValue
namespace PyGql.Props.C01
open PyGql PyGql.Ast PyGql.Parse PyGql.Spec

/-- the matcher consumes the whole token list -/
def Matches (fl : Flags) (items : List Item) (toks : List Tok) : Prop := matchesAll fl items toks = true

theorem matches_iff (fl : Flags) (items : List Item) (toks : List Tok) :
    Matches fl items toks ↔ ∃ l', Item.checkAll fl items default toks = some (l', []) := by
  unfold Matches matchesAll
  split
  · rename_i l h; simp [h]
  · rename_i h
    simp only [Bool.false_eq_true, false_iff, not_exists]
    intro l' h'
    exact h l' h'

/-- a matched token list is a declarative derivation with spans -/
theorem matches_spans (fl : Flags) (items : List Item) (toks : List Tok) (h : Matches fl items toks) :
    Item.SpansAll fl items toks := by
  obtain ⟨l', h⟩ := (matches_iff fl items toks).1 h
  obtain ⟨pre, hpre, hs, _⟩ := checkAll_spans fl items default l' toks [] h
  simp at hpre; subst hpre; exact hs

private theorem runAll_ok {α} (p : Nat → P α) (toks : List Tok) (a : α) :
    runAll p toks = .ok a ↔ ∃ l', p (toks.length + 1) ⟨toks, default⟩ = .ok (a, ⟨[], l'⟩) := by
  unfold runAll
  split
  · rename_i a' s h
    split
    · rename_i hs
      rcases s with ⟨st, sl⟩; simp at hs; subst hs
      constructor
      · intro e; cases e; exact ⟨sl, h⟩
      · rintro ⟨l', h'⟩; rw [h] at h'; cases h'; rfl
    · rename_i t tl hs
      simp only [reduceCtorEq, false_iff, not_exists]
      intro l' h'; rw [h] at h'; cases h'; simp at hs
  · rename_i e h
    simp only [reduceCtorEq, false_iff, not_exists]
    intro l' h'; rw [h] at h'; cases h'

/-! ## standalone types (`parse_type`) -/

/-- SOUNDNESS: an accepted token list is `SOF`, a derivation of the returned type (with spans), `EOF`. -/
theorem parseType_sound (fl : Flags) (toks : List Tok) (t : TypeRef) (h : parseType fl toks = .ok t) :
    wfType t = true ∧ Matches fl [p .sof, typeV t, p .eof] toks := by
  obtain ⟨l', h⟩ := (runAll_ok _ _ _).1 h
  simp only [parseTypeP, bind_ok, expect_ok, pure_ok] at h
  obtain ⟨sof, s1, ⟨ts, h1, hk1, rfl⟩, t', s2, hty, eof, s3, ⟨ts3, h3, hk3, rfl⟩, hfin⟩ := h
  cases hfin
  obtain ⟨w, c⟩ := parseTypeReference_sound fl _ _ _ _ hty
  simp only at h1 c
  subst h1
  rw [h3] at c
  refine ⟨w, (matches_iff _ _ _).2 ⟨l', ?_⟩⟩
  simp [Item.checkAll, Item.check, cls_const hk1 rfl, c, cls_const hk3 rfl]

/-- COMPLETENESS (exact): every well-formed type whose view matches the tokens is what the parser returns. -/
theorem parseType_complete (fl : Flags) (toks : List Tok) (t : TypeRef) (w : wfType t = true)
    (h : Matches fl [p .sof, typeV t, p .eof] toks) : parseType fl toks = .ok t := by
  obtain ⟨l', h⟩ := (matches_iff _ _ _).1 h
  have hwid := checkAll_width fl _ _ _ _ _ h
  simp only [checkAll_cons, checkAll_nil, check_tok] at h
  obtain ⟨l1, ts1, ⟨sof, rfl, hc1, rfl⟩, l2, ts2, hty, l3, ts3, ⟨eof, rfl, hc3, rfl⟩, hfin⟩ := h
  cases hfin
  have hfol : FollowType t [l'] := by
    cases t <;> simp [FollowType, cls_kind hc3]
  have hw : width (typeV t) ≤ (l1 :: ts1).length + 1 := by
    simp [Item.yieldAll] at hwid; simp [width]; omega
  have c := parseTypeReference_complete fl _ t l1 l2 ts1 [l'] w hw hty hfol
  apply (runAll_ok _ _ _).2
  refine ⟨l', ?_⟩
  simp only [List.length_cons] at c ⊢
  simp [parseTypeP, bind_eq, expect_pos (cls_kind hc1), c, expect_pos (cls_kind hc3), pure_eq]

/-- declarative corollary: the accepted list is a derivation with spans (`span_spec` for types, see C02) -/
theorem parseType_sound_spans (fl : Flags) (toks : List Tok) (t : TypeRef) (h : parseType fl toks = .ok t) :
    Item.SpansAll fl [p .sof, typeV t, p .eof] toks :=
  matches_spans _ _ _ (parseType_sound fl toks t h).2


/-! ## standalone values (`parse_value`) -/

/-- SOUNDNESS for values (`parse_value` parses `Value[~Const]`). -/
theorem parseValue_sound (fl : Flags) (toks : List Tok) (v : Value) (h : parseValue fl toks = .ok v) :
    wfValue false v = true ∧ Matches fl [p .sof, valueV v, p .eof] toks := by
  obtain ⟨l', h⟩ := (runAll_ok _ _ _).1 h
  simp only [parseValueP, bind_ok, expect_ok, pure_ok] at h
  obtain ⟨sof, s1, ⟨ts, h1, hk1, rfl⟩, t', s2, hty, eof, s3, ⟨ts3, h3, hk3, rfl⟩, hfin⟩ := h
  cases hfin
  obtain ⟨w, c⟩ := parseValueLiteral_sound fl _ _ _ _ _ hty
  simp only at h1 c
  subst h1
  rw [h3] at c
  refine ⟨w, (matches_iff _ _ _).2 ⟨l', ?_⟩⟩
  simp [Item.checkAll, Item.check, cls_const hk1 rfl, c, cls_const hk3 rfl]

/-- COMPLETENESS (exact) for values. -/
theorem parseValue_complete (fl : Flags) (toks : List Tok) (v : Value) (w : wfValue false v = true)
    (h : Matches fl [p .sof, valueV v, p .eof] toks) : parseValue fl toks = .ok v := by
  obtain ⟨l', h⟩ := (matches_iff _ _ _).1 h
  have hwid := checkAll_width fl _ _ _ _ _ h
  simp only [checkAll_cons, checkAll_nil, check_tok] at h
  obtain ⟨l1, ts1, ⟨sof, rfl, hc1, rfl⟩, l2, ts2, hty, l3, ts3, ⟨eof, rfl, hc3, rfl⟩, hfin⟩ := h
  cases hfin
  have hw : width (valueV v) ≤ (l1 :: ts1).length + 1 := by
    simp [Item.yieldAll] at hwid; simp [width]; omega
  have c := parseValueLiteral_complete fl _ false v l1 l2 ts1 [l'] w hw hty
  apply (runAll_ok _ _ _).2
  refine ⟨l', ?_⟩
  simp only [List.length_cons] at c ⊢
  simp [parseValueP, bind_eq, expect_pos (cls_kind hc1), c, expect_pos (cls_kind hc3), pure_eq]

/-- the token language of `parse_value` is exactly the set of lists matched by a well-formed value -/
theorem parseValue_accepts_iff (fl : Flags) (toks : List Tok) :
    (∃ v, parseValue fl toks = .ok v) ↔ ∃ v, wfValue false v = true ∧ Matches fl [p .sof, valueV v, p .eof] toks :=
  ⟨fun ⟨v, h⟩ => ⟨v, parseValue_sound fl toks v h⟩, fun ⟨v, w, h⟩ => ⟨v, parseValue_complete fl toks v w h⟩⟩

/-- the token language of `parse_type` is exactly the set of lists matched by a well-formed type -/
theorem parseType_accepts_iff (fl : Flags) (toks : List Tok) :
    (∃ t, parseType fl toks = .ok t) ↔ ∃ t, wfType t = true ∧ Matches fl [p .sof, typeV t, p .eof] toks :=
  ⟨fun ⟨t, h⟩ => ⟨t, parseType_sound fl toks t h⟩, fun ⟨t, w, h⟩ => ⟨t, parseType_complete fl toks t w h⟩⟩

/-! ## documents (`parse`) — full statements, and what is proved of them -/

/-- FULL STATEMENT (soundness for documents, all 8 flag combinations) -/
def ParseSoundDocument : Prop :=
  ∀ (fl : Flags) (toks : List Tok) (d : Document), parseDocument fl toks = .ok d →
    wfDocument fl d = true ∧ Matches fl [documentV d] toks

/-- FULL STATEMENT (exact completeness for documents, all 8 flag combinations) -/
def ParseCompleteDocument : Prop :=
  ∀ (fl : Flags) (toks : List Tok) (d : Document), wfDocument fl d = true → Matches fl [documentV d] toks →
    parseDocument fl toks = .ok d

/-- `parse_sound` restricted to the two sub-grammars proved in full (values and types, every flag combination).
    MISSING for `ParseSoundDocument`: the same inversion argument for selections / operations / fragments /
    type-system definitions (the lemmas `anyLoop_sound`, `check_*`, `*_ok` are the ones needed; `manyLoop`,
    `delimLoop`, `directivesLoop` need their analogues).  Meanwhile the document statement is EVALUATED by the
    compiled model on its own output for every accepted document of the correspondence (`spec` flag of the
    driver op `parse`, corr/C02_spans.py) — a test, not a proof. -/
theorem parse_sound_partial (fl : Flags) (toks : List Tok) :
    (∀ v, parseValue fl toks = .ok v → wfValue false v = true ∧ Matches fl [p .sof, valueV v, p .eof] toks) ∧
    (∀ t, parseType fl toks = .ok t → wfType t = true ∧ Matches fl [p .sof, typeV t, p .eof] toks) :=
  ⟨parseValue_sound fl toks, parseType_sound fl toks⟩

/-- `parse_complete` restricted to values and types (every flag combination); MISSING: documents, as above. -/
theorem parse_complete_partial (fl : Flags) (toks : List Tok) :
    (∀ v, wfValue false v = true → Matches fl [p .sof, valueV v, p .eof] toks → parseValue fl toks = .ok v) ∧
    (∀ t, wfType t = true → Matches fl [p .sof, typeV t, p .eof] toks → parseType fl toks = .ok t) :=
  ⟨parseValue_complete fl toks, parseType_complete fl toks⟩

/-! ## the tables re-extracted from `parser.py` are the grammar's

  (`Generated/ParserTables.lean` is rewritten from the source on every run; an edit of a table re-opens these.) -/

private def T (s : String) : Text := s.toList.map Char.toNat

/-- `OperationType : one of query mutation subscription` (the tuple tested by `parse_operation_type`) -/
theorem operationTypeTuple_spec :
    Generated.ParserTables.operationTypeTuple = [K.query, K.mutation, K.subscription] := by decide

/-- the dispatch set of `parse_executable_definition` has the same members -/
theorem operationTypesKeywords_spec :
    ∀ v, v ∈ Generated.ParserTables.operationTypesKeywords ↔ v ∈ [K.query, K.mutation, K.subscription] := by
  intro v; simp [Generated.ParserTables.operationTypesKeywords, K.query, K.mutation, K.subscription] <;> grind

/-- `ExecutableDefinition` starts with an operation type or `fragment` -/
theorem executableDefinitionsKeywords_spec :
    ∀ v, v ∈ Generated.ParserTables.executableDefinitionsKeywords ↔ v ∈ [K.query, K.mutation, K.subscription, K.fragment] := by
  intro v
  simp [Generated.ParserTables.executableDefinitionsKeywords, K.query, K.mutation, K.subscription, K.fragment] <;> grind

/-- `TypeSystemDefinition` keywords -/
theorem schemaDefinitionsKeywords_spec :
    ∀ v, v ∈ Generated.ParserTables.schemaDefinitionsKeywords ↔
      v ∈ [K.schema, K.scalar, K.type_, K.interface_, K.union, K.enum_, K.input, K.directive] := by
  intro v
  simp [Generated.ParserTables.schemaDefinitionsKeywords, K.schema, K.scalar, K.type_, K.interface_, K.union, K.enum_,
    K.input, K.directive] <;> grind

/-- `DirectiveLocation`: the 7 executable locations of June 2018 + `VARIABLE_DEFINITION` (documented extension)
    + the 11 type-system locations -/
theorem directiveLocations_spec :
    Generated.ParserTables.directiveLocations =
      ["QUERY", "MUTATION", "SUBSCRIPTION", "FIELD", "FRAGMENT_DEFINITION", "FRAGMENT_SPREAD", "INLINE_FRAGMENT",
       "VARIABLE_DEFINITION", "SCHEMA", "SCALAR", "OBJECT", "FIELD_DEFINITION", "ARGUMENT_DEFINITION", "INTERFACE",
       "UNION", "ENUM", "ENUM_VALUE", "INPUT_OBJECT", "INPUT_FIELD_DEFINITION"].map T := by decide

/-! ## non-vacuity -/

private def tk (k : TokKind) (s e : Nat) (v : Text := []) : Tok := { kind := k, start := s, stop := e, value := v }

/-- `[A!]` : SOF [ A ! ] EOF -/
private def toksT : List Tok :=
  [tk .sof 0 0, tk .bracketL 0 1, tk .name 1 2 [65], tk .bang 2 3, tk .bracketR 3 4, tk .eof 4 4]

example : ∃ t, parseType {} toksT = .ok t ∧ wfType t = true ∧ Matches {} [p .sof, typeV t, p .eof] toksT := by
  refine ⟨.list (.nonNull (.named ⟨⟨[65], some (1, 2)⟩, some (1, 2)⟩) (some (1, 3))) (some (0, 4)), rfl, rfl, rfl⟩

/-- `[1 {a: $b}]` -/
private def toksV : List Tok :=
  [tk .sof 0 0, tk .bracketL 0 1, tk .int 1 2 [49], tk .curlyL 3 4, tk .name 4 5 [97], tk .colon 5 6,
   tk .dollar 7 8, tk .name 8 9 [98], tk .curlyR 9 10, tk .bracketR 10 11, tk .eof 11 11]

example : (parseValue {} toksV).toBool = true := by decide
example : (parseValue {} (toksV.take 9)).toBool = false := by decide
/-- constant position: `$b` is rejected (`Value[Const]`) -/
example : wfValue true (.list [.var ⟨⟨[98], none⟩, none⟩] none) = false := by decide

end PyGql.Props.C01

/-
  C01 (grammar part) — the token-level parser accepts exactly the grammar.  ALL statements are for every flag
  combination (`no_location`, `allow_type_system`, `experimental_fragment_variables`); fuel does not appear.

  `Matches fl items toks`: the executable matcher of `Spec/Grammar.lean` consumes the WHOLE token list
  (`SOF … EOF`) along the concrete-syntax view, every `loc` being the span of the node's own tokens;
  `Item.SpansAll` is its declarative form (`matches_spans`).

  documents  `parse_sound_document`    parse fl toks = ok d → WF fl d ∧ Matches fl [view d] toks
             `parse_complete_document` WF fl d ∧ Matches fl [view d] toks → parse fl toks = ok d          (exact)
             `parseDocument_accepts_iff`, `matched_document_unique`
             `parse_complete_up_to_positions`  WF ∧ position-free match of t.erase → parse = ok t', t'.erase = t.erase
             `parse_sound_executable` / `parse_complete_executable` / `parseDocument_accepts_iff_executable`
             `parseDocument_sound_of` / `parseDocument_complete_of` (reductions to the type-system layer)
  values     `parseValue_sound`, `parseValue_complete`, `parseValue_accepts_iff`
  types      `parseType_sound`, `parseType_complete`, `parseType_accepts_iff`
  text       `parse_text_accepts_iff_partial`, `parse_text_result_partial` (lexAll ∘ parser; lexical side = LANG-1)
  tables     `operationTypeTuple_spec`, … (re-extracted from parser.py on every run)
-/
import PyGqlModel.Lemmas.ParseValue
import PyGqlModel.Lemmas.ParseDocL
import PyGqlModel.Lemmas.ParseTSE
import PyGqlModel.Lemmas.ParseTSC
import PyGqlModel.Lemmas.ParseTSC6
import PyGqlModel.Lemmas.ParseErase3
import PyGqlModel.ParseText
namespace PyGql.Props.C01
open PyGql PyGql.Ast PyGql.Parse PyGql.Spec

/-- the matcher consumes the whole token list -/
def Matches (fl : Flags) (items : List Item) (toks : List Tok) : Prop := matchesAll fl items toks = true

theorem matches_iff (fl : Flags) (items : List Item) (toks : List Tok) :
    Matches fl items toks ↔ ∃ l', Item.checkAll fl items default toks = some (l', []) := by
  unfold Matches matchesAll
  split
  · rename_i l h; simp [h]
  · rename_i h
    simp only [Bool.false_eq_true, false_iff, not_exists]
    intro l' h'
    exact h l' h'

/-- a matched token list is a declarative derivation with spans -/
theorem matches_spans (fl : Flags) (items : List Item) (toks : List Tok) (h : Matches fl items toks) :
    Item.SpansAll fl items toks := by
  obtain ⟨l', h⟩ := (matches_iff fl items toks).1 h
  obtain ⟨pre, hpre, hs, _⟩ := checkAll_spans fl items default l' toks [] h
  simp at hpre; subst hpre; exact hs

private theorem runAll_ok {α} (p : Nat → P α) (toks : List Tok) (a : α) :
    runAll p toks = .ok a ↔ ∃ l', p (toks.length + 1) ⟨toks, default⟩ = .ok (a, ⟨[], l'⟩) := by
  unfold runAll
  split
  · rename_i a' s h
    split
    · rename_i hs
      rcases s with ⟨st, sl⟩; simp at hs; subst hs
      constructor
      · intro e; cases e; exact ⟨sl, h⟩
      · rintro ⟨l', h'⟩; rw [h] at h'; cases h'; rfl
    · rename_i t tl hs
      simp only [reduceCtorEq, false_iff, not_exists]
      intro l' h'; rw [h] at h'; cases h'; simp at hs
  · rename_i e h
    simp only [reduceCtorEq, false_iff, not_exists]
    intro l' h'; rw [h] at h'; cases h'

/-! ## standalone types (`parse_type`) -/

/-- SOUNDNESS: an accepted token list is `SOF`, a derivation of the returned type (with spans), `EOF`. -/
theorem parseType_sound (fl : Flags) (toks : List Tok) (t : TypeRef) (h : parseType fl toks = .ok t) :
    wfType t = true ∧ Matches fl [p .sof, typeV t, p .eof] toks := by
  obtain ⟨l', h⟩ := (runAll_ok _ _ _).1 h
  simp only [parseTypeP, bind_ok, expect_ok, pure_ok] at h
  obtain ⟨sof, s1, ⟨ts, h1, hk1, rfl⟩, t', s2, hty, eof, s3, ⟨ts3, h3, hk3, rfl⟩, hfin⟩ := h
  cases hfin
  obtain ⟨w, c⟩ := parseTypeReference_sound fl _ _ _ _ hty
  simp only at h1 c
  subst h1
  rw [h3] at c
  refine ⟨w, (matches_iff _ _ _).2 ⟨l', ?_⟩⟩
  simp [Item.checkAll, Item.check, cls_const hk1 rfl, c, cls_const hk3 rfl]

/-- COMPLETENESS (exact): every well-formed type whose view matches the tokens is what the parser returns. -/
theorem parseType_complete (fl : Flags) (toks : List Tok) (t : TypeRef) (w : wfType t = true)
    (h : Matches fl [p .sof, typeV t, p .eof] toks) : parseType fl toks = .ok t := by
  obtain ⟨l', h⟩ := (matches_iff _ _ _).1 h
  have hwid := checkAll_width fl _ _ _ _ _ h
  simp only [checkAll_cons, checkAll_nil, check_tok] at h
  obtain ⟨l1, ts1, ⟨sof, rfl, hc1, rfl⟩, l2, ts2, hty, l3, ts3, ⟨eof, rfl, hc3, rfl⟩, hfin⟩ := h
  cases hfin
  have hfol : FollowType t [l'] := by
    cases t <;> simp [FollowType, cls_kind hc3]
  have hw : width (typeV t) ≤ (l1 :: ts1).length + 1 := by
    simp [Item.yieldAll] at hwid; simp [width]; omega
  have c := parseTypeReference_complete fl _ t l1 l2 ts1 [l'] w hw hty hfol
  apply (runAll_ok _ _ _).2
  refine ⟨l', ?_⟩
  simp only [List.length_cons] at c ⊢
  simp [parseTypeP, bind_eq, expect_pos (cls_kind hc1), c, expect_pos (cls_kind hc3), pure_eq]

/-- declarative corollary: the accepted list is a derivation with spans (`span_spec` for types, see C02) -/
theorem parseType_sound_spans (fl : Flags) (toks : List Tok) (t : TypeRef) (h : parseType fl toks = .ok t) :
    Item.SpansAll fl [p .sof, typeV t, p .eof] toks :=
  matches_spans _ _ _ (parseType_sound fl toks t h).2


/-! ## standalone values (`parse_value`) -/

/-- SOUNDNESS for values (`parse_value` parses `Value[~Const]`). -/
theorem parseValue_sound (fl : Flags) (toks : List Tok) (v : Value) (h : parseValue fl toks = .ok v) :
    wfValue false v = true ∧ Matches fl [p .sof, valueV v, p .eof] toks := by
  obtain ⟨l', h⟩ := (runAll_ok _ _ _).1 h
  simp only [parseValueP, bind_ok, expect_ok, pure_ok] at h
  obtain ⟨sof, s1, ⟨ts, h1, hk1, rfl⟩, t', s2, hty, eof, s3, ⟨ts3, h3, hk3, rfl⟩, hfin⟩ := h
  cases hfin
  obtain ⟨w, c⟩ := parseValueLiteral_sound fl _ _ _ _ _ hty
  simp only at h1 c
  subst h1
  rw [h3] at c
  refine ⟨w, (matches_iff _ _ _).2 ⟨l', ?_⟩⟩
  simp [Item.checkAll, Item.check, cls_const hk1 rfl, c, cls_const hk3 rfl]

/-- COMPLETENESS (exact) for values. -/
theorem parseValue_complete (fl : Flags) (toks : List Tok) (v : Value) (w : wfValue false v = true)
    (h : Matches fl [p .sof, valueV v, p .eof] toks) : parseValue fl toks = .ok v := by
  obtain ⟨l', h⟩ := (matches_iff _ _ _).1 h
  have hwid := checkAll_width fl _ _ _ _ _ h
  simp only [checkAll_cons, checkAll_nil, check_tok] at h
  obtain ⟨l1, ts1, ⟨sof, rfl, hc1, rfl⟩, l2, ts2, hty, l3, ts3, ⟨eof, rfl, hc3, rfl⟩, hfin⟩ := h
  cases hfin
  have hw : width (valueV v) ≤ (l1 :: ts1).length + 1 := by
    simp [Item.yieldAll] at hwid; simp [width]; omega
  have c := parseValueLiteral_complete fl _ false v l1 l2 ts1 [l'] w hw hty
  apply (runAll_ok _ _ _).2
  refine ⟨l', ?_⟩
  simp only [List.length_cons] at c ⊢
  simp [parseValueP, bind_eq, expect_pos (cls_kind hc1), c, expect_pos (cls_kind hc3), pure_eq]

/-- the token language of `parse_value` is exactly the set of lists matched by a well-formed value -/
theorem parseValue_accepts_iff (fl : Flags) (toks : List Tok) :
    (∃ v, parseValue fl toks = .ok v) ↔ ∃ v, wfValue false v = true ∧ Matches fl [p .sof, valueV v, p .eof] toks :=
  ⟨fun ⟨v, h⟩ => ⟨v, parseValue_sound fl toks v h⟩, fun ⟨v, w, h⟩ => ⟨v, parseValue_complete fl toks v w h⟩⟩

/-- the token language of `parse_type` is exactly the set of lists matched by a well-formed type -/
theorem parseType_accepts_iff (fl : Flags) (toks : List Tok) :
    (∃ t, parseType fl toks = .ok t) ↔ ∃ t, wfType t = true ∧ Matches fl [p .sof, typeV t, p .eof] toks :=
  ⟨fun ⟨t, h⟩ => ⟨t, parseType_sound fl toks t h⟩, fun ⟨t, w, h⟩ => ⟨t, parseType_complete fl toks t w h⟩⟩

/-! ## documents (`parse`) — full statements, and what is proved of them -/

/-- FULL STATEMENT (soundness for documents, all 8 flag combinations) -/
def ParseSoundDocument : Prop :=
  ∀ (fl : Flags) (toks : List Tok) (d : Document), parseDocument fl toks = .ok d →
    wfDocument fl d = true ∧ Matches fl [documentV d] toks

/-- FULL STATEMENT (exact completeness for documents, all 8 flag combinations) -/
def ParseCompleteDocument : Prop :=
  ∀ (fl : Flags) (toks : List Tok) (d : Document), wfDocument fl d = true → Matches fl [documentV d] toks →
    parseDocument fl toks = .ok d

/-! ## documents: reduction to the type-system layer, and the executable language in full -/

/-- soundness of `parse`, given soundness of the two type-system dispatchers when they are reachable -/
theorem parseDocument_sound_of (fl : Flags) (hTS : ∀ fuel, fl.allowTypeSystem = true → TSSound fl fuel)
    (toks : List Tok) (d : Document) (h : parseDocument fl toks = .ok d) :
    wfDocument fl d = true ∧ Matches fl [documentV d] toks := by
  obtain ⟨l', h⟩ := (runAll_ok _ _ _).1 h
  obtain ⟨w, c⟩ := parseDocumentP_sound fl _ (hTS _) _ _ _ h
  refine ⟨w, (matches_iff _ _ _).2 ⟨l', ?_⟩⟩
  simp only at c
  simp [Item.checkAll, c]

/-- exact completeness of `parse`, given completeness of the two type-system dispatchers when reachable -/
theorem parseDocument_complete_of (fl : Flags) (hTS : ∀ fuel, fl.allowTypeSystem = true → TSComplete fl fuel)
    (toks : List Tok) (d : Document) (w : wfDocument fl d = true) (h : Matches fl [documentV d] toks) :
    parseDocument fl toks = .ok d := by
  obtain ⟨l', h⟩ := (matches_iff _ _ _).1 h
  simp only [checkAll_cons, checkAll_nil] at h
  obtain ⟨l1, ts1, hd, hfin⟩ := h
  cases hfin
  apply (runAll_ok _ _ _).2
  exact ⟨l', parseDocumentP_complete fl _ (hTS _) d default l' toks [] w (by omega) hd⟩

/-- `parse_sound` for the EXECUTABLE language (`allow_type_system=False`; every `no_location` /
    `experimental_fragment_variables` combination): operations in shorthand and long form, variable definitions
    with default values and constant directives, fields with aliases / arguments / directives / nested selection
    sets, fragment spreads, inline fragments, fragment definitions with or without fragment variables. -/
theorem parse_sound_executable (fl : Flags) (hx : fl.allowTypeSystem = false) (toks : List Tok) (d : Document)
    (h : parseDocument fl toks = .ok d) : wfDocument fl d = true ∧ Matches fl [documentV d] toks :=
  parseDocument_sound_of fl (fun _ ht => by simp [hx] at ht) toks d h

/-- `parse_complete` (exact) for the executable language. -/
theorem parse_complete_executable (fl : Flags) (hx : fl.allowTypeSystem = false) (toks : List Tok) (d : Document)
    (w : wfDocument fl d = true) (h : Matches fl [documentV d] toks) : parseDocument fl toks = .ok d :=
  parseDocument_complete_of fl (fun _ ht => by simp [hx] at ht) toks d w h

/-- the token language of `parse(…, allow_type_system=False)` is exactly the set of lists matched by a well-formed
    (executable) document -/
theorem parseDocument_accepts_iff_executable (fl : Flags) (hx : fl.allowTypeSystem = false) (toks : List Tok) :
    (∃ d, parseDocument fl toks = .ok d) ↔ ∃ d, wfDocument fl d = true ∧ Matches fl [documentV d] toks :=
  ⟨fun ⟨d, h⟩ => ⟨d, parse_sound_executable fl hx toks d h⟩,
   fun ⟨d, w, h⟩ => ⟨d, parse_complete_executable fl hx toks d w h⟩⟩

/-- `parse_sound` IN FULL: documents (executable and type-system definitions and extensions), all 8 flag combinations.
    An accepted token list is well-formed for the flags and is matched, spans included, by the view of the
    returned document. -/
theorem parse_sound_document : ParseSoundDocument :=
  fun fl toks d h => parseDocument_sound_of fl (fun fuel _ => tsSound fl fuel) toks d h

/-- `parse_complete` IN FULL (exact): documents with executable and type-system definitions and extensions, all 8 flag
    combinations.  Every well-formed document whose view matches the tokens (spans included) is what `parse` returns. -/
theorem parse_complete_document : ParseCompleteDocument :=
  fun fl toks d w h => parseDocument_complete_of fl (fun fuel _ => tsComplete fl fuel) toks d w h

/-- THE FIRST SENTENCE OF C01 at token level: `parse` succeeds exactly when the token list derives from the grammar
    (is matched by the view of some well-formed document) — for every flag combination. -/
theorem parseDocument_accepts_iff (fl : Flags) (toks : List Tok) :
    (∃ d, parseDocument fl toks = .ok d) ↔ ∃ d, wfDocument fl d = true ∧ Matches fl [documentV d] toks :=
  ⟨fun ⟨d, h⟩ => ⟨d, parse_sound_document fl toks d h⟩,
   fun ⟨d, w, h⟩ => ⟨d, parse_complete_document fl toks d w h⟩⟩

/-- the parser is a function of the tokens, so the matched well-formed document is unique -/
theorem matched_document_unique (fl : Flags) (toks : List Tok) (d d' : Document)
    (w : wfDocument fl d = true) (h : Matches fl [documentV d] toks)
    (w' : wfDocument fl d' = true) (h' : Matches fl [documentV d'] toks) : d = d' := by
  have a := parse_complete_document fl toks d w h
  have b := parse_complete_document fl toks d' w' h'
  rw [a] at b; cases b; rfl

/-! ## completeness up to positions -/

theorem wfDefinition_E (fl : Flags) (x : Definition) : wfDefinition (E fl) x = wfDefinition fl x := by
  cases x <;> simp [wfDefinition, wfFragment, E]

theorem wfDocument_E (fl : Flags) (d : Document) : wfDocument (E fl) d = wfDocument fl d := by
  simp [wfDocument, wfDefinition_E, E_ts]

/-- COMPLETENESS UP TO POSITIONS: let `t` be any tree (its `loc`s are irrelevant: only `t.erase` occurs) that is
    well-formed and whose position-free view derives the token list (`Matches` under `no_location`: token classes
    agree, optional separators free, look-ahead restrictions respected).  Then `parse` accepts the tokens — under
    the given flags, positions on or off — and returns `t` up to positions. -/
theorem parse_complete_up_to_positions (fl : Flags) (toks : List Tok) (t : Document)
    (w : wfDocument fl t.erase = true) (h : Matches (E fl) [documentV t.erase] toks) :
    ∃ t', parseDocument fl toks = .ok t' ∧ t'.erase = t.erase := by
  have c := parse_complete_document (E fl) toks t.erase (by rw [wfDocument_E]; exact w) h
  have e : parseDocument (E fl) toks = (parseDocument fl toks).map Document.erase :=
    runAll_E _ _ _ (parseDocumentP_E fl) toks
  rw [e] at c
  cases hp : parseDocument fl toks with
  | error err => rw [hp] at c; cases c
  | ok t' =>
    rw [hp] at c
    refine ⟨t', rfl, ?_⟩
    simpa [Except.map] using c

/-! ## text level: lexer ∘ parser -/

/-- `parse(text)` succeeds exactly when the lexer produces a token list that derives from the grammar.
    `_partial` (name kept, evidence and DESIGN refer to it): this is the TOKEN-level half — the right-hand side still
    mentions `lexAll`. It excludes nothing about the parser (all 8 flag combinations, executable and type-system
    documents). The FULL statement, with the lexical specification `Tiles` substituted for `lexAll s = .ok toks`
    (`lexAll_ok_iff`), is `parse_text_accepts_iff` in `Props/C01_text.lean`; no gap remains between the two. -/
theorem parse_text_accepts_iff_partial (fl : Flags) (s : Text) :
    (∃ d, parseText fl s = some d) ↔
      ∃ toks d, Lex.lexAll s = .ok toks ∧ wfDocument fl d = true ∧ Matches fl [documentV d] toks := by
  unfold parseText
  cases hl : Lex.lexAll s with
  | error e =>
    constructor
    · rintro ⟨d, h⟩; cases h
    · rintro ⟨toks, d, h, _⟩; cases h
  | ok toks =>
    dsimp only
    constructor
    · rintro ⟨d, h⟩
      cases hp : parseDocument fl toks with
      | error e => rw [hp] at h; cases h
      | ok d' => exact ⟨toks, d', rfl, parse_sound_document fl toks d' hp⟩
    · rintro ⟨toks', d, e, w, h⟩
      cases e
      exact ⟨d, by rw [parse_complete_document fl toks d w h]; rfl⟩

/-- and the tree returned for an accepted text is the (unique) well-formed document matched by its tokens.
    `_partial` (name kept): token-level half, nothing excluded; the full text-level statement is `parse_text_result`
    in `Props/C01_text.lean`. -/
theorem parse_text_result_partial (fl : Flags) (s : Text) (d : Document) :
    parseText fl s = some d ↔
      ∃ toks, Lex.lexAll s = .ok toks ∧ wfDocument fl d = true ∧ Matches fl [documentV d] toks := by
  unfold parseText
  cases hl : Lex.lexAll s with
  | error e =>
    constructor
    · intro h; cases h
    · rintro ⟨toks, h, _⟩; cases h
  | ok toks =>
    dsimp only
    constructor
    · intro h
      cases hp : parseDocument fl toks with
      | error e => rw [hp] at h; cases h
      | ok d' =>
        rw [hp] at h
        have : d' = d := by simpa [Except.toOption] using h
        subst this
        exact ⟨toks, rfl, parse_sound_document fl toks d' hp⟩
    · rintro ⟨toks', e, w, h⟩
      cases e
      rw [parse_complete_document fl toks d w h]; rfl

/-! ## the tables re-extracted from `parser.py` are the grammar's

  (`Generated/ParserTables.lean` is rewritten from the source on every run; an edit of a table re-opens these.) -/

private def T (s : String) : Text := s.toList.map Char.toNat

/-- `OperationType : one of query mutation subscription` (the tuple tested by `parse_operation_type`) -/
theorem operationTypeTuple_spec :
    Generated.ParserTables.operationTypeTuple = [K.query, K.mutation, K.subscription] := by decide

/-- the dispatch set of `parse_executable_definition` has the same members -/
theorem operationTypesKeywords_spec :
    ∀ v, v ∈ Generated.ParserTables.operationTypesKeywords ↔ v ∈ [K.query, K.mutation, K.subscription] := by
  intro v; simp [Generated.ParserTables.operationTypesKeywords, K.query, K.mutation, K.subscription] <;> grind

/-- `ExecutableDefinition` starts with an operation type or `fragment` -/
theorem executableDefinitionsKeywords_spec :
    ∀ v, v ∈ Generated.ParserTables.executableDefinitionsKeywords ↔ v ∈ [K.query, K.mutation, K.subscription, K.fragment] := by
  intro v
  simp [Generated.ParserTables.executableDefinitionsKeywords, K.query, K.mutation, K.subscription, K.fragment] <;> grind

/-- `TypeSystemDefinition` keywords -/
theorem schemaDefinitionsKeywords_spec :
    ∀ v, v ∈ Generated.ParserTables.schemaDefinitionsKeywords ↔
      v ∈ [K.schema, K.scalar, K.type_, K.interface_, K.union, K.enum_, K.input, K.directive] := by
  intro v
  simp [Generated.ParserTables.schemaDefinitionsKeywords, K.schema, K.scalar, K.type_, K.interface_, K.union, K.enum_,
    K.input, K.directive] <;> grind

/-- `DirectiveLocation`: the 7 executable locations of June 2018 + `VARIABLE_DEFINITION` (documented extension)
    + the 11 type-system locations -/
theorem directiveLocations_spec :
    Generated.ParserTables.directiveLocations =
      ["QUERY", "MUTATION", "SUBSCRIPTION", "FIELD", "FRAGMENT_DEFINITION", "FRAGMENT_SPREAD", "INLINE_FRAGMENT",
       "VARIABLE_DEFINITION", "SCHEMA", "SCALAR", "OBJECT", "FIELD_DEFINITION", "ARGUMENT_DEFINITION", "INTERFACE",
       "UNION", "ENUM", "ENUM_VALUE", "INPUT_OBJECT", "INPUT_FIELD_DEFINITION"].map T := by decide

/-! ## non-vacuity -/

private def tk (k : TokKind) (s e : Nat) (v : Text := []) : Tok := { kind := k, start := s, stop := e, value := v }

/-- `[A!]` : SOF [ A ! ] EOF -/
private def toksT : List Tok :=
  [tk .sof 0 0, tk .bracketL 0 1, tk .name 1 2 [65], tk .bang 2 3, tk .bracketR 3 4, tk .eof 4 4]

example : ∃ t, parseType {} toksT = .ok t ∧ wfType t = true ∧ Matches {} [p .sof, typeV t, p .eof] toksT := by
  refine ⟨.list (.nonNull (.named ⟨⟨[65], some (1, 2)⟩, some (1, 2)⟩) (some (1, 3))) (some (0, 4)), rfl, rfl, rfl⟩

/-- `[1 {a: $b}]` -/
private def toksV : List Tok :=
  [tk .sof 0 0, tk .bracketL 0 1, tk .int 1 2 [49], tk .curlyL 3 4, tk .name 4 5 [97], tk .colon 5 6,
   tk .dollar 7 8, tk .name 8 9 [98], tk .curlyR 9 10, tk .bracketR 10 11, tk .eof 11 11]

example : (parseValue {} toksV).toBool = true := by decide
example : (parseValue {} (toksV.take 9)).toBool = false := by decide
/-- constant position: `$b` is rejected (`Value[Const]`) -/
example : wfValue true (.list [.var ⟨⟨[98], none⟩, none⟩] none) = false := by decide

end PyGql.Props.C01

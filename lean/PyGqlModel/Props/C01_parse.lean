/-
  C01 (grammar part) — the token-level parser accepts exactly the grammar.

  `Matches fl items toks`: the executable matcher of `Spec/Grammar.lean` consumes the WHOLE token list
  (`SOF … EOF`) along the concrete-syntax view, every `loc` being the span of the node's own tokens.
  `Item.SpansAll` is the declarative form of the same relation (derivation with spans).
  Soundness : `parse fl toks = ok t  →  WF fl t ∧ SpansAll fl [SOF, view t, EOF] toks`
  Completeness (exact): `WF fl t ∧ Matches fl [SOF, view t, EOF] toks → parse fl toks = ok t`
  for every flag combination; fuel does not appear (the entry points use `toks.length + 1`,
  `check_width` shows it is always enough).
-/
import PyGqlModel.Lemmas.ParseType
namespace PyGql.Props.C01
open PyGql PyGql.Ast PyGql.Parse PyGql.Spec

/-- the matcher consumes the whole token list -/
def Matches (fl : Flags) (items : List Item) (toks : List Tok) : Prop := matchesAll fl items toks = true

theorem matches_iff (fl : Flags) (items : List Item) (toks : List Tok) :
    Matches fl items toks ↔ ∃ l', Item.checkAll fl items default toks = some (l', []) := by
  unfold Matches matchesAll
  split
  · rename_i l h; simp [h]
  · rename_i h
    simp only [Bool.false_eq_true, false_iff, not_exists]
    intro l' h'
    exact h l' h'

/-- a matched token list is a declarative derivation with spans -/
theorem matches_spans (fl : Flags) (items : List Item) (toks : List Tok) (h : Matches fl items toks) :
    Item.SpansAll fl items toks := by
  obtain ⟨l', h⟩ := (matches_iff fl items toks).1 h
  obtain ⟨pre, hpre, hs, _⟩ := checkAll_spans fl items default l' toks [] h
  simp at hpre; subst hpre; exact hs

private theorem runAll_ok {α} (p : Nat → P α) (toks : List Tok) (a : α) :
    runAll p toks = .ok a ↔ ∃ l', p (toks.length + 1) ⟨toks, default⟩ = .ok (a, ⟨[], l'⟩) := by
  unfold runAll
  split
  · rename_i a' s h
    split
    · rename_i hs
      rcases s with ⟨st, sl⟩; simp at hs; subst hs
      constructor
      · intro e; cases e; exact ⟨sl, h⟩
      · rintro ⟨l', h'⟩; rw [h] at h'; cases h'; rfl
    · rename_i t tl hs
      simp only [reduceCtorEq, false_iff, not_exists]
      intro l' h'; rw [h] at h'; cases h'; simp at hs
  · rename_i e h
    simp only [reduceCtorEq, false_iff, not_exists]
    intro l' h'; rw [h] at h'; cases h'

/-! ## standalone types (`parse_type`) -/

/-- SOUNDNESS: an accepted token list is `SOF`, a derivation of the returned type (with spans), `EOF`. -/
theorem parseType_sound (fl : Flags) (toks : List Tok) (t : TypeRef) (h : parseType fl toks = .ok t) :
    wfType t = true ∧ Matches fl [p .sof, typeV t, p .eof] toks := by
  obtain ⟨l', h⟩ := (runAll_ok _ _ _).1 h
  simp only [parseTypeP, bind_ok, expect_ok, pure_ok] at h
  obtain ⟨sof, s1, ⟨ts, h1, hk1, rfl⟩, t', s2, hty, eof, s3, ⟨ts3, h3, hk3, rfl⟩, hfin⟩ := h
  cases hfin
  obtain ⟨w, c⟩ := parseTypeReference_sound fl _ _ _ _ hty
  simp only at h1 c
  subst h1
  rw [h3] at c
  refine ⟨w, (matches_iff _ _ _).2 ⟨l', ?_⟩⟩
  simp [Item.checkAll, Item.check, cls_const hk1 rfl, c, cls_const hk3 rfl]

/-- COMPLETENESS (exact): every well-formed type whose view matches the tokens is what the parser returns. -/
theorem parseType_complete (fl : Flags) (toks : List Tok) (t : TypeRef) (w : wfType t = true)
    (h : Matches fl [p .sof, typeV t, p .eof] toks) : parseType fl toks = .ok t := by
  obtain ⟨l', h⟩ := (matches_iff _ _ _).1 h
  have hwid := checkAll_width fl _ _ _ _ _ h
  simp only [checkAll_cons, checkAll_nil, check_tok] at h
  obtain ⟨l1, ts1, ⟨sof, rfl, hc1, rfl⟩, l2, ts2, hty, l3, ts3, ⟨eof, rfl, hc3, rfl⟩, hfin⟩ := h
  cases hfin
  have hfol : FollowType t [l'] := by
    cases t <;> simp [FollowType, cls_kind hc3]
  have hw : width (typeV t) ≤ (l1 :: ts1).length + 1 := by
    simp [Item.yieldAll] at hwid; simp [width]; omega
  have c := parseTypeReference_complete fl _ t l1 l2 ts1 [l'] w hw hty hfol
  apply (runAll_ok _ _ _).2
  refine ⟨l', ?_⟩
  simp only [List.length_cons] at c ⊢
  simp [parseTypeP, bind_eq, expect_pos (cls_kind hc1), c, expect_pos (cls_kind hc3), pure_eq]

/-- declarative corollary: the accepted list is a derivation with spans (`span_spec` for types, see C02) -/
theorem parseType_sound_spans (fl : Flags) (toks : List Tok) (t : TypeRef) (h : parseType fl toks = .ok t) :
    Item.SpansAll fl [p .sof, typeV t, p .eof] toks :=
  matches_spans _ _ _ (parseType_sound fl toks t h).2

end PyGql.Props.C01

/-
  C06 - property theorems, part 24: `TypeInfoVisitor` IS BALANCED IN EVERY CHAIN (what /repo fix 391ad62 is for).

  With the `SkipNode` semantics of 391ad62 (`Validate/Chain.lean`: after a skip the members that entered are left at
  once, `TypeInfoVisitor` last) every visit function of the chain returns the stacks of `TypeInfoVisitor` exactly as it
  found them - for EVERY list of rules, whatever they report and wherever they raise `SkipNode`. Consequently the type
  information a rule sees at a node depends only on the position of the node in the document (the enclosing nodes),
  never on the other members of the chain nor on what happened in the siblings before it. Before the fix this was
  false (ledger V5: a skipped inline fragment left its type on the stacks and the following siblings were typed
  against it).

  NOT proved (and false as a general statement): "each rule reports in the chain what it reports alone". The children
  of a node at which SOME member raises `SkipNode` are visited by nobody, so another member loses the reports it would
  make inside that sub-tree (and its collectors lose what they would record there); see the note at the end.
  What IS true and proved (`Props/C06_chain.lean: chain_silent_iff_alone`, `chainM_silent_iff_alone`): the chain records
  NO error iff every member alone records none - a skipping member has just reported (`skip_reports`).
-/
import PyGqlModel.Lemmas.ValidateTyped
import PyGqlModel.Lemmas.ValidateWalkG
import PyGqlModel.Lemmas.ValidateCtx
namespace PyGql.Props.C06
open PyGql PyGql.Validate PyGql.Validate.Spec

/-- the stacks without the `directive` register -/
def nd (t : TI) : TI := { t with directive := none }

theorem nd_tiLeave_tiEnter (s : SchemaD) (n : Node) (t : TI) : nd (tiLeave n (tiEnter s n t)) = nd t := by
  cases n with
  | directive d => simp [tiEnter, tiLeave, TI.enterDirective, TI.leaveDirective, nd]
  | _ => rw [tiLeave_tiEnter s _ t (fun d e => by cases e)]

/-- leaving does not read the `directive` register -/
theorem nd_tiLeave_congr (n : Node) (t1 t2 : TI) (h : nd t1 = nd t2) : nd (tiLeave n t1) = nd (tiLeave n t2) := by
  obtain ⟨a1, b1, c1, d1, e1, f1⟩ := t1
  obtain ⟨a2, b2, c2, d2, e2, f2⟩ := t2
  simp only [nd, TI.mk.injEq, and_true] at h
  obtain ⟨rfl, rfl, rfl, rfl, rfl⟩ := h
  cases n with
  | value v => cases v <;> simp [tiLeave, nd, TI.leaveInputValue]
  | _ => simp [tiLeave, nd, TI.leaveSelectionSet, TI.leaveField, TI.leaveDirective, TI.popType, TI.leaveVarDef,
      TI.leaveInputValue]

theorem directive_tiLeave (n : Node) (t : TI) (h : t.directive = none) : (tiLeave n t).directive = none := by
  cases n with
  | value v => cases v <;> simpa [tiLeave, TI.leaveInputValue] using h
  | _ => simp [tiLeave, TI.leaveSelectionSet, TI.leaveField, TI.leaveDirective, TI.popType, TI.leaveVarDef,
      TI.leaveInputValue, h]

theorem directive_tiLeave_tiEnter (s : SchemaD) (n : Node) (t : TI) (h : t.directive = none) :
    (tiLeave n (tiEnter s n t)).directive = none := by
  have := congrArg TI.directive (nd_tiLeave_tiEnter s n t)
  cases n with
  | directive d => simp [tiEnter, tiLeave, TI.enterDirective, TI.leaveDirective]
  | _ => rw [tiLeave_tiEnter s _ t (fun d e => by cases e)]; exact h

/-- what every visit establishes about the stacks: unchanged up to the `directive` register, and the register is
    empty afterwards if it was empty before -/
def Bal (_ : List Node) (st st' : St) : Prop :=
  nd st'.ti = nd st.ti ∧ (st.ti.directive = none → st'.ti.directive = none)

theorem enter_ti (c : Cfg) (n : Node) (st : St) : (enter c n st).1.ti = tiEnter c.schema n st.ti := by
  unfold enter
  generalize enterRules c n (tiEnter c.schema n st.ti) c.rules st.rs = p
  rfl

theorem leave_ti (c : Cfg) (n : Node) (st : St) : (leave c n st).ti = tiLeave n st.ti := rfl

theorem leaveSkipped_ti (c : Cfg) (n : Node) (st0 st1 : St) : (leaveSkipped c n st0 st1).ti = tiLeave n st1.ti := rfl

/-- **one node, any chain**: skipped or not, the stacks come back -/
theorem bal_node (c : Cfg) (n : Node) (body : St → St) (ns : List Node) (st : St)
    (hb : ∀ st1, Bal ns st1 (body st1)) : Bal (n :: ns) st (visitNode c n body st) := by
  cases hs : (enter c n st).2
  · rw [visitNode_false hs, Bal, leave_ti]
    obtain ⟨b1, b2⟩ := hb (enter c n st).1
    rw [enter_ti] at b1 b2
    refine ⟨?_, fun h0 => ?_⟩
    · rw [nd_tiLeave_congr n _ _ b1, nd_tiLeave_tiEnter]
    · cases n with
      | directive d => simp [tiLeave, TI.leaveDirective]
      | _ =>
        refine directive_tiLeave _ _ (b2 ?_)
        rw [directive_tiEnter c.schema _ st.ti (fun d e => by cases e)]; exact h0
  · rw [visitNode_true hs, Bal, leaveSkipped_ti, enter_ti]
    exact ⟨nd_tiLeave_tiEnter c.schema n st.ti, directive_tiLeave_tiEnter c.schema n st.ti⟩

theorem balAlg (c : Cfg) : WalkAlg c Bal where
  nil st := ⟨rfl, id⟩
  append h1 h2 := ⟨h2.1.trans h1.1, fun h0 => h2.2 (h1.2 h0)⟩
  node n body ns st _ hb := bal_node c n body ns st hb

theorem ti_eq_of_bal {ns : List Node} {st st' : St} (h : Bal ns st st') (h0 : st.ti.directive = none) : st'.ti = st.ti := by
  obtain ⟨h1, h2⟩ := h
  have hd := h2 h0
  revert h1 hd h0
  generalize st'.ti = t1
  generalize st.ti = t2
  intro h0 h1 hd
  obtain ⟨a1, b1, c1, d1, e1, f1⟩ := t1
  obtain ⟨a2, b2, c2, d2, e2, f2⟩ := t2
  simp only [nd, TI.mk.injEq, and_true] at h1
  simp only at hd h0
  obtain ⟨rfl, rfl, rfl, rfl, rfl⟩ := h1
  rw [hd, h0]

/-- **selections**: for every chain, a list of selections leaves the stacks of `TypeInfoVisitor` as it found them - so
    every selection of the list is typed against the same stacks, whatever its siblings contain and whichever member
    raised `SkipNode` in them -/
theorem selections_balanced (c : Cfg) (sels : List Sel) (st : St) (h0 : st.ti.directive = none) :
    (visitSels c sels st).ti = st.ti :=
  ti_eq_of_bal (visitSelsG (balAlg c).toV sels st) h0

theorem definitions_balanced (c : Cfg) (ds : List Def) (st : St) (h0 : st.ti.directive = none) :
    (ds.foldl (fun st x => visitDef c x st) st).ti = st.ti :=
  ti_eq_of_bal (visitDefsG (balAlg c).toV
    (fun n body ns st _ _ hb => bal_node c n body ns st hb) ds st) h0

/-- **`TypeInfoVisitor` is balanced over the whole document, in every chain** -/
theorem typeinfo_balanced (c : Cfg) (d : Doc) : (visitDocument c d {}).ti = {} := by
  have h : Bal (nodes d) ({} : St) (visitDocument c d {}) := by
    rw [visitDocument, nodes]
    exact bal_node c (.document d) _ _ _ (fun st1 => visitDefsG (balAlg c).toV
      (fun n body ns st _ _ hb => bal_node c n body ns st hb) d.defs st1)
  exact ti_eq_of_bal h rfl

/-! the former behaviour (ledger V5) on the model of this file's predecessor: a chain whose rule skipped at
    `... on Int { s }` kept the type pushed for the inline fragment; here the stacks are back (evaluation) -/
example :
    let st := visitSels ⟨{ types := [{ kind := .scalar, name := "Int" }] }, {}, [.fragmentsOnCompositeTypes]⟩
      [.inline (some "Int") [] 1 [.field none "s" [] [] false 0 []]] {}
    st.rs.errs.length = 1 ∧ st.ti.typeStack.length = 0 ∧ st.ti.parentStack.length = 0 := by decide +kernel

/-! ### why "every rule reports in the chain what it reports alone" is NOT a theorem

With the rules `[FragmentsOnCompositeTypes, FieldsOnCorrectType]` and `{ o { ... on Int { zz } } }` the first rule
raises `SkipNode` at the inline fragment; the children are visited by nobody, so the unknown field `zz` is not reported
in the chain although `FieldsOnCorrectType` alone reports it (5.3.1 only says something when the parent type is known;
inside `... on Int` there is none - but with `... on Ob` spread where it is impossible, `PossibleFragmentSpreads` skips
and a wrong field below is hidden in the same way). What does hold, and is checked on every run by
`harness/corr/C06_model.py` (`chain-does-not-decompose`): the VERDICT of the chain is the conjunction of the verdicts
of the rules run alone. A proof needs (a) the frame property of the 26 rules (each reads and writes only its own part
of `RS`), (b) that every `SkipNode` of the standard chain comes with an error of SOME member (false for an arbitrary
sub-chain: `ValuesOfCorrectTypeChecker` skips silently at an object literal whose expected type is unknown).
BOTH ARE PROVED SINCE (fix C06-H5 removed the silent skip): (b) `Props/C06_skipreports.lean: skip_reports`, (a)
`Props/C06_chain.lean: framed_enterRule`; the statement about the verdict is `chain_silent_iff_alone` /
`verdict_iff_alone` (chain of the theorems) and `chainM_silent_iff_alone` / `verdict_chain_iff` (the chain /repo runs).
-/

end PyGql.Props.C06

/-
  C20 — the clause "whenever no breaking change is reported, every operation valid against the old schema is valid
  against the new one" AS WORDED, over the C06 model of the validator (all 26 rules): `OperationsStayValidFull`.

  It is FALSE of today's code: `operations_stay_valid_full_refuted` (two independent witnesses: finding G6, an
  operation whose kind has no root type in the old schema; finding G4, `f: Int` → `f: Int!` breaks
  OverlappingFieldsCanBeMerged / SameResponseShape - both changes are reported COMPATIBLE by the differ).

  What IS proved, on the validator model: `operations_stay_valid_all_but_overlap_partial`. Its name says partial
  because, compared with the full clause, it
    * OMITS the rule OverlappingFieldsCanBeMerged (it cannot be covered: G4);
    * ASSUMES `OpsRooted` (every operation of the document has a root type in the old schema; necessary: G6);
    * ASSUMES the well-formedness facts `OldWf` / `NewWf` / `OldWfIn` / `NewWfIn` (consequences of
      `Schema.validate()`, which `diff_schema` runs first: `operations_stay_valid_of_valid`) and `NamesNonEmpty`
      (no fragment is named "": a guarantee of the parser);
    * speaks about the validator of /repo HEAD (`Fixes.all`; fix V9 is necessary: `fix_v9_necessary`), each rule
      visitor run alone (`Silent`; that the chain of all visitors reports what the visitors report alone is C06's
      `chain_par_is_chain` / `runM_alone_eq`).
  The older theorems `operations_stay_valid` (C20_operations.lean: the STRUCTURAL predicate `ValidDoc` of C05 - fields,
  leaves, type conditions, fragments, roots; no arguments, values, variables, directives) and
  `operations_stay_valid_rules` (C20_rules_doc.lean: 8 of the schema-dependent rules) keep their names because the
  evidence and DESIGN.md refer to them; both are PARTIAL in the same sense and are subsumed by the theorem below.
-/
import PyGqlModel.Props.C20_rules_all
import PyGqlModel.Props.C06_head

set_option linter.unusedSimpArgs false
set_option linter.unusedVariables false

namespace PyGql.Props.C20
open PyGql PyGql.Differ PyGql.Diff PyGql.Validate PyGql.Validate.Spec PyGql.Props.C06

/-- the validator model (every one of the 26 rule visitors, code of /repo HEAD) reports nothing -/
def Accepted (s : SchemaD) (d : Doc) : Prop := ∀ r ∈ Rule.all, Silent s Fixes.all r d

/-- **the clause as worded** (kept visible; FALSE: `operations_stay_valid_full_refuted`) -/
def OperationsStayValidFull : Prop :=
  ∀ (o n : SchemaD) (d : Doc), diffSchema o n 2 = [] → Accepted o d → Accepted n d

/-! ### refutation -/

private def bi : List TypeD :=
  [{ kind := .scalar, name := "Int" }, { kind := .scalar, name := "String" }, { kind := .scalar, name := "Boolean" },
   { kind := .object, name := "__Schema" }, { kind := .object, name := "__Type" }]

/-- `type Query { a: Int }` -/
private def g6Old : SchemaD :=
  { query := some "Query", types := bi ++ [{ kind := .object, name := "Query", fields := [{ name := "a", type := .named "Int" }] }] }
/-- the same plus `type Mutation { m: Int }` as mutation root -/
private def g6New : SchemaD :=
  { query := some "Query", mutation := some "Mutation",
    types := bi ++ [{ kind := .object, name := "Query", fields := [{ name := "a", type := .named "Int" }] },
                    { kind := .object, name := "Mutation", fields := [{ name := "m", type := .named "Int" }] }] }
/-- `mutation { foo }` -/
private def g6Doc : Doc := { defs := [.op "mutation" none [] [] 0 [.field none "foo" [] [] false 0 []]] }

/-- **finding G6 on the validator model**: accepted on the old schema (no rule looks at an operation whose root type
    does not exist), no BREAKING change reported (`RootTypeAdded`, `TypeAdded`: COMPATIBLE), rejected on the new one -/
theorem unrooted_operation_refutes_full :
    diffSchema g6Old g6New 2 = [] ∧ Accepted g6Old g6Doc ∧ ¬ Accepted g6New g6Doc := by
  refine ⟨by decide +kernel, ?_, ?_⟩
  · unfold Accepted Silent; decide +kernel
  · intro h
    exact absurd (h .fieldsOnCorrectType (by decide)) (by unfold Silent; decide +kernel)

/-- `union U = A | B`, `type A { f: Int }`, `type B { g: Int }`, `type Query { u: U }` -/
private def g4Schema (fTy : Ty) : SchemaD :=
  { query := some "Query",
    types := bi ++ [{ kind := .object, name := "A", fields := [{ name := "f", type := fTy }] },
                    { kind := .object, name := "B", fields := [{ name := "g", type := .named "Int" }] },
                    { kind := .union, name := "U", members := ["A", "B"] },
                    { kind := .object, name := "Query", fields := [{ name := "u", type := .named "U" }] }] }
/-- `{ u { ... on A { x: f } ... on B { x: g } } }` -/
private def g4Doc : Doc :=
  { defs := [.op "query" none [] [] 0
      [.field none "u" [] [] true 1
        [.inline (some "A") [] 2 [.field (some "x") "f" [] [] false 0 []],
         .inline (some "B") [] 3 [.field (some "x") "g" [] [] false 0 []]]]] }

/-- **finding G4 on the validator model**: `A.f: Int` → `Int!` is not reported as BREAKING, the document is accepted
    before and rejected after (OverlappingFieldsCanBeMerged: `Int!` and `Int` under the same response key) -/
theorem same_response_shape_refutes_full :
    diffSchema (g4Schema (.named "Int")) (g4Schema (.nonNull (.named "Int"))) 2 = [] ∧
      Accepted (g4Schema (.named "Int")) g4Doc ∧ ¬ Accepted (g4Schema (.nonNull (.named "Int"))) g4Doc := by
  refine ⟨by decide +kernel, ?_, ?_⟩
  · unfold Accepted Silent; decide +kernel
  · intro h
    exact absurd (h .overlappingFieldsCanBeMerged (by decide)) (by unfold Silent; decide +kernel)

/-- **Refutation of the clause as worded** -/
theorem operations_stay_valid_full_refuted : ¬ OperationsStayValidFull := fun h =>
  unrooted_operation_refutes_full.2.2 (h _ _ _ unrooted_operation_refutes_full.1 unrooted_operation_refutes_full.2.1)

/-! ### what holds -/

/-- **Operations stay valid on the validator model, all rules but OverlappingFieldsCanBeMerged** - PARTIAL with
    respect to `OperationsStayValidFull`: see the head of this file for exactly what is omitted and assumed. -/
theorem operations_stay_valid_all_but_overlap_partial (o n : SchemaD) (h : diffSchema o n 2 = []) (wo : OldWf o)
    (wn : NewWf n) (woi : OldWfIn o) (wni : NewWfIn n) (d : Doc) (hne : NamesNonEmpty d) (hR : OpsRooted o d)
    (hv : Accepted o d) : ∀ r ∈ Rule.all, r ≠ .overlappingFieldsCanBeMerged → Silent n Fixes.all r d := by
  have hnd : (Spec.fragNames d).Nodup := (rule_unique_fragment_names_iff o Fixes.all d).mp (hv _ (by decide))
  have so : ∀ r ∈ Rule.all, r ≠ .overlappingFieldsCanBeMerged → SpecAll r o Fixes.all d := fun r hr ho =>
    (rule_iff_nonoverlap o Fixes.all headVars_all d hne hnd r (provedAll_complete r hr) ho).mp (hv r hr)
  have allO : SchemaRulesAll o Fixes.all d :=
    ⟨⟨so .knownTypeNames (by decide) (by decide), so .variablesAreInputTypes (by decide) (by decide),
      so .fragmentsOnCompositeTypes (by decide) (by decide), so .fieldsOnCorrectType (by decide) (by decide),
      so .scalarLeafs (by decide) (by decide), so .knownArgumentNames (by decide) (by decide),
      so .providedRequiredArguments (by decide) (by decide), so .knownDirectives (by decide) (by decide)⟩,
     so .possibleFragmentSpreads (by decide) (by decide), so .valuesOfCorrectType (by decide) (by decide),
     so .variablesInAllowedPosition (by decide) (by decide)⟩
  have allN := operations_stay_valid_rules_all o n h wo wn woi wni Fixes.all rfl rfl d hR allO
  intro r hr ho
  apply (rule_iff_nonoverlap n Fixes.all headVars_all d hne hnd r (provedAll_complete r hr) ho).mpr
  cases r with
  | overlappingFieldsCanBeMerged => exact absurd rfl ho
  | knownTypeNames => exact allN.rules.knownTypeNames
  | variablesAreInputTypes => exact allN.rules.variablesAreInputTypes
  | fragmentsOnCompositeTypes => exact allN.rules.fragmentsOnCompositeTypes
  | fieldsOnCorrectType => exact allN.rules.fieldsOnCorrectType
  | scalarLeafs => exact allN.rules.scalarLeafs
  | knownArgumentNames => exact allN.rules.knownArgumentNames
  | providedRequiredArguments => exact allN.rules.providedRequiredArguments
  | knownDirectives => exact allN.rules.knownDirectives
  | possibleFragmentSpreads => exact allN.possibleFragmentSpreads
  | valuesOfCorrectType => exact allN.valuesOfCorrectType
  | variablesInAllowedPosition => exact allN.variablesInAllowedPosition
  | executableDefinitions => exact so .executableDefinitions (by decide) (by decide)
  | uniqueOperationName => exact so .uniqueOperationName (by decide) (by decide)
  | loneAnonymousOperation => exact so .loneAnonymousOperation (by decide) (by decide)
  | singleFieldSubscriptions => exact so .singleFieldSubscriptions (by decide) (by decide)
  | uniqueFragmentNames => exact so .uniqueFragmentNames (by decide) (by decide)
  | knownFragmentNames => exact so .knownFragmentNames (by decide) (by decide)
  | noUnusedFragments => exact so .noUnusedFragments (by decide) (by decide)
  | noFragmentCycles => exact so .noFragmentCycles (by decide) (by decide)
  | uniqueVariableNames => exact so .uniqueVariableNames (by decide) (by decide)
  | noUndefinedVariables => exact so .noUndefinedVariables (by decide) (by decide)
  | noUnusedVariables => exact so .noUnusedVariables (by decide) (by decide)
  | uniqueDirectivesPerLocation => exact so .uniqueDirectivesPerLocation (by decide) (by decide)
  | uniqueArgumentNames => exact so .uniqueArgumentNames (by decide) (by decide)
  | uniqueInputFieldNames => exact so .uniqueInputFieldNames (by decide) (by decide)

end PyGql.Props.C20

/-
  C04 / C05 — fuel SUFFICIENCY: on a document whose fragments can be ranked (no fragment cycle) every request
  RESPONDS (never the out-of-fuel artefact), so with `response_unique` the response is a total function of
  (schema, document, variables, world, operation name) and the theorems stated "for every fuel" are statements
  about documents.
-/
import PyGqlModel.Props.C04_fuel
import PyGqlModel.Spec.ValidDoc

set_option linter.unusedSimpArgs false
set_option linter.unusedVariables false

namespace PyGql.Props.C04
open PyGql PyGql.Exec PyGql.Spec

/-- declarative acyclicity: fragment names can be ranked so that ranks decrease along spreads — `rk` for the nesting
    of `collect_fields` calls, `ek` for the nesting of `execute_fields` levels; `B` bounds every selection list. -/
structure Ranked (doc : Doc) (rk ek : String → Nat) (B : Nat) : Prop where
  collect : ∀ name fr, doc.fragment? name = some fr → selsNeed rk fr.sels ≤ rk name
  exec : ∀ name fr, doc.fragment? name = some fr → selsDepth ek fr.sels ≤ ek name
  bounded : ∀ name fr, doc.fragment? name = some fr → selsBounded rk B fr.sels = true

private theorem skipSelection_fueled (vars : Vars) (dirs : List Dir) (e : Fail) (h : skipSelection vars dirs = .error e) : e ≠ .outOfFuel := by
  intro he; subst he
  simp only [skipSelection, bind, Except.bind, pure, Except.pure] at h
  have dirIf_ne : ∀ n, dirIf vars dirs n ≠ .error .outOfFuel := by
    intro n hh
    unfold dirIf at hh
    split at hh
    · simp at hh
    · split at hh
      · simp at hh
      · split at hh <;> simp at hh
      · simp at hh
  cases h1 : dirIf vars dirs "skip" with
  | error e1 => simp [h1] at h; subst h; exact dirIf_ne _ h1
  | ok a =>
    simp only [h1] at h
    cases h2 : dirIf vars dirs "include" with
    | error e2 => simp [h2] at h; subst h; exact dirIf_ne _ h2
    | ok b => simp [h2] at h

private theorem applies_fueled (s : SchemaD) (obj : String) (on : Option String) (e : Fail)
    (h : fragmentTypeApplies s obj on = .error e) : e ≠ .outOfFuel := by
  intro he; subst he
  unfold fragmentTypeApplies at h
  split at h
  · simp at h
  · split at h <;> simp at h

private theorem collectStep_fueled (s : SchemaD) (doc : Doc) (vars : Vars) (rk ek : String → Nat) (B : Nat) (hr : Ranked doc rk ek B)
    (rec : String → List Sel → List String → R (Grouped × List String)) (n : Nat)
    (hrec : ∀ obj sels seen, selsNeed rk sels < n → Fueled (rec obj sels seen)) (obj : String) :
    ∀ (sels : List Sel) (seen : List String) (g : Grouped), selsNeed rk sels ≤ n →
      Fueled (collectStep s doc vars rec obj sels seen g) := by
  intro sels
  induction sels with
  | nil => intro seen g _ h; simp [collectStep] at h
  | cons sel rest ih =>
    intro seen g hn
    simp only [selsNeed] at hn
    have hrest : selsNeed rk rest ≤ n := by omega
    have hsel : selNeed rk sel ≤ n := by omega
    cases sel with
    | field key name loc dirs args hs sub =>
      simp only [collectStep, bind, Except.bind]
      cases hsk : skipSelection vars dirs with
      | error e => intro h; simp at h; exact skipSelection_fueled vars dirs e hsk h
      | ok b => cases b <;> simpa using ih _ _ hrest
    | inline on dirs sub =>
      simp only [selNeed] at hsel
      simp only [collectStep, bind, Except.bind, pure, Except.pure]
      cases hsk : skipSelection vars dirs with
      | error e => intro h; simp at h; exact skipSelection_fueled vars dirs e hsk h
      | ok b =>
        cases b with
        | true => simpa using ih _ _ hrest
        | false =>
          simp only [Bool.false_eq_true, if_false]
          cases hap : fragmentTypeApplies s obj on with
          | error e => intro h; simp at h; exact applies_fueled s obj on e hap h
          | ok a =>
            cases a with
            | false => simpa using ih _ _ hrest
            | true =>
              simp only [Bool.not_true, Bool.false_eq_true, if_false]
              cases hrr : rec obj sub seen with
              | error e =>
                intro h; simp at h
                exact hrec obj sub seen (by omega) (by rw [hrr, h])
              | ok p => simpa using ih _ _ hrest
    | spread name dirs =>
      simp only [selNeed] at hsel
      simp only [collectStep, bind, Except.bind, pure, Except.pure]
      cases hfr : doc.fragment? name with
      | none => intro h; simp at h
      | some fr =>
        simp only []
        cases hsk : skipSelection vars dirs with
        | error e => intro h; simp at h; exact skipSelection_fueled vars dirs e hsk h
        | ok b =>
          cases b with
          | true => simpa using ih _ _ hrest
          | false =>
            simp only [Bool.false_eq_true, if_false]
            by_cases hseen : seen.contains name
            · simp only [hseen, if_true]; simpa using ih _ _ hrest
            · simp only [hseen, Bool.false_eq_true, if_false]
              cases hap : fragmentTypeApplies s obj (some fr.on) with
              | error e => intro h; simp at h; exact applies_fueled s obj _ e hap h
              | ok a =>
                cases a with
                | false => simpa using ih _ _ hrest
                | true =>
                  simp only [Bool.not_true, Bool.false_eq_true, if_false]
                  have := hr.collect name fr hfr
                  cases hrr : rec obj fr.sels seen with
                  | error e =>
                    intro h; simp at h
                    exact hrec obj fr.sels seen (by omega) (by rw [hrr, h])
                  | ok p => simpa using ih _ _ hrest

/-- **collect_fuel_sufficient**: with ranked fragments, `collect_fields` does not run out of fuel as soon as the fuel
    exceeds the rank-measure of the selection set -/
theorem collect_fuel_sufficient (s : SchemaD) (doc : Doc) (vars : Vars) (rk ek : String → Nat) (B : Nat) (hr : Ranked doc rk ek B) :
    ∀ (n : Nat) (obj : String) (sels : List Sel) (seen : List String), selsNeed rk sels < n →
      Fueled (collectFields s doc vars n obj sels seen) := by
  intro n
  induction n with
  | zero => intro obj sels seen h; omega
  | succ n ih =>
    intro obj sels seen h
    simp only [collectFields]
    exact collectStep_fueled s doc vars rk ek B hr _ n ih obj sels seen [] (by omega)


/-! ### the executor -/

private theorem selsDepth_append (ek : String → Nat) (a b : List Sel) : selsDepth ek (a ++ b) = max (selsDepth ek a) (selsDepth ek b) := by
  induction a with
  | nil => simp [selsDepth]
  | cons x xs ih => simp only [List.cons_append, selsDepth, ih]; omega

private theorem selsNeed_append (rk : String → Nat) (a b : List Sel) : selsNeed rk (a ++ b) = max (selsNeed rk a) (selsNeed rk b) := by
  induction a with
  | nil => simp [selsNeed]
  | cons x xs ih => simp only [List.cons_append, selsNeed, ih]; omega

private theorem selsBoundedIn_append (rk : String → Nat) (B : Nat) (a b : List Sel) :
    selsBoundedIn rk B (a ++ b) = (selsBoundedIn rk B a && selsBoundedIn rk B b) := by
  induction a with
  | nil => simp [selsBoundedIn]
  | cons x xs ih => simp [selsBoundedIn, ih, Bool.and_assoc]

/-- what is known of a collected node: its sub-selection is strictly shallower than `D` and bounded -/
def NodeFuel (rk ek : String → Nat) (B D : Nat) (n : FNode) : Prop := selsDepth ek n.sub < D ∧ selsBounded rk B n.sub = true

def GroupAll (P : FNode → Prop) (g : Grouped) : Prop := ∀ kv ∈ g, ∀ n ∈ kv.2, P n

private theorem extend_groupAll (P : FNode → Prop) (g : Grouped) (k : String) (ns : List FNode) (hg : GroupAll P g)
    (hn : ∀ n ∈ ns, P n) : GroupAll P (g.extend k ns) := by
  induction g with
  | nil => intro kv hkv n hn'; simp [Grouped.extend] at hkv; subst hkv; exact hn n hn'
  | cons kv rest ih =>
    obtain ⟨k', ms⟩ := kv
    simp only [Grouped.extend]
    by_cases h : k' = k
    · subst h
      simp only [beq_self_eq_true, if_true]
      intro kv hkv n hn'
      simp at hkv
      rcases hkv with rfl | hkv
      · simp at hn'
        rcases hn' with h1 | h1
        · exact hg (k', ms) (by simp) n h1
        · exact hn n h1
      · exact hg kv (by simp [hkv]) n hn'
    · have h' : (k' == k) = false := by simpa using h
      simp only [h', Bool.false_eq_true, if_false]
      intro kv hkv n hn'
      simp at hkv
      rcases hkv with rfl | hkv
      · exact hg (k', ms) (by simp) n hn'
      · exact ih (fun kv hkv => hg kv (by simp [hkv])) kv hkv n hn'

private theorem mergeInto_groupAll (P : FNode → Prop) (src into : Grouped) (hs : GroupAll P src) (hi : GroupAll P into) :
    GroupAll P (src.mergeInto into) := by
  unfold Grouped.mergeInto
  induction src generalizing into with
  | nil => simpa
  | cons kv rest ih =>
    simp only [List.foldl_cons]
    exact ih _ (fun kv' hkv => hs kv' (by simp [hkv])) (extend_groupAll P _ _ _ hi (fun n hn => hs kv (by simp) n hn))

/-- the selections handed to one `collect_fields` pass -/
def SelsFuel (rk ek : String → Nat) (B D : Nat) (sels : List Sel) : Prop :=
  selsDepth ek sels ≤ D ∧ selsBoundedIn rk B sels = true

private theorem collectStep_nodeFuel (s : SchemaD) (doc : Doc) (vars : Vars) (rk ek : String → Nat) (B D : Nat) (hr : Ranked doc rk ek B)
    (rec : String → List Sel → List String → R (Grouped × List String))
    (hrec : ∀ obj sels seen g seen', SelsFuel rk ek B D sels → rec obj sels seen = .ok (g, seen') → GroupAll (NodeFuel rk ek B D) g)
    (obj : String) :
    ∀ (sels : List Sel) (seen : List String) (g g' : Grouped) (seen' : List String), SelsFuel rk ek B D sels →
      GroupAll (NodeFuel rk ek B D) g → collectStep s doc vars rec obj sels seen g = .ok (g', seen') →
      GroupAll (NodeFuel rk ek B D) g' := by
  intro sels
  induction sels with
  | nil => intro seen g g' seen' _ hg h; simp [collectStep] at h; obtain ⟨rfl, rfl⟩ := h; exact hg
  | cons sel rest ih =>
    intro seen g g' seen' hq hg h
    obtain ⟨hd, hb⟩ := hq
    simp only [selsDepth] at hd
    simp only [selsBoundedIn, Bool.and_eq_true] at hb
    have hrest : SelsFuel rk ek B D rest := ⟨by omega, hb.2⟩
    cases sel with
    | field key name loc dirs args hs sub =>
      simp only [collectStep, bind, Except.bind] at h
      cases hsk : skipSelection vars dirs with
      | error e => simp [hsk] at h
      | ok b =>
        simp only [hsk] at h
        cases b with
        | true => simp at h; exact ih _ _ _ _ hrest hg h
        | false =>
          simp at h
          refine ih _ _ _ _ hrest (extend_groupAll _ _ _ _ hg ?_) h
          intro n hn
          simp at hn; subst hn
          simp only [selDepth] at hd
          exact ⟨by simp; omega, by simpa [selBounded, selsBounded] using hb.1⟩
    | inline on dirs sub =>
      simp only [selDepth] at hd
      have hbs : selsBounded rk B sub = true := by simpa [selBounded, selsBounded] using hb.1
      simp only [collectStep, bind, Except.bind, pure, Except.pure] at h
      cases hsk : skipSelection vars dirs with
      | error e => simp [hsk] at h
      | ok b =>
        simp only [hsk] at h
        cases b with
        | true => simp at h; exact ih _ _ _ _ hrest hg h
        | false =>
          simp only [Bool.false_eq_true, if_false] at h
          cases hap : fragmentTypeApplies s obj on with
          | error e => simp [hap] at h
          | ok a =>
            simp only [hap] at h
            cases a with
            | false => simp at h; exact ih _ _ _ _ hrest hg h
            | true =>
              simp only [Bool.not_true, Bool.false_eq_true, if_false] at h
              cases hrr : rec obj sub seen with
              | error e => simp [hrr] at h
              | ok p =>
                obtain ⟨gs, seens⟩ := p
                simp only [hrr] at h
                have hq' : SelsFuel rk ek B D sub := ⟨by omega, by simp only [selsBounded, Bool.and_eq_true] at hbs; exact hbs.2⟩
                exact ih _ _ _ _ hrest (mergeInto_groupAll _ gs g (hrec _ _ _ _ _ hq' hrr) hg) h
    | spread name dirs =>
      simp only [selDepth] at hd
      simp only [collectStep, bind, Except.bind, pure, Except.pure] at h
      cases hfr : doc.fragment? name with
      | none => simp [hfr] at h
      | some fr =>
        simp only [hfr] at h
        cases hsk : skipSelection vars dirs with
        | error e => simp [hsk] at h
        | ok b =>
          simp only [hsk] at h
          cases b with
          | true => simp at h; exact ih _ _ _ _ hrest hg h
          | false =>
            simp only [Bool.false_eq_true, if_false] at h
            by_cases hseen : seen.contains name
            · simp only [hseen, if_true] at h; simp at h; exact ih _ _ _ _ hrest hg h
            · simp only [hseen, Bool.false_eq_true, if_false] at h
              cases hap : fragmentTypeApplies s obj (some fr.on) with
              | error e => simp [hap] at h
              | ok a =>
                simp only [hap] at h
                cases a with
                | false => simp at h; exact ih _ _ _ _ hrest hg h
                | true =>
                  simp only [Bool.not_true, Bool.false_eq_true, if_false] at h
                  cases hrr : rec obj fr.sels seen with
                  | error e => simp [hrr] at h
                  | ok p =>
                    obtain ⟨gs, seens⟩ := p
                    simp only [hrr] at h
                    have h1 := hr.exec name fr hfr
                    have h2 := hr.bounded name fr hfr
                    have hq' : SelsFuel rk ek B D fr.sels :=
                      ⟨by omega, by simp only [selsBounded, Bool.and_eq_true] at h2; exact h2.2⟩
                    exact ih _ _ _ _ hrest (mergeInto_groupAll _ gs g (hrec _ _ _ _ _ hq' hrr) hg) h

private theorem collect_nodeFuel (s : SchemaD) (doc : Doc) (vars : Vars) (rk ek : String → Nat) (B D : Nat) (hr : Ranked doc rk ek B) :
    ∀ (fuel : Nat) (obj : String) (sels : List Sel) (seen : List String) (g : Grouped) (seen' : List String),
      SelsFuel rk ek B D sels → collectFields s doc vars fuel obj sels seen = .ok (g, seen') → GroupAll (NodeFuel rk ek B D) g := by
  intro fuel
  induction fuel with
  | zero => intro obj sels seen g seen' _ h; simp [collectFields] at h
  | succ n ih =>
    intro obj sels seen g seen' hq h
    simp only [collectFields] at h
    exact collectStep_nodeFuel s doc vars rk ek B D hr _ (fun obj sels seen g seen' hq hh => ih obj sels seen g seen' hq hh)
      obj sels seen [] g seen' hq (by intro kv hkv; simp at hkv) h

private theorem completeList_fueled (f : Path → RVal → R (Data × List Err)) (hf : ∀ p v, Fueled (f p v)) (path : Path) :
    ∀ (vs : List RVal) (i : Nat), Fueled (completeList f path i vs) := by
  intro vs
  induction vs with
  | nil => intro i h; simp [completeList] at h
  | cons v rest ih =>
    intro i h
    simp only [completeList, bind, Except.bind, pure, Except.pure] at h
    cases h1 : f (path ++ [Seg.idx i]) v with
    | error e => simp [h1] at h; exact hf _ v (by rw [h1, h])
    | ok p1 =>
      simp only [h1] at h
      cases h2 : completeList f path (i + 1) rest with
      | error e => simp [h2] at h; exact ih (i + 1) (by rw [h2, h])
      | ok p2 => simp [h2] at h

private theorem completeValue_fueled (s : SchemaD) (execSub : String → Path → List Sel → R (Data × List Err)) (nodes : List FNode)
    (he : ∀ rt p, Fueled (execSub rt p (mergedSelections nodes))) :
    ∀ (t : Ty) (path : Path) (v : RVal), Fueled (completeValue s execSub nodes t path v) := by
  intro t
  induction t with
  | nonNull t ih =>
    intro path v h
    simp only [completeValue, bind, Except.bind, pure, Except.pure] at h
    cases h1 : completeValue s execSub nodes t path v with
    | error e => simp [h1] at h; exact ih path v (by rw [h1, h])
    | ok p => simp only [h1] at h; split at h <;> simp at h
  | list t ih =>
    intro path v h
    cases v with
    | null => simp [completeValue] at h
    | leaf j => cases j <;> simp [completeValue] at h
    | obj rt => simp [completeValue] at h
    | raise vs msg ext =>
      simp only [completeValue] at h
      cases h1 : completeList (completeValue s execSub nodes t) path 0 vs with
      | error e => simp [h1] at h; exact completeList_fueled _ (fun p v => ih p v) path vs 0 (by rw [h1, h])
      | ok p => simp [h1] at h
    | list vs =>
      simp only [completeValue, bind, Except.bind, pure, Except.pure] at h
      cases h1 : completeList (completeValue s execSub nodes t) path 0 vs with
      | error e => simp [h1] at h; exact completeList_fueled _ (fun p v => ih p v) path vs 0 (by rw [h1, h])
      | ok p => simp [h1] at h
  | named n =>
    intro path v h
    cases v with
    | null => simp [completeValue] at h
    | leaf j =>
      simp only [completeValue] at h
      cases hk : kindOf s n with
      | none => simp [hk] at h
      | some k =>
        cases k <;> simp only [hk] at h <;> (try (simp at h; done)) <;> (try exact he _ _ h)
        all_goals (cases hs : serializeLeaf s n j <;> simp [hs] at h)
    | list vs =>
      simp only [completeValue] at h
      cases hk : kindOf s n with
      | none => simp [hk] at h
      | some k => cases k <;> simp only [hk] at h <;> (try (simp at h; done)) <;> exact he _ _ h
    | raise vs msg ext =>
      simp only [completeValue] at h
      cases hk : kindOf s n with
      | none => simp [hk] at h
      | some k => cases k <;> simp only [hk] at h <;> (try (simp at h; done)) <;> exact he _ _ h
    | obj rt =>
      simp only [completeValue] at h
      cases hk : kindOf s n with
      | none => simp [hk] at h
      | some k =>
        cases k <;> simp only [hk] at h <;> (try (simp at h; done)) <;> (try exact he _ _ h)
        all_goals
          cases hr : kindOf s rt with
          | none => simp [hr] at h
          | some k2 =>
            cases k2 <;> simp only [hr] at h <;> (try (simp at h; done))
            split at h
            · exact he _ _ h
            · simp at h

private theorem merged_fuel (rk ek : String → Nat) (B D : Nat) (nodes : List FNode) (hn : ∀ n ∈ nodes, NodeFuel rk ek B D n)
    (hD : 0 < D) : selsDepth ek (mergedSelections nodes) < D ∧ selsBounded rk B (mergedSelections nodes) = true := by
  induction nodes with
  | nil => simp [mergedSelections, selsDepth, selsBounded, selsNeed, selsBoundedIn, hD]
  | cons n rest ih =>
    obtain ⟨h1, h2⟩ := ih (fun m hm => hn m (by simp [hm]))
    obtain ⟨hd, hb⟩ := hn n (by simp)
    simp only [selsBounded, Bool.and_eq_true, decide_eq_true_eq] at h2 hb ⊢
    simp only [mergedSelections, List.flatMap_cons] at h1 h2 ⊢
    rw [selsDepth_append, selsNeed_append, selsBoundedIn_append]
    by_cases hs : n.hasSub
    · simp only [hs, if_true]
      refine ⟨by omega, by omega, by simp [hb.2, h2.2]⟩
    · simp only [hs, Bool.false_eq_true, if_false, selsDepth, selsNeed, selsBoundedIn]
      refine ⟨by omega, by omega, by simp [h2.2]⟩

private theorem executeGroups_fueled (s : SchemaD) (w : World) (execSub : String → Path → List Sel → R (Data × List Err))
    (rk ek : String → Nat) (B D : Nat)
    (he : ∀ rt p sels, selsDepth ek sels < D → selsBounded rk B sels = true → Fueled (execSub rt p sels))
    (parent : String) (path : Path) :
    ∀ g : Grouped, GroupAll (NodeFuel rk ek B D) g → Fueled (executeGroups s w execSub parent path g) := by
  intro g
  induction g with
  | nil => intro _ h; simp [executeGroups] at h
  | cons kv rest ih =>
    intro hg
    obtain ⟨key, nodes⟩ := kv
    have ihr := ih (fun kv hkv => hg kv (by simp [hkv]))
    cases nodes with
    | nil => intro h; simp [executeGroups] at h
    | cons node more =>
      intro h
      simp only [executeGroups] at h
      have hnodes : ∀ n ∈ node :: more, NodeFuel rk ek B D n := fun n hn => hg (key, node :: more) (by simp) n hn
      have hD : 0 < D := by have := (hnodes node (by simp)).1; omega
      obtain ⟨hm1, hm2⟩ := merged_fuel rk ek B D (node :: more) hnodes hD
      split at h
      · split at h
        · simp only [bind, Except.bind, pure, Except.pure] at h
          cases hr : executeGroups s w execSub parent path rest with
          | error e => simp [hr] at h; exact ihr (by rw [hr, h])
          | ok p => simp [hr] at h
        · split at h <;> simp at h
      · cases hf : fieldOf s parent node.name with
        | none => simp only [hf] at h; exact ihr h
        | some fd =>
          simp only [hf, bind, Except.bind, pure, Except.pure] at h
          have hres : Fueled (resolveField s w execSub parent (path ++ [Seg.key key]) (node :: more) fd) := by
            intro h'
            simp only [resolveField] at h'
            split at h'
            · simp at h'
            · simp at h'
            · split at h'
              · simp at h'
              · simp at h'
              · rw [catchField_outOfFuel] at h'
                exact completeValue_fueled s execSub _ (fun rt p => he rt p _ hm1 hm2) fd.type _ _ h'
          cases hr1 : resolveField s w execSub parent (path ++ [Seg.key key]) (node :: more) fd with
          | error e => simp [hr1] at h; exact hres (by rw [hr1, h])
          | ok pd =>
            simp only [hr1] at h
            cases hr : executeGroups s w execSub parent path rest with
            | error e => simp [hr] at h; exact ihr (by rw [hr, h])
            | ok p => simp [hr] at h

/-- **exec_fuel_sufficient**: with ranked fragments the executor does not run out of fuel once the executor fuel exceeds
    the field-nesting depth of the selection set and the collect fuel exceeds the bound `B` of the document. -/
theorem exec_fuel_sufficient (s : SchemaD) (doc : Doc) (vars : Vars) (w : World) (rk ek : String → Nat) (B : Nat)
    (hr : Ranked doc rk ek B) (cf : Nat) (hcf : B < cf) :
    ∀ (n : Nat) (rt : String) (path : Path) (sels : List Sel), selsDepth ek sels < n → selsBounded rk B sels = true →
      Fueled (executeFields s doc vars w cf n rt path sels) := by
  intro n
  induction n with
  | zero => intro rt path sels h; omega
  | succ n ih =>
    intro rt path sels hd hb h
    simp only [selsBounded, Bool.and_eq_true, decide_eq_true_eq] at hb
    simp only [executeFields, bind, Except.bind, pure, Except.pure] at h
    cases h1 : collectFields s doc vars cf rt sels [] with
    | error e =>
      simp [h1] at h
      exact collect_fuel_sufficient s doc vars rk ek B hr cf rt sels [] (by omega) (by rw [h1, h])
    | ok p1 =>
      obtain ⟨g, seen'⟩ := p1
      simp only [h1, catchDirective_ok] at h
      have hg := collect_nodeFuel s doc vars rk ek B n hr cf rt sels [] g seen' ⟨by omega, hb.2⟩ h1
      cases h2 : executeGroups s w (executeFields s doc vars w cf n) rt path g with
      | error e =>
        simp [h2] at h
        exact executeGroups_fueled s w _ rk ek B n (fun rt' p sels' hd' hb' => ih rt' p sels' hd' hb') rt path g hg (by rw [h2, h])
      | ok p2 => simp [h2] at h

/-- **responds**: on a document with ranked fragments whose operations are bounded, every request RESPONDS — with
    `response_unique` the response is a total function of (schema, document, variables, world, operation name). -/
theorem responds (s : SchemaD) (doc : Doc) (vars : Vars) (w : World) (rk ek : String → Nat) (B : Nat) (hr : Ranked doc rk ek B)
    (hops : ∀ o ∈ doc.ops, selsBounded rk B o.sels = true) (op : Option String) :
    ∃ r, RespondsWith s doc vars w op r := by
  cases hgo : getOperation doc op with
  | none => exact ⟨.abort "operation", 0, 0, by simp [execute, hgo], by simp⟩
  | some o =>
    have hmem : o ∈ doc.ops := by
      unfold getOperation at hgo
      split at hgo
      · split at hgo
        · simp at hgo; subst hgo; simp [*]
        · simp at hgo
      · split at hgo
        · simp at hgo; subst hgo; simp [*]
        · simp at hgo
      · exact List.mem_of_find?_eq_some hgo
    cases hroot : rootType s o.kind with
    | none => exact ⟨.abort "operation", 0, 0, by simp [execute, hgo, hroot], by simp⟩
    | some root =>
      by_cases hsub : o.kind == "subscription"
      · exact ⟨.abort "operation", 0, 0, by simp [execute, hgo, hroot, hsub], by simp⟩
      · have hf := exec_fuel_sufficient s doc vars w rk ek B hr (B + 1) (by omega) (selsDepth ek o.sels + 1) root [] o.sels
          (by omega) (hops o hmem)
        refine ⟨execute s doc vars w op (selsDepth ek o.sels + 1) (B + 1), _, _, rfl, ?_⟩
        simp only [execute, hgo, hroot, hsub, Bool.false_eq_true, if_false]
        cases hr' : executeFields s doc vars w (B + 1) (selsDepth ek o.sels + 1) root [] o.sels with
        | ok p => simp
        | error f =>
          cases f with
          | outOfFuel => exact absurd hr' hf
          | _ => simp


/-! ### a checkable certificate: the ranks computed by `Spec.rankedB` (evaluated by the driver on every accepted document) -/

private theorem fragment_mem (doc : Doc) (name : String) (fr : Frag) (h : doc.fragment? name = some fr) :
    fr ∈ doc.frags ∧ fr.name = name := by
  unfold Doc.fragment? at h
  have hm := List.mem_of_find?_eq_some h
  have hk := List.find?_some h
  simp at hm hk
  exact ⟨hm, hk⟩

/-- the Boolean certificate is sound: it yields a ranking in the declarative sense -/
theorem ranked_of_rankedB (doc : Doc) (h : rankedB doc = true) :
    Ranked doc (docRk doc) (docEk doc) (docBound doc) ∧ ∀ o ∈ doc.ops, selsBounded (docRk doc) (docBound doc) o.sels = true := by
  unfold rankedB at h
  simp only [Bool.and_eq_true, List.all_eq_true, decide_eq_true_eq] at h
  obtain ⟨hfr, hops⟩ := h
  refine ⟨⟨?_, ?_, ?_⟩, hops⟩
  · intro name fr hf
    obtain ⟨hm, rfl⟩ := fragment_mem doc name fr hf
    exact (hfr fr hm).1.1
  · intro name fr hf
    obtain ⟨hm, rfl⟩ := fragment_mem doc name fr hf
    exact (hfr fr hm).1.2
  · intro name fr hf
    obtain ⟨hm, rfl⟩ := fragment_mem doc name fr hf
    exact (hfr fr hm).2

/-- **responds_certified**: every document that passes the (decidable) rank certificate responds to every request -/
theorem responds_certified (s : SchemaD) (doc : Doc) (vars : Vars) (w : World) (h : rankedB doc = true) (op : Option String) :
    ∃ r, RespondsWith s doc vars w op r :=
  responds s doc vars w _ _ _ (ranked_of_rankedB doc h).1 (ranked_of_rankedB doc h).2 op

/-- non-vacuity: nested fragments, inline fragments, sub-selections -/
def totDoc : Doc :=
  { ops := [{ kind := "query", name := none,
              sels := [.field "a" "a" 2 [] [] true [.spread "F" [], .inline none [] [.spread "G" []]], .spread "G" []] }],
    frags := [{ name := "F", on := "Ob", sels := [.field "x" "x" 30 [] [] true [.spread "G" []]] },
              { name := "G", on := "Ob", sels := [.field "y" "y" 50 [] [] false []] }] }
example : rankedB totDoc = true := by decide
/-- a cyclic document has no certificate -/
example : rankedB { ops := [], frags := [{ name := "A", on := "T", sels := [.spread "A" []] }] } = false := by decide

end PyGql.Props.C04

/-
  C09 — the trace-level statement of `serial_order` for the BlockingExecutor (audit round 2, item 10a: "under every runtime"
  was shown at trace level for the generic executor only; `blocking_serial` is the definition unfolded).
  `BlockingExecutor` emits `call p, done p` ADJACENT for every resolver (it returns before anything else happens), so its
  trace is a sequence of such pairs: at every resolver invocation - in particular at every top-level one - everything invoked
  before has finished (`blocking_serial_order`, the same statement as `SerialOrderFull`).
-/
import PyGqlModel.Lemmas.ExecSerial

set_option linter.unusedVariables false
set_option linter.unusedSimpArgs false

namespace PyGql.Props.C09
open PyGql.AsyncExec

/-- `call p, done p` for each path -/
def pairs : List Path → List Ev
  | [] => []
  | p :: ps => .call p :: .done p :: pairs ps

private theorem pairs_append (a b : List Path) : pairs (a ++ b) = pairs a ++ pairs b := by
  induction a with
  | nil => rfl
  | cons p r ih => simp [pairs, ih]

mutual
private theorem blockComp_pairs : ∀ (c : Comp) (path : Path) (s : ExecSt),
    ∃ ps, (blockComp path c s).2.trace = s.trace ++ pairs ps
  | .null, path, s => ⟨[], by simp [blockComp, pairs]⟩
  | .leaf v, path, s => ⟨[], by simp [blockComp, pairs]⟩
  | .bad, path, s => ⟨[], by simp [blockComp, pairs]⟩
  | .nonNull c, path, s => by
    obtain ⟨ps, h⟩ := blockComp_pairs c path s
    refine ⟨ps, ?_⟩
    simp only [blockComp]
    cases hr : blockComp path c s with
    | mk r s1 =>
      rw [hr] at h
      cases r with
      | exc e => simpa using h
      | ok v => simp only; split <;> simpa [ExecSt.addError] using h
  | .list items, path, s => by
    obtain ⟨ps, h⟩ := blockItems_pairs items path 0 s
    refine ⟨ps, ?_⟩
    simp only [blockComp]
    cases hr : blockItems path 0 items s with
    | mk r s1 => rw [hr] at h; cases r <;> simpa using h
  | .obj fields, path, s => by
    obtain ⟨ps, h⟩ := blockFields_pairs fields path s
    refine ⟨ps, ?_⟩
    simp only [blockComp]
    cases hr : blockFields path fields s with
    | mk r s1 => rw [hr] at h; cases r <;> simpa using h
private theorem blockItems_pairs : ∀ (cs : Comps) (path : Path) (i : Nat) (s : ExecSt),
    ∃ ps, (blockItems path i cs s).2.trace = s.trace ++ pairs ps
  | .nil, path, i, s => ⟨[], by simp [blockItems, pairs]⟩
  | .cons c cs, path, i, s => by
    obtain ⟨ps1, h1⟩ := blockComp_pairs c (path ++ [.idx i]) s
    simp only [blockItems]
    cases hr : blockComp (path ++ [.idx i]) c s with
    | mk r s1 =>
      rw [hr] at h1
      cases r with
      | exc e => exact ⟨ps1, by simpa using h1⟩
      | ok v =>
        obtain ⟨ps2, h2⟩ := blockItems_pairs cs path (i + 1) s1
        refine ⟨ps1 ++ ps2, ?_⟩
        cases hr2 : blockItems path (i + 1) cs s1 with
        | mk r2 s2 =>
          rw [hr2] at h2
          simp only at h1 h2
          cases r2 <;> simp only [hr2] <;> simp [h2, h1, pairs_append, List.append_assoc]
private theorem blockFields_pairs : ∀ (fs : Flds) (path : Path) (s : ExecSt),
    ∃ ps, (blockFields path fs s).2.trace = s.trace ++ pairs ps
  | .nil, path, s => ⟨[], by simp [blockFields, pairs]⟩
  | .cons key mode out rest, path, s => by
    obtain ⟨ps1, h1⟩ := blockField_pairs out (path ++ [.key key]) s
    simp only [blockFields]
    cases hr : blockField (path ++ [.key key]) out s with
    | mk r s1 =>
      rw [hr] at h1
      cases r with
      | exc e => exact ⟨ps1, by simpa using h1⟩
      | ok v =>
        obtain ⟨ps2, h2⟩ := blockFields_pairs rest path s1
        refine ⟨ps1 ++ ps2, ?_⟩
        cases hr2 : blockFields path rest s1 with
        | mk r2 s2 =>
          rw [hr2] at h2
          simp only at h1 h2
          cases r2 <;> simp only [hr2] <;> simp [h2, h1, pairs_append, List.append_assoc]
private theorem blockField_pairs : ∀ (out : ROut) (p : Path) (s : ExecSt),
    ∃ ps, (blockField p out s).2.trace = s.trace ++ pairs ps
  | .rerr, p, s => ⟨[p], by simp [blockField, pairs, ExecSt.emit, ExecSt.addError]⟩
  | .exc, p, s => ⟨[p], by simp [blockField, pairs, ExecSt.emit]⟩
  | .ok c, p, s => by
    obtain ⟨ps, h⟩ := blockComp_pairs c p ((s.emit (.call p)).emit (.done p))
    exact ⟨p :: ps, by simp only [blockField]; rw [h]; simp [pairs, ExecSt.emit]⟩
end

/-- in a sequence of `call p, done p` pairs every `call` is preceded by whole pairs only -/
private theorem pairs_split : ∀ (ps : List Path) (pre post : List Ev) (q : Path),
    pairs ps = pre ++ Ev.call q :: post → ncalls pre = ndones pre
  | [], pre, post, q, h => by simp [pairs] at h
  | p :: ps, pre, post, q, h => by
    cases pre with
    | nil => simp
    | cons e1 pre1 =>
      simp only [pairs, List.cons_append, List.cons.injEq] at h
      obtain ⟨he1, h⟩ := h
      cases pre1 with
      | nil => simp at h
      | cons e2 pre2 =>
        simp only [List.cons_append, List.cons.injEq] at h
        obtain ⟨he2, h⟩ := h
        have ih := pairs_split ps pre2 post q h
        subst he1 he2
        simp [ncalls, ndones, List.filter_cons, isCall, isDone] at ih ⊢
        exact ih

/-- **blocking_serial_order.** `BlockingExecutor` (queries and mutations alike, `execute_fields_serially` aliases
    `execute_fields`): at every resolver invocation of the trace - in particular at every top-level one - every resolver
    invoked before has finished. -/
theorem blocking_serial_order (kind : OpKind) (fields : Flds) (pre post : List Ev) (q : Path)
    (h : (runBlocking ⟨kind, fields⟩).trace = pre ++ Ev.call q :: post) : ncalls pre = ndones pre := by
  obtain ⟨ps, hp⟩ := blockFields_pairs fields [] {}
  unfold runBlocking at h
  cases hr : blockFields [] fields {} with
  | mk r s =>
    rw [hr] at hp h
    have ht : s.trace = pairs ps := by simpa using hp
    cases r <;> (simp only at h; rw [ht] at h; exact pairs_split ps pre post q h)

/-- non-vacuity: `mutation { m1 { c } m2 }` -/
example : (runBlocking ⟨.mutation, .cons "m1" .deferred (.ok (.obj (.cons "c" .deferred (.ok (.leaf 1)) .nil)))
      (.cons "m2" .sync (.ok (.leaf 5)) .nil)⟩).trace
    = [.call [.key "m1"], .done [.key "m1"], .call [.key "m1", .key "c"], .done [.key "m1", .key "c"],
       .call [.key "m2"], .done [.key "m2"]] := by decide

end PyGql.Props.C09

/-
  C20 — "every output position is at least as strict as before", on ALL type expressions outside the G1 class
  (`g1Pair`, Props/C20.lean), for fields of object and interface types; and the converse for the class itself:
  a retyping of the G1 class that loosens the output is NOT reported as breaking (the defect, stated on the
  diff model), one that tightens it IS reported although it is safe (over-reporting).
-/
import PyGqlModel.Props.C20_operations

set_option linter.unusedSimpArgs false
set_option linter.unusedVariables false

namespace PyGql.Props.C20
open PyGql PyGql.Differ PyGql.Diff PyGql.Generated.Differ

/-- **No breaking change ⇒ output positions at least as strict**, lists included, for every field of an object or
    interface type whose retyping is outside the G1 class. (Replaces the list-free hypothesis of
    `nobreaking_fields_strict_partial` / `nobreaking_fields_strict_any_partial` by the explicit exclusion.) -/
theorem nobreaking_fields_strict_outside_G1 (o n : SchemaD) (h : diffSchema o n 2 = []) (ot nt : TypeD)
    (hp : FieldHost o n ot nt) (f g : FieldD) (hf : f ∈ ot.fields) (hg : nt.fields.find? (·.name == f.name) = some g)
    (wf : f.type.wf = true) (wg : g.type.wf = true) (hx : g1Pair f.type g.type = false) :
    OutCompat f.type g.type := by
  apply (safeOut_iff_outside_G1 f.type g.type wf wg hx).mp
  cases hs : safeOut f.type g.type with
  | true => rfl
  | false =>
    exfalso
    have hc := retyped_field_reported_any o n ot nt f g hp hf hg hs
    have := reported_at_severity o n _ 2 hc (by
      rw [show (mk "FieldChangedType" [("new_field", g.name), ("old_field", f.name), ("type", ot.name)]).severity
        = sev "FieldChangedType" false from rfl]
      decide)
    rw [h] at this; exact absurd this (List.not_mem_nil)

/-- the list-free statement is an instance -/
theorem nobreaking_fields_strict_listFree (o n : SchemaD) (h : diffSchema o n 2 = []) (ot nt : TypeD)
    (hp : FieldHost o n ot nt) (f g : FieldD) (hf : f ∈ ot.fields) (hg : nt.fields.find? (·.name == f.name) = some g)
    (wf : f.type.wf = true) (wg : g.type.wf = true) (lf : listFree f.type = true) : OutCompat f.type g.type :=
  nobreaking_fields_strict_outside_G1 o n h ot nt hp f g hf hg wf wg (g1Pair_listFree _ _ lf)

/-- The full statement (kept visible; false today: G1). -/
def NobreakingFieldsStrictFull : Prop :=
  ∀ (o n : SchemaD), diffSchema o n 2 = [] → ∀ (ot nt : TypeD), FieldHost o n ot nt → ∀ (f g : FieldD), f ∈ ot.fields →
    nt.fields.find? (·.name == f.name) = some g → f.type.wf = true → g.type.wf = true → OutCompat f.type g.type

private def fS : FieldD := { name := "xs", type := .list (.nonNull (.named "Int")) }
private def fL : FieldD := { name := "xs", type := .list (.named "Int") }
private def fN : FieldD := { name := "xs", type := .nonNull (.list (.named "Int")) }
private def tS : TypeD := { kind := .object, name := "Query", fields := [fS] }
private def tL : TypeD := { kind := .object, name := "Query", fields := [fL] }
private def tN : TypeD := { kind := .object, name := "Query", fields := [fN] }
private def sS : SchemaD := { types := [tS] }
private def sL : SchemaD := { types := [tL] }
private def sN : SchemaD := { types := [tN] }

/-- Finding G1 on the diff model: `Query.xs: [Int!]` -> `[Int]` yields no BREAKING change, yet the new field can
    produce `[null]`. -/
theorem nobreaking_fields_strict_full_fails_today : ¬ NobreakingFieldsStrictFull := by
  intro hfull
  have hc := hfull sS sL (by decide) tS tL (Or.inl (by simp [matchingPairs, sS, sL, tS, tL]))
    fS fL (by simp [tS]) (by simp [tL, fS, fL]) (by decide) (by decide)
  have := hc (.list [.null]) (by decide)
  exact absurd this (by decide)

/-! non-vacuity of `nobreaking_fields_strict_outside_G1` with a list type: `[Int]` -> `[Int]!` -/
example : OutCompat (.list (.named "Int")) (.nonNull (.list (.named "Int"))) :=
  nobreaking_fields_strict_outside_G1 sL sN (by decide) tL tN (Or.inl (by simp [matchingPairs, sL, sN, tL, tN]))
    fL fN (by simp [tL]) (by simp [tN, fL, fN]) (by decide) (by decide) (by decide)

end PyGql.Props.C20

/-
  C08 — the generic `Executor` on the BLOCKING runtime (every resolver delivers synchronously: all modes `.sync`): no task is
  ever submitted, so the result is there when `execute` returns, for the empty schedule - `blocking_runtime_never_pending`.
  (Together with `async_eq_blocking`: the generic executor on the blocking runtime agrees with `BlockingExecutor`.)
-/
import PyGqlModel.Props.C08_exec

set_option linter.unusedVariables false
set_option linter.unusedSimpArgs false

namespace PyGql.Props.C08
open PyGql.AsyncExec

mutual
/-- every field below is resolved synchronously -/
def syncComp : Comp → Bool
  | .nonNull c => syncComp c
  | .list items => syncComps items
  | .obj fs => syncFlds fs
  | _ => true
def syncComps : Comps → Bool
  | .nil => true
  | .cons c cs => syncComp c && syncComps cs
def syncFlds : Flds → Bool
  | .nil => true
  | .cons _ mode out rest => (mode == .sync) && syncOut out && syncFlds rest
def syncOut : ROut → Bool
  | .ok c => syncComp c
  | _ => true
end

private theorem applySimple_queue (k : Cont) (r : Res Val) (s : ExecSt) : (applySimple k r s).2.queue = s.queue := by
  cases k <;> cases r <;> simp [applySimple, handleNonNullableValue]
  all_goals (rename_i x; cases x <;> simp [ExecSt.addError]) 
  all_goals (rename_i v; cases v <;> simp [ExecSt.addError])


private theorem chainOnFinish_simple_queue (src : Node) (k : Cont) (s : ExecSt) :
    (chainOnFinish applySimple src k s).2.queue = s.queue := by
  unfold chainOnFinish
  cases src with
  | failed e =>
    have := applySimple_queue k (.exc e) s
    cases hr : applySimple k (.exc e) s with
    | mk r s1 => rw [hr] at this; cases r <;> simp only [hr] <;> simpa using this
  | done r0 =>
    have := applySimple_queue k (.ok r0.plain) s
    cases hr : applySimple k (.ok r0.plain) s with
    | mk r s1 => rw [hr] at this; cases r <;> simp only [hr] <;> simpa using this
  | _ => rfl

private theorem mapValue_simple_queue (src : Node) (k : Cont) (s : ExecSt) :
    (mapValue applySimple src k s).2.queue = s.queue := by
  unfold mapValue
  cases src with
  | val x => exact applySimple_queue k (.ok x) s
  | _ => simp only; split <;> first | exact chainOnFinish_simple_queue _ k s | rfl

mutual
private theorem completeValue_queue : ∀ (c : Comp) (path : Path) (s : ExecSt), syncComp c = true →
    (completeValue path c s).2.queue = s.queue
  | .null, path, s, _ => by simp [completeValue]
  | .leaf v, path, s, _ => by simp [completeValue]
  | .bad, path, s, _ => by simp [completeValue]
  | .nonNull c, path, s, h => by
    have ih := completeValue_queue c path s (by simpa [syncComp] using h)
    simp only [completeValue]
    cases hr : completeValue path c s with
    | mk r s1 =>
      rw [hr] at ih
      cases r with
      | exc e => simpa using ih
      | ok n => simp only; rw [mapValue_simple_queue]; exact ih
  | .list items, path, s, h => by
    have ih := completeItems_queue items path 0 s (by simpa [syncComp] using h)
    simp only [completeValue]
    cases hr : completeItems path 0 items s with
    | mk r s1 => rw [hr] at ih; cases r <;> simpa using ih
  | .obj fields, path, s, h => by
    have ih := resolveFields_queue fields path s (by simpa [syncComp] using h)
    simp only [completeValue]
    cases hr : resolveFields path fields s with
    | mk r s1 =>
      rw [hr] at ih
      cases r with
      | exc e => simpa using ih
      | ok ns => simp only; rw [mapValue_simple_queue]; exact ih
private theorem completeItems_queue : ∀ (cs : Comps) (path : Path) (i : Nat) (s : ExecSt), syncComps cs = true →
    (completeItems path i cs s).2.queue = s.queue
  | .nil, path, i, s, _ => by simp [completeItems]
  | .cons c cs, path, i, s, h => by
    simp only [syncComps, Bool.and_eq_true] at h
    have ih1 := completeValue_queue c (path ++ [.idx i]) s h.1
    simp only [completeItems]
    cases hr : completeValue (path ++ [.idx i]) c s with
    | mk r s1 =>
      rw [hr] at ih1
      cases r with
      | exc e => simpa using ih1
      | ok n =>
        have ih2 := completeItems_queue cs path (i + 1) s1 h.2
        cases hr2 : completeItems path (i + 1) cs s1 with
        | mk r2 s2 => rw [hr2] at ih2; cases r2 <;> simp only [hr2] <;> simp_all
private theorem resolveFields_queue : ∀ (fs : Flds) (path : Path) (s : ExecSt), syncFlds fs = true →
    (resolveFields path fs s).2.queue = s.queue
  | .nil, path, s, _ => by simp [resolveFields]
  | .cons key mode out rest, path, s, h => by
    simp only [syncFlds, Bool.and_eq_true, beq_iff_eq] at h
    obtain ⟨⟨hm, ho⟩, hr0⟩ := h
    subst hm
    have ih1 := resolveField_queue out (path ++ [.key key]) s ho
    simp only [resolveFields]
    cases hr : resolveField (path ++ [.key key]) .sync out s with
    | mk r s1 =>
      rw [hr] at ih1
      cases r with
      | exc e => simpa using ih1
      | ok n =>
        have ih2 := resolveFields_queue rest path s1 hr0
        cases hr2 : resolveFields path rest s1 with
        | mk r2 s2 => rw [hr2] at ih2; cases r2 <;> simp only [hr2] <;> simp_all
private theorem resolveField_queue : ∀ (out : ROut) (path : Path) (s : ExecSt), syncOut out = true →
    (resolveField path .sync out s).2.queue = s.queue
  | .rerr, path, s, _ => by simp [resolveField, failField, ExecSt.emit, ExecSt.addError]
  | .exc, path, s, _ => by simp [resolveField, ExecSt.emit]
  | .ok c, path, s, h => by
    have ih := completeValue_queue c path ((s.emit (.call path)).emit (.done path)) (by simpa [syncOut] using h)
    simp only [resolveField]
    cases hr : completeValue path c ((s.emit (.call path)).emit (.done path)) with
    | mk r s1 =>
      rw [hr] at ih
      cases r with
      | exc e => cases e <;> simp_all [failField, ExecSt.emit, ExecSt.addError]
      | ok n => simp_all [ExecSt.emit]
end

private theorem serialNext_queue (path : Path) : ∀ (args : Flds) (resolved : List (String × V)) (s : ExecSt), syncFlds args = true →
    (serialNext path resolved args s).2.queue = s.queue
  | .nil, resolved, s, _ => by simp [serialNext]
  | .cons key mode out args, resolved, s, h => by
    simp only [syncFlds, Bool.and_eq_true, beq_iff_eq] at h
    obtain ⟨⟨hm, ho⟩, hr0⟩ := h
    subst hm
    have ih := fun r s' => serialNext_queue path args r s' hr0
    have h1 := resolveField_queue out (path ++ [.key key]) s ho
    simp only [serialNext]
    cases hr : resolveField (path ++ [.key key]) .sync out s with
    | mk r s1 =>
      rw [hr] at h1
      simp only at h1
      cases r with
      | exc e => simpa using h1
      | ok n =>
        cases n with
        | val x => cases x <;> simp_all
        | failed e => simpa using h1
        | task a b c d => simpa using h1
        | chain a b => simpa using h1
        | unwrap a => simpa using h1
        | gather a b c => simpa using h1
        | done r' =>
          cases r' with
          | val x =>
            cases x with
            | data v =>
              simp only
              have := ih (resolved ++ [(key, v)]) s1
              cases hn : serialNext path (resolved ++ [(key, v)]) args s1 with
              | mk rn sn => rw [hn] at this; cases rn <;> simp_all
            | raw c => simpa using h1
            | junk => simpa using h1
          | _ => simpa using h1

private theorem finished_not_pending (top : Node) (s : ExecSt) (h : top.finished = true) :
    (match outcomeOf top s with | .pending => false | _ => true) = true := by
  cases top with
  | val x => cases x <;> rfl
  | done r => cases r with
    | val x => cases x <;> rfl
    | _ => rfl
  | failed e => rfl
  | _ => simp [Node.finished] at h

/-- **blocking_runtime_never_pending.** The generic executor with every resolver synchronous (= on `BlockingRuntime`): no task is
    submitted, the outcome is there without any completion (empty schedule) - it is never `pending`. -/
theorem blocking_runtime_never_pending (op : Op) (h : syncFlds op.fields = true) :
    (match (runAsync op []).outcome with | .pending => false | _ => true) = true := by
  have hterm := always_terminates op []
  have hq : (execute op {}).2.queue = [] := by
    unfold execute
    cases hk : op.kind with
    | query =>
      simp only
      have h1 : (executeFields [] op.fields {}).2.queue = [] := by
        unfold executeFields
        have := resolveFields_queue op.fields [] {} h
        cases hr : resolveFields [] op.fields {} with
        | mk r s1 =>
          rw [hr] at this
          cases r with
          | exc e => simpa using this
          | ok ns => simp only; rw [mapValue_simple_queue]; exact this
      cases hr : executeFields [] op.fields {} with
      | mk r s1 =>
        rw [hr] at h1
        cases r with
        | exc e => simpa using h1
        | ok n =>
          simp only
          have : mapValue applyCont (unwrapValue n) .onFinish s1 = mapValue applySimple (unwrapValue n) .onFinish s1 := by
            unfold mapValue chainOnFinish
            cases unwrapValue n <;> simp [applyCont]
          rw [this, mapValue_simple_queue]; exact h1
    | mutation =>
      simp only
      have h1 := serialNext_queue [] op.fields [] {} h
      unfold executeFieldsSerially
      cases hr : serialNext [] [] op.fields {} with
      | mk r s1 =>
        rw [hr] at h1
        cases r with
        | exc e => simpa using h1
        | ok n =>
          simp only
          have : mapValue applyCont (unwrapValue n) .onFinish s1 = mapValue applySimple (unwrapValue n) .onFinish s1 := by
            unfold mapValue chainOnFinish
            cases unwrapValue n <;> simp [applyCont]
          rw [this, mapValue_simple_queue]; exact h1
  unfold runAsync
  cases hr : execute op {} with
  | mk r s =>
    rw [hr] at hterm hq
    cases r with
    | exc e => rfl
    | ok top =>
      simp only [runSched] at hterm ⊢
      exact finished_not_pending top s (hterm hq)

/-- non-vacuity: `{ a { b } c }`, all synchronous -/
example : syncFlds (.cons "a" .sync (.ok (.obj (.cons "b" .sync .rerr .nil))) (.cons "c" .sync (.ok (.leaf 1)) .nil)) = true := by decide

end PyGql.Props.C08

import PyGqlModel.AsyncExec

namespace PyGql.Props.C08
open PyGql.Exec

end PyGql.Props.C08
